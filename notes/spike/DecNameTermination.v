From Coq Require Import List Arith Lia Bool.
Import ListNotations.

Inductive res (A: Type) := Ok (a: A) | Err (e: nat) | OutOfFuel.
Arguments Ok {A}. Arguments Err {A}. Arguments OutOfFuel {A}.

Definition label := list nat.
Definition name := list label.

(* text length as DomainName::len computes it for a non-empty name; 0 for root here *)
Fixpoint tlen (n: name) : nat := match n with [] => 0 | l :: r => S (length l) + tlen r end.

Definition LIMIT := 255.   (* DOMAIN_NAME_MAX_LENGTH after F5 *)
Definition MAXREC := 16.

(* append_label: Err 1 = DomainNameLength ; label check: Err 2 *)
Definition append_label (n: name) (l: label) : res name :=
  if (length l =? 0) || (64 <=? length l) then Err 2
  else if LIMIT <=? tlen n + length l + 1 then Err 1
  else Ok (n ++ [l]).

Record dec := { win : list nat; off : nat }.

Definition read (d: dec) (k: nat) : res (list nat * dec) :=
  let s := firstn k (skipn (off d) (win d)) in
  if off d + k <=? length (win d) then Ok (s, {| win := win d; off := off d + k |}) else Err 3.
Definition u8 (d: dec) : res (nat * dec) :=
  match read d 1 with
  | Ok (s, d') => Ok (hd 0 s, d')
  | Err e => Err e | OutOfFuel => OutOfFuel
  end.

Definition is_compressed (l: nat) : bool := 192 <=? l.
Definition get_offset (l1 l2: nat) : nat := (l1 - 192) * 256 + l2.   (* l1 >= 192 here *)

(* domain_name_label *)
Definition dn_label (d: dec) (n: name) (len: nat) : res (nat * name * dec) :=
  match read d len with
  | Ok (s, d1) =>
    match append_label n s with
    | Ok n' => match u8 d1 with Ok (l, d2) => Ok (l, n', d2) | Err e => Err e | OutOfFuel => OutOfFuel end
    | Err e => Err e | OutOfFuel => OutOfFuel
    end
  | Err e => Err e | OutOfFuel => OutOfFuel
  end.

Definition FUEL : nat := 320.

(* loop of domain_name_recursion: decoder d over main, visited list recs (HashSet) *)
Fixpoint rec_loop (fuel: nat) (main: list nat) (d: dec) (n: name) (recs: list nat) (len: nat)
  : res (name * nat (* |recs| *)) :=
  match fuel with
  | 0 => OutOfFuel
  | S f =>
    if len =? 0 then Ok (n, length recs)
    else if is_compressed len then
      match u8 d with
      | Ok (b, d1) =>
        let o := get_offset len b in
        if existsb (Nat.eqb o) recs then Err 5 (* EndlessRecursion *)
        else if MAXREC <? S (length recs) then Err 4 (* MaxRecursion *)
        else
          match u8 {| win := main; off := o |} with
          | Ok (l, d2) => rec_loop f main d2 n (o :: recs) l
          | Err e => Err e | OutOfFuel => OutOfFuel
          end
      | Err e => Err e | OutOfFuel => OutOfFuel
      end
    else
      match dn_label d n len with
      | Ok (l, n', d') => rec_loop f main d' n' recs l
      | Err e => Err e | OutOfFuel => OutOfFuel
      end
  end.

Lemma rec_loop_eq f main d n recs len : rec_loop (S f) main d n recs len =
    if len =? 0 then Ok (n, length recs)
    else if is_compressed len then
      match u8 d with
      | Ok (b, d1) =>
        let o := get_offset len b in
        if existsb (Nat.eqb o) recs then Err 5
        else if MAXREC <? S (length recs) then Err 4
        else
          match u8 {| win := main; off := o |} with
          | Ok (l, d2) => rec_loop f main d2 n (o :: recs) l
          | Err e => Err e | OutOfFuel => OutOfFuel
          end
      | Err e => Err e | OutOfFuel => OutOfFuel
      end
    else
      match dn_label d n len with
      | Ok (l, n', d') => rec_loop f main d' n' recs l
      | Err e => Err e | OutOfFuel => OutOfFuel
      end.
Proof. reflexivity. Qed.

(* measure: remaining label budget + remaining pointer budget *)
Definition mu (n: name) (recs: list nat) : nat := (LIMIT - tlen n) + (S MAXREC - length recs).

Lemma append_label_tlen n l n' : append_label n l = Ok n' -> tlen n' = tlen n + length l + 1 /\ tlen n' < LIMIT /\ 1 <= length l.
Proof.
  unfold append_label.
  destruct (length l =? 0) eqn:E0; [discriminate|]. destruct (64 <=? length l); [discriminate|]. cbn [orb].
  destruct (LIMIT <=? tlen n + length l + 1) eqn:E; [discriminate|].
  intro H; inversion H; subst. apply Nat.leb_gt in E. apply Nat.eqb_neq in E0.
  assert (Ht: forall a b, tlen (a ++ [b]) = tlen a + length b + 1).
  { induction a; intros; simpl; [lia|]. rewrite IHa. lia. }
  rewrite Ht. lia.
Qed.

Lemma read_noof d k : read d k <> OutOfFuel.
Proof. unfold read. destruct (off d + k <=? length (win d)); discriminate. Qed.
Lemma u8_noof d : u8 d <> OutOfFuel.
Proof. unfold u8. pose proof (read_noof d 1). destruct (read d 1) as [[? ?]|?|]; congruence. Qed.
Lemma append_noof n l : append_label n l <> OutOfFuel.
Proof. unfold append_label. destruct (_ || _); [discriminate|]. destruct (LIMIT <=? _); discriminate. Qed.
Lemma dn_label_noof d n len : dn_label d n len <> OutOfFuel.
Proof.
  unfold dn_label. pose proof (read_noof d len). destruct (read d len) as [[s d1]|?|]; try congruence.
  pose proof (append_noof n s). destruct (append_label n s); try congruence.
  pose proof (u8_noof d1). destruct (u8 d1) as [[? ?]|?|]; congruence.
Qed.

Theorem rec_loop_terminates f : forall main d n recs len,
  tlen n < LIMIT \/ n = [] -> length recs <= MAXREC ->
  mu n recs < f -> rec_loop f main d n recs len <> OutOfFuel.
Proof.
  induction f as [|f IH]; intros main d n recs len Hn Hr Hmu; [lia|].
  rewrite rec_loop_eq.
  destruct (len =? 0); [discriminate|].
  destruct (is_compressed len).
  - pose proof (u8_noof d) as Hu. destruct (u8 d) as [[b d1]|e|] eqn:E1; try congruence; try discriminate.
    cbv zeta. destruct (existsb _ recs); [discriminate|].
    destruct (MAXREC <? S (length recs)) eqn:EM; [discriminate|]. apply Nat.ltb_ge in EM.
    pose proof (u8_noof {| win := main; off := get_offset len b |}) as Hu2.
    destruct (u8 {| win := main; off := get_offset len b |}) as [[l d2]|e|] eqn:E2; try congruence; try discriminate.
    apply IH; [exact Hn| cbn [length]; lia |].
    unfold mu in *. cbn [length]. unfold MAXREC in *. lia.
  - pose proof (dn_label_noof d n len) as Hd.
    destruct (dn_label d n len) as [[[l n'] d']|e|] eqn:E1; try congruence; try discriminate.
    unfold dn_label in E1. destruct (read d len) as [[s d1]|?|]; try discriminate.
    destruct (append_label n s) as [n''|?|] eqn:EA; try discriminate.
    destruct (u8 d1) as [[l0 d2]|?|]; try discriminate. inversion E1; subst.
    destruct (append_label_tlen _ _ _ EA) as (Ht & Hlt & Hl).
    apply IH; auto. unfold mu in *.
    assert (tlen n <= LIMIT) by (destruct Hn as [Hn| ->]; [lia|simpl; unfold LIMIT; lia]).
    lia.
Qed.

Lemma FUEL_enough n recs : mu n recs < FUEL.
Proof. unfold mu, FUEL, LIMIT, MAXREC. lia. Qed.
Print Assumptions rec_loop_terminates.
