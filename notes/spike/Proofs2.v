From Coq Require Import List Arith NArith Lia Bool.
Import ListNotations.
Require Import NameLayer Proofs.

(* ---- stability under append ---- *)
Lemma nth_error_app_some {A} (b x: list A) o v : nth_error b o = Some v -> nth_error (b ++ x) o = Some v.
Proof. intro H. rewrite nth_error_app1; auto. apply nth_error_Some. congruence. Qed.

Lemma slice_app_some b x o n s : slice b o n = Some s -> slice (b ++ x) o n = Some s.
Proof.
  unfold slice. destruct (length (firstn n (skipn o b)) =? n) eqn:E; [|discriminate].
  intro H; inversion H; subst. apply Nat.eqb_eq in E.
  assert (Heq: firstn n (skipn o (b ++ x)) = firstn n (skipn o b)).
  { destruct (Nat.le_gt_cases o (length b)) as [Hle|Hgt].
    - rewrite skipn_app. replace (o - length b) with 0 by lia. rewrite skipn_O.
      rewrite firstn_app.
      assert (n <= length (skipn o b)). { rewrite firstn_length in E. lia. }
      replace (n - length (skipn o b)) with 0 by lia. rewrite firstn_O, app_nil_r. reflexivity.
    - rewrite (skipn_all2 b) in * by lia. rewrite firstn_nil in *. simpl in E. subst n. reflexivity. }
  rewrite Heq, E, Nat.eqb_refl. reflexivity.
Qed.

Lemma seg_app f : forall b x o r, seg f b o = Some r -> seg f (b ++ x) o = Some r.
Proof.
  induction f as [|f IH]; intros b x o r H; [discriminate|].
  rewrite seg_S in *. destruct (nth_error b o) as [l|] eqn:E; [|discriminate].
  rewrite (nth_error_app_some _ x _ _ E).
  destruct (l =? 0); auto. destruct (192 <=? l).
  - destruct (nth_error b (S o)) as [l2|] eqn:E2; [|discriminate].
    rewrite (nth_error_app_some _ x _ _ E2). auto.
  - destruct (l <? 64); auto. destruct (slice b (S o) l) as [lab|] eqn:E3; [|discriminate].
    rewrite (slice_app_some _ x _ _ _ E3).
    destruct (seg f b (S o + l)) as [[ls t]|] eqn:E4; [|discriminate].
    rewrite (IH _ x _ _ E4). auto.
Qed.

Lemma expand_eq h buf o : expand h buf o =
  match seg SEGFUEL buf o with
  | None => None
  | Some (ls, None) => Some (ls, 0)
  | Some (ls, Some t) =>
    match h with
    | 0 => None
    | S h' => match expand h' buf t with
             | Some (rest, k) => Some (ls ++ rest, S k)
             | None => None
             end
    end
  end.
Proof. destruct h; reflexivity. Qed.
Global Opaque SEGFUEL.

Lemma expand_app h : forall b x o r, expand h b o = Some r -> expand h (b ++ x) o = Some r.
Proof.
  induction h as [|h IH]; intros b x o r H; rewrite expand_eq in *.
  - destruct (seg SEGFUEL b o) as [[ls [t|]]|] eqn:E; try discriminate.
    rewrite (seg_app _ _ x _ _ E). auto.
  - destruct (seg SEGFUEL b o) as [[ls [t|]]|] eqn:E; try discriminate.
    + rewrite (seg_app _ _ x _ _ E).
      destruct (expand h b t) as [[rest k]|] eqn:E2; [|discriminate].
      rewrite (IH _ x _ _ E2). auto.
    + rewrite (seg_app _ _ x _ _ E). auto.
Qed.

Lemma entry_ok_app b x e : entry_ok b e -> entry_ok (b ++ x) e.
Proof.
  destruct e as [s [o d]]. intros (Ho & Hd & s' & He & Hs). repeat split; auto.
  exists s'. split; auto. apply expand_app; auto.
Qed.

Lemma lookup_in i n v : lookup i n = Some v -> exists k, In (k, v) i /\ name_eqb k n = true.
Proof.
  induction i as [|[k w] r IH]; simpl; [discriminate|].
  destruct (name_eqb k n) eqn:E.
  - intro H; inversion H; subst. exists k; auto.
  - intro H. destruct (IH H) as (k' & Hin & Hk). exists k'; auto.
Qed.

(* ---- positions of literally written suffixes ---- *)
Fixpoint pos (b: list nat) (n1 n2: name) : list (name * nat) :=
  match n1 with
  | [] => []
  | l :: r => ((l :: r) ++ n2, length b) :: pos (b ++ length l :: l) r n2
  end.

Definition tag (D: nat) (e: name * nat) := let '(s, o) := e in (s, (o, D)).

Definition tail_shape (tail: list nat) (t: option nat) : Prop :=
  match t with None => tail = [0] | Some o => tail = [192 + o / 256; o mod 256] end.

Lemma wr_shape n : forall b i local,
  exists n1 n2 tail t D,
    n = n1 ++ n2 /\
    buf (wr n b i local) = b ++ enc_labels n1 ++ tail /\
    tail_shape tail t /\
    (t = None -> n2 = [] /\ D = 0) /\
    (forall o, t = Some o -> exists d, lookup i n2 = Some (o, d) /\ d < MAXREC /\ D = S d) /\
    (forall e, In e (idx (wr n b i local)) ->
        In e i \/ exists s o, e = (s, (o, D)) /\ (In (s, o) local \/ (o <= MAXOFF /\ In (s, o) (pos b n1 n2)))).
Proof.
  induction n as [|l rest IH]; intros b i local.
  - exists [], [], [0], None, 0. cbn [wr buf idx enc_labels app pos]. repeat split; auto.
    + intros o H; discriminate.
    + intros e He. apply in_app_or in He as [He|He]; auto. right.
      apply in_map_iff in He as ([s o] & <- & Hin). exists s, o. auto.
  - cbn [wr].
    assert (Hlit: forall loc',
       (forall e, In e loc' -> In e local \/ (snd e <= MAXOFF /\ e = (l :: rest, length b))) ->
       lookup i (l :: rest) = None \/ (exists o d, lookup i (l :: rest) = Some (o, d) /\ (d <? MAXREC) = false) ->
       exists n1 n2 tail t D,
        l :: rest = n1 ++ n2 /\
        buf (wr rest (b ++ length l :: l) i loc') = b ++ enc_labels n1 ++ tail /\
        tail_shape tail t /\
        (t = None -> n2 = [] /\ D = 0) /\
        (forall o, t = Some o -> exists d, lookup i n2 = Some (o, d) /\ d < MAXREC /\ D = S d) /\
        (forall e, In e (idx (wr rest (b ++ length l :: l) i loc')) ->
          In e i \/ exists s o, e = (s, (o, D)) /\ (In (s, o) local \/ (o <= MAXOFF /\ In (s, o) (pos b n1 n2))))).
    { intros loc' Hloc _.
      destruct (IH (b ++ length l :: l) i loc') as (n1 & n2 & tail & t & D & Hn & Hb & Ht & HN & HS & HI).
      exists (l :: n1), n2, tail, t, D. repeat split; auto.
      - cbn [app]. congruence.
      - rewrite Hb. cbn [enc_labels]. repeat ((rewrite <- app_assoc) || (progress cbn [app])). reflexivity.
      - apply HN; auto.
      - apply HN; auto.
      - intros e He. destruct (HI e He) as [Hi|(s & o & -> & [Hl|[Ho Hp]])]; auto; right; exists s, o; split; auto.
        + destruct (Hloc _ Hl) as [H1|[H1 H2]]; auto. right. inversion H2; subst. split; auto.
          cbn [pos]. left. try subst rest. reflexivity.
        + right. split; auto. cbn [pos]. right. try subst rest. exact Hp. }
    destruct (lookup i (l :: rest)) as [[o d]|] eqn:EL.
    + destruct (d <? MAXREC) eqn:ED.
      * exists [], (l :: rest), [192 + o / 256; o mod 256], (Some o), (S d).
        cbn [buf idx enc_labels app pos tail_shape].
        split; [reflexivity|]. split; [reflexivity|]. split; [reflexivity|].
        split; [intros H0; discriminate|].
        split; [intros o' H0; inversion H0; subst; exists d; repeat split; auto; apply Nat.ltb_lt; auto|].
        intros e He. apply in_app_or in He as [He|He]; auto. right.
        apply in_map_iff in He as ([s o'] & <- & Hin). exists s, o'. auto.
      * destruct (length b <=? MAXOFF) eqn:EO.
        -- apply Hlit; [|right; eauto]. intros e [<-|He]; auto. right. split; auto. apply Nat.leb_le; auto.
        -- apply Hlit; [|right; eauto]. intros e He; auto.
    + destruct (length b <=? MAXOFF) eqn:EO.
      * apply Hlit; [|left; auto]. intros e [<-|He]; auto. right. split; auto. apply Nat.leb_le; auto.
      * apply Hlit; [|left; auto]. intros e He; auto.
Qed.
