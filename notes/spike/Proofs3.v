From Coq Require Import List Arith NArith Lia Bool.
Import ListNotations.
Require Import NameLayer Proofs Proofs2.

Lemma enc_labels_app a b : enc_labels (a ++ b) = enc_labels a ++ enc_labels b.
Proof. induction a; simpl; auto. rewrite IHa, <- app_assoc. reflexivity. Qed.

Lemma pos_in n1 : forall b n2 s o, In (s, o) (pos b n1 n2) ->
  exists p q, n1 = p ++ q /\ s = q ++ n2 /\ o = length (b ++ enc_labels p).
Proof.
  induction n1 as [|l r IH]; intros b n2 s o H; simpl in H; [contradiction|].
  destruct H as [H|H].
  - inversion H; subst. exists [], (l :: r). simpl. rewrite app_nil_r. auto.
  - destruct (IH _ _ _ _ H) as (p & q & -> & -> & ->). exists (l :: p), q. simpl.
    repeat split; auto. rewrite <- app_assoc. reflexivity.
Qed.

Lemma name_ok_app a b : name_ok (a ++ b) -> name_ok a /\ name_ok b.
Proof. unfold name_ok. apply Forall_app. Qed.

Section Main.
Variables (s: st) (n: name).
Hypothesis HInv : Inv s.
Hypothesis Hn : name_ok n.
Hypothesis Hlen : length n < SEGFUEL.

Theorem write_name_ok :
  Inv (write_name s n) /\
  exists n' D, expand D (buf (write_name s n)) (length (buf s)) = Some (n', D) /\ D <= MAXREC /\ name_eqb n n' = true.
Proof.
  unfold write_name.
  destruct (wr_shape n (buf s) (idx s) []) as (n1 & n2 & tail & t & D & Hsplit & Hbuf & Htail & HN & HS & HI).
  set (final := buf (wr n (buf s) (idx s) [])) in *.
  (* the continuation of the name behind the literal part *)
  assert (Hrest: exists rest, D <= MAXREC /\ name_eqb n2 rest = true /\ tail_ok tail t /\
            forall q pre, name_ok q -> length q < SEGFUEL -> final = pre ++ enc_labels q ++ tail ->
              expand D final (length pre) = Some (q ++ rest, D)).
  { destruct t as [o|].
    - destruct (HS o eq_refl) as (d & Hl & Hd & ->).
      destruct (lookup_in _ _ _ Hl) as (k & Hin & Hk).
      pose proof (proj1 (Forall_forall _ _) HInv _ Hin) as Hent. cbn [entry_ok] in Hent.
      destruct Hent as (Ho & Hd' & s' & He & Hs).
      exists s'. repeat split.
      + unfold MAXREC in *. lia.
      + eapply name_eqb_trans; [apply name_eqb_sym; exact Hk|exact Hs].
      + exact Ho.
      + cbn [tail_shape] in Htail. exact Htail.
      + intros q pre Hq Hlq Hf. rewrite expand_eq.
        assert (Hseg: seg SEGFUEL final (length pre) = Some (q, Some o)).
        { rewrite Hf. replace (pre ++ enc_labels q ++ tail) with (pre ++ enc_labels q ++ tail ++ []) by (rewrite app_nil_r; reflexivity).
          apply seg_literal; auto. cbn [tail_ok tail_shape] in *. auto. }
        rewrite Hseg.
        assert (He': expand d final o = Some (s', d)).
        { rewrite Hbuf. apply expand_app. exact He. }
        rewrite He'. reflexivity.
    - destruct (HN eq_refl) as [-> ->]. exists []. repeat split.
      + unfold MAXREC; lia.
      + exact Htail.
      + intros q pre Hq Hlq Hf. rewrite expand_eq.
        assert (Hseg: seg SEGFUEL final (length pre) = Some (q, None)).
        { rewrite Hf. replace (pre ++ enc_labels q ++ tail) with (pre ++ enc_labels q ++ tail ++ []) by (rewrite app_nil_r; reflexivity).
          apply seg_literal; auto. }
        rewrite Hseg, app_nil_r. reflexivity. }
  destruct Hrest as (rest & HD & Hr & Htok & Hexp).
  subst n. destruct (name_ok_app _ _ Hn) as [Hn1 Hn2]. rewrite app_length in Hlen.
  split.
  - (* invariant *)
    unfold Inv. apply Forall_forall. intros e He. fold final.
    destruct (HI e He) as [Hi|(sx & o & -> & [[]|[Ho Hp]])].
    + rewrite Hbuf. apply entry_ok_app. exact (proj1 (Forall_forall _ _) HInv _ Hi).
    + destruct (pos_in _ _ _ _ _ Hp) as (p & q & -> & -> & ->).
      cbn [entry_ok]. repeat split; auto.
      exists (q ++ rest). split.
      * apply Hexp.
        -- apply (name_ok_app p q); auto.
        -- rewrite app_length in Hlen. lia.
        -- rewrite Hbuf, enc_labels_app, <- !app_assoc. reflexivity.
      * apply name_eqb_app; auto.
  - exists (n1 ++ rest), D. repeat split; auto.
    + apply Hexp; auto. lia.
    + apply name_eqb_app; auto.
Qed.
End Main.
Print Assumptions write_name_ok.
