From Coq Require Import List Arith NArith Lia Bool.
Import ListNotations.

(* bytes are nat here for the spike (values < 256) *)
Definition label := list nat.
Definition name := list label.

Definition lower (b:nat) : nat := if (65 <=? b) && (b <=? 90) then b + 32 else b.
Fixpoint leqb (a b: list nat) : bool :=
  match a, b with [], [] => true | x::a', y::b' => Nat.eqb x y && leqb a' b' | _, _ => false end.
Definition label_eqb (a b: label) : bool := leqb (map lower a) (map lower b).
Fixpoint name_eqb (a b: name) : bool :=
  match a, b with
  | [], [] => true
  | x::a', y::b' => label_eqb x y && name_eqb a' b'
  | _, _ => false
  end.

(* ---------- spec: expansion of a name in a buffer ---------- *)
Definition slice (buf: list nat) (o n: nat) : option (list nat) :=
  let s := firstn n (skipn o buf) in if length s =? n then Some s else None.

Fixpoint seg (fuel: nat) (buf: list nat) (o: nat) : option (list label * option nat) :=
  match fuel with
  | 0 => None
  | S f =>
    match nth_error buf o with
    | None => None
    | Some l =>
      if l =? 0 then Some ([], None) else
      if 192 <=? l then
        match nth_error buf (S o) with
        | Some l2 => Some ([], Some ((l - 192) * 256 + l2))
        | None => None
        end
      else if l <? 64 then
        match slice buf (S o) l with
        | Some lab =>
          match seg f buf (S o + l) with
          | Some (ls, t) => Some (lab :: ls, t)
          | None => None
          end
        | None => None
        end
      else None
    end
  end.

Definition SEGFUEL : nat := 130.
(* expand: at most [hops] pointer jumps; returns labels and number of jumps used *)
Fixpoint expand (hops: nat) (buf: list nat) (o: nat) : option (name * nat) :=
  match seg SEGFUEL buf o with
  | None => None
  | Some (ls, None) => Some (ls, 0)
  | Some (ls, Some t) =>
    match hops with
    | 0 => None
    | S h => match expand h buf t with
             | Some (rest, k) => Some (ls ++ rest, S k)
             | None => None
             end
    end
  end.

(* ---------- model: the encoder's name writer ---------- *)
Definition index := list (name * (nat * nat)).   (* name -> (offset, depth) *)
Fixpoint lookup (i: index) (n: name) : option (nat * nat) :=
  match i with
  | [] => None
  | (k, v) :: r => if name_eqb k n then Some v else lookup r n
  end.

Definition MAXREC := 16.
Definition MAXOFF := 16383.

Record st := { buf : list nat; idx : index }.

(* loop over suffixes; local = suffixes written literally so far *)
Fixpoint wr (n: name) (b: list nat) (i: index) (local: list (name * nat)) : st :=
  match n with
  | [] => {| buf := b ++ [0]; idx := map (fun '(s,o) => (s,(o,0))) local ++ i |}
  | l :: rest =>
    match lookup i n with
    | Some (o, d) =>
      if d <? MAXREC then   (* repaired: >= MAXREC means do not compress *)
        {| buf := b ++ [192 + o / 256; o mod 256];
           idx := map (fun '(s,o') => (s,(o', S d))) local ++ i |}
      else
        let o' := length b in
        wr rest (b ++ length l :: l) i (if o' <=? MAXOFF then (n, o') :: local else local)
    | None =>
        let o' := length b in
        wr rest (b ++ length l :: l) i (if o' <=? MAXOFF then (n, o') :: local else local)
    end
  end.
Definition write_name (s: st) (n: name) : st := wr n (buf s) (idx s) [].

(* sanity *)
Definition ex := [[101;120];[111;114;103]].   (* "ex"."org" *)
Definition s0 := {| buf := repeat 0 12; idx := [] |}.
Definition s1 := write_name s0 ex.
Definition s2 := write_name s1 ([119;119;119] :: ex).
Eval vm_compute in buf s2.
Eval vm_compute in expand 17 (buf s2) 12.
Eval vm_compute in expand 17 (buf s2) 20.

(* ---------- invariant ---------- *)
Definition label_ok (l: label) := 1 <= length l <= 63 /\ Forall (fun b => b < 256) l.
Definition name_ok (n: name) := Forall label_ok n.

Definition entry_ok (b: list nat) (e: name * (nat * nat)) : Prop :=
  let '(s, (o, d)) := e in
  o <= MAXOFF /\ d <= MAXREC /\ exists s', expand d b o = Some (s', d) /\ name_eqb s s' = true.
Definition Inv (s: st) := Forall (entry_ok (buf s)) (idx s).
