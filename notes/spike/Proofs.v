From Coq Require Import List Arith NArith Lia Bool.
Import ListNotations.
Require Import NameLayer.

(* ---- equality is an equivalence ---- *)
Lemma leqb_refl a : leqb a a = true.
Proof. induction a; simpl; auto. rewrite Nat.eqb_refl; auto. Qed.
Lemma leqb_eq a b : leqb a b = true <-> a = b.
Proof.
  revert b; induction a as [|x a IH]; intros [|y b]; simpl; split; intro H; try congruence; auto.
  - apply andb_true_iff in H as [H1 H2]. apply Nat.eqb_eq in H1. apply IH in H2. congruence.
  - inversion H; subst. rewrite Nat.eqb_refl. apply IH; auto.
Qed.
Lemma label_eqb_refl a : label_eqb a a = true. Proof. apply leqb_refl. Qed.
Lemma label_eqb_sym a b : label_eqb a b = true -> label_eqb b a = true.
Proof. unfold label_eqb; rewrite !leqb_eq; congruence. Qed.
Lemma label_eqb_trans a b c : label_eqb a b = true -> label_eqb b c = true -> label_eqb a c = true.
Proof. unfold label_eqb; rewrite !leqb_eq; congruence. Qed.
Lemma name_eqb_refl a : name_eqb a a = true.
Proof. induction a; simpl; auto. rewrite label_eqb_refl; auto. Qed.
Lemma name_eqb_sym a b : name_eqb a b = true -> name_eqb b a = true.
Proof.
  revert b; induction a as [|x a IH]; intros [|y b]; simpl; try congruence.
  rewrite !andb_true_iff; intros [H1 H2]; split; [apply label_eqb_sym|apply IH]; auto.
Qed.
Lemma name_eqb_trans a b c : name_eqb a b = true -> name_eqb b c = true -> name_eqb a c = true.
Proof.
  revert b c; induction a as [|x a IH]; intros [|y b] [|z c]; simpl; try congruence.
  rewrite !andb_true_iff; intros [H1 H2] [H3 H4]; split; [eapply label_eqb_trans|eapply IH]; eauto.
Qed.
Lemma name_eqb_app a b c : name_eqb b c = true -> name_eqb (a ++ b) (a ++ c) = true.
Proof. induction a; simpl; auto. intros; rewrite label_eqb_refl; simpl; auto. Qed.

(* ---- wire encoding of literal labels ---- *)
Fixpoint enc_labels (ls: list label) : list nat :=
  match ls with [] => [] | l :: r => length l :: l ++ enc_labels r end.

Lemma slice_app_exact pre l post : slice (pre ++ l ++ post) (length pre) (length l) = Some l.
Proof.
  unfold slice. rewrite skipn_app, skipn_all, Nat.sub_diag. simpl.
  rewrite firstn_app, firstn_all, Nat.sub_diag. simpl. rewrite app_nil_r, Nat.eqb_refl. reflexivity.
Qed.

Lemma nth_error_mid (pre: list nat) x post : nth_error (pre ++ x :: post) (length pre) = Some x.
Proof. rewrite nth_error_app2 by lia. rewrite Nat.sub_diag. reflexivity. Qed.

Definition tail_ok (tail: list nat) (t: option nat) : Prop :=
  match t with
  | None => tail = [0]
  | Some o => o <= MAXOFF /\ tail = [192 + o / 256; o mod 256]
  end.

Lemma seg_S f buf o : seg (S f) buf o =
    match nth_error buf o with
    | None => None
    | Some l =>
      if l =? 0 then Some ([], None) else
      if 192 <=? l then
        match nth_error buf (S o) with
        | Some l2 => Some ([], Some ((l - 192) * 256 + l2))
        | None => None
        end
      else if l <? 64 then
        match slice buf (S o) l with
        | Some lab =>
          match seg f buf (S o + l) with
          | Some (ls, t) => Some (lab :: ls, t)
          | None => None
          end
        | None => None
        end
      else None
    end.
Proof. reflexivity. Qed.

Lemma MAXOFF_val : MAXOFF = 63 * 256 + 255. Proof. vm_compute; reflexivity. Qed.

Lemma seg_literal ls : forall fuel pre tail post t,
  name_ok ls -> tail_ok tail t -> length ls < fuel ->
  seg fuel (pre ++ enc_labels ls ++ tail ++ post) (length pre) = Some (ls, t).
Proof.
  induction ls as [|l r IH]; intros fuel pre tail post t Hok Ht Hf.
  - destruct fuel as [|f]; [simpl in Hf; lia|]. rewrite seg_S. cbn [enc_labels app].
    destruct t as [o|]; cbn [tail_ok] in Ht.
    + destruct Ht as [Ho ->]. cbn [app].
      rewrite nth_error_mid.
      assert (Hd: o / 256 <= 63). { rewrite MAXOFF_val in Ho. apply Nat.lt_succ_r. apply Nat.div_lt_upper_bound; lia. }
      destruct (192 + o / 256 =? 0) eqn:E0; [apply Nat.eqb_eq in E0; lia|].
      destruct (192 <=? 192 + o / 256) eqn:E2; [|apply Nat.leb_gt in E2; lia].
      replace (S (length pre)) with (length (pre ++ [192 + o / 256])) by (rewrite app_length; simpl; lia).
      replace (pre ++ 192 + o / 256 :: o mod 256 :: post) with ((pre ++ [192 + o / 256]) ++ o mod 256 :: post)
        by (rewrite <- app_assoc; reflexivity).
      rewrite nth_error_mid. f_equal. f_equal. f_equal.
      replace (192 + o / 256 - 192) with (o / 256) by lia.
      rewrite Nat.mul_comm. symmetry. apply Nat.div_mod. lia.
    + subst tail. cbn [app]. rewrite nth_error_mid. reflexivity.
  - destruct fuel as [|f]; [simpl in Hf; lia|].
    inversion Hok as [|? ? [Hl Hb] Hr]; subst.
    rewrite seg_S. cbn [enc_labels].
    replace (pre ++ (length l :: l ++ enc_labels r) ++ tail ++ post)
       with (pre ++ length l :: (l ++ enc_labels r ++ tail ++ post))
       by (cbn [app]; rewrite <- !app_assoc; reflexivity).
    rewrite nth_error_mid.
    destruct (length l =? 0) eqn:E0; [apply Nat.eqb_eq in E0; lia|].
    destruct (192 <=? length l) eqn:E1; [apply Nat.leb_le in E1; lia|].
    destruct (length l <? 64) eqn:E2; [|apply Nat.ltb_ge in E2; lia].
    replace (S (length pre)) with (length (pre ++ [length l])) by (rewrite app_length; simpl; lia).
    replace (pre ++ length l :: l ++ enc_labels r ++ tail ++ post)
       with ((pre ++ [length l]) ++ l ++ (enc_labels r ++ tail ++ post))
       by (rewrite <- !app_assoc; reflexivity).
    rewrite slice_app_exact.
    replace (length (pre ++ [length l]) + length l) with (length ((pre ++ [length l]) ++ l))
       by (rewrite !app_length; simpl; lia).
    replace ((pre ++ [length l]) ++ l ++ enc_labels r ++ tail ++ post)
       with (((pre ++ [length l]) ++ l) ++ enc_labels r ++ tail ++ post)
       by (rewrite <- !app_assoc; reflexivity).
    rewrite (IH f _ tail post t Hr Ht) by (simpl in Hf; lia). reflexivity.
Qed.
