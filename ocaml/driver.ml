(* Model driver: reads a case file (docs/PROTOCOL.md), runs the extracted Coq model, prints one
   canonical line per case.  Only parsing/printing lives here; all logic is in Model (extracted). *)
module M = Model

(* ---------- numbers ---------- *)
let rec pos_of_int64 (i : int64) : M.positive =
  (* i > 0, unsigned *)
  if Int64.equal i 1L then M.XH
  else
    let half = Int64.shift_right_logical i 1 in
    if Int64.equal (Int64.logand i 1L) 1L then M.XI (pos_of_int64 half) else M.XO (pos_of_int64 half)
let n_of_int64 (i : int64) : M.n = if Int64.equal i 0L then M.N0 else M.Npos (pos_of_int64 i)
let n_of_int (i : int) : M.n = n_of_int64 (Int64.of_int i)
let rec int64_of_pos (p : M.positive) : int64 =
  match p with
  | M.XH -> 1L
  | M.XO q -> Int64.shift_left (int64_of_pos q) 1
  | M.XI q -> Int64.logor (Int64.shift_left (int64_of_pos q) 1) 1L
let int64_of_n (x : M.n) : int64 = match x with M.N0 -> 0L | M.Npos p -> int64_of_pos p
let int_of_n (x : M.n) : int = Int64.to_int (int64_of_n x)
(* decimal rendering of N; values above 2^64 are not expected (printed via unsigned int64 otherwise) *)
let rec pos_bits (p : M.positive) : int = match p with M.XH -> 1 | M.XO q | M.XI q -> 1 + pos_bits q
let dec_of_n (x : M.n) : string =
  match x with
  | M.N0 -> "0"
  | M.Npos p -> if pos_bits p <= 64 then Printf.sprintf "%Lu" (int64_of_pos p) else "BIG"
let n_of_dec (s : string) : M.n = n_of_int64 (Int64.of_string ("0u" ^ s))

(* ---------- hex ---------- *)
let hexdig = "0123456789abcdef"
let hex_of_bytes (b : M.n list) : string =
  let buf = Buffer.create 64 in
  List.iter (fun x -> let v = int_of_n x land 255 in
              Buffer.add_char buf hexdig.[v lsr 4]; Buffer.add_char buf hexdig.[v land 15]) b;
  Buffer.contents buf
let hv c = match c with
  | '0'..'9' -> Char.code c - 48 | 'a'..'f' -> Char.code c - 87 | 'A'..'F' -> Char.code c - 55
  | _ -> failwith "bad hex"
let bytes_of_hex (s : string) : M.n list =
  let n = String.length s in
  if n mod 2 <> 0 then failwith "odd hex";
  let rec go i acc = if i < 0 then acc else go (i - 2) (n_of_int (hv s.[i] * 16 + hv s.[i + 1]) :: acc) in
  go (n - 2) []
let case_hex (s : string) = if s = "-" then [] else bytes_of_hex s
let out_hex (b : M.n list) = match b with [] -> "-" | _ -> hex_of_bytes b

(* Coq string -> OCaml string *)
let char_of_ascii (a : M.ascii) : char =
  let M.Ascii (b0, b1, b2, b3, b4, b5, b6, b7) = a in
  let v x k = if x then 1 lsl k else 0 in
  Char.chr (v b0 0 + v b1 1 + v b2 2 + v b3 3 + v b4 4 + v b5 5 + v b6 6 + v b7 7)
let rec ostring (s : M.string) : string =
  match s with M.EmptyString -> "" | M.String (a, r) -> String.make 1 (char_of_ascii a) ^ ostring r

(* ---------- canon trees ---------- *)
type tree = Num of string | Hex of string | Node of string * tree list

let parse_tree (s : string) (pos : int ref) : tree =
  let n = String.length s in
  let rec tree () =
    if !pos >= n then failwith "eof";
    match s.[!pos] with
    | '(' ->
      incr pos;
      let st = !pos in
      while !pos < n && s.[!pos] <> ' ' && s.[!pos] <> ')' do incr pos done;
      let tag = String.sub s st (!pos - st) in
      let items = ref [] in
      let continue = ref true in
      while !continue do
        if !pos >= n then failwith "eof in node";
        if s.[!pos] = ')' then (incr pos; continue := false)
        else if s.[!pos] = ' ' then (incr pos; items := tree () :: !items)
        else failwith "bad node"
      done;
      Node (tag, List.rev !items)
    | 'x' ->
      incr pos;
      let st = !pos in
      while !pos < n && s.[!pos] <> ' ' && s.[!pos] <> ')' do incr pos done;
      Hex (String.sub s st (!pos - st))
    | '0'..'9' ->
      let st = !pos in
      while !pos < n && s.[!pos] >= '0' && s.[!pos] <= '9' do incr pos done;
      Num (String.sub s st (!pos - st))
    | _ -> failwith "bad tree"
  in
  tree ()

let tree_of_string s = let p = ref 0 in let t = parse_tree s p in (t, !p)

let rec expand_list (l : tree list) : tree list =
  List.concat_map (function
      | Node ("REP", [Num k; t]) -> List.init (int_of_string k) (fun _ -> t)
      | t -> [t]) l

(* ---------- tree -> model values ---------- *)
let num = function Num s -> n_of_dec s | _ -> failwith "num expected"
let hex = function Hex s -> bytes_of_hex s | _ -> failwith "hex expected"
let boolv = function Num "0" -> false | Num "1" -> true | _ -> failwith "bool expected"
let name_of = function Node ("N", ls) -> List.map hex ls | _ -> failwith "name expected"
let list_of = function Node ("L", ls) -> expand_list ls | _ -> failwith "list expected"
let opt_of = function Node ("O", []) -> None | Node ("O", [x]) -> Some (hex x) | _ -> failwith "opt expected"

let fv_of (t : tree) : M.fv =
  match t with
  | Num s -> M.VN (n_of_dec s)
  | Hex s -> M.VBytes (bytes_of_hex s)
  | Node ("N", _) -> M.VName (name_of t)
  | Node ("L", _) -> M.VStrs (List.map hex (list_of t))
  | Node ("O", _) -> M.VOptStr (opt_of t)
  | _ -> failwith "field expected"

let addr_of fam a : M.addr = { M.a_fam = num fam; M.a_oct = hex a }

let opt_of_tree = function
  | Node ("ECS", [fam; src; scope; a]) -> M.OEcs { M.e_src = num src; M.e_scope = num scope; M.e_addr = addr_of fam a }
  | Node ("COOKIE", [c; s]) -> M.OCookie { M.c_client = hex c; M.c_server = opt_of s }
  | Node ("PAD", [k]) -> M.OPadding (num k)
  | _ -> failwith "option expected"
let item_of_tree = function
  | Node ("I", [fam; p; neg; a]) -> { M.i_prefix = num p; M.i_neg = boolv neg; M.i_addr = addr_of fam a }
  | _ -> failwith "item expected"
let param_of_tree = function
  | Node ("MAND", l) -> M.PMandatory (List.map num l)
  | Node ("ALPN", l) -> M.PAlpn (List.map hex l)
  | Node ("NODEF", []) -> M.PNoDefaultAlpn
  | Node ("PORT", [p]) -> M.PPort (num p)
  | Node ("V4", l) -> M.PIpv4Hint (List.map (fun t -> match hex t with
      | [a; b; c; d] -> n_of_int (((int_of_n a * 256 + int_of_n b) * 256 + int_of_n c) * 256 + int_of_n d)
      | _ -> failwith "ipv4 hint") l)
  | Node ("ECH", [b]) -> M.PEch (hex b)
  | Node ("V6", l) -> M.PIpv6Hint (List.map hex l)
  | Node ("PRIV", [k; b]) -> M.PPrivate (num k, hex b)
  | Node ("K65535", []) -> M.PKey65535
  | _ -> failwith "param expected"

let rr_of_tree = function
  | Node ("RR", [ty; nm; cl; ttl; rd]) ->
    let data = match rd with
      | Node ("G", fs) -> M.RFields (List.map fv_of fs)
      | Node ("OPT", [p; e; v; d; opts]) -> M.ROpt (num p, num e, num v, boolv d, List.map opt_of_tree (list_of opts))
      | Node ("APL", [items]) -> M.RApl (List.map item_of_tree (list_of items))
      | Node ("SVCB", [p; t; ps]) ->
        (* BTreeSet insertion in the order given: a repeated key keeps the first *)
        let set = List.fold_left (fun acc p -> fst (M.set_insert p acc)) [] (List.map param_of_tree (list_of ps)) in
        M.RSvcb (num p, name_of t, set)
      | _ -> failwith "rdata expected" in
    { M.r_type = num ty; M.r_name = name_of nm; M.r_class = num cl; M.r_ttl = num ttl; M.r_data = data }
  | _ -> failwith "RR expected"
let flags_of_tree = function
  | Node ("F", [qr; op; aa; tc; rd; ra; ad; cd; rc]) ->
    { M.f_qr = boolv qr; M.f_opcode = num op; M.f_aa = boolv aa; M.f_tc = boolv tc; M.f_rd = boolv rd;
      M.f_ra = boolv ra; M.f_ad = boolv ad; M.f_cd = boolv cd; M.f_rcode = num rc }
  | _ -> failwith "flags expected"
let question_of_tree = function
  | Node ("Q", [nm; t; c]) -> { M.q_name = name_of nm; M.q_type = num t; M.q_class = num c }
  | _ -> failwith "question expected"
let dns_of_tree = function
  | Node ("Dns", [id; f; qd; an; ns; ar]) ->
    { M.m_id = num id; M.m_flags = flags_of_tree f; M.m_qd = List.map question_of_tree (list_of qd);
      M.m_an = List.map rr_of_tree (list_of an); M.m_ns = List.map rr_of_tree (list_of ns);
      M.m_ar = List.map rr_of_tree (list_of ar) }
  | _ -> failwith "Dns expected"

(* ---------- model values -> canon ---------- *)
let b01 b = if b then "1" else "0"
let lower_bytes (b : M.n list) = List.map (fun x -> let v = int_of_n x in if v >= 65 && v <= 90 then n_of_int (v + 32) else x) b
let c_label fold l = "x" ^ hex_of_bytes (if fold then lower_bytes l else l)
let c_name fold (nm : M.name) = match nm with [] -> "(N)" | _ -> "(N " ^ String.concat " " (List.map (c_label fold) nm) ^ ")"
let c_hex b = "x" ^ hex_of_bytes b
let c_optstr = function None -> "(O)" | Some s -> "(O " ^ c_hex s ^ ")"
let node tag items = match items with [] -> "(" ^ tag ^ ")" | _ -> "(" ^ tag ^ " " ^ String.concat " " items ^ ")"
let c_fv fold = function
  | M.VN x -> dec_of_n x
  | M.VName nm -> c_name fold nm
  | M.VBytes b -> c_hex b
  | M.VStrs l -> node "L" (List.map c_hex l)
  | M.VOptStr o -> c_optstr o
let c_addr (a : M.addr) = [dec_of_n a.M.a_fam; c_hex a.M.a_oct]
let c_opt = function
  | M.OEcs e -> node "ECS" [dec_of_n e.M.e_addr.M.a_fam; dec_of_n e.M.e_src; dec_of_n e.M.e_scope; c_hex e.M.e_addr.M.a_oct]
  | M.OCookie c -> node "COOKIE" [c_hex c.M.c_client; c_optstr c.M.c_server]
  | M.OPadding k -> node "PAD" [dec_of_n k]
let c_item (i : M.apitem) = node "I" [dec_of_n i.M.i_addr.M.a_fam; dec_of_n i.M.i_prefix; b01 i.M.i_neg; c_hex i.M.i_addr.M.a_oct]
let c_param = function
  | M.PMandatory l -> node "MAND" (List.map dec_of_n l)
  | M.PAlpn l -> node "ALPN" (List.map c_hex l)
  | M.PNoDefaultAlpn -> "(NODEF)"
  | M.PPort p -> node "PORT" [dec_of_n p]
  | M.PIpv4Hint l -> node "V4" (List.map (fun x -> let v = int_of_n x in
      Printf.sprintf "x%02x%02x%02x%02x" ((v lsr 24) land 255) ((v lsr 16) land 255) ((v lsr 8) land 255) (v land 255)) l)
  | M.PEch b -> node "ECH" [c_hex b]
  | M.PIpv6Hint l -> node "V6" (List.map c_hex l)
  | M.PPrivate (k, b) -> node "PRIV" [dec_of_n k; c_hex b]
  | M.PKey65535 -> "(K65535)"
let c_rdata fold = function
  | M.RFields fs -> node "G" (List.map (c_fv fold) fs)
  | M.ROpt (p, e, v, d, opts) -> node "OPT" [dec_of_n p; dec_of_n e; dec_of_n v; b01 d; node "L" (List.map c_opt opts)]
  | M.RApl items -> node "APL" [node "L" (List.map c_item items)]
  | M.RSvcb (p, t, ps) -> node "SVCB" [dec_of_n p; c_name fold t; node "L" (List.map c_param ps)]
let c_rr fold (r : M.rr) =
  node "RR" [dec_of_n r.M.r_type; c_name fold r.M.r_name; dec_of_n r.M.r_class; dec_of_n r.M.r_ttl; c_rdata fold r.M.r_data]
let c_flags (f : M.flags) =
  node "F" [b01 f.M.f_qr; dec_of_n f.M.f_opcode; b01 f.M.f_aa; b01 f.M.f_tc; b01 f.M.f_rd; b01 f.M.f_ra;
            b01 f.M.f_ad; b01 f.M.f_cd; dec_of_n f.M.f_rcode]
let c_question fold (q : M.question) = node "Q" [c_name fold q.M.q_name; dec_of_n q.M.q_type; dec_of_n q.M.q_class]
let c_dns fold (m : M.dns) =
  node "Dns" [dec_of_n m.M.m_id; c_flags m.M.m_flags; node "L" (List.map (c_question fold) m.M.m_qd);
              node "L" (List.map (c_rr fold) m.M.m_an); node "L" (List.map (c_rr fold) m.M.m_ns);
              node "L" (List.map (c_rr fold) m.M.m_ar)]

(* ---------- errors ---------- *)
let etag_words (t : M.etag) : string list =
  match t with
  | M.ENotEnoughBytes -> ["NotEnoughBytes"] | M.ETooManyBytes -> ["TooManyBytes"]
  | M.EDnsPacketTooBig -> ["DnsPacketTooBig"] | M.EOpcode -> ["Opcode"] | M.EZNotZeroes -> ["ZNotZeroes"]
  | M.ERCode -> ["RCode"] | M.EType -> ["Type"] | M.EClass -> ["Class"] | M.EQType -> ["QType"]
  | M.EQClass -> ["QClass"] | M.EUtf8Error -> ["Utf8Error"] | M.ELabelEmpty -> ["LabelError"; "Empty"]
  | M.ELabelLength -> ["LabelError"; "Length"] | M.EDomainNameLength -> ["DomainNameError"; "DomainNameLength"]
  | M.ENotYetImplemented -> ["NotYetImplemented"] | M.EOffset -> ["Offset"] | M.EAClass -> ["AClass"]
  | M.EWKSClass -> ["WKSClass"] | M.ETXTEmpty -> ["TXTEmpty"] | M.EAFSDBSubtype -> ["AFSDBSubtype"]
  | M.EPSDNAddressError -> ["PSDNAddressError"] | M.EISDNIllegalChar -> ["ISDNError"; "IllegalChar"]
  | M.EISDNIllegalCharSA -> ["ISDNError"; "IllegalCharSA"] | M.EGPOS -> ["GPOS"] | M.EAAAAClass -> ["AAAAClass"]
  | M.EOPTDomainName -> ["OPTDomainName"] | M.EOPTZero -> ["OPTZero"] | M.EEDNSOptionCode -> ["EDNSOptionCode"]
  | M.EIpv4Prefix -> ["AddressError"; "Ipv4Prefix"] | M.EIpv4Mask -> ["AddressError"; "Ipv4Mask"]
  | M.EIpv6Prefix -> ["AddressError"; "Ipv6Prefix"] | M.EIpv6Mask -> ["AddressError"; "Ipv6Mask"]
  | M.EAPLClass -> ["APLClass"] | M.EServerCookieLength -> ["CookieError"; "ServerCookieLength"]
  | M.EEcsAddressNumber -> ["EcsAddressNumber"] | M.EEcsTooBigIpv4Address -> ["EcsTooBigIpv4Address"]
  | M.EEcsTooBigIpv6Address -> ["EcsTooBigIpv6Address"] | M.ECookieLength -> ["CookieLength"]
  | M.ESSHFPAlgorithm -> ["SSHFPAlgorithm"] | M.ESSHFPType -> ["SSHFPType"] | M.EAlgorithmType -> ["AlgorithmType"]
  | M.EDigestType -> ["DigestType"] | M.EDNSKEYZeroFlags -> ["DNSKEYZeroFlags"] | M.EDNSKEYProtocol -> ["DNSKEYProtocol"]
  | M.EMaxRecursion -> ["MaxRecursion"] | M.EEndlessRecursion -> ["EndlessRecursion"]
  | M.ERemainingBytes -> ["RemainingBytes"] | M.EPaddingZero -> ["PaddingZero"] | M.EPaddingLength -> ["PaddingLength"]
  | M.ETagEmpty -> ["TagError"; "Empty"] | M.ETagIllegalChar -> ["TagError"; "IllegalChar"]
  | M.EECHLengthMismatch -> ["ECHLengthMismatch"] | M.ESVCBClass -> ["SVCBClass"]
  | M.ESVCBDuplicateKey -> ["SVCBDuplicateKey"]
  | M.XString -> ["String"] | M.XLength -> ["Length"] | M.XNotEnoughBytes -> ["NotEnoughBytes"]
  | M.XCompression -> ["Compression"] | M.XMaxRecursion -> ["MaxRecursion"] | M.XAPLAddressLength -> ["APLAddressLength"]
  | M.EEmptyVec -> ["Empty"]
(* In the DomainName text/API context LabelError is wrapped in DomainNameError *)
let err_words ((t, payload) : M.err) : string list = etag_words t @ List.map dec_of_n payload
let err_sp e = String.concat " " (err_words e)
let err_colon e = String.concat ":" (err_words e)

let site_name (_ : M.site) = "model-panic"

(* ---------- D cases ---------- *)
type 'a codec = {
  dec : M.n list -> 'a M.dres;
  enc : 'a -> M.n list M.res;
  canon : bool -> 'a -> string;
  acc : 'a -> string;
}
let acc_rr (r : M.rr) =
  let o = function None -> "-" | Some x -> dec_of_n x in
  Printf.sprintf "%s:%s:%s" (dec_of_n r.M.r_type) (o (M.rr_get_ttl r)) (o (M.rr_get_class r))
let codec_dns = { dec = M.dec_Dns; enc = M.enc_Dns; canon = c_dns;
                  acc = (fun m -> match m.M.m_an @ m.M.m_ns @ m.M.m_ar with [] -> "-" | l -> String.concat "," (List.map acc_rr l)) }
let codec_rr = { dec = M.dec_RR; enc = M.enc_RR; canon = c_rr; acc = acc_rr }
let codec_q = { dec = M.dec_Question; enc = M.enc_Question; canon = c_question; acc = (fun _ -> "-") }
let codec_flags = { dec = M.dec_Flags; enc = M.enc_Flags; canon = (fun _ f -> c_flags f); acc = (fun _ -> "-") }
let codec_name = { dec = M.dec_DomainName; enc = M.enc_DomainName; canon = c_name; acc = (fun _ -> "-") }
let codec_code d = { dec = d; enc = M.enc_code; canon = (fun _ c -> dec_of_n c); acc = (fun _ -> "-") }

let run_d (c : 'a codec) (input : M.n list) : string =
  match c.dec input with
  | M.DOk (v, s) ->
    let canon = c.canon false v in
    let reenc, d2 =
      match c.enc v with
      | M.Ok b ->
        let d2 = match c.dec b with
          | M.DOk (v2, _) -> if c.canon true v2 = c.canon true v then "same" else "diff:" ^ c.canon false v2
          | M.DErr (e, _) -> "ERR:" ^ err_colon e
          | M.DPanic _ -> "PANIC" | M.DFuel -> "FUEL" in
        (out_hex b, d2)
      | M.Err e -> ("ERR:" ^ err_colon e, "-")
      | M.Panic _ -> ("PANIC", "-")
      | M.OutOfFuel -> ("ILLTYPED", "-") in
    Printf.sprintf "OK %s cost=%s acc=%s reenc=%s d2=%s" canon (dec_of_n s.M.d_cost) (c.acc v) reenc d2
  | M.DErr (e, cost) -> Printf.sprintf "ERR %s cost=%s" (err_sp e) (dec_of_n cost)
  | M.DPanic x -> "PANIC " ^ site_name x
  | M.DFuel -> "PANIC model-out-of-fuel"

let do_d_bytes entry input =
  match entry with
  | "Dns" -> run_d codec_dns input
  | "RR" -> run_d codec_rr input
  | "Question" -> run_d codec_q input
  | "Flags" -> run_d codec_flags input
  | "DomainName" -> run_d codec_name input
  | "Type" -> run_d (codec_code M.dec_Type) input
  | "Class" -> run_d (codec_code M.dec_Class) input
  | "QType" -> run_d (codec_code M.dec_QType) input
  | "QClass" -> run_d (codec_code M.dec_QClass) input
  | _ -> "BAD-CASE entry"
let do_d entry hexs = do_d_bytes entry (case_hex hexs)

(* ---------- W cases: the reference decoder Spec/Wire.v on the same bytes ---------- *)
let do_w entry hexs =
  let input = case_hex hexs in
  let show c = function Some v -> "OK " ^ c v | None -> "REJECT" in
  match entry with
  | "Dns" -> show (c_dns false) (M.spec_Dns input)
  | "RR" -> show (c_rr false) (M.spec_RR input)
  | "Question" -> show (c_question false) (M.spec_Question input)
  | "Flags" -> show c_flags (M.spec_Flags input)
  | "DomainName" -> show (c_name false) (M.spec_DomainName input)
  | _ -> "BAD-CASE entry"

(* ---------- A cases: in-process enumeration with a digest ---------- *)
let fnv1a (h : int64 ref) (str : string) =
  String.iter (fun c -> h := Int64.mul (Int64.logxor !h (Int64.of_int (Char.code c))) 0x00000100000001b3L) str
let strip_cost (line : string) : string =
  let n = String.length line in
  let rec find i = if i + 6 > n then -1 else if String.sub line i 6 = " cost=" then i else find (i + 1) in
  let i = find 0 in
  if i < 0 then line
  else begin
    let j = ref (i + 6) in
    while !j < n && line.[!j] <> ' ' do incr j done;
    String.sub line 0 i ^ String.sub line !j (n - !j)
  end
let starts_with p s = String.length s >= String.length p && String.sub s 0 (String.length p) = p
let do_a entry hexs ks =
  let prefix = case_hex hexs in
  let k = int_of_string ks in
  if k > 2 then "BAD-CASE A needs k <= 2" else begin
    let total = int_of_float (256. ** float_of_int k) in
    let ok = ref 0 and err = ref 0 and pan = ref 0 in
    let h = ref 0xcbf29ce484222325L in
    for v = 0 to total - 1 do
      let suffix = List.init k (fun i -> n_of_int ((v lsr (8 * (k - 1 - i))) land 255)) in
      let line = do_d_bytes entry (prefix @ suffix) in
      if starts_with "OK " line then incr ok else if starts_with "ERR " line then incr err else incr pan;
      let view = if starts_with "PANIC" line then "PANIC" else strip_cost line in
      fnv1a h view; fnv1a h "\n"
    done;
    Printf.sprintf "ok=%d err=%d panic=%d digest=%016Lx" !ok !err !pan !h
  end

(* ---------- E cases ---------- *)
let enc_line (r : M.n list M.res) =
  match r with
  | M.Ok b -> "OK " ^ out_hex b
  | M.Err e -> "ERR " ^ err_sp e
  | M.Panic x -> "PANIC " ^ site_name x
  | M.OutOfFuel -> "BUILD-ERR ill-typed"

let do_e elem (t : tree) =
  match elem with
  | "Dns" -> enc_line (M.enc_Dns (dns_of_tree t))
  | "RR" -> enc_line (M.enc_RR (rr_of_tree t))
  | "S" ->
    let r = rr_of_tree t in
    if List.exists (fun x -> int_of_n x = int_of_n r.M.r_type) M.struct_encode_types then enc_line (M.enc_RR r) else "NOENC"
  | "Question" -> enc_line (M.enc_Question (question_of_tree t))
  | "Flags" -> enc_line (M.enc_Flags (flags_of_tree t))
  | "DomainName" -> enc_line (M.enc_DomainName (name_of t))
  | "Type" | "Class" | "QType" | "QClass" -> enc_line (M.enc_code (num t))
  | _ -> "BAD-CASE element"

(* ---------- T cases ---------- *)
let do_t (e : string) =
  let tbl = match e with
    | "Opcode" -> M.opcode_table | "RCode" -> M.rCode_table | "Class" -> M.class_table | "Type" -> M.type_table
    | "QType" -> M.qType_table | "QClass" -> M.qClass_table | "EDNSOptionCode" -> M.eDNSOptionCode_table
    | "AlgorithmType" -> M.algorithmType_table | "DigestType" -> M.digestType_table
    | "SSHFPAlgorithm" -> M.sSHFPAlgorithm_table | "SSHFPType" -> M.sSHFPType_table
    | "AFSDBSubtype" -> M.aFSDBSubtype_table | "AddressFamilyNumber" -> M.addressFamilyNumber_table
    | _ -> failwith "enum" in
  let l = List.map (fun (s, v) -> (int_of_n v, ostring s)) tbl in
  let l = List.sort compare l in
  String.concat "," (List.map (fun (v, s) -> Printf.sprintf "%d=%s" v s) l)

(* ---------- H cases ---------- *)
(* In H/X cases the error is the value type's own error enum, not wrapped in DecodeError: drop the
   wrapper word.  [lab] = the error is a LabelError itself (Label::from_str / try_from). *)
let own_words ?(lab = false) (e : M.err) : string list =
  match err_words e with
  | "LabelError" :: rest when lab -> rest
  | ("AddressError" | "CookieError" | "TagError" | "ISDNError" | "DomainNameError") :: rest when rest <> [] -> rest
  | "PSDNAddressError" :: rest -> "IllegalChar" :: rest
  | w -> w
let own_sp ?(lab = false) e = String.concat " " (own_words ~lab e)
let res_word (r : unit M.res) = match r with
  | M.Ok _ -> "ok" | M.Err e -> "err " ^ own_sp e | M.Panic _ -> "PANIC" | M.OutOfFuel -> "FUEL"
let dn_err_words (e : M.err) = own_sp e

let do_h ty (ops : tree list) : string =
  let out = ref [] in
  let emit r s = out := (r ^ ";" ^ s) :: !out in
  (match ty with
   | "ECS" ->
     let st = ref None in
     let show () = match !st with None -> "none" | Some (e : M.ecs) ->
       node "ECS" [dec_of_n e.M.e_addr.M.a_fam; dec_of_n e.M.e_src; dec_of_n e.M.e_scope; c_hex e.M.e_addr.M.a_oct] in
     let setter f = match !st with
       | None -> emit "skip" (show ())
       | Some e -> let (e', r) = f e in st := Some e'; emit (res_word r) (show ()) in
     List.iter (function
         | Node ("new", [src; scope; fam; a]) ->
           (match M.ecs_new (num src) (num scope) (addr_of fam a) with
            | M.Ok e -> st := Some e; emit "ok" (show ())
            | M.Err e -> emit ("err " ^ own_sp e) (show ())
            | _ -> emit "PANIC" (show ()))
         | Node ("set_src", [v]) -> setter (M.ecs_set_src (num v))
         | Node ("set_scope", [v]) -> setter (M.ecs_set_scope (num v))
         | Node ("set_addr", [fam; a]) -> setter (M.ecs_set_addr (addr_of fam a))
         | _ -> emit "BAD-OP" (show ())) ops
   | "API" ->
     let st = ref None in
     let show () = match !st with None -> "none" | Some i -> c_item i in
     let setter f = match !st with
       | None -> emit "skip" (show ())
       | Some e -> let (e', r) = f e in st := Some e'; emit (res_word r) (show ()) in
     List.iter (function
         | Node ("new", [p; neg; fam; a]) ->
           (match M.apitem_new (num p) (boolv neg) (addr_of fam a) with
            | M.Ok e -> st := Some e; emit "ok" (show ())
            | M.Err e -> emit ("err " ^ own_sp e) (show ())
            | _ -> emit "PANIC" (show ()))
         | Node ("set_prefix", [v]) -> setter (M.apitem_set_prefix (num v))
         | Node ("set_addr", [fam; a]) -> setter (M.apitem_set_addr (addr_of fam a))
         | Node ("set_neg", [b]) -> setter (fun i -> ({ i with M.i_neg = boolv b }, M.Ok ()))
         | _ -> emit "BAD-OP" (show ())) ops
   | "COOKIE" ->
     let st = ref None in
     let show () = match !st with None -> "none" | Some c -> c_opt (M.OCookie c) in
     let setter f = match !st with
       | None -> emit "skip" (show ())
       | Some e -> let (e', r) = f e in st := Some e'; emit (res_word r) (show ()) in
     List.iter (function
         | Node ("new", [c; s]) ->
           (match M.cookie_new (hex c) (opt_of s) with
            | M.Ok e -> st := Some e; emit "ok" (show ())
            | M.Err e -> emit ("err " ^ own_sp e) (show ())
            | _ -> emit "PANIC" (show ()))
         | Node ("set_server", [s]) -> setter (M.cookie_set_server (opt_of s))
         | Node ("set_client", [c]) -> setter (fun k -> ({ k with M.c_client = hex c }, M.Ok ()))
         | _ -> emit "BAD-OP" (show ())) ops
   | "LABEL" ->
     let st = ref None in
     let show () = match !st with None -> "none" | Some l -> c_hex l in
     List.iter (function
         | Node (("try_from" | "from_str"), [l]) ->
           let l = hex l in
           (match M.check_label l with
            | M.Ok _ -> st := Some l; emit "ok" (show ())
            | M.Err e -> emit ("err " ^ own_sp ~lab:true e) (show ())
            | _ -> emit "PANIC" (show ()))
         | _ -> emit "BAD-OP" (show ())) ops
   | "NAME" ->
     let st = ref None in
     let show () = match !st with None -> "none" | Some nm -> c_name false nm ^ " len=" ^ dec_of_n (M.name_len nm) in
     List.iter (function
         | Node ("default", []) -> st := Some []; emit "ok" (show ())
         | Node ("from_str", [s]) ->
           (match M.name_from_str (hex s) with
            | M.Ok nm -> st := Some nm; emit "ok" (show ())
            | M.Err e -> emit ("err " ^ dn_err_words e) (show ())
            | _ -> emit "PANIC" (show ()))
         | Node ("append", [l]) ->
           (match !st with
            | None -> emit "skip" (show ())
            | Some nm ->
              let l = hex l in
              (match M.check_label l with
               | M.Err e -> emit ("err " ^ own_sp ~lab:true e) (show ())
               | M.Ok _ ->
                 (match M.append_label nm l with
                  | M.Ok nm' -> st := Some nm'; emit "ok" (show ())
                  | M.Err e -> emit ("err " ^ own_sp e) (show ())
                  | _ -> emit "PANIC" (show ()))
               | _ -> emit "PANIC" (show ())))
         | Node ("decode", [b]) ->
           (match M.dec_DomainName (hex b) with
            | M.DOk (nm, _) -> st := Some nm; emit "ok" (show ())
            | M.DErr (e, _) -> emit ("err " ^ err_sp e) (show ())
            | _ -> emit "PANIC" (show ()))
         | _ -> emit "BAD-OP" (show ())) ops
   | "TXT" ->
     let st = ref None in
     let show () = match !st with None -> "none" | Some l -> node "L" (List.map c_hex l) in
     List.iter (function
         | Node ("try_from", [l]) ->
           (match M.nonempty_try_from (List.map hex (list_of l)) with
            | M.Ok v -> st := Some v; emit "ok" (show ())
            | M.Err e -> emit ("err " ^ own_sp e) (show ())
            | _ -> emit "PANIC" (show ()))
         | _ -> emit "BAD-OP" (show ())) ops
   | "TAG" | "PSDN" | "ISDNA" | "SA" ->
     let f = match ty with "TAG" -> M.tag_try_from | "PSDN" -> M.psdn_try_from | "ISDNA" -> M.isdn_try_from | _ -> M.sa_try_from in
     let st = ref None in
     let show () = match !st with None -> "none" | Some l -> c_hex l in
     List.iter (function
         | Node ("try_from", [s]) ->
           (match f (hex s) with
            | M.Ok v -> st := Some v; emit "ok" (show ())
            | M.Err e -> emit ("err " ^ own_sp e) (show ())
            | _ -> emit "PANIC" (show ()))
         | _ -> emit "BAD-OP" (show ())) ops
   | _ -> emit "BAD-CASE" "type");
  String.concat " | " (List.rev !out)

(* ---------- X cases ---------- *)
let do_x op (args : tree list) =
  match op, args with
  | "parse", [s] ->
    (match M.name_from_str (hex s) with
     | M.Ok nm -> Printf.sprintf "OK %s len=%s disp=%s" (c_name false nm) (dec_of_n (M.name_len nm)) (c_hex (M.name_display nm))
     | M.Err e -> "ERR " ^ dn_err_words e
     | _ -> "PANIC")
  | "eq", [a; b] ->
    let a = name_of a and b = name_of b in
    Printf.sprintf "eq=%s hash_eq=%s" (b01 (M.name_eqb a b))
      (b01 (List.map int_of_n (M.hash_feed a) = List.map int_of_n (M.hash_feed b)))
  | "rt", [a] ->
    let a = name_of a in
    let d = M.name_display a in
    let back = match M.name_from_str d with
      | M.Ok nm -> "OK " ^ c_name false nm
      | M.Err e -> "ERR:" ^ String.concat ":" (String.split_on_char ' ' (dn_err_words e))
      | _ -> "PANIC" in
    Printf.sprintf "disp=%s len=%s back=%s" (c_hex d) (dec_of_n (M.name_len a)) back
  | _ -> "BAD-CASE x"

(* ---------- main ---------- *)
let rec run_case (line : string) : string =
  try
    match String.index_opt line ' ' with
    | None -> if line = "" then "BAD-CASE empty" else "BAD-CASE " ^ line
    | Some i ->
      let kind = String.sub line 0 i in
      let rest = String.sub line (i + 1) (String.length line - i - 1) in
      (match kind with
       | "D" ->
         (match String.split_on_char ' ' rest with
          | [entry; h] -> do_d entry h
          | _ -> "BAD-CASE D")
       | "A" ->
         (match String.split_on_char ' ' rest with
          | [entry; h; k] -> do_a entry h k
          | _ -> "BAD-CASE A")
       | "W" ->
         (match String.split_on_char ' ' rest with
          | [entry; h] -> do_w entry h
          | _ -> "BAD-CASE W")
       | "E" ->
         let j = String.index rest ' ' in
         let elem = String.sub rest 0 j in
         let (t, _) = tree_of_string (String.sub rest (j + 1) (String.length rest - j - 1)) in
         do_e elem t
       | "T" -> do_t rest
       | "H" ->
         let j = String.index rest ' ' in
         let ty = String.sub rest 0 j in
         let s = String.sub rest (j + 1) (String.length rest - j - 1) in
         let pos = ref 0 in
         let ops = ref [] in
         while !pos < String.length s do
           ops := parse_tree s pos :: !ops;
           if !pos < String.length s && s.[!pos] = ' ' then incr pos
         done;
         do_h ty (List.rev !ops)
       | "X" ->
         let j = String.index rest ' ' in
         let op = String.sub rest 0 j in
         let s = String.sub rest (j + 1) (String.length rest - j - 1) in
         let pos = ref 0 in
         let args = ref [] in
         while !pos < String.length s do
           args := parse_tree s pos :: !args;
           if !pos < String.length s && s.[!pos] = ' ' then incr pos
         done;
         do_x op (List.rev !args)
       | "R" ->
         (* R <reps> <threads> <inner case>: the model is a function; one result, input untouched *)
         (match String.split_on_char ' ' rest with
          | _ :: _ :: inner -> "distinct=1 unchanged=1 first=" ^ run_case (String.concat " " inner)
          | _ -> "BAD-CASE R")
       | _ -> "BAD-CASE kind")
  with
  | Failure m -> "BAD-CASE " ^ m
  | Not_found -> "BAD-CASE parse"
  | Stack_overflow -> "MODEL-STACK-OVERFLOW"

let () =
  let ic = open_in Sys.argv.(1) in
  let oc = if Array.length Sys.argv > 2 then open_out Sys.argv.(2) else stdout in
  (try
     while true do
       let line = input_line ic in
       output_string oc (run_case line);
       output_char oc '\n';
       flush oc
     done
   with End_of_file -> ());
  close_out oc
