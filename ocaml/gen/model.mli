
val negb : bool -> bool

type nat =
| O
| S of nat

val fst : ('a1 * 'a2) -> 'a1

val snd : ('a1 * 'a2) -> 'a2

val length : 'a1 list -> nat

val app : 'a1 list -> 'a1 list -> 'a1 list

type comparison =
| Eq
| Lt
| Gt

val add : nat -> nat -> nat

val eqb : bool -> bool -> bool

val rev : 'a1 list -> 'a1 list

val concat : 'a1 list list -> 'a1 list

val map : ('a1 -> 'a2) -> 'a1 list -> 'a2 list

val fold_right : ('a2 -> 'a1 -> 'a1) -> 'a1 -> 'a2 list -> 'a1

val existsb : ('a1 -> bool) -> 'a1 list -> bool

val forallb : ('a1 -> bool) -> 'a1 list -> bool

val filter : ('a1 -> bool) -> 'a1 list -> 'a1 list

val find : ('a1 -> bool) -> 'a1 list -> 'a1 option

val firstn : nat -> 'a1 list -> 'a1 list

val skipn : nat -> 'a1 list -> 'a1 list

type positive =
| XI of positive
| XO of positive
| XH

type n =
| N0
| Npos of positive

module Pos :
 sig
  type mask =
  | IsNul
  | IsPos of positive
  | IsNeg
 end

module Coq_Pos :
 sig
  val succ : positive -> positive

  val add : positive -> positive -> positive

  val add_carry : positive -> positive -> positive

  val pred_double : positive -> positive

  type mask = Pos.mask =
  | IsNul
  | IsPos of positive
  | IsNeg

  val succ_double_mask : mask -> mask

  val double_mask : mask -> mask

  val double_pred_mask : positive -> mask

  val sub_mask : positive -> positive -> mask

  val sub_mask_carry : positive -> positive -> mask

  val mul : positive -> positive -> positive

  val iter : ('a1 -> 'a1) -> 'a1 -> positive -> 'a1

  val compare_cont : comparison -> positive -> positive -> comparison

  val compare : positive -> positive -> comparison

  val eqb : positive -> positive -> bool

  val coq_Nsucc_double : n -> n

  val coq_Ndouble : n -> n

  val coq_lor : positive -> positive -> positive

  val coq_land : positive -> positive -> n

  val shiftl : positive -> n -> positive

  val iter_op : ('a1 -> 'a1 -> 'a1) -> positive -> 'a1 -> 'a1

  val to_nat : positive -> nat

  val of_succ_nat : nat -> positive
 end

module N :
 sig
  val succ_double : n -> n

  val double : n -> n

  val add : n -> n -> n

  val sub : n -> n -> n

  val mul : n -> n -> n

  val compare : n -> n -> comparison

  val eqb : n -> n -> bool

  val leb : n -> n -> bool

  val ltb : n -> n -> bool

  val max : n -> n -> n

  val div2 : n -> n

  val pos_div_eucl : positive -> n -> n * n

  val div_eucl : n -> n -> n * n

  val div : n -> n -> n

  val modulo : n -> n -> n

  val coq_lor : n -> n -> n

  val coq_land : n -> n -> n

  val shiftl : n -> n -> n

  val shiftr : n -> n -> n

  val to_nat : n -> nat

  val of_nat : nat -> n
 end

type ascii =
| Ascii of bool * bool * bool * bool * bool * bool * bool * bool

val eqb0 : ascii -> ascii -> bool

type string =
| EmptyString
| String of ascii * string

val eqb1 : string -> string -> bool

type bytes = n list

val lenN : 'a1 list -> n

val takeN : n -> 'a1 list -> 'a1 list

val dropN : n -> 'a1 list -> 'a1 list

val be_join : bytes -> n -> n

val be : bytes -> n

val u8b : n -> bytes

val u16b : n -> bytes

val u32b : n -> bytes

val u64b : n -> bytes

val pOW16 : n

val pOW64 : n

val nth_opt : nat -> 'a1 list -> 'a1 option

val nthN : n -> 'a1 list -> 'a1 option

val zeros : nat -> bytes

val ascii_lower : n -> n

val is_digit : n -> bool

val is_upper : n -> bool

val is_lower : n -> bool

val is_alnum : n -> bool

val is_hexdigit : n -> bool

val list_eqb : ('a1 -> 'a1 -> bool) -> 'a1 list -> 'a1 list -> bool

val bytes_eqb : n list -> n list -> bool

type etag =
| ENotEnoughBytes
| ETooManyBytes
| EDnsPacketTooBig
| EOpcode
| EZNotZeroes
| ERCode
| EType
| EClass
| EQType
| EQClass
| EUtf8Error
| ELabelEmpty
| ELabelLength
| EDomainNameLength
| ENotYetImplemented
| EOffset
| EAClass
| EWKSClass
| ETXTEmpty
| EAFSDBSubtype
| EPSDNAddressError
| EISDNIllegalChar
| EISDNIllegalCharSA
| EGPOS
| EAAAAClass
| EOPTDomainName
| EOPTZero
| EEDNSOptionCode
| EIpv4Prefix
| EIpv4Mask
| EIpv6Prefix
| EIpv6Mask
| EAPLClass
| EServerCookieLength
| EEcsAddressNumber
| EEcsTooBigIpv4Address
| EEcsTooBigIpv6Address
| ECookieLength
| ESSHFPAlgorithm
| ESSHFPType
| EAlgorithmType
| EDigestType
| EDNSKEYZeroFlags
| EDNSKEYProtocol
| EMaxRecursion
| EEndlessRecursion
| ERemainingBytes
| EPaddingZero
| EPaddingLength
| ETagEmpty
| ETagIllegalChar
| EECHLengthMismatch
| ESVCBClass
| ESVCBDuplicateKey
| XString
| XLength
| XNotEnoughBytes
| XCompression
| XMaxRecursion
| XAPLAddressLength
| EEmptyVec

type err = etag * n list

type site =
| SReadOverflow
| SU8Index
| SGetUint
| SCopyIpv4
| SCopyIpv6
| SCookieClient
| SCookieServer
| SPrefixIndex
| SPrefixSplit
| SPrefixShift
| SLenIndexSub
| SAddrLenIndexSub
| SSetIndex
| SPrefixSub
| SNameSliceIndex
| SEuiIndex

type 'a res =
| Ok of 'a
| Err of err
| Panic of site
| OutOfFuel

val in_rng : n -> n -> n -> bool

val cont : n -> bool

val utf8_valid_fuel : nat -> bytes -> bool

val utf8_valid : bytes -> bool

type cmp =
| CLt
| CLe
| CGt
| CGe
| CEq
| CNe

val cmp_apply : cmp -> n -> n -> bool

val dOMAIN_NAME_MAX_RECURSION : n

val dOMAIN_NAME_MAX_LENGTH : n

val lABEL_MAX_LENGTH : n

val mAXIMUM_DNS_PACKET_SIZE : n

val dEC_COMPRESSION_BITS : n

val dEC_COMPRESSION_BITS_REV : n

val eNC_MAX_OFFSET : n

val eNC_COMPRESSION_BITS : n

val cLIENT_COOKIE_LENGTH : n

val mINIMUM_SERVER_COOKIE_LENGTH : n

val mAXIMUM_SERVER_COOKIE_LENGTH : n

val mINIMUM_COOKIE_LENGTH : n

val mAXIMUM_COOKIE_LENGTH : n

val aPL_NEGATION_MASK : n

val aDDRESS_LENGTH_MASK : n

val eDNS_DNSSEC_MASK : n

val dNSKEY_ZERO_MASK : n

val pREFIX_MASK : n

val oP_read : cmp

val oP_bytes : cmp

val oP_check_label : cmp

val oP_append_label : cmp

val oP_dec_maxrec : cmp

val oP_dns_min : cmp

val dNS_MIN_LENGTH : n

val oP_dns_max : cmp

val oP_compress_offset : cmp

val oP_compress_rec : cmp

val oP_merge_rec : cmp

val oP_index_offset : cmp

val oP_string_len : cmp

val sTRING_MAX : n

val oP_ipv4_size : cmp

val iPV4_SIZE : n

val oP_ipv6_size : cmp

val iPV6_SIZE : n

val iPV4_BITS : n

val iPV6_BITS : n

val oP_apl_len : cmp

val oP_enc_prefix4 : cmp

val eNC_PREFIX_STEP4 : n

val oP_enc_prefix6 : cmp

val eNC_PREFIX_STEP6 : n

val cOOKIE_DEC_RANGE_INCL : bool

val cOOKIE_NEW_RANGE_INCL : bool

val dEC_FLAG_qr : (n * n) * n

val dEC_FLAG_opcode : (n * n) * n

val dEC_FLAG_aa : (n * n) * n

val dEC_FLAG_tc : (n * n) * n

val dEC_FLAG_rd : (n * n) * n

val dEC_FLAG_ra : (n * n) * n

val dEC_FLAG_z : (n * n) * n

val dEC_FLAG_ad : (n * n) * n

val dEC_FLAG_cd : (n * n) * n

val dEC_FLAG_rcode : (n * n) * n

val eNC_FLAG_qr : (n * n) * n

val eNC_FLAG_opcode : (n * n) * n

val eNC_FLAG_aa : (n * n) * n

val eNC_FLAG_tc : (n * n) * n

val eNC_FLAG_rd : (n * n) * n

val eNC_FLAG_ra : (n * n) * n

val eNC_FLAG_ad : (n * n) * n

val eNC_FLAG_cd : (n * n) * n

val eNC_FLAG_rcode : (n * n) * n

val dEC_OPT_extend_rcode : n * n

val dEC_OPT_version : n * n

val dEC_OPT_flags_hi : n * n

val dEC_OPT_flags_lo : n

val eNC_OPT_extend_rcode_shift : n

val eNC_OPT_version_shift : n

val eNC_OPT_dnssec_shift : n

type enumid =
| EnAFSDBSubtype
| EnSSHFPAlgorithm
| EnSSHFPType
| EnAlgorithmType
| EnDigestType

type fk =
| FU8
| FU16
| FU32
| FU64
| FName
| FStr
| FRest
| FRestUtf8
| FIp4
| FIp6
| FEnum8 of enumid * etag
| FEnum16 of enumid * etag
| FStrPsdn
| FStrIsdn
| FOptStrSa
| FStrGpos
| FTag
| FStrs1
| FDnskeyFlags
| FConst8 of n * etag
| FUnknown

type classrule =
| CKAny
| CKIn of etag
| CKNone

type encclass =
| ECField
| ECIn

type special =
| SpOpt
| SpApl
| SpSvcb
| SpHttps

type reader =
| RdFields of classrule * (string * fk) list
| RdSpecial of special

type writer =
| WrFields of encclass * (string * fk) list
| WrSpecial of special

type label = bytes

type name = label list

type fv =
| VN of n
| VName of name
| VBytes of bytes
| VStrs of bytes list
| VOptStr of bytes option

val check_label : bytes -> unit res

val label_fold : label -> label

val label_eqb : label -> label -> bool

val name_eqb : name -> name -> bool

val hash_feed : name -> n list

val labels_sum : name -> n

val name_len : name -> n

val append_label : name -> label -> name res

val dOT : n

val split_dot_aux : bytes -> bytes -> bytes list

val split_dot : bytes -> bytes list

val strip_suffix_dot : bytes -> bytes

val append_all : name -> bytes list -> name res

val name_from_str : bytes -> name res

val name_display : name -> bytes

type addr = { a_fam : n; a_oct : bytes }

val check_addr_bits : n -> etag -> etag -> bytes -> n -> unit res

val check_prefix : addr -> n -> unit res

type ecs = { e_src : n; e_scope : n; e_addr : addr }

val ecs_prefix : ecs -> n

val ecs_check : ecs -> unit res

val ecs_new : n -> n -> addr -> ecs res

val ecs_setter : (ecs -> ecs) -> ecs -> ecs * unit res

val ecs_set_src : n -> ecs -> ecs * unit res

val ecs_set_scope : n -> ecs -> ecs * unit res

val ecs_set_addr : addr -> ecs -> ecs * unit res

type apitem = { i_prefix : n; i_neg : bool; i_addr : addr }

val apitem_new : n -> bool -> addr -> apitem res

val apitem_set_prefix : n -> apitem -> apitem * unit res

val apitem_set_addr : addr -> apitem -> apitem * unit res

type cookie = { c_client : bytes; c_server : bytes option }

val server_len_ok : n -> bool

val cookie_set_server : bytes option -> cookie -> cookie * unit res

val cookie_new : bytes -> bytes option -> cookie res

val tag_try_from : bytes -> bytes res

val psdn_try_from : bytes -> bytes res

val isdn_try_from : bytes -> bytes res

val sa_try_from : bytes -> bytes res

val nonempty_try_from : 'a1 list -> 'a1 list res

type ednsopt =
| OEcs of ecs
| OCookie of cookie
| OPadding of n

type svcparam =
| PMandatory of n list
| PAlpn of bytes list
| PNoDefaultAlpn
| PPort of n
| PIpv4Hint of n list
| PEch of bytes
| PIpv6Hint of bytes list
| PPrivate of n * bytes
| PKey65535

val param_key : svcparam -> n

type rdata =
| RFields of fv list
| ROpt of n * n * n * bool * ednsopt list
| RApl of apitem list
| RSvcb of n * name * svcparam list

type rr = { r_type : n; r_name : name; r_class : n; r_ttl : n; r_data : rdata }

type flags = { f_qr : bool; f_opcode : n; f_aa : bool; f_tc : bool;
               f_rd : bool; f_ra : bool; f_ad : bool; f_cd : bool; f_rcode : 
               n }

type question = { q_name : name; q_type : n; q_class : n }

type dns = { m_id : n; m_flags : flags; m_qd : question list; m_an : 
             rr list; m_ns : rr list; m_ar : rr list }

val set_insert : svcparam -> svcparam list -> svcparam list * bool

val opcode_width : n

val opcode_table : (string * n) list

val rCode_width : n

val rCode_table : (string * n) list

val class_width : n

val class_table : (string * n) list

val type_width : n

val type_table : (string * n) list

val qType_width : n

val qType_table : (string * n) list

val qClass_width : n

val qClass_table : (string * n) list

val eDNSOptionCode_width : n

val eDNSOptionCode_table : (string * n) list

val algorithmType_width : n

val algorithmType_table : (string * n) list

val digestType_width : n

val digestType_table : (string * n) list

val sSHFPAlgorithm_width : n

val sSHFPAlgorithm_table : (string * n) list

val sSHFPType_width : n

val sSHFPType_table : (string * n) list

val aFSDBSubtype_width : n

val aFSDBSubtype_table : (string * n) list

val addressFamilyNumber_width : n

val addressFamilyNumber_table : (string * n) list

val dec_dispatch : (n * reader) list

val enc_dispatch : (n * writer) list

val struct_encode_types : n list

type dst = { d_rest : bytes; d_off : n; d_len : n; d_cost : n }

type 'a dres =
| DOk of 'a * dst
| DErr of err * n
| DPanic of site
| DFuel

type 'a dM = dst -> 'a dres

val ret : 'a1 -> 'a1 dM

val bind : 'a1 dM -> ('a1 -> 'a2 dM) -> 'a2 dM

val fail : err -> 'a1 dM

val panic : site -> 'a1 dM

val lift : 'a1 res -> 'a1 dM

val mk_main : bytes -> dst

val read : n -> bytes dM

val is_finished : bool dM

val finished : unit dM

val with_sub : n -> 'a1 dM -> 'a1 dM

val u8 : n dM

val uint : n -> n dM

val u16 : n dM

val u32 : n dM

val u64 : n dM

val string_ : bytes dM

val ipv4_addr : n dM

val ipv6_addr : bytes dM

val vec : bytes dM

val is_compressed : n -> bool

val ptr_offset : n -> n -> n

val jump : bytes -> n -> n -> dst

val domain_name_label : name -> n -> (name * n) dM

val nAMEFUEL : nat

val rec_loop : nat -> bytes -> name -> n list -> n -> name dM

val name_loop : nat -> bytes -> name -> n -> name dM

val domain_name : bytes -> name dM

val in_table : (string * n) list -> n -> bool

val enum_table : enumid -> (string * n) list

val code : (string * n) list -> etag -> n dM -> n dM

val cLASS_IN : n

val rr_address_family_number : n dM

val rr_address_sized : n -> cmp -> etag -> site -> bytes dM

val rr_address : n -> addr dM

val strings_loop : nat -> bytes list -> bytes list dM

val loop_fuel : nat dM

val read_field : bytes -> fk -> fv list dM

val read_fields : bytes -> (string * fk) list -> fv list dM

val get_class : n -> n dM

val class_rule : classrule -> n -> n dM

val rr_opt_ttl : n -> ((n * n) * bool) dM

val rr_edns_ecs : ecs dM

val cookie_len_ok : n -> bool

val rr_edns_cookie : cookie dM

val first_nonzero : bytes -> n option

val rr_edns_padding : n dM

val oPT_ECS : n

val oPT_COOKIE : n

val oPT_PADDING : n

val rr_edns_option : ednsopt dM

val many : nat -> 'a1 dM -> 'a1 list -> 'a1 list dM

val rr_opt : name -> n -> n -> rdata dM

val rr_apl_apitem : apitem dM

val rr_apl : n -> rdata dM

val rr_service_parameter : n -> svcparam dM

val svc_params : nat -> svcparam list -> svcparam list dM

val rr_service_binding : bytes -> n -> rdata dM

val lookup : n -> (n * 'a1) list -> 'a1 option

val tYPE_OPT : n

val rr_type : n dM

val rr_class : n dM

val rr_body : bytes -> n -> name -> n -> n -> rr dM

val rr_ : bytes -> rr dM

val rd_q_type : n dM

val rd_q_class : n dM

val question_ : bytes -> question dM

val fbit : ((n * n) * n) -> n -> n -> n

val flags_ : flags dM

val repeat_dm : nat -> 'a1 dM -> 'a1 list dM

val dns_ : bytes -> dns dM

val run : (bytes -> 'a1 dM) -> bytes -> 'a1 dres

val dec_Dns : bytes -> dns dres

val dec_Flags : bytes -> flags dres

val dec_Question : bytes -> question dres

val dec_RR : bytes -> rr dres

val dec_DomainName : bytes -> name dres

val dec_Type : bytes -> n dres

val dec_Class : bytes -> n dres

val dec_QType : bytes -> n dres

val dec_QClass : bytes -> n dres

val rr_get_ttl : rr -> n option

val rr_get_class : rr -> n option

type est = { e_buf : bytes; e_idx : (name * (n * n)) list;
             e_names : (n * name) list }

type 'a eres =
| EOk of 'a * est
| EErr of err
| EPanic of site
| EIllTyped

type 'a eM = est -> 'a eres

val eret : 'a1 -> 'a1 eM

val ebind : 'a1 eM -> ('a1 -> 'a2 eM) -> 'a2 eM

val efail : err -> 'a1 eM

val e_init : est

val put : bytes -> unit eM

val eu8 : n -> unit eM

val eu16 : n -> unit eM

val eu32 : n -> unit eM

val eu64 : n -> unit eM

val buf_len : n eM

val get_offset : n eM

val patch : n -> bytes -> bytes -> bytes

val set_u16 : n -> n -> unit eM

val set_u8 : n -> n -> unit eM

val estring : bytes -> unit eM

val create_length_index : n eM

val set_length_index : n -> unit eM

val idx_lookup : name -> (name * (n * n)) list -> (n * n) option

val compress : name -> n option eM

val elabel : label -> n eM

val merge_index : (name * n) list -> n -> unit eM

val enc_name_loop : name -> (name * n) list -> unit eM

val log_name : name -> unit eM

val enc_domain_name : name -> unit eM

val addr_prefix_loop : cmp -> n -> bytes -> n -> bytes res

val rr_address_with_prefix : addr -> n -> unit eM

val emap : ('a1 -> unit eM) -> 'a1 list -> unit eM

val write_field : fk -> fv option -> unit eM

val has_value : fk -> bool

val value_names : (string * fk) list -> string list

val assoc : string -> string list -> fv list -> fv option

val write_fields : string list -> fv list -> (string * fk) list -> unit eM

val dec_value_names : n -> string list

val enc_opt_ttl : n -> n -> bool -> n

val enc_ecs : ecs -> unit eM

val enc_cookie : cookie -> unit eM

val enc_padding : n -> unit eM

val enc_edns_option : ednsopt -> unit eM

val set_address_length_index : bool -> n -> unit eM

val enc_apitem : apitem -> unit eM

val insert_sorted : n -> n list -> n list

val sort_keys : n list -> n list

val enc_service_parameter : svcparam -> unit eM

val enc_rr : rr -> unit eM

val enc_question : question -> unit eM

val eflag : ((n * n) * n) -> bool -> n -> n

val eshift : ((n * n) * n) -> n -> n -> n

val flags_octet : flags -> n -> n

val enc_flags : flags -> unit eM

val enc_count : 'a1 list -> unit eM

val enc_dns : dns -> unit eM

val erun : unit eM -> bytes res

val enc_Dns : dns -> bytes res

val enc_Flags : flags -> bytes res

val enc_Question : question -> bytes res

val enc_RR : rr -> bytes res

val enc_DomainName : name -> bytes res

val enc_code : n -> bytes res
