
(** val negb : bool -> bool **)

let negb = function
| true -> false
| false -> true

type nat =
| O
| S of nat

(** val fst : ('a1 * 'a2) -> 'a1 **)

let fst = function
| (x, _) -> x

(** val snd : ('a1 * 'a2) -> 'a2 **)

let snd = function
| (_, y) -> y

(** val length : 'a1 list -> nat **)

let rec length = function
| [] -> O
| _ :: l' -> S (length l')

(** val app : 'a1 list -> 'a1 list -> 'a1 list **)

let rec app l m =
  match l with
  | [] -> m
  | a :: l1 -> a :: (app l1 m)

type comparison =
| Eq
| Lt
| Gt

module Coq__1 = struct
 (** val add : nat -> nat -> nat **)
 let rec add n0 m =
   match n0 with
   | O -> m
   | S p -> S (add p m)
end
include Coq__1

(** val eqb : bool -> bool -> bool **)

let eqb b1 b2 =
  if b1 then b2 else if b2 then false else true

(** val rev : 'a1 list -> 'a1 list **)

let rec rev = function
| [] -> []
| x :: l' -> app (rev l') (x :: [])

(** val concat : 'a1 list list -> 'a1 list **)

let rec concat = function
| [] -> []
| x :: l0 -> app x (concat l0)

(** val map : ('a1 -> 'a2) -> 'a1 list -> 'a2 list **)

let rec map f = function
| [] -> []
| a :: t -> (f a) :: (map f t)

(** val fold_right : ('a2 -> 'a1 -> 'a1) -> 'a1 -> 'a2 list -> 'a1 **)

let rec fold_right f a0 = function
| [] -> a0
| b :: t -> f b (fold_right f a0 t)

(** val existsb : ('a1 -> bool) -> 'a1 list -> bool **)

let rec existsb f = function
| [] -> false
| a :: l0 -> (||) (f a) (existsb f l0)

(** val forallb : ('a1 -> bool) -> 'a1 list -> bool **)

let rec forallb f = function
| [] -> true
| a :: l0 -> (&&) (f a) (forallb f l0)

(** val filter : ('a1 -> bool) -> 'a1 list -> 'a1 list **)

let rec filter f = function
| [] -> []
| x :: l0 -> if f x then x :: (filter f l0) else filter f l0

(** val find : ('a1 -> bool) -> 'a1 list -> 'a1 option **)

let rec find f = function
| [] -> None
| x :: tl -> if f x then Some x else find f tl

(** val firstn : nat -> 'a1 list -> 'a1 list **)

let rec firstn n0 l =
  match n0 with
  | O -> []
  | S n1 -> (match l with
             | [] -> []
             | a :: l0 -> a :: (firstn n1 l0))

(** val skipn : nat -> 'a1 list -> 'a1 list **)

let rec skipn n0 l =
  match n0 with
  | O -> l
  | S n1 -> (match l with
             | [] -> []
             | _ :: l0 -> skipn n1 l0)

type positive =
| XI of positive
| XO of positive
| XH

type n =
| N0
| Npos of positive

module Pos =
 struct
  type mask =
  | IsNul
  | IsPos of positive
  | IsNeg
 end

module Coq_Pos =
 struct
  (** val succ : positive -> positive **)

  let rec succ = function
  | XI p -> XO (succ p)
  | XO p -> XI p
  | XH -> XO XH

  (** val add : positive -> positive -> positive **)

  let rec add x y =
    match x with
    | XI p ->
      (match y with
       | XI q -> XO (add_carry p q)
       | XO q -> XI (add p q)
       | XH -> XO (succ p))
    | XO p ->
      (match y with
       | XI q -> XI (add p q)
       | XO q -> XO (add p q)
       | XH -> XI p)
    | XH -> (match y with
             | XI q -> XO (succ q)
             | XO q -> XI q
             | XH -> XO XH)

  (** val add_carry : positive -> positive -> positive **)

  and add_carry x y =
    match x with
    | XI p ->
      (match y with
       | XI q -> XI (add_carry p q)
       | XO q -> XO (add_carry p q)
       | XH -> XI (succ p))
    | XO p ->
      (match y with
       | XI q -> XO (add_carry p q)
       | XO q -> XI (add p q)
       | XH -> XO (succ p))
    | XH ->
      (match y with
       | XI q -> XI (succ q)
       | XO q -> XO (succ q)
       | XH -> XI XH)

  (** val pred_double : positive -> positive **)

  let rec pred_double = function
  | XI p -> XI (XO p)
  | XO p -> XI (pred_double p)
  | XH -> XH

  type mask = Pos.mask =
  | IsNul
  | IsPos of positive
  | IsNeg

  (** val succ_double_mask : mask -> mask **)

  let succ_double_mask = function
  | IsNul -> IsPos XH
  | IsPos p -> IsPos (XI p)
  | IsNeg -> IsNeg

  (** val double_mask : mask -> mask **)

  let double_mask = function
  | IsPos p -> IsPos (XO p)
  | x0 -> x0

  (** val double_pred_mask : positive -> mask **)

  let double_pred_mask = function
  | XI p -> IsPos (XO (XO p))
  | XO p -> IsPos (XO (pred_double p))
  | XH -> IsNul

  (** val sub_mask : positive -> positive -> mask **)

  let rec sub_mask x y =
    match x with
    | XI p ->
      (match y with
       | XI q -> double_mask (sub_mask p q)
       | XO q -> succ_double_mask (sub_mask p q)
       | XH -> IsPos (XO p))
    | XO p ->
      (match y with
       | XI q -> succ_double_mask (sub_mask_carry p q)
       | XO q -> double_mask (sub_mask p q)
       | XH -> IsPos (pred_double p))
    | XH -> (match y with
             | XH -> IsNul
             | _ -> IsNeg)

  (** val sub_mask_carry : positive -> positive -> mask **)

  and sub_mask_carry x y =
    match x with
    | XI p ->
      (match y with
       | XI q -> succ_double_mask (sub_mask_carry p q)
       | XO q -> double_mask (sub_mask p q)
       | XH -> IsPos (pred_double p))
    | XO p ->
      (match y with
       | XI q -> double_mask (sub_mask_carry p q)
       | XO q -> succ_double_mask (sub_mask_carry p q)
       | XH -> double_pred_mask p)
    | XH -> IsNeg

  (** val mul : positive -> positive -> positive **)

  let rec mul x y =
    match x with
    | XI p -> add y (XO (mul p y))
    | XO p -> XO (mul p y)
    | XH -> y

  (** val iter : ('a1 -> 'a1) -> 'a1 -> positive -> 'a1 **)

  let rec iter f x = function
  | XI n' -> f (iter f (iter f x n') n')
  | XO n' -> iter f (iter f x n') n'
  | XH -> f x

  (** val compare_cont : comparison -> positive -> positive -> comparison **)

  let rec compare_cont r x y =
    match x with
    | XI p ->
      (match y with
       | XI q -> compare_cont r p q
       | XO q -> compare_cont Gt p q
       | XH -> Gt)
    | XO p ->
      (match y with
       | XI q -> compare_cont Lt p q
       | XO q -> compare_cont r p q
       | XH -> Gt)
    | XH -> (match y with
             | XH -> r
             | _ -> Lt)

  (** val compare : positive -> positive -> comparison **)

  let compare =
    compare_cont Eq

  (** val eqb : positive -> positive -> bool **)

  let rec eqb p q =
    match p with
    | XI p0 -> (match q with
                | XI q0 -> eqb p0 q0
                | _ -> false)
    | XO p0 -> (match q with
                | XO q0 -> eqb p0 q0
                | _ -> false)
    | XH -> (match q with
             | XH -> true
             | _ -> false)

  (** val coq_Nsucc_double : n -> n **)

  let coq_Nsucc_double = function
  | N0 -> Npos XH
  | Npos p -> Npos (XI p)

  (** val coq_Ndouble : n -> n **)

  let coq_Ndouble = function
  | N0 -> N0
  | Npos p -> Npos (XO p)

  (** val coq_lor : positive -> positive -> positive **)

  let rec coq_lor p q =
    match p with
    | XI p0 ->
      (match q with
       | XI q0 -> XI (coq_lor p0 q0)
       | XO q0 -> XI (coq_lor p0 q0)
       | XH -> p)
    | XO p0 ->
      (match q with
       | XI q0 -> XI (coq_lor p0 q0)
       | XO q0 -> XO (coq_lor p0 q0)
       | XH -> XI p0)
    | XH -> (match q with
             | XO q0 -> XI q0
             | _ -> q)

  (** val coq_land : positive -> positive -> n **)

  let rec coq_land p q =
    match p with
    | XI p0 ->
      (match q with
       | XI q0 -> coq_Nsucc_double (coq_land p0 q0)
       | XO q0 -> coq_Ndouble (coq_land p0 q0)
       | XH -> Npos XH)
    | XO p0 ->
      (match q with
       | XI q0 -> coq_Ndouble (coq_land p0 q0)
       | XO q0 -> coq_Ndouble (coq_land p0 q0)
       | XH -> N0)
    | XH -> (match q with
             | XO _ -> N0
             | _ -> Npos XH)

  (** val shiftl : positive -> n -> positive **)

  let shiftl p = function
  | N0 -> p
  | Npos n1 -> iter (fun x -> XO x) p n1

  (** val iter_op : ('a1 -> 'a1 -> 'a1) -> positive -> 'a1 -> 'a1 **)

  let rec iter_op op p a =
    match p with
    | XI p0 -> op a (iter_op op p0 (op a a))
    | XO p0 -> iter_op op p0 (op a a)
    | XH -> a

  (** val to_nat : positive -> nat **)

  let to_nat x =
    iter_op Coq__1.add x (S O)

  (** val of_succ_nat : nat -> positive **)

  let rec of_succ_nat = function
  | O -> XH
  | S x -> succ (of_succ_nat x)
 end

module N =
 struct
  (** val succ_double : n -> n **)

  let succ_double = function
  | N0 -> Npos XH
  | Npos p -> Npos (XI p)

  (** val double : n -> n **)

  let double = function
  | N0 -> N0
  | Npos p -> Npos (XO p)

  (** val add : n -> n -> n **)

  let add n0 m =
    match n0 with
    | N0 -> m
    | Npos p -> (match m with
                 | N0 -> n0
                 | Npos q -> Npos (Coq_Pos.add p q))

  (** val sub : n -> n -> n **)

  let sub n0 m =
    match n0 with
    | N0 -> N0
    | Npos n' ->
      (match m with
       | N0 -> n0
       | Npos m' ->
         (match Coq_Pos.sub_mask n' m' with
          | Coq_Pos.IsPos p -> Npos p
          | _ -> N0))

  (** val mul : n -> n -> n **)

  let mul n0 m =
    match n0 with
    | N0 -> N0
    | Npos p -> (match m with
                 | N0 -> N0
                 | Npos q -> Npos (Coq_Pos.mul p q))

  (** val compare : n -> n -> comparison **)

  let compare n0 m =
    match n0 with
    | N0 -> (match m with
             | N0 -> Eq
             | Npos _ -> Lt)
    | Npos n' -> (match m with
                  | N0 -> Gt
                  | Npos m' -> Coq_Pos.compare n' m')

  (** val eqb : n -> n -> bool **)

  let eqb n0 m =
    match n0 with
    | N0 -> (match m with
             | N0 -> true
             | Npos _ -> false)
    | Npos p -> (match m with
                 | N0 -> false
                 | Npos q -> Coq_Pos.eqb p q)

  (** val leb : n -> n -> bool **)

  let leb x y =
    match compare x y with
    | Gt -> false
    | _ -> true

  (** val ltb : n -> n -> bool **)

  let ltb x y =
    match compare x y with
    | Lt -> true
    | _ -> false

  (** val max : n -> n -> n **)

  let max n0 n' =
    match compare n0 n' with
    | Gt -> n0
    | _ -> n'

  (** val div2 : n -> n **)

  let div2 = function
  | N0 -> N0
  | Npos p0 -> (match p0 with
                | XI p -> Npos p
                | XO p -> Npos p
                | XH -> N0)

  (** val pos_div_eucl : positive -> n -> n * n **)

  let rec pos_div_eucl a b =
    match a with
    | XI a' ->
      let (q, r) = pos_div_eucl a' b in
      let r' = succ_double r in
      if leb b r' then ((succ_double q), (sub r' b)) else ((double q), r')
    | XO a' ->
      let (q, r) = pos_div_eucl a' b in
      let r' = double r in
      if leb b r' then ((succ_double q), (sub r' b)) else ((double q), r')
    | XH ->
      (match b with
       | N0 -> (N0, (Npos XH))
       | Npos p -> (match p with
                    | XH -> ((Npos XH), N0)
                    | _ -> (N0, (Npos XH))))

  (** val div_eucl : n -> n -> n * n **)

  let div_eucl a b =
    match a with
    | N0 -> (N0, N0)
    | Npos na -> (match b with
                  | N0 -> (N0, a)
                  | Npos _ -> pos_div_eucl na b)

  (** val div : n -> n -> n **)

  let div a b =
    fst (div_eucl a b)

  (** val modulo : n -> n -> n **)

  let modulo a b =
    snd (div_eucl a b)

  (** val coq_lor : n -> n -> n **)

  let coq_lor n0 m =
    match n0 with
    | N0 -> m
    | Npos p -> (match m with
                 | N0 -> n0
                 | Npos q -> Npos (Coq_Pos.coq_lor p q))

  (** val coq_land : n -> n -> n **)

  let coq_land n0 m =
    match n0 with
    | N0 -> N0
    | Npos p -> (match m with
                 | N0 -> N0
                 | Npos q -> Coq_Pos.coq_land p q)

  (** val shiftl : n -> n -> n **)

  let shiftl a n0 =
    match a with
    | N0 -> N0
    | Npos a0 -> Npos (Coq_Pos.shiftl a0 n0)

  (** val shiftr : n -> n -> n **)

  let shiftr a = function
  | N0 -> a
  | Npos p -> Coq_Pos.iter div2 a p

  (** val to_nat : n -> nat **)

  let to_nat = function
  | N0 -> O
  | Npos p -> Coq_Pos.to_nat p

  (** val of_nat : nat -> n **)

  let of_nat = function
  | O -> N0
  | S n' -> Npos (Coq_Pos.of_succ_nat n')
 end

type ascii =
| Ascii of bool * bool * bool * bool * bool * bool * bool * bool

(** val eqb0 : ascii -> ascii -> bool **)

let eqb0 a b =
  let Ascii (a0, a1, a2, a3, a4, a5, a6, a7) = a in
  let Ascii (b0, b1, b2, b3, b4, b5, b6, b7) = b in
  if if if if if if if eqb a0 b0 then eqb a1 b1 else false
                 then eqb a2 b2
                 else false
              then eqb a3 b3
              else false
           then eqb a4 b4
           else false
        then eqb a5 b5
        else false
     then eqb a6 b6
     else false
  then eqb a7 b7
  else false

type string =
| EmptyString
| String of ascii * string

(** val eqb1 : string -> string -> bool **)

let rec eqb1 s1 s2 =
  match s1 with
  | EmptyString ->
    (match s2 with
     | EmptyString -> true
     | String (_, _) -> false)
  | String (c1, s1') ->
    (match s2 with
     | EmptyString -> false
     | String (c2, s2') -> if eqb0 c1 c2 then eqb1 s1' s2' else false)

type bytes = n list

(** val lenN : 'a1 list -> n **)

let lenN l =
  N.of_nat (length l)

(** val takeN : n -> 'a1 list -> 'a1 list **)

let takeN n0 l =
  firstn (N.to_nat n0) l

(** val dropN : n -> 'a1 list -> 'a1 list **)

let dropN n0 l =
  skipn (N.to_nat n0) l

(** val be_join : bytes -> n -> n **)

let rec be_join l acc =
  match l with
  | [] -> acc
  | b :: r ->
    be_join r
      (N.add (N.mul acc (Npos (XO (XO (XO (XO (XO (XO (XO (XO XH)))))))))) b)

(** val be : bytes -> n **)

let be l =
  be_join l N0

(** val u8b : n -> bytes **)

let u8b v =
  (N.modulo v (Npos (XO (XO (XO (XO (XO (XO (XO (XO XH)))))))))) :: []

(** val u16b : n -> bytes **)

let u16b v =
  (N.modulo (N.div v (Npos (XO (XO (XO (XO (XO (XO (XO (XO XH)))))))))) (Npos
    (XO (XO (XO (XO (XO (XO (XO (XO XH)))))))))) :: ((N.modulo v (Npos (XO
                                                       (XO (XO (XO (XO (XO
                                                       (XO (XO XH)))))))))) :: [])

(** val u32b : n -> bytes **)

let u32b v =
  (N.modulo
    (N.div v (Npos (XO (XO (XO (XO (XO (XO (XO (XO (XO (XO (XO (XO (XO (XO
      (XO (XO (XO (XO (XO (XO (XO (XO (XO (XO XH))))))))))))))))))))))))))
    (Npos (XO (XO (XO (XO (XO (XO (XO (XO XH)))))))))) :: ((N.modulo
                                                             (N.div v (Npos
                                                               (XO (XO (XO
                                                               (XO (XO (XO
                                                               (XO (XO (XO
                                                               (XO (XO (XO
                                                               (XO (XO (XO
                                                               (XO
                                                               XH))))))))))))))))))
                                                             (Npos (XO (XO
                                                             (XO (XO (XO (XO
                                                             (XO (XO
                                                             XH)))))))))) :: (
    (N.modulo (N.div v (Npos (XO (XO (XO (XO (XO (XO (XO (XO XH))))))))))
      (Npos (XO (XO (XO (XO (XO (XO (XO (XO XH)))))))))) :: ((N.modulo v
                                                               (Npos (XO (XO
                                                               (XO (XO (XO
                                                               (XO (XO (XO
                                                               XH)))))))))) :: [])))

(** val u64b : n -> bytes **)

let u64b v =
  app
    (u32b
      (N.div v (Npos (XO (XO (XO (XO (XO (XO (XO (XO (XO (XO (XO (XO (XO (XO
        (XO (XO (XO (XO (XO (XO (XO (XO (XO (XO (XO (XO (XO (XO (XO (XO (XO
        (XO XH)))))))))))))))))))))))))))))))))))
    (u32b
      (N.modulo v (Npos (XO (XO (XO (XO (XO (XO (XO (XO (XO (XO (XO (XO (XO
        (XO (XO (XO (XO (XO (XO (XO (XO (XO (XO (XO (XO (XO (XO (XO (XO (XO
        (XO (XO XH)))))))))))))))))))))))))))))))))))

(** val pOW16 : n **)

let pOW16 =
  Npos (XO (XO (XO (XO (XO (XO (XO (XO (XO (XO (XO (XO (XO (XO (XO (XO
    XH))))))))))))))))

(** val pOW64 : n **)

let pOW64 =
  Npos (XO (XO (XO (XO (XO (XO (XO (XO (XO (XO (XO (XO (XO (XO (XO (XO (XO
    (XO (XO (XO (XO (XO (XO (XO (XO (XO (XO (XO (XO (XO (XO (XO (XO (XO (XO
    (XO (XO (XO (XO (XO (XO (XO (XO (XO (XO (XO (XO (XO (XO (XO (XO (XO (XO
    (XO (XO (XO (XO (XO (XO (XO (XO (XO (XO (XO
    XH))))))))))))))))))))))))))))))))))))))))))))))))))))))))))))))))

(** val nth_opt : nat -> 'a1 list -> 'a1 option **)

let rec nth_opt n0 = function
| [] -> None
| x :: r -> (match n0 with
             | O -> Some x
             | S n' -> nth_opt n' r)

(** val nthN : n -> 'a1 list -> 'a1 option **)

let nthN n0 l =
  nth_opt (N.to_nat n0) l

(** val zeros : nat -> bytes **)

let rec zeros = function
| O -> []
| S n' -> N0 :: (zeros n')

(** val ascii_lower : n -> n **)

let ascii_lower b =
  if (&&) (N.leb (Npos (XI (XO (XO (XO (XO (XO XH))))))) b)
       (N.leb b (Npos (XO (XI (XO (XI (XI (XO XH))))))))
  then N.add b (Npos (XO (XO (XO (XO (XO XH))))))
  else b

(** val is_digit : n -> bool **)

let is_digit b =
  (&&) (N.leb (Npos (XO (XO (XO (XO (XI XH)))))) b)
    (N.leb b (Npos (XI (XO (XO (XI (XI XH)))))))

(** val is_upper : n -> bool **)

let is_upper b =
  (&&) (N.leb (Npos (XI (XO (XO (XO (XO (XO XH))))))) b)
    (N.leb b (Npos (XO (XI (XO (XI (XI (XO XH))))))))

(** val is_lower : n -> bool **)

let is_lower b =
  (&&) (N.leb (Npos (XI (XO (XO (XO (XO (XI XH))))))) b)
    (N.leb b (Npos (XO (XI (XO (XI (XI (XI XH))))))))

(** val is_alnum : n -> bool **)

let is_alnum b =
  (||) ((||) (is_digit b) (is_upper b)) (is_lower b)

(** val is_hexdigit : n -> bool **)

let is_hexdigit b =
  (||)
    ((||) (is_digit b)
      ((&&) (N.leb (Npos (XI (XO (XO (XO (XO (XO XH))))))) b)
        (N.leb b (Npos (XO (XI (XI (XO (XO (XO XH))))))))))
    ((&&) (N.leb (Npos (XI (XO (XO (XO (XO (XI XH))))))) b)
      (N.leb b (Npos (XO (XI (XI (XO (XO (XI XH)))))))))

(** val list_eqb : ('a1 -> 'a1 -> bool) -> 'a1 list -> 'a1 list -> bool **)

let rec list_eqb eqb2 a b =
  match a with
  | [] -> (match b with
           | [] -> true
           | _ :: _ -> false)
  | x :: a' ->
    (match b with
     | [] -> false
     | y :: b' -> (&&) (eqb2 x y) (list_eqb eqb2 a' b'))

(** val bytes_eqb : n list -> n list -> bool **)

let bytes_eqb =
  list_eqb N.eqb

type etag =
| ENotEnoughBytes
| ETooManyBytes
| EDnsPacketTooBig
| EOpcode
| EZNotZeroes
| ERCode
| EType
| EClass
| EQType
| EQClass
| EUtf8Error
| ELabelEmpty
| ELabelLength
| EDomainNameLength
| ENotYetImplemented
| EOffset
| EAClass
| EWKSClass
| ETXTEmpty
| EAFSDBSubtype
| EPSDNAddressError
| EISDNIllegalChar
| EISDNIllegalCharSA
| EGPOS
| EAAAAClass
| EOPTDomainName
| EOPTZero
| EEDNSOptionCode
| EIpv4Prefix
| EIpv4Mask
| EIpv6Prefix
| EIpv6Mask
| EAPLClass
| EServerCookieLength
| EEcsAddressNumber
| EEcsTooBigIpv4Address
| EEcsTooBigIpv6Address
| ECookieLength
| ESSHFPAlgorithm
| ESSHFPType
| EAlgorithmType
| EDigestType
| EDNSKEYZeroFlags
| EDNSKEYProtocol
| EMaxRecursion
| EEndlessRecursion
| ERemainingBytes
| EPaddingZero
| EPaddingLength
| ETagEmpty
| ETagIllegalChar
| EECHLengthMismatch
| ESVCBClass
| ESVCBDuplicateKey
| XString
| XLength
| XNotEnoughBytes
| XCompression
| XMaxRecursion
| XAPLAddressLength
| EEmptyVec

type err = etag * n list

type site =
| SReadOverflow
| SU8Index
| SGetUint
| SCopyIpv4
| SCopyIpv6
| SCookieClient
| SCookieServer
| SPrefixIndex
| SPrefixSplit
| SPrefixShift
| SLenIndexSub
| SAddrLenIndexSub
| SSetIndex
| SPrefixSub
| SNameSliceIndex
| SEuiIndex

type 'a res =
| Ok of 'a
| Err of err
| Panic of site
| OutOfFuel

(** val in_rng : n -> n -> n -> bool **)

let in_rng lo hi b =
  (&&) (N.leb lo b) (N.leb b hi)

(** val cont : n -> bool **)

let cont b =
  in_rng (Npos (XO (XO (XO (XO (XO (XO (XO XH)))))))) (Npos (XI (XI (XI (XI
    (XI (XI (XO XH)))))))) b

(** val utf8_valid_fuel : nat -> bytes -> bool **)

let rec utf8_valid_fuel fuel l =
  match fuel with
  | O -> (match l with
          | [] -> true
          | _ :: _ -> false)
  | S f ->
    (match l with
     | [] -> true
     | b0 :: r ->
       if N.ltb b0 (Npos (XO (XO (XO (XO (XO (XO (XO XH))))))))
       then utf8_valid_fuel f r
       else if in_rng (Npos (XO (XI (XO (XO (XO (XO (XI XH)))))))) (Npos (XI
                 (XI (XI (XI (XI (XO (XI XH)))))))) b0
            then (match r with
                  | [] -> false
                  | b1 :: r' -> (&&) (cont b1) (utf8_valid_fuel f r'))
            else if N.eqb b0 (Npos (XO (XO (XO (XO (XO (XI (XI XH))))))))
                 then (match r with
                       | [] -> false
                       | b1 :: l0 ->
                         (match l0 with
                          | [] -> false
                          | b2 :: r' ->
                            (&&)
                              ((&&)
                                (in_rng (Npos (XO (XO (XO (XO (XO (XI (XO
                                  XH)))))))) (Npos (XI (XI (XI (XI (XI (XI
                                  (XO XH)))))))) b1) (cont b2))
                              (utf8_valid_fuel f r')))
                 else if (||)
                           (in_rng (Npos (XI (XO (XO (XO (XO (XI (XI
                             XH)))))))) (Npos (XO (XO (XI (XI (XO (XI (XI
                             XH)))))))) b0)
                           (in_rng (Npos (XO (XI (XI (XI (XO (XI (XI
                             XH)))))))) (Npos (XI (XI (XI (XI (XO (XI (XI
                             XH)))))))) b0)
                      then (match r with
                            | [] -> false
                            | b1 :: l0 ->
                              (match l0 with
                               | [] -> false
                               | b2 :: r' ->
                                 (&&) ((&&) (cont b1) (cont b2))
                                   (utf8_valid_fuel f r')))
                      else if N.eqb b0 (Npos (XI (XO (XI (XI (XO (XI (XI
                                XH))))))))
                           then (match r with
                                 | [] -> false
                                 | b1 :: l0 ->
                                   (match l0 with
                                    | [] -> false
                                    | b2 :: r' ->
                                      (&&)
                                        ((&&)
                                          (in_rng (Npos (XO (XO (XO (XO (XO
                                            (XO (XO XH)))))))) (Npos (XI (XI
                                            (XI (XI (XI (XO (XO XH)))))))) b1)
                                          (cont b2)) (utf8_valid_fuel f r')))
                           else if N.eqb b0 (Npos (XO (XO (XO (XO (XI (XI (XI
                                     XH))))))))
                                then (match r with
                                      | [] -> false
                                      | b1 :: l0 ->
                                        (match l0 with
                                         | [] -> false
                                         | b2 :: l1 ->
                                           (match l1 with
                                            | [] -> false
                                            | b3 :: r' ->
                                              (&&)
                                                ((&&)
                                                  ((&&)
                                                    (in_rng (Npos (XO (XO (XO
                                                      (XO (XI (XO (XO
                                                      XH)))))))) (Npos (XI
                                                      (XI (XI (XI (XI (XI (XO
                                                      XH)))))))) b1)
                                                    (cont b2)) (cont b3))
                                                (utf8_valid_fuel f r'))))
                                else if in_rng (Npos (XI (XO (XO (XO (XI (XI
                                          (XI XH)))))))) (Npos (XI (XI (XO
                                          (XO (XI (XI (XI XH)))))))) b0
                                     then (match r with
                                           | [] -> false
                                           | b1 :: l0 ->
                                             (match l0 with
                                              | [] -> false
                                              | b2 :: l1 ->
                                                (match l1 with
                                                 | [] -> false
                                                 | b3 :: r' ->
                                                   (&&)
                                                     ((&&)
                                                       ((&&) (cont b1)
                                                         (cont b2)) (cont b3))
                                                     (utf8_valid_fuel f r'))))
                                     else if N.eqb b0 (Npos (XO (XO (XI (XO
                                               (XI (XI (XI XH))))))))
                                          then (match r with
                                                | [] -> false
                                                | b1 :: l0 ->
                                                  (match l0 with
                                                   | [] -> false
                                                   | b2 :: l1 ->
                                                     (match l1 with
                                                      | [] -> false
                                                      | b3 :: r' ->
                                                        (&&)
                                                          ((&&)
                                                            ((&&)
                                                              (in_rng (Npos
                                                                (XO (XO (XO
                                                                (XO (XO (XO
                                                                (XO
                                                                XH))))))))
                                                                (Npos (XI (XI
                                                                (XI (XI (XO
                                                                (XO (XO
                                                                XH)))))))) b1)
                                                              (cont b2))
                                                            (cont b3))
                                                          (utf8_valid_fuel f
                                                            r'))))
                                          else false)

(** val utf8_valid : bytes -> bool **)

let utf8_valid l =
  utf8_valid_fuel (length l) l

type cmp =
| CLt
| CLe
| CGt
| CGe
| CEq
| CNe

(** val cmp_apply : cmp -> n -> n -> bool **)

let cmp_apply c a b =
  match c with
  | CLt -> N.ltb a b
  | CLe -> N.leb a b
  | CGt -> N.ltb b a
  | CGe -> N.leb b a
  | CEq -> N.eqb a b
  | CNe -> negb (N.eqb a b)

(** val dOMAIN_NAME_MAX_RECURSION : n **)

let dOMAIN_NAME_MAX_RECURSION =
  Npos (XO (XO (XO (XO XH))))

(** val dOMAIN_NAME_MAX_LENGTH : n **)

let dOMAIN_NAME_MAX_LENGTH =
  Npos (XI (XI (XI (XI (XI (XI (XI XH)))))))

(** val lABEL_MAX_LENGTH : n **)

let lABEL_MAX_LENGTH =
  Npos (XO (XO (XO (XO (XO (XO XH))))))

(** val mAXIMUM_DNS_PACKET_SIZE : n **)

let mAXIMUM_DNS_PACKET_SIZE =
  Npos (XO (XO (XO (XO (XO (XO (XO (XO (XO (XO (XO (XO (XO (XO (XO (XO
    XH))))))))))))))))

(** val dEC_COMPRESSION_BITS : n **)

let dEC_COMPRESSION_BITS =
  Npos (XO (XO (XO (XO (XO (XO (XI XH)))))))

(** val dEC_COMPRESSION_BITS_REV : n **)

let dEC_COMPRESSION_BITS_REV =
  Npos (XI (XI (XI (XI (XI XH)))))

(** val eNC_MAX_OFFSET : n **)

let eNC_MAX_OFFSET =
  Npos (XI (XI (XI (XI (XI (XI (XI (XI (XI (XI (XI (XI (XI XH)))))))))))))

(** val eNC_COMPRESSION_BITS : n **)

let eNC_COMPRESSION_BITS =
  Npos (XO (XO (XO (XO (XO (XO (XO (XO (XO (XO (XO (XO (XO (XO (XI
    XH)))))))))))))))

(** val cLIENT_COOKIE_LENGTH : n **)

let cLIENT_COOKIE_LENGTH =
  Npos (XO (XO (XO XH)))

(** val mINIMUM_SERVER_COOKIE_LENGTH : n **)

let mINIMUM_SERVER_COOKIE_LENGTH =
  Npos (XO (XO (XO XH)))

(** val mAXIMUM_SERVER_COOKIE_LENGTH : n **)

let mAXIMUM_SERVER_COOKIE_LENGTH =
  Npos (XO (XO (XO (XO (XO XH)))))

(** val mINIMUM_COOKIE_LENGTH : n **)

let mINIMUM_COOKIE_LENGTH =
  Npos (XO (XO (XO (XO XH))))

(** val mAXIMUM_COOKIE_LENGTH : n **)

let mAXIMUM_COOKIE_LENGTH =
  Npos (XO (XO (XO (XI (XO XH)))))

(** val aPL_NEGATION_MASK : n **)

let aPL_NEGATION_MASK =
  Npos (XO (XO (XO (XO (XO (XO (XO XH)))))))

(** val aDDRESS_LENGTH_MASK : n **)

let aDDRESS_LENGTH_MASK =
  Npos (XI (XI (XI (XI (XI (XI XH))))))

(** val eDNS_DNSSEC_MASK : n **)

let eDNS_DNSSEC_MASK =
  Npos (XO (XO (XO (XO (XO (XO (XO XH)))))))

(** val dNSKEY_ZERO_MASK : n **)

let dNSKEY_ZERO_MASK =
  Npos (XO (XI (XI (XI (XI (XI (XI (XI (XO (XI (XI (XI (XI (XI (XI
    XH)))))))))))))))

(** val pREFIX_MASK : n **)

let pREFIX_MASK =
  Npos (XI (XI (XI (XI (XI (XI (XI XH)))))))

(** val oP_read : cmp **)

let oP_read =
  CLe

(** val oP_bytes : cmp **)

let oP_bytes =
  CLe

(** val oP_check_label : cmp **)

let oP_check_label =
  CLt

(** val oP_append_label : cmp **)

let oP_append_label =
  CLe

(** val oP_dec_maxrec : cmp **)

let oP_dec_maxrec =
  CGt

(** val oP_dns_min : cmp **)

let oP_dns_min =
  CLt

(** val dNS_MIN_LENGTH : n **)

let dNS_MIN_LENGTH =
  Npos (XO (XO (XI XH)))

(** val oP_dns_max : cmp **)

let oP_dns_max =
  CGt

(** val oP_compress_offset : cmp **)

let oP_compress_offset =
  CLt

(** val oP_compress_rec : cmp **)

let oP_compress_rec =
  CGe

(** val oP_merge_rec : cmp **)

let oP_merge_rec =
  CGt

(** val oP_index_offset : cmp **)

let oP_index_offset =
  CLe

(** val oP_string_len : cmp **)

let oP_string_len =
  CGt

(** val sTRING_MAX : n **)

let sTRING_MAX =
  Npos (XI (XI (XI (XI (XI (XI (XI XH)))))))

(** val oP_ipv4_size : cmp **)

let oP_ipv4_size =
  CLt

(** val iPV4_SIZE : n **)

let iPV4_SIZE =
  Npos (XO (XO XH))

(** val oP_ipv6_size : cmp **)

let oP_ipv6_size =
  CLt

(** val iPV6_SIZE : n **)

let iPV6_SIZE =
  Npos (XO (XO (XO (XO XH))))

(** val iPV4_BITS : n **)

let iPV4_BITS =
  Npos (XO (XO (XO (XO (XO XH)))))

(** val iPV6_BITS : n **)

let iPV6_BITS =
  Npos (XO (XO (XO (XO (XO (XO (XO XH)))))))

(** val oP_apl_len : cmp **)

let oP_apl_len =
  CLt

(** val oP_enc_prefix4 : cmp **)

let oP_enc_prefix4 =
  CLt

(** val eNC_PREFIX_STEP4 : n **)

let eNC_PREFIX_STEP4 =
  Npos (XO (XO (XO XH)))

(** val oP_enc_prefix6 : cmp **)

let oP_enc_prefix6 =
  CLt

(** val eNC_PREFIX_STEP6 : n **)

let eNC_PREFIX_STEP6 =
  Npos (XO (XO (XO XH)))

(** val cOOKIE_DEC_RANGE_INCL : bool **)

let cOOKIE_DEC_RANGE_INCL =
  true

(** val cOOKIE_NEW_RANGE_INCL : bool **)

let cOOKIE_NEW_RANGE_INCL =
  true

(** val dEC_FLAG_qr : (n * n) * n **)

let dEC_FLAG_qr =
  ((N0, (Npos (XO (XO (XO (XO (XO (XO (XO XH))))))))), N0)

(** val dEC_FLAG_opcode : (n * n) * n **)

let dEC_FLAG_opcode =
  ((N0, (Npos (XO (XO (XO (XI (XI (XI XH)))))))), (Npos (XI XH)))

(** val dEC_FLAG_aa : (n * n) * n **)

let dEC_FLAG_aa =
  ((N0, (Npos (XO (XO XH)))), N0)

(** val dEC_FLAG_tc : (n * n) * n **)

let dEC_FLAG_tc =
  ((N0, (Npos (XO XH))), N0)

(** val dEC_FLAG_rd : (n * n) * n **)

let dEC_FLAG_rd =
  ((N0, (Npos XH)), N0)

(** val dEC_FLAG_ra : (n * n) * n **)

let dEC_FLAG_ra =
  (((Npos XH), (Npos (XO (XO (XO (XO (XO (XO (XO XH))))))))), N0)

(** val dEC_FLAG_z : (n * n) * n **)

let dEC_FLAG_z =
  (((Npos XH), (Npos (XO (XO (XO (XO (XO (XO XH)))))))), N0)

(** val dEC_FLAG_ad : (n * n) * n **)

let dEC_FLAG_ad =
  (((Npos XH), (Npos (XO (XO (XO (XO (XO XH))))))), N0)

(** val dEC_FLAG_cd : (n * n) * n **)

let dEC_FLAG_cd =
  (((Npos XH), (Npos (XO (XO (XO (XO XH)))))), N0)

(** val dEC_FLAG_rcode : (n * n) * n **)

let dEC_FLAG_rcode =
  (((Npos XH), (Npos (XI (XI (XI XH))))), N0)

(** val eNC_FLAG_qr : (n * n) * n **)

let eNC_FLAG_qr =
  ((N0, (Npos (XO (XO (XO (XO (XO (XO (XO XH))))))))), N0)

(** val eNC_FLAG_opcode : (n * n) * n **)

let eNC_FLAG_opcode =
  ((N0, N0), (Npos (XI XH)))

(** val eNC_FLAG_aa : (n * n) * n **)

let eNC_FLAG_aa =
  ((N0, (Npos (XO (XO XH)))), N0)

(** val eNC_FLAG_tc : (n * n) * n **)

let eNC_FLAG_tc =
  ((N0, (Npos (XO XH))), N0)

(** val eNC_FLAG_rd : (n * n) * n **)

let eNC_FLAG_rd =
  ((N0, (Npos XH)), N0)

(** val eNC_FLAG_ra : (n * n) * n **)

let eNC_FLAG_ra =
  (((Npos XH), (Npos (XO (XO (XO (XO (XO (XO (XO XH))))))))), N0)

(** val eNC_FLAG_ad : (n * n) * n **)

let eNC_FLAG_ad =
  (((Npos XH), (Npos (XO (XO (XO (XO (XO XH))))))), N0)

(** val eNC_FLAG_cd : (n * n) * n **)

let eNC_FLAG_cd =
  (((Npos XH), (Npos (XO (XO (XO (XO XH)))))), N0)

(** val eNC_FLAG_rcode : (n * n) * n **)

let eNC_FLAG_rcode =
  (((Npos XH), N0), N0)

(** val dEC_OPT_extend_rcode : n * n **)

let dEC_OPT_extend_rcode =
  ((Npos (XO (XO (XO (XI XH))))), (Npos (XI (XI (XI (XI (XI (XI (XI
    XH)))))))))

(** val dEC_OPT_version : n * n **)

let dEC_OPT_version =
  ((Npos (XO (XO (XO (XO XH))))), (Npos (XI (XI (XI (XI (XI (XI (XI
    XH)))))))))

(** val dEC_OPT_flags_hi : n * n **)

let dEC_OPT_flags_hi =
  ((Npos (XO (XO (XO XH)))), (Npos (XI (XI (XI (XI (XI (XI (XI XH)))))))))

(** val dEC_OPT_flags_lo : n **)

let dEC_OPT_flags_lo =
  Npos (XI (XI (XI (XI (XI (XI (XI XH)))))))

(** val eNC_OPT_extend_rcode_shift : n **)

let eNC_OPT_extend_rcode_shift =
  Npos (XO (XO (XO (XI XH))))

(** val eNC_OPT_version_shift : n **)

let eNC_OPT_version_shift =
  Npos (XO (XO (XO (XO XH))))

(** val eNC_OPT_dnssec_shift : n **)

let eNC_OPT_dnssec_shift =
  Npos (XO (XO (XO XH)))

type enumid =
| EnAFSDBSubtype
| EnSSHFPAlgorithm
| EnSSHFPType
| EnAlgorithmType
| EnDigestType

type fk =
| FU8
| FU16
| FU32
| FU64
| FName
| FStr
| FRest
| FRestUtf8
| FIp4
| FIp6
| FEnum8 of enumid * etag
| FEnum16 of enumid * etag
| FStrPsdn
| FStrIsdn
| FOptStrSa
| FStrGpos
| FTag
| FStrs1
| FDnskeyFlags
| FConst8 of n * etag
| FUnknown

type classrule =
| CKAny
| CKIn of etag
| CKNone

type encclass =
| ECField
| ECIn

type special =
| SpOpt
| SpApl
| SpSvcb
| SpHttps

type reader =
| RdFields of classrule * (string * fk) list
| RdSpecial of special

type writer =
| WrFields of encclass * (string * fk) list
| WrSpecial of special

type label = bytes

type name = label list

type fv =
| VN of n
| VName of name
| VBytes of bytes
| VStrs of bytes list
| VOptStr of bytes option

(** val check_label : bytes -> unit res **)

let check_label l =
  let n0 = lenN l in
  if N.eqb n0 N0
  then Err (ELabelEmpty, [])
  else if cmp_apply oP_check_label n0 lABEL_MAX_LENGTH
       then Ok ()
       else Err (ELabelLength, (n0 :: []))

(** val label_fold : label -> label **)

let label_fold l =
  map ascii_lower l

(** val label_eqb : label -> label -> bool **)

let label_eqb a b =
  bytes_eqb (label_fold a) (label_fold b)

(** val name_eqb : name -> name -> bool **)

let name_eqb a b =
  list_eqb label_eqb a b

(** val hash_feed : name -> n list **)

let hash_feed n0 =
  (lenN n0) :: (concat
                 (map (fun l ->
                   app (label_fold l) ((Npos (XI (XI (XI (XI (XI (XI (XI
                     XH)))))))) :: [])) n0))

(** val labels_sum : name -> n **)

let rec labels_sum = function
| [] -> N0
| l :: r -> N.add (lenN l) (labels_sum r)

(** val name_len : name -> n **)

let name_len n0 = match n0 with
| [] -> Npos XH
| _ :: _ -> N.add (lenN n0) (labels_sum n0)

(** val append_label : name -> label -> name res **)

let append_label n0 l =
  let ll = lenN l in
  let dl =
    match n0 with
    | [] -> N.add ll (Npos XH)
    | _ :: _ -> N.add (N.add (name_len n0) ll) (Npos XH)
  in
  if cmp_apply oP_append_label dOMAIN_NAME_MAX_LENGTH dl
  then Err (EDomainNameLength, (dl :: []))
  else Ok (app n0 (l :: []))

(** val dOT : n **)

let dOT =
  Npos (XO (XI (XI (XI (XO XH)))))

(** val split_dot_aux : bytes -> bytes -> bytes list **)

let rec split_dot_aux cur = function
| [] -> (rev cur) :: []
| c :: r ->
  if N.eqb c dOT
  then (rev cur) :: (split_dot_aux [] r)
  else split_dot_aux (c :: cur) r

(** val split_dot : bytes -> bytes list **)

let split_dot s =
  split_dot_aux [] s

(** val strip_suffix_dot : bytes -> bytes **)

let strip_suffix_dot s =
  match rev s with
  | [] -> s
  | c :: r -> if N.eqb c dOT then rev r else s

(** val append_all : name -> bytes list -> name res **)

let rec append_all n0 = function
| [] -> Ok n0
| l :: r ->
  (match check_label l with
   | Ok _ -> (match append_label n0 l with
              | Ok n' -> append_all n' r
              | x -> x)
   | Err e -> Err e
   | Panic s -> Panic s
   | OutOfFuel -> OutOfFuel)

(** val name_from_str : bytes -> name res **)

let name_from_str s =
  let rel = strip_suffix_dot s in
  if bytes_eqb s (dOT :: []) then Ok [] else append_all [] (split_dot rel)

(** val name_display : name -> bytes **)

let name_display n0 = match n0 with
| [] -> dOT :: []
| _ :: _ -> concat (map (fun l -> app l (dOT :: [])) n0)

type addr = { a_fam : n; a_oct : bytes }

(** val check_addr_bits : n -> etag -> etag -> bytes -> n -> unit res **)

let check_addr_bits bits e_prefix e_mask octets prefix =
  if N.ltb bits prefix
  then Err (e_prefix, (prefix :: []))
  else if N.eqb bits prefix
       then Ok ()
       else let index = N.div prefix (Npos (XO (XO (XO XH)))) in
            let remain = N.modulo prefix (Npos (XO (XO (XO XH)))) in
            (match nthN index octets with
             | Some o ->
               if N.leb (Npos (XO (XO (XO XH)))) remain
               then Panic SPrefixShift
               else if negb
                         (N.eqb (N.coq_land o (N.shiftr pREFIX_MASK remain))
                           N0)
                    then Err (e_mask, (prefix :: []))
                    else if N.ltb (lenN octets) (N.add index (Npos XH))
                         then Panic SPrefixSplit
                         else if forallb (N.eqb N0)
                                   (dropN (N.add index (Npos XH)) octets)
                              then Ok ()
                              else Err (e_mask, (prefix :: []))
             | None -> Panic SPrefixIndex)

(** val check_prefix : addr -> n -> unit res **)

let check_prefix a prefix =
  if N.eqb a.a_fam (Npos XH)
  then check_addr_bits iPV4_BITS EIpv4Prefix EIpv4Mask a.a_oct prefix
  else check_addr_bits iPV6_BITS EIpv6Prefix EIpv6Mask a.a_oct prefix

type ecs = { e_src : n; e_scope : n; e_addr : addr }

(** val ecs_prefix : ecs -> n **)

let ecs_prefix e =
  N.max e.e_src e.e_scope

(** val ecs_check : ecs -> unit res **)

let ecs_check e =
  check_prefix e.e_addr (ecs_prefix e)

(** val ecs_new : n -> n -> addr -> ecs res **)

let ecs_new src scope a =
  let e = { e_src = src; e_scope = scope; e_addr = a } in
  (match ecs_check e with
   | Ok _ -> Ok e
   | Err x -> Err x
   | Panic s -> Panic s
   | OutOfFuel -> OutOfFuel)

(** val ecs_setter : (ecs -> ecs) -> ecs -> ecs * unit res **)

let ecs_setter upd e =
  let e' = upd e in
  (match ecs_check e' with
   | Ok _ -> (e', (Ok ()))
   | x -> (e, x))

(** val ecs_set_src : n -> ecs -> ecs * unit res **)

let ecs_set_src v =
  ecs_setter (fun e -> { e_src = v; e_scope = e.e_scope; e_addr = e.e_addr })

(** val ecs_set_scope : n -> ecs -> ecs * unit res **)

let ecs_set_scope v =
  ecs_setter (fun e -> { e_src = e.e_src; e_scope = v; e_addr = e.e_addr })

(** val ecs_set_addr : addr -> ecs -> ecs * unit res **)

let ecs_set_addr a =
  ecs_setter (fun e -> { e_src = e.e_src; e_scope = e.e_scope; e_addr = a })

type apitem = { i_prefix : n; i_neg : bool; i_addr : addr }

(** val apitem_new : n -> bool -> addr -> apitem res **)

let apitem_new prefix neg a =
  match check_prefix a prefix with
  | Ok _ -> Ok { i_prefix = prefix; i_neg = neg; i_addr = a }
  | Err x -> Err x
  | Panic s -> Panic s
  | OutOfFuel -> OutOfFuel

(** val apitem_set_prefix : n -> apitem -> apitem * unit res **)

let apitem_set_prefix p i =
  match check_prefix i.i_addr p with
  | Ok _ -> ({ i_prefix = p; i_neg = i.i_neg; i_addr = i.i_addr }, (Ok ()))
  | x -> (i, x)

(** val apitem_set_addr : addr -> apitem -> apitem * unit res **)

let apitem_set_addr a i =
  match check_prefix a i.i_prefix with
  | Ok _ -> ({ i_prefix = i.i_prefix; i_neg = i.i_neg; i_addr = a }, (Ok ()))
  | x -> (i, x)

type cookie = { c_client : bytes; c_server : bytes option }

(** val server_len_ok : n -> bool **)

let server_len_ok n0 =
  (&&) (N.leb mINIMUM_SERVER_COOKIE_LENGTH n0)
    (if cOOKIE_NEW_RANGE_INCL
     then N.leb n0 mAXIMUM_SERVER_COOKIE_LENGTH
     else N.ltb n0 mAXIMUM_SERVER_COOKIE_LENGTH)

(** val cookie_set_server : bytes option -> cookie -> cookie * unit res **)

let cookie_set_server o c =
  match o with
  | Some s ->
    let n0 = lenN s in
    if server_len_ok n0
    then ({ c_client = c.c_client; c_server = (Some s) }, (Ok ()))
    else (c, (Err (EServerCookieLength, (n0 :: []))))
  | None -> ({ c_client = c.c_client; c_server = None }, (Ok ()))

(** val cookie_new : bytes -> bytes option -> cookie res **)

let cookie_new client o =
  let c = { c_client = client; c_server = None } in
  let (c', r) = cookie_set_server o c in
  (match r with
   | Ok _ -> Ok c'
   | Err e -> Err e
   | Panic s -> Panic s
   | OutOfFuel -> OutOfFuel)

(** val tag_try_from : bytes -> bytes res **)

let tag_try_from s = match s with
| [] -> Err (ETagEmpty, [])
| _ :: _ ->
  if forallb is_alnum s
  then Ok (map ascii_lower s)
  else Err (ETagIllegalChar, [])

(** val psdn_try_from : bytes -> bytes res **)

let psdn_try_from s =
  if forallb is_digit s then Ok s else Err (EPSDNAddressError, [])

(** val isdn_try_from : bytes -> bytes res **)

let isdn_try_from s =
  if forallb is_digit s then Ok s else Err (EISDNIllegalChar, [])

(** val sa_try_from : bytes -> bytes res **)

let sa_try_from s =
  if forallb is_hexdigit s then Ok s else Err (EISDNIllegalCharSA, [])

(** val nonempty_try_from : 'a1 list -> 'a1 list res **)

let nonempty_try_from l = match l with
| [] -> Err (EEmptyVec, [])
| _ :: _ -> Ok l

type ednsopt =
| OEcs of ecs
| OCookie of cookie
| OPadding of n

type svcparam =
| PMandatory of n list
| PAlpn of bytes list
| PNoDefaultAlpn
| PPort of n
| PIpv4Hint of n list
| PEch of bytes
| PIpv6Hint of bytes list
| PPrivate of n * bytes
| PKey65535

(** val param_key : svcparam -> n **)

let param_key = function
| PMandatory _ -> N0
| PAlpn _ -> Npos XH
| PNoDefaultAlpn -> Npos (XO XH)
| PPort _ -> Npos (XI XH)
| PIpv4Hint _ -> Npos (XO (XO XH))
| PEch _ -> Npos (XI (XO XH))
| PIpv6Hint _ -> Npos (XO (XI XH))
| PPrivate (n0, _) -> n0
| PKey65535 ->
  Npos (XI (XI (XI (XI (XI (XI (XI (XI (XI (XI (XI (XI (XI (XI (XI
    XH)))))))))))))))

type rdata =
| RFields of fv list
| ROpt of n * n * n * bool * ednsopt list
| RApl of apitem list
| RSvcb of n * name * svcparam list

type rr = { r_type : n; r_name : name; r_class : n; r_ttl : n; r_data : rdata }

type flags = { f_qr : bool; f_opcode : n; f_aa : bool; f_tc : bool;
               f_rd : bool; f_ra : bool; f_ad : bool; f_cd : bool; f_rcode : 
               n }

type question = { q_name : name; q_type : n; q_class : n }

type dns = { m_id : n; m_flags : flags; m_qd : question list; m_an : 
             rr list; m_ns : rr list; m_ar : rr list }

(** val set_insert : svcparam -> svcparam list -> svcparam list * bool **)

let rec set_insert p s = match s with
| [] -> ((p :: []), true)
| q :: r ->
  if N.ltb (param_key p) (param_key q)
  then ((p :: s), true)
  else if N.eqb (param_key p) (param_key q)
       then (s, false)
       else let (r', b) = set_insert p r in ((q :: r'), b)

(** val opcode_width : n **)

let opcode_width =
  Npos (XO (XO (XO XH)))

(** val opcode_table : (string * n) list **)

let opcode_table =
  ((String ((Ascii (true, false, false, false, true, false, true, false)),
    (String ((Ascii (true, false, true, false, true, true, true, false)),
    (String ((Ascii (true, false, true, false, false, true, true, false)),
    (String ((Ascii (false, true, false, false, true, true, true, false)),
    (String ((Ascii (true, false, false, true, true, true, true, false)),
    EmptyString)))))))))), N0) :: (((String ((Ascii (true, false, false,
    true, false, false, true, false)), (String ((Ascii (true, false, false,
    false, true, false, true, false)), (String ((Ascii (true, false, true,
    false, true, true, true, false)), (String ((Ascii (true, false, true,
    false, false, true, true, false)), (String ((Ascii (false, true, false,
    false, true, true, true, false)), (String ((Ascii (true, false, false,
    true, true, true, true, false)), EmptyString)))))))))))), (Npos
    XH)) :: (((String ((Ascii (true, true, false, false, true, false, true,
    false)), (String ((Ascii (false, false, true, false, true, true, true,
    false)), (String ((Ascii (true, false, false, false, false, true, true,
    false)), (String ((Ascii (false, false, true, false, true, true, true,
    false)), (String ((Ascii (true, false, true, false, true, true, true,
    false)), (String ((Ascii (true, true, false, false, true, true, true,
    false)), EmptyString)))))))))))), (Npos (XO XH))) :: (((String ((Ascii
    (false, true, true, true, false, false, true, false)), (String ((Ascii
    (true, true, true, true, false, true, true, false)), (String ((Ascii
    (false, false, true, false, true, true, true, false)), (String ((Ascii
    (true, false, false, true, false, true, true, false)), (String ((Ascii
    (false, true, true, false, false, true, true, false)), (String ((Ascii
    (true, false, false, true, true, true, true, false)),
    EmptyString)))))))))))), (Npos (XO (XO XH)))) :: (((String ((Ascii (true,
    false, true, false, true, false, true, false)), (String ((Ascii (false,
    false, false, false, true, true, true, false)), (String ((Ascii (false,
    false, true, false, false, true, true, false)), (String ((Ascii (true,
    false, false, false, false, true, true, false)), (String ((Ascii (false,
    false, true, false, true, true, true, false)), (String ((Ascii (true,
    false, true, false, false, true, true, false)), EmptyString)))))))))))),
    (Npos (XI (XO XH)))) :: (((String ((Ascii (false, false, true, false,
    false, false, true, false)), (String ((Ascii (true, true, false, false,
    true, false, true, false)), (String ((Ascii (true, true, true, true,
    false, false, true, false)), EmptyString)))))), (Npos (XO (XI
    XH)))) :: [])))))

(** val rCode_width : n **)

let rCode_width =
  Npos (XO (XO (XO XH)))

(** val rCode_table : (string * n) list **)

let rCode_table =
  ((String ((Ascii (false, true, true, true, false, false, true, false)),
    (String ((Ascii (true, true, true, true, false, true, true, false)),
    (String ((Ascii (true, false, true, false, false, false, true, false)),
    (String ((Ascii (false, true, false, false, true, true, true, false)),
    (String ((Ascii (false, true, false, false, true, true, true, false)),
    (String ((Ascii (true, true, true, true, false, true, true, false)),
    (String ((Ascii (false, true, false, false, true, true, true, false)),
    EmptyString)))))))))))))), N0) :: (((String ((Ascii (false, true, true,
    false, false, false, true, false)), (String ((Ascii (true, true, true,
    true, false, true, true, false)), (String ((Ascii (false, true, false,
    false, true, true, true, false)), (String ((Ascii (true, false, true,
    true, false, true, true, false)), (String ((Ascii (true, false, true,
    false, false, false, true, false)), (String ((Ascii (false, true, false,
    false, true, true, true, false)), (String ((Ascii (false, true, false,
    false, true, true, true, false)), EmptyString)))))))))))))), (Npos
    XH)) :: (((String ((Ascii (true, true, false, false, true, false, true,
    false)), (String ((Ascii (true, false, true, false, false, true, true,
    false)), (String ((Ascii (false, true, false, false, true, true, true,
    false)), (String ((Ascii (false, true, true, false, true, true, true,
    false)), (String ((Ascii (false, true, true, false, false, false, true,
    false)), (String ((Ascii (true, false, false, false, false, true, true,
    false)), (String ((Ascii (true, false, false, true, false, true, true,
    false)), (String ((Ascii (false, false, true, true, false, true, true,
    false)), EmptyString)))))))))))))))), (Npos (XO XH))) :: (((String
    ((Ascii (false, true, true, true, false, false, true, false)), (String
    ((Ascii (false, false, false, true, true, false, true, false)), (String
    ((Ascii (false, false, true, false, false, false, true, false)), (String
    ((Ascii (true, true, true, true, false, true, true, false)), (String
    ((Ascii (true, false, true, true, false, true, true, false)), (String
    ((Ascii (true, false, false, false, false, true, true, false)), (String
    ((Ascii (true, false, false, true, false, true, true, false)), (String
    ((Ascii (false, true, true, true, false, true, true, false)),
    EmptyString)))))))))))))))), (Npos (XI XH))) :: (((String ((Ascii (false,
    true, true, true, false, false, true, false)), (String ((Ascii (true,
    true, true, true, false, true, true, false)), (String ((Ascii (false,
    false, true, false, true, true, true, false)), (String ((Ascii (true,
    false, false, true, false, false, true, false)), (String ((Ascii (true,
    false, true, true, false, true, true, false)), (String ((Ascii (false,
    false, false, false, true, true, true, false)), EmptyString)))))))))))),
    (Npos (XO (XO XH)))) :: (((String ((Ascii (false, true, false, false,
    true, false, true, false)), (String ((Ascii (true, false, true, false,
    false, true, true, false)), (String ((Ascii (false, true, true, false,
    false, true, true, false)), (String ((Ascii (true, false, true, false,
    true, true, true, false)), (String ((Ascii (true, true, false, false,
    true, true, true, false)), (String ((Ascii (true, false, true, false,
    false, true, true, false)), (String ((Ascii (false, false, true, false,
    false, true, true, false)), EmptyString)))))))))))))), (Npos (XI (XO
    XH)))) :: (((String ((Ascii (true, false, false, true, true, false, true,
    false)), (String ((Ascii (false, false, false, true, true, false, true,
    false)), (String ((Ascii (false, false, true, false, false, false, true,
    false)), (String ((Ascii (true, true, true, true, false, true, true,
    false)), (String ((Ascii (true, false, true, true, false, true, true,
    false)), (String ((Ascii (true, false, false, false, false, true, true,
    false)), (String ((Ascii (true, false, false, true, false, true, true,
    false)), (String ((Ascii (false, true, true, true, false, true, true,
    false)), EmptyString)))))))))))))))), (Npos (XO (XI XH)))) :: (((String
    ((Ascii (true, false, false, true, true, false, true, false)), (String
    ((Ascii (false, false, false, true, true, false, true, false)), (String
    ((Ascii (false, true, false, false, true, false, true, false)), (String
    ((Ascii (false, true, false, false, true, false, true, false)), (String
    ((Ascii (true, true, false, false, true, false, true, false)), (String
    ((Ascii (true, false, true, false, false, true, true, false)), (String
    ((Ascii (false, false, true, false, true, true, true, false)),
    EmptyString)))))))))))))), (Npos (XI (XI XH)))) :: (((String ((Ascii
    (false, true, true, true, false, false, true, false)), (String ((Ascii
    (false, false, false, true, true, false, true, false)), (String ((Ascii
    (false, true, false, false, true, false, true, false)), (String ((Ascii
    (false, true, false, false, true, false, true, false)), (String ((Ascii
    (true, true, false, false, true, false, true, false)), (String ((Ascii
    (true, false, true, false, false, true, true, false)), (String ((Ascii
    (false, false, true, false, true, true, true, false)),
    EmptyString)))))))))))))), (Npos (XO (XO (XO XH))))) :: (((String ((Ascii
    (false, true, true, true, false, false, true, false)), (String ((Ascii
    (true, true, true, true, false, true, true, false)), (String ((Ascii
    (false, false, true, false, true, true, true, false)), (String ((Ascii
    (true, false, false, false, false, false, true, false)), (String ((Ascii
    (true, false, true, false, true, true, true, false)), (String ((Ascii
    (false, false, true, false, true, true, true, false)), (String ((Ascii
    (false, false, false, true, false, true, true, false)),
    EmptyString)))))))))))))), (Npos (XI (XO (XO XH))))) :: (((String ((Ascii
    (false, true, true, true, false, false, true, false)), (String ((Ascii
    (true, true, true, true, false, true, true, false)), (String ((Ascii
    (false, false, true, false, true, true, true, false)), (String ((Ascii
    (false, true, false, true, true, false, true, false)), (String ((Ascii
    (true, true, true, true, false, true, true, false)), (String ((Ascii
    (false, true, true, true, false, true, true, false)), (String ((Ascii
    (true, false, true, false, false, true, true, false)),
    EmptyString)))))))))))))), (Npos (XO (XI (XO XH))))) :: (((String ((Ascii
    (false, false, true, false, false, false, true, false)), (String ((Ascii
    (true, true, false, false, true, false, true, false)), (String ((Ascii
    (true, true, true, true, false, false, true, false)), (String ((Ascii
    (false, false, true, false, true, false, true, false)), (String ((Ascii
    (true, false, false, true, true, false, true, false)), (String ((Ascii
    (false, false, false, false, true, false, true, false)), (String ((Ascii
    (true, false, true, false, false, false, true, false)), (String ((Ascii
    (false, true, true, true, false, false, true, false)), (String ((Ascii
    (true, false, false, true, false, false, true, false)),
    EmptyString)))))))))))))))))), (Npos (XI (XI (XO XH))))) :: (((String
    ((Ascii (false, true, false, false, false, false, true, false)), (String
    ((Ascii (true, false, false, false, false, false, true, false)), (String
    ((Ascii (false, false, true, false, false, false, true, false)), (String
    ((Ascii (false, true, true, false, true, false, true, false)), (String
    ((Ascii (true, false, true, false, false, false, true, false)), (String
    ((Ascii (false, true, false, false, true, false, true, false)), (String
    ((Ascii (true, true, false, false, true, false, true, false)),
    EmptyString)))))))))))))), (Npos (XO (XO (XO (XO XH)))))) :: (((String
    ((Ascii (false, true, false, false, false, false, true, false)), (String
    ((Ascii (true, false, false, false, false, false, true, false)), (String
    ((Ascii (false, false, true, false, false, false, true, false)), (String
    ((Ascii (true, true, false, true, false, false, true, false)), (String
    ((Ascii (true, false, true, false, false, false, true, false)), (String
    ((Ascii (true, false, false, true, true, false, true, false)),
    EmptyString)))))))))))), (Npos (XI (XO (XO (XO XH)))))) :: (((String
    ((Ascii (false, true, false, false, false, false, true, false)), (String
    ((Ascii (true, false, false, false, false, false, true, false)), (String
    ((Ascii (false, false, true, false, false, false, true, false)), (String
    ((Ascii (false, false, true, false, true, false, true, false)), (String
    ((Ascii (true, false, false, true, false, false, true, false)), (String
    ((Ascii (true, false, true, true, false, false, true, false)), (String
    ((Ascii (true, false, true, false, false, false, true, false)),
    EmptyString)))))))))))))), (Npos (XO (XI (XO (XO XH)))))) :: (((String
    ((Ascii (false, true, false, false, false, false, true, false)), (String
    ((Ascii (true, false, false, false, false, false, true, false)), (String
    ((Ascii (false, false, true, false, false, false, true, false)), (String
    ((Ascii (true, false, true, true, false, false, true, false)), (String
    ((Ascii (true, true, true, true, false, false, true, false)), (String
    ((Ascii (false, false, true, false, false, false, true, false)), (String
    ((Ascii (true, false, true, false, false, false, true, false)),
    EmptyString)))))))))))))), (Npos (XI (XI (XO (XO XH)))))) :: (((String
    ((Ascii (false, true, false, false, false, false, true, false)), (String
    ((Ascii (true, false, false, false, false, false, true, false)), (String
    ((Ascii (false, false, true, false, false, false, true, false)), (String
    ((Ascii (false, true, true, true, false, false, true, false)), (String
    ((Ascii (true, false, false, false, false, false, true, false)), (String
    ((Ascii (true, false, true, true, false, false, true, false)), (String
    ((Ascii (true, false, true, false, false, false, true, false)),
    EmptyString)))))))))))))), (Npos (XO (XO (XI (XO XH)))))) :: (((String
    ((Ascii (false, true, false, false, false, false, true, false)), (String
    ((Ascii (true, false, false, false, false, false, true, false)), (String
    ((Ascii (false, false, true, false, false, false, true, false)), (String
    ((Ascii (true, false, false, false, false, false, true, false)), (String
    ((Ascii (false, false, true, true, false, false, true, false)), (String
    ((Ascii (true, true, true, false, false, false, true, false)),
    EmptyString)))))))))))), (Npos (XI (XO (XI (XO XH)))))) :: (((String
    ((Ascii (false, true, false, false, false, false, true, false)), (String
    ((Ascii (true, false, false, false, false, false, true, false)), (String
    ((Ascii (false, false, true, false, false, false, true, false)), (String
    ((Ascii (false, false, true, false, true, false, true, false)), (String
    ((Ascii (false, true, false, false, true, false, true, false)), (String
    ((Ascii (true, false, true, false, true, false, true, false)), (String
    ((Ascii (false, true, true, true, false, false, true, false)), (String
    ((Ascii (true, true, false, false, false, false, true, false)),
    EmptyString)))))))))))))))), (Npos (XO (XI (XI (XO XH)))))) :: (((String
    ((Ascii (false, true, false, false, false, false, true, false)), (String
    ((Ascii (true, false, false, false, false, false, true, false)), (String
    ((Ascii (false, false, true, false, false, false, true, false)), (String
    ((Ascii (true, true, false, false, false, false, true, false)), (String
    ((Ascii (true, true, true, true, false, false, true, false)), (String
    ((Ascii (true, true, true, true, false, false, true, false)), (String
    ((Ascii (true, true, false, true, false, false, true, false)), (String
    ((Ascii (true, false, false, true, false, false, true, false)), (String
    ((Ascii (true, false, true, false, false, false, true, false)),
    EmptyString)))))))))))))))))), (Npos (XI (XI (XI (XO
    XH)))))) :: [])))))))))))))))))))

(** val class_width : n **)

let class_width =
  Npos (XO (XO (XO (XO XH))))

(** val class_table : (string * n) list **)

let class_table =
  ((String ((Ascii (true, false, false, true, false, false, true, false)),
    (String ((Ascii (false, true, true, true, false, false, true, false)),
    EmptyString)))), (Npos XH)) :: (((String ((Ascii (true, true, false,
    false, false, false, true, false)), (String ((Ascii (true, true, false,
    false, true, false, true, false)), EmptyString)))), (Npos (XO
    XH))) :: (((String ((Ascii (true, true, false, false, false, false, true,
    false)), (String ((Ascii (false, false, false, true, false, false, true,
    false)), EmptyString)))), (Npos (XI XH))) :: (((String ((Ascii (false,
    false, false, true, false, false, true, false)), (String ((Ascii (true,
    true, false, false, true, false, true, false)), EmptyString)))), (Npos
    (XO (XO XH)))) :: [])))

(** val type_width : n **)

let type_width =
  Npos (XO (XO (XO (XO XH))))

(** val type_table : (string * n) list **)

let type_table =
  ((String ((Ascii (true, false, false, false, false, false, true, false)),
    EmptyString)), (Npos XH)) :: (((String ((Ascii (false, true, true, true,
    false, false, true, false)), (String ((Ascii (true, true, false, false,
    true, false, true, false)), EmptyString)))), (Npos (XO XH))) :: (((String
    ((Ascii (true, false, true, true, false, false, true, false)), (String
    ((Ascii (false, false, true, false, false, false, true, false)),
    EmptyString)))), (Npos (XI XH))) :: (((String ((Ascii (true, false, true,
    true, false, false, true, false)), (String ((Ascii (false, true, true,
    false, false, false, true, false)), EmptyString)))), (Npos (XO (XO
    XH)))) :: (((String ((Ascii (true, true, false, false, false, false,
    true, false)), (String ((Ascii (false, true, true, true, false, false,
    true, false)), (String ((Ascii (true, false, false, false, false, false,
    true, false)), (String ((Ascii (true, false, true, true, false, false,
    true, false)), (String ((Ascii (true, false, true, false, false, false,
    true, false)), EmptyString)))))))))), (Npos (XI (XO XH)))) :: (((String
    ((Ascii (true, true, false, false, true, false, true, false)), (String
    ((Ascii (true, true, true, true, false, false, true, false)), (String
    ((Ascii (true, false, false, false, false, false, true, false)),
    EmptyString)))))), (Npos (XO (XI XH)))) :: (((String ((Ascii (true,
    false, true, true, false, false, true, false)), (String ((Ascii (false,
    true, false, false, false, false, true, false)), EmptyString)))), (Npos
    (XI (XI XH)))) :: (((String ((Ascii (true, false, true, true, false,
    false, true, false)), (String ((Ascii (true, true, true, false, false,
    false, true, false)), EmptyString)))), (Npos (XO (XO (XO
    XH))))) :: (((String ((Ascii (true, false, true, true, false, false,
    true, false)), (String ((Ascii (false, true, false, false, true, false,
    true, false)), EmptyString)))), (Npos (XI (XO (XO XH))))) :: (((String
    ((Ascii (false, true, true, true, false, false, true, false)), (String
    ((Ascii (true, false, true, false, true, false, true, false)), (String
    ((Ascii (false, false, true, true, false, false, true, false)), (String
    ((Ascii (false, false, true, true, false, false, true, false)),
    EmptyString)))))))), (Npos (XO (XI (XO XH))))) :: (((String ((Ascii
    (true, true, true, false, true, false, true, false)), (String ((Ascii
    (true, true, false, true, false, false, true, false)), (String ((Ascii
    (true, true, false, false, true, false, true, false)), EmptyString)))))),
    (Npos (XI (XI (XO XH))))) :: (((String ((Ascii (false, false, false,
    false, true, false, true, false)), (String ((Ascii (false, false, true,
    false, true, false, true, false)), (String ((Ascii (false, true, false,
    false, true, false, true, false)), EmptyString)))))), (Npos (XO (XO (XI
    XH))))) :: (((String ((Ascii (false, false, false, true, false, false,
    true, false)), (String ((Ascii (true, false, false, true, false, false,
    true, false)), (String ((Ascii (false, true, true, true, false, false,
    true, false)), (String ((Ascii (false, true, true, false, false, false,
    true, false)), (String ((Ascii (true, true, true, true, false, false,
    true, false)), EmptyString)))))))))), (Npos (XI (XO (XI
    XH))))) :: (((String ((Ascii (true, false, true, true, false, false,
    true, false)), (String ((Ascii (true, false, false, true, false, false,
    true, false)), (String ((Ascii (false, true, true, true, false, false,
    true, false)), (String ((Ascii (false, true, true, false, false, false,
    true, false)), (String ((Ascii (true, true, true, true, false, false,
    true, false)), EmptyString)))))))))), (Npos (XO (XI (XI
    XH))))) :: (((String ((Ascii (true, false, true, true, false, false,
    true, false)), (String ((Ascii (false, false, false, true, true, false,
    true, false)), EmptyString)))), (Npos (XI (XI (XI XH))))) :: (((String
    ((Ascii (false, false, true, false, true, false, true, false)), (String
    ((Ascii (false, false, false, true, true, false, true, false)), (String
    ((Ascii (false, false, true, false, true, false, true, false)),
    EmptyString)))))), (Npos (XO (XO (XO (XO XH)))))) :: (((String ((Ascii
    (false, true, false, false, true, false, true, false)), (String ((Ascii
    (false, false, false, false, true, false, true, false)), EmptyString)))),
    (Npos (XI (XO (XO (XO XH)))))) :: (((String ((Ascii (true, false, false,
    false, false, false, true, false)), (String ((Ascii (false, true, true,
    false, false, false, true, false)), (String ((Ascii (true, true, false,
    false, true, false, true, false)), (String ((Ascii (false, false, true,
    false, false, false, true, false)), (String ((Ascii (false, true, false,
    false, false, false, true, false)), EmptyString)))))))))), (Npos (XO (XI
    (XO (XO XH)))))) :: (((String ((Ascii (false, false, false, true, true,
    false, true, false)), (String ((Ascii (false, true, false, false, true,
    true, false, false)), (String ((Ascii (true, false, true, false, true,
    true, false, false)), EmptyString)))))), (Npos (XI (XI (XO (XO
    XH)))))) :: (((String ((Ascii (true, false, false, true, false, false,
    true, false)), (String ((Ascii (true, true, false, false, true, false,
    true, false)), (String ((Ascii (false, false, true, false, false, false,
    true, false)), (String ((Ascii (false, true, true, true, false, false,
    true, false)), EmptyString)))))))), (Npos (XO (XO (XI (XO
    XH)))))) :: (((String ((Ascii (false, true, false, false, true, false,
    true, false)), (String ((Ascii (false, false, true, false, true, false,
    true, false)), EmptyString)))), (Npos (XI (XO (XI (XO
    XH)))))) :: (((String ((Ascii (false, true, true, true, false, false,
    true, false)), (String ((Ascii (true, true, false, false, true, false,
    true, false)), (String ((Ascii (true, false, false, false, false, false,
    true, false)), (String ((Ascii (false, false, false, false, true, false,
    true, false)), EmptyString)))))))), (Npos (XO (XI (XI (XO
    XH)))))) :: (((String ((Ascii (false, true, true, true, false, false,
    true, false)), (String ((Ascii (true, true, false, false, true, false,
    true, false)), (String ((Ascii (true, false, false, false, false, false,
    true, false)), (String ((Ascii (false, false, false, false, true, false,
    true, false)), (String ((Ascii (true, true, true, true, true, false,
    true, false)), (String ((Ascii (false, false, false, false, true, false,
    true, false)), (String ((Ascii (false, false, true, false, true, false,
    true, false)), (String ((Ascii (false, true, false, false, true, false,
    true, false)), EmptyString)))))))))))))))), (Npos (XI (XI (XI (XO
    XH)))))) :: (((String ((Ascii (true, true, false, false, true, false,
    true, false)), (String ((Ascii (true, false, false, true, false, false,
    true, false)), (String ((Ascii (true, true, true, false, false, false,
    true, false)), EmptyString)))))), (Npos (XO (XO (XO (XI
    XH)))))) :: (((String ((Ascii (true, true, false, true, false, false,
    true, false)), (String ((Ascii (true, false, true, false, false, false,
    true, false)), (String ((Ascii (true, false, false, true, true, false,
    true, false)), EmptyString)))))), (Npos (XI (XO (XO (XI
    XH)))))) :: (((String ((Ascii (false, false, false, false, true, false,
    true, false)), (String ((Ascii (false, false, false, true, true, false,
    true, false)), EmptyString)))), (Npos (XO (XI (XO (XI
    XH)))))) :: (((String ((Ascii (true, true, true, false, false, false,
    true, false)), (String ((Ascii (false, false, false, false, true, false,
    true, false)), (String ((Ascii (true, true, true, true, false, false,
    true, false)), (String ((Ascii (true, true, false, false, true, false,
    true, false)), EmptyString)))))))), (Npos (XI (XI (XO (XI
    XH)))))) :: (((String ((Ascii (true, false, false, false, false, false,
    true, false)), (String ((Ascii (true, false, false, false, false, false,
    true, false)), (String ((Ascii (true, false, false, false, false, false,
    true, false)), (String ((Ascii (true, false, false, false, false, false,
    true, false)), EmptyString)))))))), (Npos (XO (XO (XI (XI
    XH)))))) :: (((String ((Ascii (false, false, true, true, false, false,
    true, false)), (String ((Ascii (true, true, true, true, false, false,
    true, false)), (String ((Ascii (true, true, false, false, false, false,
    true, false)), EmptyString)))))), (Npos (XI (XO (XI (XI
    XH)))))) :: (((String ((Ascii (false, true, true, true, false, false,
    true, false)), (String ((Ascii (false, false, false, true, true, false,
    true, false)), (String ((Ascii (false, false, true, false, true, false,
    true, false)), EmptyString)))))), (Npos (XO (XI (XI (XI
    XH)))))) :: (((String ((Ascii (true, false, true, false, false, false,
    true, false)), (String ((Ascii (true, false, false, true, false, false,
    true, false)), (String ((Ascii (false, false, true, false, false, false,
    true, false)), EmptyString)))))), (Npos (XI (XI (XI (XI
    XH)))))) :: (((String ((Ascii (false, true, true, true, false, false,
    true, false)), (String ((Ascii (true, false, false, true, false, false,
    true, false)), (String ((Ascii (true, false, true, true, false, false,
    true, false)), (String ((Ascii (false, false, true, true, false, false,
    true, false)), (String ((Ascii (true, true, true, true, false, false,
    true, false)), (String ((Ascii (true, true, false, false, false, false,
    true, false)), EmptyString)))))))))))), (Npos (XO (XO (XO (XO (XO
    XH))))))) :: (((String ((Ascii (true, true, false, false, true, false,
    true, false)), (String ((Ascii (false, true, false, false, true, false,
    true, false)), (String ((Ascii (false, true, true, false, true, false,
    true, false)), EmptyString)))))), (Npos (XI (XO (XO (XO (XO
    XH))))))) :: (((String ((Ascii (true, false, false, false, false, false,
    true, false)), (String ((Ascii (false, false, true, false, true, false,
    true, false)), (String ((Ascii (true, false, true, true, false, false,
    true, false)), (String ((Ascii (true, false, false, false, false, false,
    true, false)), EmptyString)))))))), (Npos (XO (XI (XO (XO (XO
    XH))))))) :: (((String ((Ascii (false, true, true, true, false, false,
    true, false)), (String ((Ascii (true, false, false, false, false, false,
    true, false)), (String ((Ascii (false, false, false, false, true, false,
    true, false)), (String ((Ascii (false, false, true, false, true, false,
    true, false)), (String ((Ascii (false, true, false, false, true, false,
    true, false)), EmptyString)))))))))), (Npos (XI (XI (XO (XO (XO
    XH))))))) :: (((String ((Ascii (true, true, false, true, false, false,
    true, false)), (String ((Ascii (false, false, false, true, true, false,
    true, false)), EmptyString)))), (Npos (XO (XO (XI (XO (XO
    XH))))))) :: (((String ((Ascii (true, true, false, false, false, false,
    true, false)), (String ((Ascii (true, false, true, false, false, false,
    true, false)), (String ((Ascii (false, true, false, false, true, false,
    true, false)), (String ((Ascii (false, false, true, false, true, false,
    true, false)), EmptyString)))))))), (Npos (XI (XO (XI (XO (XO
    XH))))))) :: (((String ((Ascii (true, false, false, false, false, false,
    true, false)), (String ((Ascii (false, true, true, false, true, true,
    false, false)), EmptyString)))), (Npos (XO (XI (XI (XO (XO
    XH))))))) :: (((String ((Ascii (false, false, true, false, false, false,
    true, false)), (String ((Ascii (false, true, true, true, false, false,
    true, false)), (String ((Ascii (true, false, false, false, false, false,
    true, false)), (String ((Ascii (true, false, true, true, false, false,
    true, false)), (String ((Ascii (true, false, true, false, false, false,
    true, false)), EmptyString)))))))))), (Npos (XI (XI (XI (XO (XO
    XH))))))) :: (((String ((Ascii (true, true, false, false, true, false,
    true, false)), (String ((Ascii (true, false, false, true, false, false,
    true, false)), (String ((Ascii (false, true, true, true, false, false,
    true, false)), (String ((Ascii (true, true, false, true, false, false,
    true, false)), EmptyString)))))))), (Npos (XO (XO (XO (XI (XO
    XH))))))) :: (((String ((Ascii (true, true, true, true, false, false,
    true, false)), (String ((Ascii (false, false, false, false, true, false,
    true, false)), (String ((Ascii (false, false, true, false, true, false,
    true, false)), EmptyString)))))), (Npos (XI (XO (XO (XI (XO
    XH))))))) :: (((String ((Ascii (true, false, false, false, false, false,
    true, false)), (String ((Ascii (false, false, false, false, true, false,
    true, false)), (String ((Ascii (false, false, true, true, false, false,
    true, false)), EmptyString)))))), (Npos (XO (XI (XO (XI (XO
    XH))))))) :: (((String ((Ascii (false, false, true, false, false, false,
    true, false)), (String ((Ascii (true, true, false, false, true, false,
    true, false)), EmptyString)))), (Npos (XI (XI (XO (XI (XO
    XH))))))) :: (((String ((Ascii (true, true, false, false, true, false,
    true, false)), (String ((Ascii (true, true, false, false, true, false,
    true, false)), (String ((Ascii (false, false, false, true, false, false,
    true, false)), (String ((Ascii (false, true, true, false, false, false,
    true, false)), (String ((Ascii (false, false, false, false, true, false,
    true, false)), EmptyString)))))))))), (Npos (XO (XO (XI (XI (XO
    XH))))))) :: (((String ((Ascii (true, false, false, true, false, false,
    true, false)), (String ((Ascii (false, false, false, false, true, false,
    true, false)), (String ((Ascii (true, true, false, false, true, false,
    true, false)), (String ((Ascii (true, false, true, false, false, false,
    true, false)), (String ((Ascii (true, true, false, false, false, false,
    true, false)), (String ((Ascii (true, true, false, true, false, false,
    true, false)), (String ((Ascii (true, false, true, false, false, false,
    true, false)), (String ((Ascii (true, false, false, true, true, false,
    true, false)), EmptyString)))))))))))))))), (Npos (XI (XO (XI (XI (XO
    XH))))))) :: (((String ((Ascii (false, true, false, false, true, false,
    true, false)), (String ((Ascii (false, true, false, false, true, false,
    true, false)), (String ((Ascii (true, true, false, false, true, false,
    true, false)), (String ((Ascii (true, false, false, true, false, false,
    true, false)), (String ((Ascii (true, true, true, false, false, false,
    true, false)), EmptyString)))))))))), (Npos (XO (XI (XI (XI (XO
    XH))))))) :: (((String ((Ascii (false, true, true, true, false, false,
    true, false)), (String ((Ascii (true, true, false, false, true, false,
    true, false)), (String ((Ascii (true, false, true, false, false, false,
    true, false)), (String ((Ascii (true, true, false, false, false, false,
    true, false)), EmptyString)))))))), (Npos (XI (XI (XI (XI (XO
    XH))))))) :: (((String ((Ascii (false, false, true, false, false, false,
    true, false)), (String ((Ascii (false, true, true, true, false, false,
    true, false)), (String ((Ascii (true, true, false, false, true, false,
    true, false)), (String ((Ascii (true, true, false, true, false, false,
    true, false)), (String ((Ascii (true, false, true, false, false, false,
    true, false)), (String ((Ascii (true, false, false, true, true, false,
    true, false)), EmptyString)))))))))))), (Npos (XO (XO (XO (XO (XI
    XH))))))) :: (((String ((Ascii (false, false, true, false, false, false,
    true, false)), (String ((Ascii (false, false, false, true, false, false,
    true, false)), (String ((Ascii (true, true, false, false, false, false,
    true, false)), (String ((Ascii (true, false, false, true, false, false,
    true, false)), (String ((Ascii (false, false, true, false, false, false,
    true, false)), EmptyString)))))))))), (Npos (XI (XO (XO (XO (XI
    XH))))))) :: (((String ((Ascii (false, true, true, true, false, false,
    true, false)), (String ((Ascii (true, true, false, false, true, false,
    true, false)), (String ((Ascii (true, false, true, false, false, false,
    true, false)), (String ((Ascii (true, true, false, false, false, false,
    true, false)), (String ((Ascii (true, true, false, false, true, true,
    false, false)), EmptyString)))))))))), (Npos (XO (XI (XO (XO (XI
    XH))))))) :: (((String ((Ascii (false, true, true, true, false, false,
    true, false)), (String ((Ascii (true, true, false, false, true, false,
    true, false)), (String ((Ascii (true, false, true, false, false, false,
    true, false)), (String ((Ascii (true, true, false, false, false, false,
    true, false)), (String ((Ascii (true, true, false, false, true, true,
    false, false)), (String ((Ascii (false, false, false, false, true, false,
    true, false)), (String ((Ascii (true, false, false, false, false, false,
    true, false)), (String ((Ascii (false, true, false, false, true, false,
    true, false)), (String ((Ascii (true, false, false, false, false, false,
    true, false)), (String ((Ascii (true, false, true, true, false, false,
    true, false)), EmptyString)))))))))))))))))))), (Npos (XI (XI (XO (XO (XI
    XH))))))) :: (((String ((Ascii (false, false, true, false, true, false,
    true, false)), (String ((Ascii (false, false, true, true, false, false,
    true, false)), (String ((Ascii (true, true, false, false, true, false,
    true, false)), (String ((Ascii (true, false, false, false, false, false,
    true, false)), EmptyString)))))))), (Npos (XO (XO (XI (XO (XI
    XH))))))) :: (((String ((Ascii (true, true, false, false, true, false,
    true, false)), (String ((Ascii (true, false, true, true, false, false,
    true, false)), (String ((Ascii (true, false, false, true, false, false,
    true, false)), (String ((Ascii (true, false, true, true, false, false,
    true, false)), (String ((Ascii (true, false, true, false, false, false,
    true, false)), (String ((Ascii (true, false, false, false, false, false,
    true, false)), EmptyString)))))))))))), (Npos (XI (XO (XI (XO (XI
    XH))))))) :: (((String ((Ascii (false, false, false, true, false, false,
    true, false)), (String ((Ascii (true, false, false, true, false, false,
    true, false)), (String ((Ascii (false, false, false, false, true, false,
    true, false)), EmptyString)))))), (Npos (XI (XI (XI (XO (XI
    XH))))))) :: (((String ((Ascii (false, true, true, true, false, false,
    true, false)), (String ((Ascii (true, false, false, true, false, false,
    true, false)), (String ((Ascii (false, true, true, true, false, false,
    true, false)), (String ((Ascii (false, true, true, false, false, false,
    true, false)), (String ((Ascii (true, true, true, true, false, false,
    true, false)), EmptyString)))))))))), (Npos (XO (XO (XO (XI (XI
    XH))))))) :: (((String ((Ascii (false, true, false, false, true, false,
    true, false)), (String ((Ascii (true, true, false, true, false, false,
    true, false)), (String ((Ascii (true, false, true, false, false, false,
    true, false)), (String ((Ascii (true, false, false, true, true, false,
    true, false)), EmptyString)))))))), (Npos (XI (XO (XO (XI (XI
    XH))))))) :: (((String ((Ascii (false, false, true, false, true, false,
    true, false)), (String ((Ascii (true, false, false, false, false, false,
    true, false)), (String ((Ascii (false, false, true, true, false, false,
    true, false)), (String ((Ascii (true, false, false, true, false, false,
    true, false)), (String ((Ascii (false, true, true, true, false, false,
    true, false)), (String ((Ascii (true, true, false, true, false, false,
    true, false)), EmptyString)))))))))))), (Npos (XO (XI (XO (XI (XI
    XH))))))) :: (((String ((Ascii (true, true, false, false, false, false,
    true, false)), (String ((Ascii (false, false, true, false, false, false,
    true, false)), (String ((Ascii (true, true, false, false, true, false,
    true, false)), EmptyString)))))), (Npos (XI (XI (XO (XI (XI
    XH))))))) :: (((String ((Ascii (true, true, false, false, false, false,
    true, false)), (String ((Ascii (false, false, true, false, false, false,
    true, false)), (String ((Ascii (false, true, true, true, false, false,
    true, false)), (String ((Ascii (true, true, false, false, true, false,
    true, false)), (String ((Ascii (true, true, false, true, false, false,
    true, false)), (String ((Ascii (true, false, true, false, false, false,
    true, false)), (String ((Ascii (true, false, false, true, true, false,
    true, false)), EmptyString)))))))))))))), (Npos (XO (XO (XI (XI (XI
    XH))))))) :: (((String ((Ascii (true, true, true, true, false, false,
    true, false)), (String ((Ascii (false, false, false, false, true, false,
    true, false)), (String ((Ascii (true, false, true, false, false, false,
    true, false)), (String ((Ascii (false, true, true, true, false, false,
    true, false)), (String ((Ascii (false, false, false, false, true, false,
    true, false)), (String ((Ascii (true, true, true, false, false, false,
    true, false)), (String ((Ascii (false, false, false, false, true, false,
    true, false)), (String ((Ascii (true, true, false, true, false, false,
    true, false)), (String ((Ascii (true, false, true, false, false, false,
    true, false)), (String ((Ascii (true, false, false, true, true, false,
    true, false)), EmptyString)))))))))))))))))))), (Npos (XI (XO (XI (XI (XI
    XH))))))) :: (((String ((Ascii (true, true, false, false, false, false,
    true, false)), (String ((Ascii (true, true, false, false, true, false,
    true, false)), (String ((Ascii (true, false, false, true, true, false,
    true, false)), (String ((Ascii (false, true, true, true, false, false,
    true, false)), (String ((Ascii (true, true, false, false, false, false,
    true, false)), EmptyString)))))))))), (Npos (XO (XI (XI (XI (XI
    XH))))))) :: (((String ((Ascii (false, true, false, true, true, false,
    true, false)), (String ((Ascii (true, true, true, true, false, false,
    true, false)), (String ((Ascii (false, true, true, true, false, false,
    true, false)), (String ((Ascii (true, false, true, false, false, false,
    true, false)), (String ((Ascii (true, false, true, true, false, false,
    true, false)), (String ((Ascii (false, false, true, false, false, false,
    true, false)), EmptyString)))))))))))), (Npos (XI (XI (XI (XI (XI
    XH))))))) :: (((String ((Ascii (true, true, false, false, true, false,
    true, false)), (String ((Ascii (false, true, true, false, true, false,
    true, false)), (String ((Ascii (true, true, false, false, false, false,
    true, false)), (String ((Ascii (false, true, false, false, false, false,
    true, false)), EmptyString)))))))), (Npos (XO (XO (XO (XO (XO (XO
    XH)))))))) :: (((String ((Ascii (false, false, false, true, false, false,
    true, false)), (String ((Ascii (false, false, true, false, true, false,
    true, false)), (String ((Ascii (false, false, true, false, true, false,
    true, false)), (String ((Ascii (false, false, false, false, true, false,
    true, false)), (String ((Ascii (true, true, false, false, true, false,
    true, false)), EmptyString)))))))))), (Npos (XI (XO (XO (XO (XO (XO
    XH)))))))) :: (((String ((Ascii (true, true, false, false, true, false,
    true, false)), (String ((Ascii (false, false, false, false, true, false,
    true, false)), (String ((Ascii (false, true, true, false, false, false,
    true, false)), EmptyString)))))), (Npos (XI (XI (XO (XO (XO (XI
    XH)))))))) :: (((String ((Ascii (true, false, true, false, true, false,
    true, false)), (String ((Ascii (true, false, false, true, false, false,
    true, false)), (String ((Ascii (false, true, true, true, false, false,
    true, false)), (String ((Ascii (false, true, true, false, false, false,
    true, false)), (String ((Ascii (true, true, true, true, false, false,
    true, false)), EmptyString)))))))))), (Npos (XO (XO (XI (XO (XO (XI
    XH)))))))) :: (((String ((Ascii (true, false, true, false, true, false,
    true, false)), (String ((Ascii (true, false, false, true, false, false,
    true, false)), (String ((Ascii (false, false, true, false, false, false,
    true, false)), EmptyString)))))), (Npos (XI (XO (XI (XO (XO (XI
    XH)))))))) :: (((String ((Ascii (true, true, true, false, false, false,
    true, false)), (String ((Ascii (true, false, false, true, false, false,
    true, false)), (String ((Ascii (false, false, true, false, false, false,
    true, false)), EmptyString)))))), (Npos (XO (XI (XI (XO (XO (XI
    XH)))))))) :: (((String ((Ascii (true, false, true, false, true, false,
    true, false)), (String ((Ascii (false, true, true, true, false, false,
    true, false)), (String ((Ascii (true, true, false, false, true, false,
    true, false)), (String ((Ascii (false, false, false, false, true, false,
    true, false)), (String ((Ascii (true, false, true, false, false, false,
    true, false)), (String ((Ascii (true, true, false, false, false, false,
    true, false)), EmptyString)))))))))))), (Npos (XI (XI (XI (XO (XO (XI
    XH)))))))) :: (((String ((Ascii (false, true, true, true, false, false,
    true, false)), (String ((Ascii (true, false, false, true, false, false,
    true, false)), (String ((Ascii (false, false, true, false, false, false,
    true, false)), EmptyString)))))), (Npos (XO (XO (XO (XI (XO (XI
    XH)))))))) :: (((String ((Ascii (false, false, true, true, false, false,
    true, false)), (String ((Ascii (true, true, false, false, true, true,
    false, false)), (String ((Ascii (false, true, false, false, true, true,
    false, false)), EmptyString)))))), (Npos (XI (XO (XO (XI (XO (XI
    XH)))))))) :: (((String ((Ascii (false, false, true, true, false, false,
    true, false)), (String ((Ascii (false, true, true, false, true, true,
    false, false)), (String ((Ascii (false, false, true, false, true, true,
    false, false)), EmptyString)))))), (Npos (XO (XI (XO (XI (XO (XI
    XH)))))))) :: (((String ((Ascii (false, false, true, true, false, false,
    true, false)), (String ((Ascii (false, false, false, false, true, false,
    true, false)), EmptyString)))), (Npos (XI (XI (XO (XI (XO (XI
    XH)))))))) :: (((String ((Ascii (true, false, true, false, false, false,
    true, false)), (String ((Ascii (true, false, true, false, true, false,
    true, false)), (String ((Ascii (true, false, false, true, false, false,
    true, false)), (String ((Ascii (false, false, true, false, true, true,
    false, false)), (String ((Ascii (false, false, false, true, true, true,
    false, false)), EmptyString)))))))))), (Npos (XO (XO (XI (XI (XO (XI
    XH)))))))) :: (((String ((Ascii (true, false, true, false, false, false,
    true, false)), (String ((Ascii (true, false, true, false, true, false,
    true, false)), (String ((Ascii (true, false, false, true, false, false,
    true, false)), (String ((Ascii (false, true, true, false, true, true,
    false, false)), (String ((Ascii (false, false, true, false, true, true,
    false, false)), EmptyString)))))))))), (Npos (XI (XO (XI (XI (XO (XI
    XH)))))))) :: (((String ((Ascii (false, false, true, false, true, false,
    true, false)), (String ((Ascii (true, true, false, true, false, false,
    true, false)), (String ((Ascii (true, false, true, false, false, false,
    true, false)), (String ((Ascii (true, false, false, true, true, false,
    true, false)), EmptyString)))))))), (Npos (XI (XO (XO (XI (XI (XI (XI
    XH))))))))) :: (((String ((Ascii (false, false, true, false, true, false,
    true, false)), (String ((Ascii (true, true, false, false, true, false,
    true, false)), (String ((Ascii (true, false, false, true, false, false,
    true, false)), (String ((Ascii (true, true, true, false, false, false,
    true, false)), EmptyString)))))))), (Npos (XO (XI (XO (XI (XI (XI (XI
    XH))))))))) :: (((String ((Ascii (true, false, false, true, false, false,
    true, false)), (String ((Ascii (false, false, false, true, true, false,
    true, false)), (String ((Ascii (false, true, true, false, false, false,
    true, false)), (String ((Ascii (false, true, false, false, true, false,
    true, false)), EmptyString)))))))), (Npos (XI (XI (XO (XI (XI (XI (XI
    XH))))))))) :: (((String ((Ascii (true, false, true, false, true, false,
    true, false)), (String ((Ascii (false, true, false, false, true, false,
    true, false)), (String ((Ascii (true, false, false, true, false, false,
    true, false)), EmptyString)))))), (Npos (XO (XO (XO (XO (XO (XO (XO (XO
    XH)))))))))) :: (((String ((Ascii (true, true, false, false, false,
    false, true, false)), (String ((Ascii (true, false, false, false, false,
    false, true, false)), (String ((Ascii (true, false, false, false, false,
    false, true, false)), EmptyString)))))), (Npos (XI (XO (XO (XO (XO (XO
    (XO (XO XH)))))))))) :: (((String ((Ascii (true, false, false, false,
    false, false, true, false)), (String ((Ascii (false, true, true, false,
    true, false, true, false)), (String ((Ascii (true, true, false, false,
    false, false, true, false)), EmptyString)))))), (Npos (XO (XI (XO (XO (XO
    (XO (XO (XO XH)))))))))) :: (((String ((Ascii (false, false, true, false,
    false, false, true, false)), (String ((Ascii (true, true, true, true,
    false, false, true, false)), (String ((Ascii (true, false, false, false,
    false, false, true, false)), EmptyString)))))), (Npos (XI (XI (XO (XO (XO
    (XO (XO (XO XH)))))))))) :: (((String ((Ascii (true, false, false, false,
    false, false, true, false)), (String ((Ascii (true, false, true, true,
    false, false, true, false)), (String ((Ascii (false, false, true, false,
    true, false, true, false)), (String ((Ascii (false, true, false, false,
    true, false, true, false)), (String ((Ascii (true, false, true, false,
    false, false, true, false)), (String ((Ascii (false, false, true, true,
    false, false, true, false)), (String ((Ascii (true, false, false, false,
    false, false, true, false)), (String ((Ascii (true, false, false, true,
    true, false, true, false)), EmptyString)))))))))))))))), (Npos (XO (XO
    (XI (XO (XO (XO (XO (XO XH)))))))))) :: (((String ((Ascii (false, false,
    true, false, true, false, true, false)), (String ((Ascii (true, false,
    false, false, false, false, true, false)), EmptyString)))), (Npos (XO (XO
    (XO (XO (XO (XO (XO (XO (XO (XO (XO (XO (XO (XO (XO
    XH))))))))))))))))) :: (((String ((Ascii (false, false, true, false,
    false, false, true, false)), (String ((Ascii (false, false, true, true,
    false, false, true, false)), (String ((Ascii (false, true, true, false,
    true, false, true, false)), EmptyString)))))), (Npos (XI (XO (XO (XO (XO
    (XO (XO (XO (XO (XO (XO (XO (XO (XO (XO
    XH))))))))))))))))) :: []))))))))))))))))))))))))))))))))))))))))))))))))))))))))))))))))))))))))))))))))))))

(** val qType_width : n **)

let qType_width =
  Npos (XO (XO (XO (XO XH))))

(** val qType_table : (string * n) list **)

let qType_table =
  ((String ((Ascii (true, false, false, false, false, false, true, false)),
    EmptyString)), (Npos XH)) :: (((String ((Ascii (false, true, true, true,
    false, false, true, false)), (String ((Ascii (true, true, false, false,
    true, false, true, false)), EmptyString)))), (Npos (XO XH))) :: (((String
    ((Ascii (true, false, true, true, false, false, true, false)), (String
    ((Ascii (false, false, true, false, false, false, true, false)),
    EmptyString)))), (Npos (XI XH))) :: (((String ((Ascii (true, false, true,
    true, false, false, true, false)), (String ((Ascii (false, true, true,
    false, false, false, true, false)), EmptyString)))), (Npos (XO (XO
    XH)))) :: (((String ((Ascii (true, true, false, false, false, false,
    true, false)), (String ((Ascii (false, true, true, true, false, false,
    true, false)), (String ((Ascii (true, false, false, false, false, false,
    true, false)), (String ((Ascii (true, false, true, true, false, false,
    true, false)), (String ((Ascii (true, false, true, false, false, false,
    true, false)), EmptyString)))))))))), (Npos (XI (XO XH)))) :: (((String
    ((Ascii (true, true, false, false, true, false, true, false)), (String
    ((Ascii (true, true, true, true, false, false, true, false)), (String
    ((Ascii (true, false, false, false, false, false, true, false)),
    EmptyString)))))), (Npos (XO (XI XH)))) :: (((String ((Ascii (true,
    false, true, true, false, false, true, false)), (String ((Ascii (false,
    true, false, false, false, false, true, false)), EmptyString)))), (Npos
    (XI (XI XH)))) :: (((String ((Ascii (true, false, true, true, false,
    false, true, false)), (String ((Ascii (true, true, true, false, false,
    false, true, false)), EmptyString)))), (Npos (XO (XO (XO
    XH))))) :: (((String ((Ascii (true, false, true, true, false, false,
    true, false)), (String ((Ascii (false, true, false, false, true, false,
    true, false)), EmptyString)))), (Npos (XI (XO (XO XH))))) :: (((String
    ((Ascii (false, true, true, true, false, false, true, false)), (String
    ((Ascii (true, false, true, false, true, false, true, false)), (String
    ((Ascii (false, false, true, true, false, false, true, false)), (String
    ((Ascii (false, false, true, true, false, false, true, false)),
    EmptyString)))))))), (Npos (XO (XI (XO XH))))) :: (((String ((Ascii
    (true, true, true, false, true, false, true, false)), (String ((Ascii
    (true, true, false, true, false, false, true, false)), (String ((Ascii
    (true, true, false, false, true, false, true, false)), EmptyString)))))),
    (Npos (XI (XI (XO XH))))) :: (((String ((Ascii (false, false, false,
    false, true, false, true, false)), (String ((Ascii (false, false, true,
    false, true, false, true, false)), (String ((Ascii (false, true, false,
    false, true, false, true, false)), EmptyString)))))), (Npos (XO (XO (XI
    XH))))) :: (((String ((Ascii (false, false, false, true, false, false,
    true, false)), (String ((Ascii (true, false, false, true, false, false,
    true, false)), (String ((Ascii (false, true, true, true, false, false,
    true, false)), (String ((Ascii (false, true, true, false, false, false,
    true, false)), (String ((Ascii (true, true, true, true, false, false,
    true, false)), EmptyString)))))))))), (Npos (XI (XO (XI
    XH))))) :: (((String ((Ascii (true, false, true, true, false, false,
    true, false)), (String ((Ascii (true, false, false, true, false, false,
    true, false)), (String ((Ascii (false, true, true, true, false, false,
    true, false)), (String ((Ascii (false, true, true, false, false, false,
    true, false)), (String ((Ascii (true, true, true, true, false, false,
    true, false)), EmptyString)))))))))), (Npos (XO (XI (XI
    XH))))) :: (((String ((Ascii (true, false, true, true, false, false,
    true, false)), (String ((Ascii (false, false, false, true, true, false,
    true, false)), EmptyString)))), (Npos (XI (XI (XI XH))))) :: (((String
    ((Ascii (false, false, true, false, true, false, true, false)), (String
    ((Ascii (false, false, false, true, true, false, true, false)), (String
    ((Ascii (false, false, true, false, true, false, true, false)),
    EmptyString)))))), (Npos (XO (XO (XO (XO XH)))))) :: (((String ((Ascii
    (false, true, false, false, true, false, true, false)), (String ((Ascii
    (false, false, false, false, true, false, true, false)), EmptyString)))),
    (Npos (XI (XO (XO (XO XH)))))) :: (((String ((Ascii (true, false, false,
    false, false, false, true, false)), (String ((Ascii (false, true, true,
    false, false, false, true, false)), (String ((Ascii (true, true, false,
    false, true, false, true, false)), (String ((Ascii (false, false, true,
    false, false, false, true, false)), (String ((Ascii (false, true, false,
    false, false, false, true, false)), EmptyString)))))))))), (Npos (XO (XI
    (XO (XO XH)))))) :: (((String ((Ascii (false, false, false, true, true,
    false, true, false)), (String ((Ascii (false, true, false, false, true,
    true, false, false)), (String ((Ascii (true, false, true, false, true,
    true, false, false)), EmptyString)))))), (Npos (XI (XI (XO (XO
    XH)))))) :: (((String ((Ascii (true, false, false, true, false, false,
    true, false)), (String ((Ascii (true, true, false, false, true, false,
    true, false)), (String ((Ascii (false, false, true, false, false, false,
    true, false)), (String ((Ascii (false, true, true, true, false, false,
    true, false)), EmptyString)))))))), (Npos (XO (XO (XI (XO
    XH)))))) :: (((String ((Ascii (false, true, false, false, true, false,
    true, false)), (String ((Ascii (false, false, true, false, true, false,
    true, false)), EmptyString)))), (Npos (XI (XO (XI (XO
    XH)))))) :: (((String ((Ascii (false, true, true, true, false, false,
    true, false)), (String ((Ascii (true, true, false, false, true, false,
    true, false)), (String ((Ascii (true, false, false, false, false, false,
    true, false)), (String ((Ascii (false, false, false, false, true, false,
    true, false)), EmptyString)))))))), (Npos (XO (XI (XI (XO
    XH)))))) :: (((String ((Ascii (false, true, true, true, false, false,
    true, false)), (String ((Ascii (true, true, false, false, true, false,
    true, false)), (String ((Ascii (true, false, false, false, false, false,
    true, false)), (String ((Ascii (false, false, false, false, true, false,
    true, false)), (String ((Ascii (true, true, true, true, true, false,
    true, false)), (String ((Ascii (false, false, false, false, true, false,
    true, false)), (String ((Ascii (false, false, true, false, true, false,
    true, false)), (String ((Ascii (false, true, false, false, true, false,
    true, false)), EmptyString)))))))))))))))), (Npos (XI (XI (XI (XO
    XH)))))) :: (((String ((Ascii (true, true, false, false, true, false,
    true, false)), (String ((Ascii (true, false, false, true, false, false,
    true, false)), (String ((Ascii (true, true, true, false, false, false,
    true, false)), EmptyString)))))), (Npos (XO (XO (XO (XI
    XH)))))) :: (((String ((Ascii (true, true, false, true, false, false,
    true, false)), (String ((Ascii (true, false, true, false, false, false,
    true, false)), (String ((Ascii (true, false, false, true, true, false,
    true, false)), EmptyString)))))), (Npos (XI (XO (XO (XI
    XH)))))) :: (((String ((Ascii (false, false, false, false, true, false,
    true, false)), (String ((Ascii (false, false, false, true, true, false,
    true, false)), EmptyString)))), (Npos (XO (XI (XO (XI
    XH)))))) :: (((String ((Ascii (true, true, true, false, false, false,
    true, false)), (String ((Ascii (false, false, false, false, true, false,
    true, false)), (String ((Ascii (true, true, true, true, false, false,
    true, false)), (String ((Ascii (true, true, false, false, true, false,
    true, false)), EmptyString)))))))), (Npos (XI (XI (XO (XI
    XH)))))) :: (((String ((Ascii (true, false, false, false, false, false,
    true, false)), (String ((Ascii (true, false, false, false, false, false,
    true, false)), (String ((Ascii (true, false, false, false, false, false,
    true, false)), (String ((Ascii (true, false, false, false, false, false,
    true, false)), EmptyString)))))))), (Npos (XO (XO (XI (XI
    XH)))))) :: (((String ((Ascii (false, false, true, true, false, false,
    true, false)), (String ((Ascii (true, true, true, true, false, false,
    true, false)), (String ((Ascii (true, true, false, false, false, false,
    true, false)), EmptyString)))))), (Npos (XI (XO (XI (XI
    XH)))))) :: (((String ((Ascii (false, true, true, true, false, false,
    true, false)), (String ((Ascii (false, false, false, true, true, false,
    true, false)), (String ((Ascii (false, false, true, false, true, false,
    true, false)), EmptyString)))))), (Npos (XO (XI (XI (XI
    XH)))))) :: (((String ((Ascii (true, false, true, false, false, false,
    true, false)), (String ((Ascii (true, false, false, true, false, false,
    true, false)), (String ((Ascii (false, false, true, false, false, false,
    true, false)), EmptyString)))))), (Npos (XI (XI (XI (XI
    XH)))))) :: (((String ((Ascii (false, true, true, true, false, false,
    true, false)), (String ((Ascii (true, false, false, true, false, false,
    true, false)), (String ((Ascii (true, false, true, true, false, false,
    true, false)), (String ((Ascii (false, false, true, true, false, false,
    true, false)), (String ((Ascii (true, true, true, true, false, false,
    true, false)), (String ((Ascii (true, true, false, false, false, false,
    true, false)), EmptyString)))))))))))), (Npos (XO (XO (XO (XO (XO
    XH))))))) :: (((String ((Ascii (true, true, false, false, true, false,
    true, false)), (String ((Ascii (false, true, false, false, true, false,
    true, false)), (String ((Ascii (false, true, true, false, true, false,
    true, false)), EmptyString)))))), (Npos (XI (XO (XO (XO (XO
    XH))))))) :: (((String ((Ascii (true, false, false, false, false, false,
    true, false)), (String ((Ascii (false, false, true, false, true, false,
    true, false)), (String ((Ascii (true, false, true, true, false, false,
    true, false)), (String ((Ascii (true, false, false, false, false, false,
    true, false)), EmptyString)))))))), (Npos (XO (XI (XO (XO (XO
    XH))))))) :: (((String ((Ascii (false, true, true, true, false, false,
    true, false)), (String ((Ascii (true, false, false, false, false, false,
    true, false)), (String ((Ascii (false, false, false, false, true, false,
    true, false)), (String ((Ascii (false, false, true, false, true, false,
    true, false)), (String ((Ascii (false, true, false, false, true, false,
    true, false)), EmptyString)))))))))), (Npos (XI (XI (XO (XO (XO
    XH))))))) :: (((String ((Ascii (true, true, false, true, false, false,
    true, false)), (String ((Ascii (false, false, false, true, true, false,
    true, false)), EmptyString)))), (Npos (XO (XO (XI (XO (XO
    XH))))))) :: (((String ((Ascii (true, true, false, false, false, false,
    true, false)), (String ((Ascii (true, false, true, false, false, false,
    true, false)), (String ((Ascii (false, true, false, false, true, false,
    true, false)), (String ((Ascii (false, false, true, false, true, false,
    true, false)), EmptyString)))))))), (Npos (XI (XO (XI (XO (XO
    XH))))))) :: (((String ((Ascii (true, false, false, false, false, false,
    true, false)), (String ((Ascii (false, true, true, false, true, true,
    false, false)), EmptyString)))), (Npos (XO (XI (XI (XO (XO
    XH))))))) :: (((String ((Ascii (false, false, true, false, false, false,
    true, false)), (String ((Ascii (false, true, true, true, false, false,
    true, false)), (String ((Ascii (true, false, false, false, false, false,
    true, false)), (String ((Ascii (true, false, true, true, false, false,
    true, false)), (String ((Ascii (true, false, true, false, false, false,
    true, false)), EmptyString)))))))))), (Npos (XI (XI (XI (XO (XO
    XH))))))) :: (((String ((Ascii (true, true, false, false, true, false,
    true, false)), (String ((Ascii (true, false, false, true, false, false,
    true, false)), (String ((Ascii (false, true, true, true, false, false,
    true, false)), (String ((Ascii (true, true, false, true, false, false,
    true, false)), EmptyString)))))))), (Npos (XO (XO (XO (XI (XO
    XH))))))) :: (((String ((Ascii (true, false, false, false, false, false,
    true, false)), (String ((Ascii (false, false, false, false, true, false,
    true, false)), (String ((Ascii (false, false, true, true, false, false,
    true, false)), EmptyString)))))), (Npos (XO (XI (XO (XI (XO
    XH))))))) :: (((String ((Ascii (false, false, true, false, false, false,
    true, false)), (String ((Ascii (true, true, false, false, true, false,
    true, false)), EmptyString)))), (Npos (XI (XI (XO (XI (XO
    XH))))))) :: (((String ((Ascii (true, true, false, false, true, false,
    true, false)), (String ((Ascii (true, true, false, false, true, false,
    true, false)), (String ((Ascii (false, false, false, true, false, false,
    true, false)), (String ((Ascii (false, true, true, false, false, false,
    true, false)), (String ((Ascii (false, false, false, false, true, false,
    true, false)), EmptyString)))))))))), (Npos (XO (XO (XI (XI (XO
    XH))))))) :: (((String ((Ascii (true, false, false, true, false, false,
    true, false)), (String ((Ascii (false, false, false, false, true, false,
    true, false)), (String ((Ascii (true, true, false, false, true, false,
    true, false)), (String ((Ascii (true, false, true, false, false, false,
    true, false)), (String ((Ascii (true, true, false, false, false, false,
    true, false)), (String ((Ascii (true, true, false, true, false, false,
    true, false)), (String ((Ascii (true, false, true, false, false, false,
    true, false)), (String ((Ascii (true, false, false, true, true, false,
    true, false)), EmptyString)))))))))))))))), (Npos (XI (XO (XI (XI (XO
    XH))))))) :: (((String ((Ascii (false, true, false, false, true, false,
    true, false)), (String ((Ascii (false, true, false, false, true, false,
    true, false)), (String ((Ascii (true, true, false, false, true, false,
    true, false)), (String ((Ascii (true, false, false, true, false, false,
    true, false)), (String ((Ascii (true, true, true, false, false, false,
    true, false)), EmptyString)))))))))), (Npos (XO (XI (XI (XI (XO
    XH))))))) :: (((String ((Ascii (false, true, true, true, false, false,
    true, false)), (String ((Ascii (true, true, false, false, true, false,
    true, false)), (String ((Ascii (true, false, true, false, false, false,
    true, false)), (String ((Ascii (true, true, false, false, false, false,
    true, false)), EmptyString)))))))), (Npos (XI (XI (XI (XI (XO
    XH))))))) :: (((String ((Ascii (false, false, true, false, false, false,
    true, false)), (String ((Ascii (false, true, true, true, false, false,
    true, false)), (String ((Ascii (true, true, false, false, true, false,
    true, false)), (String ((Ascii (true, true, false, true, false, false,
    true, false)), (String ((Ascii (true, false, true, false, false, false,
    true, false)), (String ((Ascii (true, false, false, true, true, false,
    true, false)), EmptyString)))))))))))), (Npos (XO (XO (XO (XO (XI
    XH))))))) :: (((String ((Ascii (false, false, true, false, false, false,
    true, false)), (String ((Ascii (false, false, false, true, false, false,
    true, false)), (String ((Ascii (true, true, false, false, false, false,
    true, false)), (String ((Ascii (true, false, false, true, false, false,
    true, false)), (String ((Ascii (false, false, true, false, false, false,
    true, false)), EmptyString)))))))))), (Npos (XI (XO (XO (XO (XI
    XH))))))) :: (((String ((Ascii (false, true, true, true, false, false,
    true, false)), (String ((Ascii (true, true, false, false, true, false,
    true, false)), (String ((Ascii (true, false, true, false, false, false,
    true, false)), (String ((Ascii (true, true, false, false, false, false,
    true, false)), (String ((Ascii (true, true, false, false, true, true,
    false, false)), EmptyString)))))))))), (Npos (XO (XI (XO (XO (XI
    XH))))))) :: (((String ((Ascii (false, true, true, true, false, false,
    true, false)), (String ((Ascii (true, true, false, false, true, false,
    true, false)), (String ((Ascii (true, false, true, false, false, false,
    true, false)), (String ((Ascii (true, true, false, false, false, false,
    true, false)), (String ((Ascii (true, true, false, false, true, true,
    false, false)), (String ((Ascii (false, false, false, false, true, false,
    true, false)), (String ((Ascii (true, false, false, false, false, false,
    true, false)), (String ((Ascii (false, true, false, false, true, false,
    true, false)), (String ((Ascii (true, false, false, false, false, false,
    true, false)), (String ((Ascii (true, false, true, true, false, false,
    true, false)), EmptyString)))))))))))))))))))), (Npos (XI (XI (XO (XO (XI
    XH))))))) :: (((String ((Ascii (false, false, true, false, true, false,
    true, false)), (String ((Ascii (false, false, true, true, false, false,
    true, false)), (String ((Ascii (true, true, false, false, true, false,
    true, false)), (String ((Ascii (true, false, false, false, false, false,
    true, false)), EmptyString)))))))), (Npos (XO (XO (XI (XO (XI
    XH))))))) :: (((String ((Ascii (true, true, false, false, true, false,
    true, false)), (String ((Ascii (true, false, true, true, false, false,
    true, false)), (String ((Ascii (true, false, false, true, false, false,
    true, false)), (String ((Ascii (true, false, true, true, false, false,
    true, false)), (String ((Ascii (true, false, true, false, false, false,
    true, false)), (String ((Ascii (true, false, false, false, false, false,
    true, false)), EmptyString)))))))))))), (Npos (XI (XO (XI (XO (XI
    XH))))))) :: (((String ((Ascii (false, false, false, true, false, false,
    true, false)), (String ((Ascii (true, false, false, true, false, false,
    true, false)), (String ((Ascii (false, false, false, false, true, false,
    true, false)), EmptyString)))))), (Npos (XI (XI (XI (XO (XI
    XH))))))) :: (((String ((Ascii (false, true, true, true, false, false,
    true, false)), (String ((Ascii (true, false, false, true, false, false,
    true, false)), (String ((Ascii (false, true, true, true, false, false,
    true, false)), (String ((Ascii (false, true, true, false, false, false,
    true, false)), (String ((Ascii (true, true, true, true, false, false,
    true, false)), EmptyString)))))))))), (Npos (XO (XO (XO (XI (XI
    XH))))))) :: (((String ((Ascii (false, true, false, false, true, false,
    true, false)), (String ((Ascii (true, true, false, true, false, false,
    true, false)), (String ((Ascii (true, false, true, false, false, false,
    true, false)), (String ((Ascii (true, false, false, true, true, false,
    true, false)), EmptyString)))))))), (Npos (XI (XO (XO (XI (XI
    XH))))))) :: (((String ((Ascii (false, false, true, false, true, false,
    true, false)), (String ((Ascii (true, false, false, false, false, false,
    true, false)), (String ((Ascii (false, false, true, true, false, false,
    true, false)), (String ((Ascii (true, false, false, true, false, false,
    true, false)), (String ((Ascii (false, true, true, true, false, false,
    true, false)), (String ((Ascii (true, true, false, true, false, false,
    true, false)), EmptyString)))))))))))), (Npos (XO (XI (XO (XI (XI
    XH))))))) :: (((String ((Ascii (true, true, false, false, false, false,
    true, false)), (String ((Ascii (false, false, true, false, false, false,
    true, false)), (String ((Ascii (true, true, false, false, true, false,
    true, false)), EmptyString)))))), (Npos (XI (XI (XO (XI (XI
    XH))))))) :: (((String ((Ascii (true, true, false, false, false, false,
    true, false)), (String ((Ascii (false, false, true, false, false, false,
    true, false)), (String ((Ascii (false, true, true, true, false, false,
    true, false)), (String ((Ascii (true, true, false, false, true, false,
    true, false)), (String ((Ascii (true, true, false, true, false, false,
    true, false)), (String ((Ascii (true, false, true, false, false, false,
    true, false)), (String ((Ascii (true, false, false, true, true, false,
    true, false)), EmptyString)))))))))))))), (Npos (XO (XO (XI (XI (XI
    XH))))))) :: (((String ((Ascii (true, true, true, true, false, false,
    true, false)), (String ((Ascii (false, false, false, false, true, false,
    true, false)), (String ((Ascii (true, false, true, false, false, false,
    true, false)), (String ((Ascii (false, true, true, true, false, false,
    true, false)), (String ((Ascii (false, false, false, false, true, false,
    true, false)), (String ((Ascii (true, true, true, false, false, false,
    true, false)), (String ((Ascii (false, false, false, false, true, false,
    true, false)), (String ((Ascii (true, true, false, true, false, false,
    true, false)), (String ((Ascii (true, false, true, false, false, false,
    true, false)), (String ((Ascii (true, false, false, true, true, false,
    true, false)), EmptyString)))))))))))))))))))), (Npos (XI (XO (XI (XI (XI
    XH))))))) :: (((String ((Ascii (true, true, false, false, false, false,
    true, false)), (String ((Ascii (true, true, false, false, true, false,
    true, false)), (String ((Ascii (true, false, false, true, true, false,
    true, false)), (String ((Ascii (false, true, true, true, false, false,
    true, false)), (String ((Ascii (true, true, false, false, false, false,
    true, false)), EmptyString)))))))))), (Npos (XO (XI (XI (XI (XI
    XH))))))) :: (((String ((Ascii (false, true, false, true, true, false,
    true, false)), (String ((Ascii (true, true, true, true, false, false,
    true, false)), (String ((Ascii (false, true, true, true, false, false,
    true, false)), (String ((Ascii (true, false, true, false, false, false,
    true, false)), (String ((Ascii (true, false, true, true, false, false,
    true, false)), (String ((Ascii (false, false, true, false, false, false,
    true, false)), EmptyString)))))))))))), (Npos (XI (XI (XI (XI (XI
    XH))))))) :: (((String ((Ascii (true, true, false, false, true, false,
    true, false)), (String ((Ascii (false, true, true, false, true, false,
    true, false)), (String ((Ascii (true, true, false, false, false, false,
    true, false)), (String ((Ascii (false, true, false, false, false, false,
    true, false)), EmptyString)))))))), (Npos (XO (XO (XO (XO (XO (XO
    XH)))))))) :: (((String ((Ascii (false, false, false, true, false, false,
    true, false)), (String ((Ascii (false, false, true, false, true, false,
    true, false)), (String ((Ascii (false, false, true, false, true, false,
    true, false)), (String ((Ascii (false, false, false, false, true, false,
    true, false)), (String ((Ascii (true, true, false, false, true, false,
    true, false)), EmptyString)))))))))), (Npos (XI (XO (XO (XO (XO (XO
    XH)))))))) :: (((String ((Ascii (true, true, false, false, true, false,
    true, false)), (String ((Ascii (false, false, false, false, true, false,
    true, false)), (String ((Ascii (false, true, true, false, false, false,
    true, false)), EmptyString)))))), (Npos (XI (XI (XO (XO (XO (XI
    XH)))))))) :: (((String ((Ascii (true, false, true, false, true, false,
    true, false)), (String ((Ascii (true, false, false, true, false, false,
    true, false)), (String ((Ascii (false, true, true, true, false, false,
    true, false)), (String ((Ascii (false, true, true, false, false, false,
    true, false)), (String ((Ascii (true, true, true, true, false, false,
    true, false)), EmptyString)))))))))), (Npos (XO (XO (XI (XO (XO (XI
    XH)))))))) :: (((String ((Ascii (true, false, true, false, true, false,
    true, false)), (String ((Ascii (true, false, false, true, false, false,
    true, false)), (String ((Ascii (false, false, true, false, false, false,
    true, false)), EmptyString)))))), (Npos (XI (XO (XI (XO (XO (XI
    XH)))))))) :: (((String ((Ascii (true, true, true, false, false, false,
    true, false)), (String ((Ascii (true, false, false, true, false, false,
    true, false)), (String ((Ascii (false, false, true, false, false, false,
    true, false)), EmptyString)))))), (Npos (XO (XI (XI (XO (XO (XI
    XH)))))))) :: (((String ((Ascii (true, false, true, false, true, false,
    true, false)), (String ((Ascii (false, true, true, true, false, false,
    true, false)), (String ((Ascii (true, true, false, false, true, false,
    true, false)), (String ((Ascii (false, false, false, false, true, false,
    true, false)), (String ((Ascii (true, false, true, false, false, false,
    true, false)), (String ((Ascii (true, true, false, false, false, false,
    true, false)), EmptyString)))))))))))), (Npos (XI (XI (XI (XO (XO (XI
    XH)))))))) :: (((String ((Ascii (false, true, true, true, false, false,
    true, false)), (String ((Ascii (true, false, false, true, false, false,
    true, false)), (String ((Ascii (false, false, true, false, false, false,
    true, false)), EmptyString)))))), (Npos (XO (XO (XO (XI (XO (XI
    XH)))))))) :: (((String ((Ascii (false, false, true, true, false, false,
    true, false)), (String ((Ascii (true, true, false, false, true, true,
    false, false)), (String ((Ascii (false, true, false, false, true, true,
    false, false)), EmptyString)))))), (Npos (XI (XO (XO (XI (XO (XI
    XH)))))))) :: (((String ((Ascii (false, false, true, true, false, false,
    true, false)), (String ((Ascii (false, true, true, false, true, true,
    false, false)), (String ((Ascii (false, false, true, false, true, true,
    false, false)), EmptyString)))))), (Npos (XO (XI (XO (XI (XO (XI
    XH)))))))) :: (((String ((Ascii (false, false, true, true, false, false,
    true, false)), (String ((Ascii (false, false, false, false, true, false,
    true, false)), EmptyString)))), (Npos (XI (XI (XO (XI (XO (XI
    XH)))))))) :: (((String ((Ascii (true, false, true, false, false, false,
    true, false)), (String ((Ascii (true, false, true, false, true, false,
    true, false)), (String ((Ascii (true, false, false, true, false, false,
    true, false)), (String ((Ascii (false, false, true, false, true, true,
    false, false)), (String ((Ascii (false, false, false, true, true, true,
    false, false)), EmptyString)))))))))), (Npos (XO (XO (XI (XI (XO (XI
    XH)))))))) :: (((String ((Ascii (true, false, true, false, false, false,
    true, false)), (String ((Ascii (true, false, true, false, true, false,
    true, false)), (String ((Ascii (true, false, false, true, false, false,
    true, false)), (String ((Ascii (false, true, true, false, true, true,
    false, false)), (String ((Ascii (false, false, true, false, true, true,
    false, false)), EmptyString)))))))))), (Npos (XI (XO (XI (XI (XO (XI
    XH)))))))) :: (((String ((Ascii (false, false, true, false, true, false,
    true, false)), (String ((Ascii (true, true, false, true, false, false,
    true, false)), (String ((Ascii (true, false, true, false, false, false,
    true, false)), (String ((Ascii (true, false, false, true, true, false,
    true, false)), EmptyString)))))))), (Npos (XI (XO (XO (XI (XI (XI (XI
    XH))))))))) :: (((String ((Ascii (false, false, true, false, true, false,
    true, false)), (String ((Ascii (true, true, false, false, true, false,
    true, false)), (String ((Ascii (true, false, false, true, false, false,
    true, false)), (String ((Ascii (true, true, true, false, false, false,
    true, false)), EmptyString)))))))), (Npos (XO (XI (XO (XI (XI (XI (XI
    XH))))))))) :: (((String ((Ascii (true, false, false, true, false, false,
    true, false)), (String ((Ascii (false, false, false, true, true, false,
    true, false)), (String ((Ascii (false, true, true, false, false, false,
    true, false)), (String ((Ascii (false, true, false, false, true, false,
    true, false)), EmptyString)))))))), (Npos (XI (XI (XO (XI (XI (XI (XI
    XH))))))))) :: (((String ((Ascii (true, false, true, false, true, false,
    true, false)), (String ((Ascii (false, true, false, false, true, false,
    true, false)), (String ((Ascii (true, false, false, true, false, false,
    true, false)), EmptyString)))))), (Npos (XO (XO (XO (XO (XO (XO (XO (XO
    XH)))))))))) :: (((String ((Ascii (true, true, false, false, false,
    false, true, false)), (String ((Ascii (true, false, false, false, false,
    false, true, false)), (String ((Ascii (true, false, false, false, false,
    false, true, false)), EmptyString)))))), (Npos (XI (XO (XO (XO (XO (XO
    (XO (XO XH)))))))))) :: (((String ((Ascii (true, false, false, false,
    false, false, true, false)), (String ((Ascii (false, true, true, false,
    true, false, true, false)), (String ((Ascii (true, true, false, false,
    false, false, true, false)), EmptyString)))))), (Npos (XO (XI (XO (XO (XO
    (XO (XO (XO XH)))))))))) :: (((String ((Ascii (false, false, true, false,
    false, false, true, false)), (String ((Ascii (true, true, true, true,
    false, false, true, false)), (String ((Ascii (true, false, false, false,
    false, false, true, false)), EmptyString)))))), (Npos (XI (XI (XO (XO (XO
    (XO (XO (XO XH)))))))))) :: (((String ((Ascii (true, false, false, false,
    false, false, true, false)), (String ((Ascii (true, false, true, true,
    false, false, true, false)), (String ((Ascii (false, false, true, false,
    true, false, true, false)), (String ((Ascii (false, true, false, false,
    true, false, true, false)), (String ((Ascii (true, false, true, false,
    false, false, true, false)), (String ((Ascii (false, false, true, true,
    false, false, true, false)), (String ((Ascii (true, false, false, false,
    false, false, true, false)), (String ((Ascii (true, false, false, true,
    true, false, true, false)), EmptyString)))))))))))))))), (Npos (XO (XO
    (XI (XO (XO (XO (XO (XO XH)))))))))) :: (((String ((Ascii (false, false,
    true, false, true, false, true, false)), (String ((Ascii (true, false,
    false, false, false, false, true, false)), EmptyString)))), (Npos (XO (XO
    (XO (XO (XO (XO (XO (XO (XO (XO (XO (XO (XO (XO (XO
    XH))))))))))))))))) :: (((String ((Ascii (false, false, true, false,
    false, false, true, false)), (String ((Ascii (false, false, true, true,
    false, false, true, false)), (String ((Ascii (false, true, true, false,
    true, false, true, false)), EmptyString)))))), (Npos (XI (XO (XO (XO (XO
    (XO (XO (XO (XO (XO (XO (XO (XO (XO (XO XH))))))))))))))))) :: (((String
    ((Ascii (true, false, false, false, false, false, true, false)), (String
    ((Ascii (false, false, false, true, true, false, true, false)), (String
    ((Ascii (false, true, true, false, false, false, true, false)), (String
    ((Ascii (false, true, false, false, true, false, true, false)),
    EmptyString)))))))), (Npos (XO (XO (XI (XI (XI (XI (XI
    XH))))))))) :: (((String ((Ascii (true, false, true, true, false, false,
    true, false)), (String ((Ascii (true, false, false, false, false, false,
    true, false)), (String ((Ascii (true, false, false, true, false, false,
    true, false)), (String ((Ascii (false, false, true, true, false, false,
    true, false)), (String ((Ascii (false, true, false, false, false, false,
    true, false)), EmptyString)))))))))), (Npos (XI (XO (XI (XI (XI (XI (XI
    XH))))))))) :: (((String ((Ascii (true, false, true, true, false, false,
    true, false)), (String ((Ascii (true, false, false, false, false, false,
    true, false)), (String ((Ascii (true, false, false, true, false, false,
    true, false)), (String ((Ascii (false, false, true, true, false, false,
    true, false)), (String ((Ascii (true, false, false, false, false, false,
    true, false)), EmptyString)))))))))), (Npos (XO (XI (XI (XI (XI (XI (XI
    XH))))))))) :: (((String ((Ascii (true, false, false, false, false,
    false, true, false)), (String ((Ascii (false, false, true, true, false,
    false, true, false)), (String ((Ascii (false, false, true, true, false,
    false, true, false)), EmptyString)))))), (Npos (XI (XI (XI (XI (XI (XI
    (XI
    XH))))))))) :: [])))))))))))))))))))))))))))))))))))))))))))))))))))))))))))))))))))))))))))))))))))))))

(** val qClass_width : n **)

let qClass_width =
  Npos (XO (XO (XO (XO XH))))

(** val qClass_table : (string * n) list **)

let qClass_table =
  ((String ((Ascii (true, false, false, true, false, false, true, false)),
    (String ((Ascii (false, true, true, true, false, false, true, false)),
    EmptyString)))), (Npos XH)) :: (((String ((Ascii (true, true, false,
    false, false, false, true, false)), (String ((Ascii (true, true, false,
    false, true, false, true, false)), EmptyString)))), (Npos (XO
    XH))) :: (((String ((Ascii (true, true, false, false, false, false, true,
    false)), (String ((Ascii (false, false, false, true, false, false, true,
    false)), EmptyString)))), (Npos (XI XH))) :: (((String ((Ascii (false,
    false, false, true, false, false, true, false)), (String ((Ascii (true,
    true, false, false, true, false, true, false)), EmptyString)))), (Npos
    (XO (XO XH)))) :: (((String ((Ascii (false, true, true, true, false,
    false, true, false)), (String ((Ascii (true, true, true, true, false,
    false, true, false)), (String ((Ascii (false, true, true, true, false,
    false, true, false)), (String ((Ascii (true, false, true, false, false,
    false, true, false)), EmptyString)))))))), (Npos (XO (XI (XI (XI (XI (XI
    (XI XH))))))))) :: (((String ((Ascii (true, false, false, false, false,
    false, true, false)), (String ((Ascii (false, true, true, true, false,
    false, true, false)), (String ((Ascii (true, false, false, true, true,
    false, true, false)), EmptyString)))))), (Npos (XI (XI (XI (XI (XI (XI
    (XI XH))))))))) :: [])))))

(** val eDNSOptionCode_width : n **)

let eDNSOptionCode_width =
  Npos (XO (XO (XO (XO XH))))

(** val eDNSOptionCode_table : (string * n) list **)

let eDNSOptionCode_table =
  ((String ((Ascii (true, false, true, false, false, false, true, false)),
    (String ((Ascii (true, true, false, false, false, false, true, false)),
    (String ((Ascii (true, true, false, false, true, false, true, false)),
    EmptyString)))))), (Npos (XO (XO (XO XH))))) :: (((String ((Ascii (true,
    true, false, false, false, false, true, false)), (String ((Ascii (true,
    true, true, true, false, true, true, false)), (String ((Ascii (true,
    true, true, true, false, true, true, false)), (String ((Ascii (true,
    true, false, true, false, true, true, false)), (String ((Ascii (true,
    false, false, true, false, true, true, false)), (String ((Ascii (true,
    false, true, false, false, true, true, false)), EmptyString)))))))))))),
    (Npos (XO (XI (XO XH))))) :: (((String ((Ascii (false, false, false,
    false, true, false, true, false)), (String ((Ascii (true, false, false,
    false, false, true, true, false)), (String ((Ascii (false, false, true,
    false, false, true, true, false)), (String ((Ascii (false, false, true,
    false, false, true, true, false)), (String ((Ascii (true, false, false,
    true, false, true, true, false)), (String ((Ascii (false, true, true,
    true, false, true, true, false)), (String ((Ascii (true, true, true,
    false, false, true, true, false)), EmptyString)))))))))))))), (Npos (XO
    (XO (XI XH))))) :: []))

(** val algorithmType_width : n **)

let algorithmType_width =
  Npos (XO (XO (XO XH)))

(** val algorithmType_table : (string * n) list **)

let algorithmType_table =
  ((String ((Ascii (false, true, false, false, true, false, true, false)),
    (String ((Ascii (true, false, true, false, false, true, true, false)),
    (String ((Ascii (true, true, false, false, true, true, true, false)),
    (String ((Ascii (true, false, true, false, false, true, true, false)),
    (String ((Ascii (false, true, false, false, true, true, true, false)),
    (String ((Ascii (false, true, true, false, true, true, true, false)),
    (String ((Ascii (true, false, true, false, false, true, true, false)),
    (String ((Ascii (false, false, true, false, false, true, true, false)),
    EmptyString)))))))))))))))), N0) :: (((String ((Ascii (false, true,
    false, false, true, false, true, false)), (String ((Ascii (true, true,
    false, false, true, true, true, false)), (String ((Ascii (true, false,
    false, false, false, true, true, false)), (String ((Ascii (true, false,
    true, true, false, false, true, false)), (String ((Ascii (false, false,
    true, false, false, true, true, false)), (String ((Ascii (true, false,
    true, false, true, true, false, false)), EmptyString)))))))))))), (Npos
    XH)) :: (((String ((Ascii (false, false, true, false, false, false, true,
    false)), (String ((Ascii (true, false, false, true, false, true, true,
    false)), (String ((Ascii (false, true, true, false, false, true, true,
    false)), (String ((Ascii (false, true, true, false, false, true, true,
    false)), (String ((Ascii (true, false, false, true, false, true, true,
    false)), (String ((Ascii (false, false, false, true, false, false, true,
    false)), (String ((Ascii (true, false, true, false, false, true, true,
    false)), (String ((Ascii (false, false, true, true, false, true, true,
    false)), (String ((Ascii (false, false, true, true, false, true, true,
    false)), (String ((Ascii (true, false, true, true, false, true, true,
    false)), (String ((Ascii (true, false, false, false, false, true, true,
    false)), (String ((Ascii (false, true, true, true, false, true, true,
    false)), EmptyString)))))))))))))))))))))))), (Npos (XO
    XH))) :: (((String ((Ascii (false, false, true, false, false, false,
    true, false)), (String ((Ascii (true, true, false, false, true, true,
    true, false)), (String ((Ascii (true, false, false, false, false, true,
    true, false)), (String ((Ascii (true, true, false, false, true, false,
    true, false)), (String ((Ascii (false, false, false, true, false, true,
    true, false)), (String ((Ascii (true, false, false, false, false, true,
    true, false)), (String ((Ascii (true, false, false, false, true, true,
    false, false)), EmptyString)))))))))))))), (Npos (XI XH))) :: (((String
    ((Ascii (true, false, true, false, false, false, true, false)), (String
    ((Ascii (false, false, true, true, false, true, true, false)), (String
    ((Ascii (false, false, true, true, false, true, true, false)), (String
    ((Ascii (true, false, false, true, false, true, true, false)), (String
    ((Ascii (false, false, false, false, true, true, true, false)), (String
    ((Ascii (false, false, true, false, true, true, true, false)), (String
    ((Ascii (true, false, false, true, false, true, true, false)), (String
    ((Ascii (true, true, false, false, false, true, true, false)), (String
    ((Ascii (true, true, false, false, false, false, true, false)), (String
    ((Ascii (true, false, true, false, true, true, true, false)), (String
    ((Ascii (false, true, false, false, true, true, true, false)), (String
    ((Ascii (false, true, true, false, true, true, true, false)), (String
    ((Ascii (true, false, true, false, false, true, true, false)),
    EmptyString)))))))))))))))))))))))))), (Npos (XO (XO XH)))) :: (((String
    ((Ascii (false, true, false, false, true, false, true, false)), (String
    ((Ascii (true, true, false, false, true, true, true, false)), (String
    ((Ascii (true, false, false, false, false, true, true, false)), (String
    ((Ascii (true, true, false, false, true, false, true, false)), (String
    ((Ascii (false, false, false, true, false, true, true, false)), (String
    ((Ascii (true, false, false, false, false, true, true, false)), (String
    ((Ascii (true, false, false, false, true, true, false, false)),
    EmptyString)))))))))))))), (Npos (XI (XO XH)))) :: (((String ((Ascii
    (false, false, true, false, false, false, true, false)), (String ((Ascii
    (true, true, false, false, true, true, true, false)), (String ((Ascii
    (true, false, false, false, false, true, true, false)), (String ((Ascii
    (false, true, true, true, false, false, true, false)), (String ((Ascii
    (true, true, false, false, true, true, true, false)), (String ((Ascii
    (true, false, true, false, false, true, true, false)), (String ((Ascii
    (true, true, false, false, false, true, true, false)), (String ((Ascii
    (true, true, false, false, true, true, false, false)),
    EmptyString)))))))))))))))), (Npos (XO (XI XH)))) :: (((String ((Ascii
    (false, true, false, false, true, false, true, false)), (String ((Ascii
    (true, true, false, false, true, true, true, false)), (String ((Ascii
    (true, false, false, false, false, true, true, false)), (String ((Ascii
    (true, true, false, false, true, false, true, false)), (String ((Ascii
    (false, false, false, true, false, true, true, false)), (String ((Ascii
    (true, false, false, false, false, true, true, false)), (String ((Ascii
    (true, false, false, false, true, true, false, false)), (String ((Ascii
    (false, true, true, true, false, false, true, false)), (String ((Ascii
    (true, true, false, false, true, true, true, false)), (String ((Ascii
    (true, false, true, false, false, true, true, false)), (String ((Ascii
    (true, true, false, false, false, true, true, false)), (String ((Ascii
    (true, true, false, false, true, true, false, false)), (String ((Ascii
    (true, true, false, false, true, false, true, false)), (String ((Ascii
    (false, false, false, true, false, true, true, false)), (String ((Ascii
    (true, false, false, false, false, true, true, false)), (String ((Ascii
    (true, false, false, false, true, true, false, false)),
    EmptyString)))))))))))))))))))))))))))))))), (Npos (XI (XI
    XH)))) :: (((String ((Ascii (false, true, false, false, true, false,
    true, false)), (String ((Ascii (true, true, false, false, true, true,
    true, false)), (String ((Ascii (true, false, false, false, false, true,
    true, false)), (String ((Ascii (true, true, false, false, true, false,
    true, false)), (String ((Ascii (false, false, false, true, false, true,
    true, false)), (String ((Ascii (true, false, false, false, false, true,
    true, false)), (String ((Ascii (false, true, false, false, true, true,
    false, false)), (String ((Ascii (true, false, true, false, true, true,
    false, false)), (String ((Ascii (false, true, true, false, true, true,
    false, false)), EmptyString)))))))))))))))))), (Npos (XO (XO (XO
    XH))))) :: (((String ((Ascii (true, true, true, false, false, false,
    true, false)), (String ((Ascii (true, true, true, true, false, true,
    true, false)), (String ((Ascii (true, true, false, false, true, true,
    true, false)), (String ((Ascii (false, false, true, false, true, true,
    true, false)), (String ((Ascii (false, true, false, false, true, false,
    true, false)), EmptyString)))))))))), (Npos (XO (XO (XI
    XH))))) :: (((String ((Ascii (true, false, true, false, false, false,
    true, false)), (String ((Ascii (true, true, false, false, false, true,
    true, false)), (String ((Ascii (false, false, true, false, false, false,
    true, false)), (String ((Ascii (true, true, false, false, true, true,
    true, false)), (String ((Ascii (true, false, false, false, false, true,
    true, false)), (String ((Ascii (false, false, false, false, true, false,
    true, false)), (String ((Ascii (false, true, false, false, true, true,
    false, false)), (String ((Ascii (true, false, true, false, true, true,
    false, false)), (String ((Ascii (false, true, true, false, true, true,
    false, false)), EmptyString)))))))))))))))))), (Npos (XI (XO (XI
    XH))))) :: (((String ((Ascii (true, false, true, false, false, false,
    true, false)), (String ((Ascii (true, true, false, false, false, true,
    true, false)), (String ((Ascii (false, false, true, false, false, false,
    true, false)), (String ((Ascii (true, true, false, false, true, true,
    true, false)), (String ((Ascii (true, false, false, false, false, true,
    true, false)), (String ((Ascii (false, false, false, false, true, false,
    true, false)), (String ((Ascii (true, true, false, false, true, true,
    false, false)), (String ((Ascii (false, false, false, true, true, true,
    false, false)), (String ((Ascii (false, true, true, false, true, true,
    false, false)), EmptyString)))))))))))))))))), (Npos (XO (XI (XI
    XH))))) :: (((String ((Ascii (true, false, true, false, false, false,
    true, false)), (String ((Ascii (false, false, true, false, false, true,
    true, false)), (String ((Ascii (false, true, false, false, true, true,
    false, false)), (String ((Ascii (true, false, true, false, true, true,
    false, false)), (String ((Ascii (true, false, true, false, true, true,
    false, false)), (String ((Ascii (true, false, false, false, true, true,
    false, false)), (String ((Ascii (true, false, false, true, true, true,
    false, false)), EmptyString)))))))))))))), (Npos (XI (XI (XI
    XH))))) :: (((String ((Ascii (true, false, true, false, false, false,
    true, false)), (String ((Ascii (false, false, true, false, false, true,
    true, false)), (String ((Ascii (false, false, true, false, true, true,
    false, false)), (String ((Ascii (false, false, true, false, true, true,
    false, false)), (String ((Ascii (false, false, false, true, true, true,
    false, false)), EmptyString)))))))))), (Npos (XO (XO (XO (XO
    XH)))))) :: (((String ((Ascii (true, false, false, true, false, false,
    true, false)), (String ((Ascii (false, true, true, true, false, true,
    true, false)), (String ((Ascii (false, false, true, false, false, true,
    true, false)), (String ((Ascii (true, false, false, true, false, true,
    true, false)), (String ((Ascii (false, true, false, false, true, true,
    true, false)), (String ((Ascii (true, false, true, false, false, true,
    true, false)), (String ((Ascii (true, true, false, false, false, true,
    true, false)), (String ((Ascii (false, false, true, false, true, true,
    true, false)), EmptyString)))))))))))))))), (Npos (XO (XO (XI (XI (XI (XI
    (XI XH))))))))) :: (((String ((Ascii (false, false, false, false, true,
    false, true, false)), (String ((Ascii (false, true, false, false, true,
    true, true, false)), (String ((Ascii (true, false, false, true, false,
    true, true, false)), (String ((Ascii (false, true, true, false, true,
    true, true, false)), (String ((Ascii (true, false, false, false, false,
    true, true, false)), (String ((Ascii (false, false, true, false, true,
    true, true, false)), (String ((Ascii (true, false, true, false, false,
    true, true, false)), (String ((Ascii (false, false, true, false, false,
    false, true, false)), (String ((Ascii (false, true, true, true, false,
    true, true, false)), (String ((Ascii (true, true, false, false, true,
    true, true, false)), EmptyString)))))))))))))))))))), (Npos (XI (XO (XI
    (XI (XI (XI (XI XH))))))))) :: (((String ((Ascii (false, false, false,
    false, true, false, true, false)), (String ((Ascii (false, true, false,
    false, true, true, true, false)), (String ((Ascii (true, false, false,
    true, false, true, true, false)), (String ((Ascii (false, true, true,
    false, true, true, true, false)), (String ((Ascii (true, false, false,
    false, false, true, true, false)), (String ((Ascii (false, false, true,
    false, true, true, true, false)), (String ((Ascii (true, false, true,
    false, false, true, true, false)), (String ((Ascii (true, true, true,
    true, false, false, true, false)), (String ((Ascii (true, false, false,
    true, false, true, true, false)), (String ((Ascii (false, false, true,
    false, false, true, true, false)), EmptyString)))))))))))))))))))), (Npos
    (XO (XI (XI (XI (XI (XI (XI XH))))))))) :: []))))))))))))))))

(** val digestType_width : n **)

let digestType_width =
  Npos (XO (XO (XO XH)))

(** val digestType_table : (string * n) list **)

let digestType_table =
  ((String ((Ascii (false, true, false, false, true, false, true, false)),
    (String ((Ascii (true, false, true, false, false, true, true, false)),
    (String ((Ascii (true, true, false, false, true, true, true, false)),
    (String ((Ascii (true, false, true, false, false, true, true, false)),
    (String ((Ascii (false, true, false, false, true, true, true, false)),
    (String ((Ascii (false, true, true, false, true, true, true, false)),
    (String ((Ascii (true, false, true, false, false, true, true, false)),
    (String ((Ascii (false, false, true, false, false, true, true, false)),
    EmptyString)))))))))))))))), N0) :: (((String ((Ascii (true, true, false,
    false, true, false, true, false)), (String ((Ascii (false, false, false,
    true, false, true, true, false)), (String ((Ascii (true, false, false,
    false, false, true, true, false)), (String ((Ascii (true, false, false,
    false, true, true, false, false)), EmptyString)))))))), (Npos
    XH)) :: (((String ((Ascii (true, true, false, false, true, false, true,
    false)), (String ((Ascii (false, false, false, true, false, true, true,
    false)), (String ((Ascii (true, false, false, false, false, true, true,
    false)), (String ((Ascii (false, true, false, false, true, true, false,
    false)), (String ((Ascii (true, false, true, false, true, true, false,
    false)), (String ((Ascii (false, true, true, false, true, true, false,
    false)), EmptyString)))))))))))), (Npos (XO XH))) :: (((String ((Ascii
    (true, true, true, false, false, false, true, false)), (String ((Ascii
    (true, true, true, true, false, true, true, false)), (String ((Ascii
    (true, true, false, false, true, true, true, false)), (String ((Ascii
    (false, false, true, false, true, true, true, false)), (String ((Ascii
    (false, true, false, false, true, false, true, false)),
    EmptyString)))))))))), (Npos (XI XH))) :: (((String ((Ascii (true, true,
    false, false, true, false, true, false)), (String ((Ascii (false, false,
    false, true, false, true, true, false)), (String ((Ascii (true, false,
    false, false, false, true, true, false)), (String ((Ascii (true, true,
    false, false, true, true, false, false)), (String ((Ascii (false, false,
    false, true, true, true, false, false)), (String ((Ascii (false, false,
    true, false, true, true, false, false)), EmptyString)))))))))))), (Npos
    (XO (XO XH)))) :: []))))

(** val sSHFPAlgorithm_width : n **)

let sSHFPAlgorithm_width =
  Npos (XO (XO (XO XH)))

(** val sSHFPAlgorithm_table : (string * n) list **)

let sSHFPAlgorithm_table =
  ((String ((Ascii (false, true, false, false, true, false, true, false)),
    (String ((Ascii (true, false, true, false, false, true, true, false)),
    (String ((Ascii (true, true, false, false, true, true, true, false)),
    (String ((Ascii (true, false, true, false, false, true, true, false)),
    (String ((Ascii (false, true, false, false, true, true, true, false)),
    (String ((Ascii (false, true, true, false, true, true, true, false)),
    (String ((Ascii (true, false, true, false, false, true, true, false)),
    (String ((Ascii (false, false, true, false, false, true, true, false)),
    EmptyString)))))))))))))))), N0) :: (((String ((Ascii (false, true,
    false, false, true, false, true, false)), (String ((Ascii (true, true,
    false, false, true, false, true, false)), (String ((Ascii (true, false,
    false, false, false, false, true, false)), EmptyString)))))), (Npos
    XH)) :: (((String ((Ascii (false, false, true, false, false, false, true,
    false)), (String ((Ascii (true, true, false, false, true, false, true,
    false)), (String ((Ascii (true, true, false, false, true, false, true,
    false)), EmptyString)))))), (Npos (XO XH))) :: []))

(** val sSHFPType_width : n **)

let sSHFPType_width =
  Npos (XO (XO (XO XH)))

(** val sSHFPType_table : (string * n) list **)

let sSHFPType_table =
  ((String ((Ascii (false, true, false, false, true, false, true, false)),
    (String ((Ascii (true, false, true, false, false, true, true, false)),
    (String ((Ascii (true, true, false, false, true, true, true, false)),
    (String ((Ascii (true, false, true, false, false, true, true, false)),
    (String ((Ascii (false, true, false, false, true, true, true, false)),
    (String ((Ascii (false, true, true, false, true, true, true, false)),
    (String ((Ascii (true, false, true, false, false, true, true, false)),
    (String ((Ascii (false, false, true, false, false, true, true, false)),
    EmptyString)))))))))))))))), N0) :: (((String ((Ascii (true, true, false,
    false, true, false, true, false)), (String ((Ascii (false, false, false,
    true, false, true, true, false)), (String ((Ascii (true, false, false,
    false, false, true, true, false)), (String ((Ascii (true, false, false,
    false, true, true, false, false)), EmptyString)))))))), (Npos XH)) :: [])

(** val aFSDBSubtype_width : n **)

let aFSDBSubtype_width =
  Npos (XO (XO (XO (XO XH))))

(** val aFSDBSubtype_table : (string * n) list **)

let aFSDBSubtype_table =
  ((String ((Ascii (false, true, true, false, true, false, true, false)),
    (String ((Ascii (true, true, true, true, false, true, true, false)),
    (String ((Ascii (false, false, true, true, false, true, true, false)),
    (String ((Ascii (true, false, true, false, true, true, true, false)),
    (String ((Ascii (true, false, true, true, false, true, true, false)),
    (String ((Ascii (true, false, true, false, false, true, true, false)),
    (String ((Ascii (false, false, true, true, false, false, true, false)),
    (String ((Ascii (true, true, true, true, false, true, true, false)),
    (String ((Ascii (true, true, false, false, false, true, true, false)),
    (String ((Ascii (true, false, false, false, false, true, true, false)),
    (String ((Ascii (false, false, true, false, true, true, true, false)),
    (String ((Ascii (true, false, false, true, false, true, true, false)),
    (String ((Ascii (true, true, true, true, false, true, true, false)),
    (String ((Ascii (false, true, true, true, false, true, true, false)),
    (String ((Ascii (true, true, false, false, true, false, true, false)),
    (String ((Ascii (true, false, true, false, false, true, true, false)),
    (String ((Ascii (false, true, false, false, true, true, true, false)),
    (String ((Ascii (false, true, true, false, true, true, true, false)),
    (String ((Ascii (true, false, true, false, false, true, true, false)),
    (String ((Ascii (false, true, false, false, true, true, true, false)),
    EmptyString)))))))))))))))))))))))))))))))))))))))), (Npos
    XH)) :: (((String ((Ascii (false, false, true, false, false, false, true,
    false)), (String ((Ascii (true, true, false, false, false, false, true,
    false)), (String ((Ascii (true, false, true, false, false, false, true,
    false)), (String ((Ascii (true, false, false, false, false, false, true,
    false)), (String ((Ascii (true, false, true, false, true, true, true,
    false)), (String ((Ascii (false, false, true, false, true, true, true,
    false)), (String ((Ascii (false, false, false, true, false, true, true,
    false)), (String ((Ascii (true, false, true, false, false, true, true,
    false)), (String ((Ascii (false, true, true, true, false, true, true,
    false)), (String ((Ascii (false, false, true, false, true, true, true,
    false)), (String ((Ascii (true, false, false, true, false, true, true,
    false)), (String ((Ascii (true, true, false, false, false, true, true,
    false)), (String ((Ascii (true, false, false, false, false, true, true,
    false)), (String ((Ascii (false, false, true, false, true, true, true,
    false)), (String ((Ascii (true, false, false, true, false, true, true,
    false)), (String ((Ascii (true, true, true, true, false, true, true,
    false)), (String ((Ascii (false, true, true, true, false, true, true,
    false)), (String ((Ascii (true, true, false, false, true, false, true,
    false)), (String ((Ascii (true, false, true, false, false, true, true,
    false)), (String ((Ascii (false, true, false, false, true, true, true,
    false)), (String ((Ascii (false, true, true, false, true, true, true,
    false)), (String ((Ascii (true, false, true, false, false, true, true,
    false)), (String ((Ascii (false, true, false, false, true, true, true,
    false)), EmptyString)))))))))))))))))))))))))))))))))))))))))))))), (Npos
    (XO XH))) :: [])

(** val addressFamilyNumber_width : n **)

let addressFamilyNumber_width =
  Npos (XO (XO (XO (XO XH))))

(** val addressFamilyNumber_table : (string * n) list **)

let addressFamilyNumber_table =
  ((String ((Ascii (true, false, false, true, false, false, true, false)),
    (String ((Ascii (false, false, false, false, true, true, true, false)),
    (String ((Ascii (false, true, true, false, true, true, true, false)),
    (String ((Ascii (false, false, true, false, true, true, false, false)),
    EmptyString)))))))), (Npos XH)) :: (((String ((Ascii (true, false, false,
    true, false, false, true, false)), (String ((Ascii (false, false, false,
    false, true, true, true, false)), (String ((Ascii (false, true, true,
    false, true, true, true, false)), (String ((Ascii (false, true, true,
    false, true, true, false, false)), EmptyString)))))))), (Npos (XO
    XH))) :: [])

(** val dec_dispatch : (n * reader) list **)

let dec_dispatch =
  ((Npos XH), (RdFields ((CKIn EAClass), (((String ((Ascii (true, false,
    false, true, false, true, true, false)), (String ((Ascii (false, false,
    false, false, true, true, true, false)), (String ((Ascii (false, true,
    true, false, true, true, true, false)), (String ((Ascii (false, false,
    true, false, true, true, false, false)), (String ((Ascii (true, true,
    true, true, true, false, true, false)), (String ((Ascii (true, false,
    false, false, false, true, true, false)), (String ((Ascii (false, false,
    true, false, false, true, true, false)), (String ((Ascii (false, false,
    true, false, false, true, true, false)), (String ((Ascii (false, true,
    false, false, true, true, true, false)), EmptyString)))))))))))))))))),
    FIp4) :: [])))) :: (((Npos (XO XH)), (RdFields (CKAny, (((String ((Ascii
    (false, true, true, true, false, true, true, false)), (String ((Ascii
    (true, true, false, false, true, true, true, false)), (String ((Ascii
    (true, true, true, true, true, false, true, false)), (String ((Ascii
    (false, false, true, false, false, true, true, false)), (String ((Ascii
    (true, true, true, true, true, false, true, false)), (String ((Ascii
    (false, true, true, true, false, true, true, false)), (String ((Ascii
    (true, false, false, false, false, true, true, false)), (String ((Ascii
    (true, false, true, true, false, true, true, false)), (String ((Ascii
    (true, false, true, false, false, true, true, false)),
    EmptyString)))))))))))))))))), FName) :: [])))) :: (((Npos (XI XH)),
    (RdFields (CKAny, (((String ((Ascii (true, false, true, true, false,
    true, true, false)), (String ((Ascii (true, false, false, false, false,
    true, true, false)), (String ((Ascii (false, false, true, false, false,
    true, true, false)), (String ((Ascii (true, true, true, true, true,
    false, true, false)), (String ((Ascii (false, true, true, true, false,
    true, true, false)), (String ((Ascii (true, false, false, false, false,
    true, true, false)), (String ((Ascii (true, false, true, true, false,
    true, true, false)), (String ((Ascii (true, false, true, false, false,
    true, true, false)), EmptyString)))))))))))))))),
    FName) :: [])))) :: (((Npos (XO (XO XH))), (RdFields (CKAny, (((String
    ((Ascii (true, false, true, true, false, true, true, false)), (String
    ((Ascii (true, false, false, false, false, true, true, false)), (String
    ((Ascii (false, false, true, false, false, true, true, false)), (String
    ((Ascii (true, true, true, true, true, false, true, false)), (String
    ((Ascii (false, true, true, true, false, true, true, false)), (String
    ((Ascii (true, false, false, false, false, true, true, false)), (String
    ((Ascii (true, false, true, true, false, true, true, false)), (String
    ((Ascii (true, false, true, false, false, true, true, false)),
    EmptyString)))))))))))))))), FName) :: [])))) :: (((Npos (XI (XO XH))),
    (RdFields (CKAny, (((String ((Ascii (true, true, false, false, false,
    true, true, false)), (String ((Ascii (true, true, true, true, true,
    false, true, false)), (String ((Ascii (false, true, true, true, false,
    true, true, false)), (String ((Ascii (true, false, false, false, false,
    true, true, false)), (String ((Ascii (true, false, true, true, false,
    true, true, false)), (String ((Ascii (true, false, true, false, false,
    true, true, false)), EmptyString)))))))))))), FName) :: [])))) :: (((Npos
    (XO (XI XH))), (RdFields (CKAny, (((String ((Ascii (true, false, true,
    true, false, true, true, false)), (String ((Ascii (true, true, true,
    true, true, false, true, false)), (String ((Ascii (false, true, true,
    true, false, true, true, false)), (String ((Ascii (true, false, false,
    false, false, true, true, false)), (String ((Ascii (true, false, true,
    true, false, true, true, false)), (String ((Ascii (true, false, true,
    false, false, true, true, false)), EmptyString)))))))))))),
    FName) :: (((String ((Ascii (false, true, false, false, true, true, true,
    false)), (String ((Ascii (true, true, true, true, true, false, true,
    false)), (String ((Ascii (false, true, true, true, false, true, true,
    false)), (String ((Ascii (true, false, false, false, false, true, true,
    false)), (String ((Ascii (true, false, true, true, false, true, true,
    false)), (String ((Ascii (true, false, true, false, false, true, true,
    false)), EmptyString)))))))))))), FName) :: (((String ((Ascii (true,
    true, false, false, true, true, true, false)), (String ((Ascii (true,
    false, true, false, false, true, true, false)), (String ((Ascii (false,
    true, false, false, true, true, true, false)), (String ((Ascii (true,
    false, false, true, false, true, true, false)), (String ((Ascii (true,
    false, false, false, false, true, true, false)), (String ((Ascii (false,
    false, true, true, false, true, true, false)), EmptyString)))))))))))),
    FU32) :: (((String ((Ascii (false, true, false, false, true, true, true,
    false)), (String ((Ascii (true, false, true, false, false, true, true,
    false)), (String ((Ascii (false, true, true, false, false, true, true,
    false)), (String ((Ascii (false, true, false, false, true, true, true,
    false)), (String ((Ascii (true, false, true, false, false, true, true,
    false)), (String ((Ascii (true, true, false, false, true, true, true,
    false)), (String ((Ascii (false, false, false, true, false, true, true,
    false)), EmptyString)))))))))))))), FU32) :: (((String ((Ascii (false,
    true, false, false, true, true, true, false)), (String ((Ascii (true,
    false, true, false, false, true, true, false)), (String ((Ascii (false,
    false, true, false, true, true, true, false)), (String ((Ascii (false,
    true, false, false, true, true, true, false)), (String ((Ascii (true,
    false, false, true, true, true, true, false)), EmptyString)))))))))),
    FU32) :: (((String ((Ascii (true, false, true, false, false, true, true,
    false)), (String ((Ascii (false, false, false, true, true, true, true,
    false)), (String ((Ascii (false, false, false, false, true, true, true,
    false)), (String ((Ascii (true, false, false, true, false, true, true,
    false)), (String ((Ascii (false, true, false, false, true, true, true,
    false)), (String ((Ascii (true, false, true, false, false, true, true,
    false)), EmptyString)))))))))))), FU32) :: (((String ((Ascii (true,
    false, true, true, false, true, true, false)), (String ((Ascii (true,
    false, false, true, false, true, true, false)), (String ((Ascii (false,
    true, true, true, false, true, true, false)), (String ((Ascii (true,
    true, true, true, true, false, true, false)), (String ((Ascii (false,
    false, true, false, true, true, true, false)), (String ((Ascii (false,
    false, true, false, true, true, true, false)), (String ((Ascii (false,
    false, true, true, false, true, true, false)), EmptyString)))))))))))))),
    FU32) :: [])))))))))) :: (((Npos (XI (XI XH))), (RdFields (CKAny,
    (((String ((Ascii (true, false, true, true, false, true, true, false)),
    (String ((Ascii (true, false, false, false, false, true, true, false)),
    (String ((Ascii (false, false, true, false, false, true, true, false)),
    (String ((Ascii (true, true, true, true, true, false, true, false)),
    (String ((Ascii (false, true, true, true, false, true, true, false)),
    (String ((Ascii (true, false, false, false, false, true, true, false)),
    (String ((Ascii (true, false, true, true, false, true, true, false)),
    (String ((Ascii (true, false, true, false, false, true, true, false)),
    EmptyString)))))))))))))))), FName) :: [])))) :: (((Npos (XO (XO (XO
    XH)))), (RdFields (CKAny, (((String ((Ascii (true, false, true, true,
    false, true, true, false)), (String ((Ascii (true, true, true, false,
    false, true, true, false)), (String ((Ascii (true, false, true, true,
    false, true, true, false)), (String ((Ascii (true, true, true, true,
    true, false, true, false)), (String ((Ascii (false, true, true, true,
    false, true, true, false)), (String ((Ascii (true, false, false, false,
    false, true, true, false)), (String ((Ascii (true, false, true, true,
    false, true, true, false)), (String ((Ascii (true, false, true, false,
    false, true, true, false)), EmptyString)))))))))))))))),
    FName) :: [])))) :: (((Npos (XI (XO (XO XH)))), (RdFields (CKAny,
    (((String ((Ascii (false, true, true, true, false, true, true, false)),
    (String ((Ascii (true, false, true, false, false, true, true, false)),
    (String ((Ascii (true, true, true, false, true, true, true, false)),
    (String ((Ascii (true, true, true, true, true, false, true, false)),
    (String ((Ascii (false, true, true, true, false, true, true, false)),
    (String ((Ascii (true, false, false, false, false, true, true, false)),
    (String ((Ascii (true, false, true, true, false, true, true, false)),
    (String ((Ascii (true, false, true, false, false, true, true, false)),
    EmptyString)))))))))))))))), FName) :: [])))) :: (((Npos (XO (XI (XO
    XH)))), (RdFields (CKAny, (((String ((Ascii (false, false, true, false,
    false, true, true, false)), (String ((Ascii (true, false, false, false,
    false, true, true, false)), (String ((Ascii (false, false, true, false,
    true, true, true, false)), (String ((Ascii (true, false, false, false,
    false, true, true, false)), EmptyString)))))))),
    FRest) :: [])))) :: (((Npos (XI (XI (XO XH)))), (RdFields ((CKIn
    EWKSClass), (((String ((Ascii (true, false, false, true, false, true,
    true, false)), (String ((Ascii (false, false, false, false, true, true,
    true, false)), (String ((Ascii (false, true, true, false, true, true,
    true, false)), (String ((Ascii (false, false, true, false, true, true,
    false, false)), (String ((Ascii (true, true, true, true, true, false,
    true, false)), (String ((Ascii (true, false, false, false, false, true,
    true, false)), (String ((Ascii (false, false, true, false, false, true,
    true, false)), (String ((Ascii (false, false, true, false, false, true,
    true, false)), (String ((Ascii (false, true, false, false, true, true,
    true, false)), EmptyString)))))))))))))))))), FIp4) :: (((String ((Ascii
    (false, false, false, false, true, true, true, false)), (String ((Ascii
    (false, true, false, false, true, true, true, false)), (String ((Ascii
    (true, true, true, true, false, true, true, false)), (String ((Ascii
    (false, false, true, false, true, true, true, false)), (String ((Ascii
    (true, true, true, true, false, true, true, false)), (String ((Ascii
    (true, true, false, false, false, true, true, false)), (String ((Ascii
    (true, true, true, true, false, true, true, false)), (String ((Ascii
    (false, false, true, true, false, true, true, false)),
    EmptyString)))))))))))))))), FU8) :: (((String ((Ascii (false, true,
    false, false, false, true, true, false)), (String ((Ascii (true, false,
    false, true, false, true, true, false)), (String ((Ascii (false, false,
    true, false, true, true, true, false)), (String ((Ascii (true, true,
    true, true, true, false, true, false)), (String ((Ascii (true, false,
    true, true, false, true, true, false)), (String ((Ascii (true, false,
    false, false, false, true, true, false)), (String ((Ascii (false, false,
    false, false, true, true, true, false)), EmptyString)))))))))))))),
    FRest) :: [])))))) :: (((Npos (XO (XO (XI XH)))), (RdFields (CKAny,
    (((String ((Ascii (false, false, false, false, true, true, true, false)),
    (String ((Ascii (false, false, true, false, true, true, true, false)),
    (String ((Ascii (false, true, false, false, true, true, true, false)),
    (String ((Ascii (true, true, true, true, true, false, true, false)),
    (String ((Ascii (false, false, true, false, false, true, true, false)),
    (String ((Ascii (true, true, true, true, true, false, true, false)),
    (String ((Ascii (false, true, true, true, false, true, true, false)),
    (String ((Ascii (true, false, false, false, false, true, true, false)),
    (String ((Ascii (true, false, true, true, false, true, true, false)),
    (String ((Ascii (true, false, true, false, false, true, true, false)),
    EmptyString)))))))))))))))))))), FName) :: [])))) :: (((Npos (XI (XO (XI
    XH)))), (RdFields (CKAny, (((String ((Ascii (true, true, false, false,
    false, true, true, false)), (String ((Ascii (false, false, false, false,
    true, true, true, false)), (String ((Ascii (true, false, true, false,
    true, true, true, false)), EmptyString)))))), FStr) :: (((String ((Ascii
    (true, true, true, true, false, true, true, false)), (String ((Ascii
    (true, true, false, false, true, true, true, false)), EmptyString)))),
    FStr) :: []))))) :: (((Npos (XO (XI (XI XH)))), (RdFields (CKAny,
    (((String ((Ascii (false, true, false, false, true, true, true, false)),
    (String ((Ascii (true, true, true, true, true, false, true, false)),
    (String ((Ascii (true, false, true, true, false, true, true, false)),
    (String ((Ascii (true, false, false, false, false, true, true, false)),
    (String ((Ascii (true, false, false, true, false, true, true, false)),
    (String ((Ascii (false, false, true, true, false, true, true, false)),
    (String ((Ascii (true, true, true, true, true, false, true, false)),
    (String ((Ascii (false, true, false, false, false, true, true, false)),
    (String ((Ascii (false, false, false, true, true, true, true, false)),
    EmptyString)))))))))))))))))), FName) :: (((String ((Ascii (true, false,
    true, false, false, true, true, false)), (String ((Ascii (true, true,
    true, true, true, false, true, false)), (String ((Ascii (true, false,
    true, true, false, true, true, false)), (String ((Ascii (true, false,
    false, false, false, true, true, false)), (String ((Ascii (true, false,
    false, true, false, true, true, false)), (String ((Ascii (false, false,
    true, true, false, true, true, false)), (String ((Ascii (true, true,
    true, true, true, false, true, false)), (String ((Ascii (false, true,
    false, false, false, true, true, false)), (String ((Ascii (false, false,
    false, true, true, true, true, false)), EmptyString)))))))))))))))))),
    FName) :: []))))) :: (((Npos (XI (XI (XI XH)))), (RdFields (CKAny,
    (((String ((Ascii (false, false, false, false, true, true, true, false)),
    (String ((Ascii (false, true, false, false, true, true, true, false)),
    (String ((Ascii (true, false, true, false, false, true, true, false)),
    (String ((Ascii (false, true, true, false, false, true, true, false)),
    (String ((Ascii (true, false, true, false, false, true, true, false)),
    (String ((Ascii (false, true, false, false, true, true, true, false)),
    (String ((Ascii (true, false, true, false, false, true, true, false)),
    (String ((Ascii (false, true, true, true, false, true, true, false)),
    (String ((Ascii (true, true, false, false, false, true, true, false)),
    (String ((Ascii (true, false, true, false, false, true, true, false)),
    EmptyString)))))))))))))))))))), FU16) :: (((String ((Ascii (true, false,
    true, false, false, true, true, false)), (String ((Ascii (false, false,
    false, true, true, true, true, false)), (String ((Ascii (true, true,
    false, false, false, true, true, false)), (String ((Ascii (false, false,
    false, true, false, true, true, false)), (String ((Ascii (true, false,
    false, false, false, true, true, false)), (String ((Ascii (false, true,
    true, true, false, true, true, false)), (String ((Ascii (true, true,
    true, false, false, true, true, false)), (String ((Ascii (true, false,
    true, false, false, true, true, false)), EmptyString)))))))))))))))),
    FName) :: []))))) :: (((Npos (XO (XO (XO (XO XH))))), (RdFields (CKAny,
    (((String ((Ascii (true, true, false, false, true, true, true, false)),
    (String ((Ascii (false, false, true, false, true, true, true, false)),
    (String ((Ascii (false, true, false, false, true, true, true, false)),
    (String ((Ascii (true, false, false, true, false, true, true, false)),
    (String ((Ascii (false, true, true, true, false, true, true, false)),
    (String ((Ascii (true, true, true, false, false, true, true, false)),
    (String ((Ascii (true, true, false, false, true, true, true, false)),
    EmptyString)))))))))))))), FStrs1) :: [])))) :: (((Npos (XI (XO (XO (XO
    XH))))), (RdFields (CKAny, (((String ((Ascii (true, false, true, true,
    false, true, true, false)), (String ((Ascii (false, true, false, false,
    false, true, true, false)), (String ((Ascii (true, true, true, true,
    false, true, true, false)), (String ((Ascii (false, false, false, true,
    true, true, true, false)), (String ((Ascii (true, true, true, true, true,
    false, true, false)), (String ((Ascii (false, false, true, false, false,
    true, true, false)), (String ((Ascii (false, true, true, true, false,
    true, true, false)), (String ((Ascii (true, false, false, false, false,
    true, true, false)), (String ((Ascii (true, false, true, true, false,
    true, true, false)), (String ((Ascii (true, false, true, false, false,
    true, true, false)), EmptyString)))))))))))))))))))), FName) :: (((String
    ((Ascii (false, false, true, false, true, true, true, false)), (String
    ((Ascii (false, false, false, true, true, true, true, false)), (String
    ((Ascii (false, false, true, false, true, true, true, false)), (String
    ((Ascii (true, true, true, true, true, false, true, false)), (String
    ((Ascii (false, false, true, false, false, true, true, false)), (String
    ((Ascii (false, true, true, true, false, true, true, false)), (String
    ((Ascii (true, false, false, false, false, true, true, false)), (String
    ((Ascii (true, false, true, true, false, true, true, false)), (String
    ((Ascii (true, false, true, false, false, true, true, false)),
    EmptyString)))))))))))))))))), FName) :: []))))) :: (((Npos (XO (XI (XO
    (XO XH))))), (RdFields (CKAny, (((String ((Ascii (true, true, false,
    false, true, true, true, false)), (String ((Ascii (true, false, true,
    false, true, true, true, false)), (String ((Ascii (false, true, false,
    false, false, true, true, false)), (String ((Ascii (false, false, true,
    false, true, true, true, false)), (String ((Ascii (true, false, false,
    true, true, true, true, false)), (String ((Ascii (false, false, false,
    false, true, true, true, false)), (String ((Ascii (true, false, true,
    false, false, true, true, false)), EmptyString)))))))))))))), (FEnum16
    (EnAFSDBSubtype, EAFSDBSubtype))) :: (((String ((Ascii (false, false,
    false, true, false, true, true, false)), (String ((Ascii (true, true,
    true, true, false, true, true, false)), (String ((Ascii (true, true,
    false, false, true, true, true, false)), (String ((Ascii (false, false,
    true, false, true, true, true, false)), (String ((Ascii (false, true,
    true, true, false, true, true, false)), (String ((Ascii (true, false,
    false, false, false, true, true, false)), (String ((Ascii (true, false,
    true, true, false, true, true, false)), (String ((Ascii (true, false,
    true, false, false, true, true, false)), EmptyString)))))))))))))))),
    FName) :: []))))) :: (((Npos (XI (XI (XO (XO XH))))), (RdFields (CKAny,
    (((String ((Ascii (false, false, false, false, true, true, true, false)),
    (String ((Ascii (true, true, false, false, true, true, true, false)),
    (String ((Ascii (false, false, true, false, false, true, true, false)),
    (String ((Ascii (false, true, true, true, false, true, true, false)),
    (String ((Ascii (true, true, true, true, true, false, true, false)),
    (String ((Ascii (true, false, false, false, false, true, true, false)),
    (String ((Ascii (false, false, true, false, false, true, true, false)),
    (String ((Ascii (false, false, true, false, false, true, true, false)),
    (String ((Ascii (false, true, false, false, true, true, true, false)),
    (String ((Ascii (true, false, true, false, false, true, true, false)),
    (String ((Ascii (true, true, false, false, true, true, true, false)),
    (String ((Ascii (true, true, false, false, true, true, true, false)),
    EmptyString)))))))))))))))))))))))), FStrPsdn) :: [])))) :: (((Npos (XO
    (XO (XI (XO XH))))), (RdFields (CKAny, (((String ((Ascii (true, false,
    false, true, false, true, true, false)), (String ((Ascii (true, true,
    false, false, true, true, true, false)), (String ((Ascii (false, false,
    true, false, false, true, true, false)), (String ((Ascii (false, true,
    true, true, false, true, true, false)), (String ((Ascii (true, true,
    true, true, true, false, true, false)), (String ((Ascii (true, false,
    false, false, false, true, true, false)), (String ((Ascii (false, false,
    true, false, false, true, true, false)), (String ((Ascii (false, false,
    true, false, false, true, true, false)), (String ((Ascii (false, true,
    false, false, true, true, true, false)), (String ((Ascii (true, false,
    true, false, false, true, true, false)), (String ((Ascii (true, true,
    false, false, true, true, true, false)), (String ((Ascii (true, true,
    false, false, true, true, true, false)),
    EmptyString)))))))))))))))))))))))), FStrIsdn) :: (((String ((Ascii
    (true, true, false, false, true, true, true, false)), (String ((Ascii
    (true, false, false, false, false, true, true, false)), EmptyString)))),
    FOptStrSa) :: []))))) :: (((Npos (XI (XO (XI (XO XH))))), (RdFields
    (CKAny, (((String ((Ascii (false, false, false, false, true, true, true,
    false)), (String ((Ascii (false, true, false, false, true, true, true,
    false)), (String ((Ascii (true, false, true, false, false, true, true,
    false)), (String ((Ascii (false, true, true, false, false, true, true,
    false)), (String ((Ascii (true, false, true, false, false, true, true,
    false)), (String ((Ascii (false, true, false, false, true, true, true,
    false)), (String ((Ascii (true, false, true, false, false, true, true,
    false)), (String ((Ascii (false, true, true, true, false, true, true,
    false)), (String ((Ascii (true, true, false, false, false, true, true,
    false)), (String ((Ascii (true, false, true, false, false, true, true,
    false)), EmptyString)))))))))))))))))))), FU16) :: (((String ((Ascii
    (true, false, false, true, false, true, true, false)), (String ((Ascii
    (false, true, true, true, false, true, true, false)), (String ((Ascii
    (false, false, true, false, true, true, true, false)), (String ((Ascii
    (true, false, true, false, false, true, true, false)), (String ((Ascii
    (false, true, false, false, true, true, true, false)), (String ((Ascii
    (true, false, true, true, false, true, true, false)), (String ((Ascii
    (true, false, true, false, false, true, true, false)), (String ((Ascii
    (false, false, true, false, false, true, true, false)), (String ((Ascii
    (true, false, false, true, false, true, true, false)), (String ((Ascii
    (true, false, false, false, false, true, true, false)), (String ((Ascii
    (false, false, true, false, true, true, true, false)), (String ((Ascii
    (true, false, true, false, false, true, true, false)), (String ((Ascii
    (true, true, true, true, true, false, true, false)), (String ((Ascii
    (false, false, false, true, false, true, true, false)), (String ((Ascii
    (true, true, true, true, false, true, true, false)), (String ((Ascii
    (true, true, false, false, true, true, true, false)), (String ((Ascii
    (false, false, true, false, true, true, true, false)),
    EmptyString)))))))))))))))))))))))))))))))))),
    FName) :: []))))) :: (((Npos (XO (XI (XI (XO XH))))), (RdFields (CKAny,
    (((String ((Ascii (false, false, true, false, false, true, true, false)),
    (String ((Ascii (true, false, false, false, false, true, true, false)),
    (String ((Ascii (false, false, true, false, true, true, true, false)),
    (String ((Ascii (true, false, false, false, false, true, true, false)),
    EmptyString)))))))), FRest) :: [])))) :: (((Npos (XI (XI (XO (XI XH))))),
    (RdFields (CKAny, (((String ((Ascii (false, false, true, true, false,
    true, true, false)), (String ((Ascii (true, true, true, true, false,
    true, true, false)), (String ((Ascii (false, true, true, true, false,
    true, true, false)), (String ((Ascii (true, true, true, false, false,
    true, true, false)), (String ((Ascii (true, false, false, true, false,
    true, true, false)), (String ((Ascii (false, false, true, false, true,
    true, true, false)), (String ((Ascii (true, false, true, false, true,
    true, true, false)), (String ((Ascii (false, false, true, false, false,
    true, true, false)), (String ((Ascii (true, false, true, false, false,
    true, true, false)), EmptyString)))))))))))))))))),
    FStrGpos) :: (((String ((Ascii (false, false, true, true, false, true,
    true, false)), (String ((Ascii (true, false, false, false, false, true,
    true, false)), (String ((Ascii (false, false, true, false, true, true,
    true, false)), (String ((Ascii (true, false, false, true, false, true,
    true, false)), (String ((Ascii (false, false, true, false, true, true,
    true, false)), (String ((Ascii (true, false, true, false, true, true,
    true, false)), (String ((Ascii (false, false, true, false, false, true,
    true, false)), (String ((Ascii (true, false, true, false, false, true,
    true, false)), EmptyString)))))))))))))))), FStrGpos) :: (((String
    ((Ascii (true, false, false, false, false, true, true, false)), (String
    ((Ascii (false, false, true, true, false, true, true, false)), (String
    ((Ascii (false, false, true, false, true, true, true, false)), (String
    ((Ascii (true, false, false, true, false, true, true, false)), (String
    ((Ascii (false, false, true, false, true, true, true, false)), (String
    ((Ascii (true, false, true, false, true, true, true, false)), (String
    ((Ascii (false, false, true, false, false, true, true, false)), (String
    ((Ascii (true, false, true, false, false, true, true, false)),
    EmptyString)))))))))))))))), FStrGpos) :: [])))))) :: (((Npos (XI (XO (XI
    (XI XH))))), (RdFields (CKAny, (((String ((Ascii (false, true, true,
    false, true, true, true, false)), (String ((Ascii (true, false, true,
    false, false, true, true, false)), (String ((Ascii (false, true, false,
    false, true, true, true, false)), (String ((Ascii (true, true, false,
    false, true, true, true, false)), (String ((Ascii (true, false, false,
    true, false, true, true, false)), (String ((Ascii (true, true, true,
    true, false, true, true, false)), (String ((Ascii (false, true, true,
    true, false, true, true, false)), EmptyString)))))))))))))),
    FU8) :: (((String ((Ascii (true, true, false, false, true, true, true,
    false)), (String ((Ascii (true, false, false, true, false, true, true,
    false)), (String ((Ascii (false, true, false, true, true, true, true,
    false)), (String ((Ascii (true, false, true, false, false, true, true,
    false)), EmptyString)))))))), FU8) :: (((String ((Ascii (false, false,
    false, true, false, true, true, false)), (String ((Ascii (true, true,
    true, true, false, true, true, false)), (String ((Ascii (false, true,
    false, false, true, true, true, false)), (String ((Ascii (true, false,
    false, true, false, true, true, false)), (String ((Ascii (false, true,
    false, true, true, true, true, false)), (String ((Ascii (true, true,
    true, true, true, false, true, false)), (String ((Ascii (false, false,
    false, false, true, true, true, false)), (String ((Ascii (false, true,
    false, false, true, true, true, false)), (String ((Ascii (true, false,
    true, false, false, true, true, false)), EmptyString)))))))))))))))))),
    FU8) :: (((String ((Ascii (false, true, true, false, true, true, true,
    false)), (String ((Ascii (true, false, true, false, false, true, true,
    false)), (String ((Ascii (false, true, false, false, true, true, true,
    false)), (String ((Ascii (false, false, true, false, true, true, true,
    false)), (String ((Ascii (true, true, true, true, true, false, true,
    false)), (String ((Ascii (false, false, false, false, true, true, true,
    false)), (String ((Ascii (false, true, false, false, true, true, true,
    false)), (String ((Ascii (true, false, true, false, false, true, true,
    false)), EmptyString)))))))))))))))), FU8) :: (((String ((Ascii (false,
    false, true, true, false, true, true, false)), (String ((Ascii (true,
    false, false, false, false, true, true, false)), (String ((Ascii (false,
    false, true, false, true, true, true, false)), (String ((Ascii (true,
    false, false, true, false, true, true, false)), (String ((Ascii (false,
    false, true, false, true, true, true, false)), (String ((Ascii (true,
    false, true, false, true, true, true, false)), (String ((Ascii (false,
    true, false, false, false, true, true, false)), (String ((Ascii (true,
    false, true, false, false, true, true, false)),
    EmptyString)))))))))))))))), FU32) :: (((String ((Ascii (false, false,
    true, true, false, true, true, false)), (String ((Ascii (true, true,
    true, true, false, true, true, false)), (String ((Ascii (false, true,
    true, true, false, true, true, false)), (String ((Ascii (true, true,
    true, false, false, true, true, false)), (String ((Ascii (true, false,
    false, true, false, true, true, false)), (String ((Ascii (false, false,
    true, false, true, true, true, false)), (String ((Ascii (true, false,
    true, false, true, true, true, false)), (String ((Ascii (false, true,
    false, false, false, true, true, false)), (String ((Ascii (true, false,
    true, false, false, true, true, false)), EmptyString)))))))))))))))))),
    FU32) :: (((String ((Ascii (true, false, false, false, false, true, true,
    false)), (String ((Ascii (false, false, true, true, false, true, true,
    false)), (String ((Ascii (false, false, true, false, true, true, true,
    false)), (String ((Ascii (true, false, false, true, false, true, true,
    false)), (String ((Ascii (false, false, true, false, true, true, true,
    false)), (String ((Ascii (true, false, true, false, true, true, true,
    false)), (String ((Ascii (false, true, false, false, false, true, true,
    false)), (String ((Ascii (true, false, true, false, false, true, true,
    false)), EmptyString)))))))))))))))), FU32) :: [])))))))))) :: (((Npos
    (XO (XI (XO (XI XH))))), (RdFields (CKAny, (((String ((Ascii (false,
    false, false, false, true, true, true, false)), (String ((Ascii (false,
    true, false, false, true, true, true, false)), (String ((Ascii (true,
    false, true, false, false, true, true, false)), (String ((Ascii (false,
    true, true, false, false, true, true, false)), (String ((Ascii (true,
    false, true, false, false, true, true, false)), (String ((Ascii (false,
    true, false, false, true, true, true, false)), (String ((Ascii (true,
    false, true, false, false, true, true, false)), (String ((Ascii (false,
    true, true, true, false, true, true, false)), (String ((Ascii (true,
    true, false, false, false, true, true, false)), (String ((Ascii (true,
    false, true, false, false, true, true, false)),
    EmptyString)))))))))))))))))))), FU16) :: (((String ((Ascii (true, false,
    true, true, false, true, true, false)), (String ((Ascii (true, false,
    false, false, false, true, true, false)), (String ((Ascii (false, false,
    false, false, true, true, true, false)), (String ((Ascii (false, false,
    false, true, true, true, false, false)), (String ((Ascii (false, true,
    false, false, true, true, false, false)), (String ((Ascii (false, true,
    false, false, true, true, false, false)), EmptyString)))))))))))),
    FName) :: (((String ((Ascii (true, false, true, true, false, true, true,
    false)), (String ((Ascii (true, false, false, false, false, true, true,
    false)), (String ((Ascii (false, false, false, false, true, true, true,
    false)), (String ((Ascii (false, false, false, true, true, true, true,
    false)), (String ((Ascii (false, false, true, false, true, true, false,
    false)), (String ((Ascii (false, false, false, false, true, true, false,
    false)), (String ((Ascii (false, false, false, false, true, true, false,
    false)), EmptyString)))))))))))))), FName) :: [])))))) :: (((Npos (XO (XO
    (XI (XO (XO XH)))))), (RdFields (CKAny, (((String ((Ascii (false, false,
    false, false, true, true, true, false)), (String ((Ascii (false, true,
    false, false, true, true, true, false)), (String ((Ascii (true, false,
    true, false, false, true, true, false)), (String ((Ascii (false, true,
    true, false, false, true, true, false)), (String ((Ascii (true, false,
    true, false, false, true, true, false)), (String ((Ascii (false, true,
    false, false, true, true, true, false)), (String ((Ascii (true, false,
    true, false, false, true, true, false)), (String ((Ascii (false, true,
    true, true, false, true, true, false)), (String ((Ascii (true, true,
    false, false, false, true, true, false)), (String ((Ascii (true, false,
    true, false, false, true, true, false)), EmptyString)))))))))))))))))))),
    FU16) :: (((String ((Ascii (true, false, true, false, false, true, true,
    false)), (String ((Ascii (false, false, false, true, true, true, true,
    false)), (String ((Ascii (true, true, false, false, false, true, true,
    false)), (String ((Ascii (false, false, false, true, false, true, true,
    false)), (String ((Ascii (true, false, false, false, false, true, true,
    false)), (String ((Ascii (false, true, true, true, false, true, true,
    false)), (String ((Ascii (true, true, true, false, false, true, true,
    false)), (String ((Ascii (true, false, true, false, false, true, true,
    false)), (String ((Ascii (false, true, false, false, true, true, true,
    false)), EmptyString)))))))))))))))))), FName) :: []))))) :: (((Npos (XI
    (XO (XO (XO (XO XH)))))), (RdFields (CKAny, (((String ((Ascii (false,
    false, false, false, true, true, true, false)), (String ((Ascii (false,
    true, false, false, true, true, true, false)), (String ((Ascii (true,
    false, false, true, false, true, true, false)), (String ((Ascii (true,
    true, true, true, false, true, true, false)), (String ((Ascii (false,
    true, false, false, true, true, true, false)), (String ((Ascii (true,
    false, false, true, false, true, true, false)), (String ((Ascii (false,
    false, true, false, true, true, true, false)), (String ((Ascii (true,
    false, false, true, true, true, true, false)),
    EmptyString)))))))))))))))), FU16) :: (((String ((Ascii (true, true,
    true, false, true, true, true, false)), (String ((Ascii (true, false,
    true, false, false, true, true, false)), (String ((Ascii (true, false,
    false, true, false, true, true, false)), (String ((Ascii (true, true,
    true, false, false, true, true, false)), (String ((Ascii (false, false,
    false, true, false, true, true, false)), (String ((Ascii (false, false,
    true, false, true, true, true, false)), EmptyString)))))))))))),
    FU16) :: (((String ((Ascii (false, false, false, false, true, true, true,
    false)), (String ((Ascii (true, true, true, true, false, true, true,
    false)), (String ((Ascii (false, true, false, false, true, true, true,
    false)), (String ((Ascii (false, false, true, false, true, true, true,
    false)), EmptyString)))))))), FU16) :: (((String ((Ascii (false, false,
    true, false, true, true, true, false)), (String ((Ascii (true, false,
    false, false, false, true, true, false)), (String ((Ascii (false, true,
    false, false, true, true, true, false)), (String ((Ascii (true, true,
    true, false, false, true, true, false)), (String ((Ascii (true, false,
    true, false, false, true, true, false)), (String ((Ascii (false, false,
    true, false, true, true, true, false)), EmptyString)))))))))))),
    FName) :: []))))))) :: (((Npos (XO (XO (XI (XI XH))))), (RdFields ((CKIn
    EAAAAClass), (((String ((Ascii (true, false, false, true, false, true,
    true, false)), (String ((Ascii (false, false, false, false, true, true,
    true, false)), (String ((Ascii (false, true, true, false, true, true,
    true, false)), (String ((Ascii (false, true, true, false, true, true,
    false, false)), (String ((Ascii (true, true, true, true, true, false,
    true, false)), (String ((Ascii (true, false, false, false, false, true,
    true, false)), (String ((Ascii (false, false, true, false, false, true,
    true, false)), (String ((Ascii (false, false, true, false, false, true,
    true, false)), (String ((Ascii (false, true, false, false, true, true,
    true, false)), EmptyString)))))))))))))))))), FIp6) :: [])))) :: (((Npos
    (XO (XO (XI (XI (XO XH)))))), (RdFields (CKAny, (((String ((Ascii (true,
    false, false, false, false, true, true, false)), (String ((Ascii (false,
    false, true, true, false, true, true, false)), (String ((Ascii (true,
    true, true, false, false, true, true, false)), (String ((Ascii (true,
    true, true, true, false, true, true, false)), (String ((Ascii (false,
    true, false, false, true, true, true, false)), (String ((Ascii (true,
    false, false, true, false, true, true, false)), (String ((Ascii (false,
    false, true, false, true, true, true, false)), (String ((Ascii (false,
    false, false, true, false, true, true, false)), (String ((Ascii (true,
    false, true, true, false, true, true, false)),
    EmptyString)))))))))))))))))), (FEnum8 (EnSSHFPAlgorithm,
    ESSHFPAlgorithm))) :: (((String ((Ascii (false, false, true, false, true,
    true, true, false)), (String ((Ascii (true, false, false, true, true,
    true, true, false)), (String ((Ascii (false, false, false, false, true,
    true, true, false)), (String ((Ascii (true, false, true, false, false,
    true, true, false)), (String ((Ascii (true, true, true, true, true,
    false, true, false)), EmptyString)))))))))), (FEnum8 (EnSSHFPType,
    ESSHFPType))) :: (((String ((Ascii (false, true, true, false, false,
    true, true, false)), (String ((Ascii (false, false, false, false, true,
    true, true, false)), EmptyString)))), FRest) :: [])))))) :: (((Npos (XI
    (XI (XI (XO (XO XH)))))), (RdFields (CKAny, (((String ((Ascii (false,
    false, true, false, true, true, true, false)), (String ((Ascii (true,
    false, false, false, false, true, true, false)), (String ((Ascii (false,
    true, false, false, true, true, true, false)), (String ((Ascii (true,
    true, true, false, false, true, true, false)), (String ((Ascii (true,
    false, true, false, false, true, true, false)), (String ((Ascii (false,
    false, true, false, true, true, true, false)), EmptyString)))))))))))),
    FName) :: [])))) :: (((Npos (XO (XO (XO (XI (XO (XI XH))))))), (RdFields
    (CKAny, (((String ((Ascii (false, false, false, false, true, true, true,
    false)), (String ((Ascii (false, true, false, false, true, true, true,
    false)), (String ((Ascii (true, false, true, false, false, true, true,
    false)), (String ((Ascii (false, true, true, false, false, true, true,
    false)), (String ((Ascii (true, false, true, false, false, true, true,
    false)), (String ((Ascii (false, true, false, false, true, true, true,
    false)), (String ((Ascii (true, false, true, false, false, true, true,
    false)), (String ((Ascii (false, true, true, true, false, true, true,
    false)), (String ((Ascii (true, true, false, false, false, true, true,
    false)), (String ((Ascii (true, false, true, false, false, true, true,
    false)), EmptyString)))))))))))))))))))), FU16) :: (((String ((Ascii
    (false, true, true, true, false, true, true, false)), (String ((Ascii
    (true, true, true, true, false, true, true, false)), (String ((Ascii
    (false, false, true, false, false, true, true, false)), (String ((Ascii
    (true, false, true, false, false, true, true, false)), (String ((Ascii
    (true, true, true, true, true, false, true, false)), (String ((Ascii
    (true, false, false, true, false, true, true, false)), (String ((Ascii
    (false, false, true, false, false, true, true, false)),
    EmptyString)))))))))))))), FU64) :: []))))) :: (((Npos (XI (XO (XO (XI
    (XO (XI XH))))))), (RdFields (CKAny, (((String ((Ascii (false, false,
    false, false, true, true, true, false)), (String ((Ascii (false, true,
    false, false, true, true, true, false)), (String ((Ascii (true, false,
    true, false, false, true, true, false)), (String ((Ascii (false, true,
    true, false, false, true, true, false)), (String ((Ascii (true, false,
    true, false, false, true, true, false)), (String ((Ascii (false, true,
    false, false, true, true, true, false)), (String ((Ascii (true, false,
    true, false, false, true, true, false)), (String ((Ascii (false, true,
    true, true, false, true, true, false)), (String ((Ascii (true, true,
    false, false, false, true, true, false)), (String ((Ascii (true, false,
    true, false, false, true, true, false)), EmptyString)))))))))))))))))))),
    FU16) :: (((String ((Ascii (false, false, true, true, false, true, true,
    false)), (String ((Ascii (true, true, true, true, false, true, true,
    false)), (String ((Ascii (true, true, false, false, false, true, true,
    false)), (String ((Ascii (true, false, false, false, false, true, true,
    false)), (String ((Ascii (false, false, true, false, true, true, true,
    false)), (String ((Ascii (true, true, true, true, false, true, true,
    false)), (String ((Ascii (false, true, false, false, true, true, true,
    false)), (String ((Ascii (true, true, true, true, true, false, true,
    false)), (String ((Ascii (true, true, false, false, true, true, false,
    false)), (String ((Ascii (false, true, false, false, true, true, false,
    false)), EmptyString)))))))))))))))))))), FU32) :: []))))) :: (((Npos (XO
    (XI (XO (XI (XO (XI XH))))))), (RdFields (CKAny, (((String ((Ascii
    (false, false, false, false, true, true, true, false)), (String ((Ascii
    (false, true, false, false, true, true, true, false)), (String ((Ascii
    (true, false, true, false, false, true, true, false)), (String ((Ascii
    (false, true, true, false, false, true, true, false)), (String ((Ascii
    (true, false, true, false, false, true, true, false)), (String ((Ascii
    (false, true, false, false, true, true, true, false)), (String ((Ascii
    (true, false, true, false, false, true, true, false)), (String ((Ascii
    (false, true, true, true, false, true, true, false)), (String ((Ascii
    (true, true, false, false, false, true, true, false)), (String ((Ascii
    (true, false, true, false, false, true, true, false)),
    EmptyString)))))))))))))))))))), FU16) :: (((String ((Ascii (false,
    false, true, true, false, true, true, false)), (String ((Ascii (true,
    true, true, true, false, true, true, false)), (String ((Ascii (true,
    true, false, false, false, true, true, false)), (String ((Ascii (true,
    false, false, false, false, true, true, false)), (String ((Ascii (false,
    false, true, false, true, true, true, false)), (String ((Ascii (true,
    true, true, true, false, true, true, false)), (String ((Ascii (false,
    true, false, false, true, true, true, false)), (String ((Ascii (true,
    true, true, true, true, false, true, false)), (String ((Ascii (false,
    true, true, false, true, true, false, false)), (String ((Ascii (false,
    false, true, false, true, true, false, false)),
    EmptyString)))))))))))))))))))), FU64) :: []))))) :: (((Npos (XI (XI (XO
    (XI (XO (XI XH))))))), (RdFields (CKAny, (((String ((Ascii (false, false,
    false, false, true, true, true, false)), (String ((Ascii (false, true,
    false, false, true, true, true, false)), (String ((Ascii (true, false,
    true, false, false, true, true, false)), (String ((Ascii (false, true,
    true, false, false, true, true, false)), (String ((Ascii (true, false,
    true, false, false, true, true, false)), (String ((Ascii (false, true,
    false, false, true, true, true, false)), (String ((Ascii (true, false,
    true, false, false, true, true, false)), (String ((Ascii (false, true,
    true, true, false, true, true, false)), (String ((Ascii (true, true,
    false, false, false, true, true, false)), (String ((Ascii (true, false,
    true, false, false, true, true, false)), EmptyString)))))))))))))))))))),
    FU16) :: (((String ((Ascii (false, true, true, false, false, true, true,
    false)), (String ((Ascii (true, false, false, false, true, true, true,
    false)), (String ((Ascii (false, false, true, false, false, true, true,
    false)), (String ((Ascii (false, true, true, true, false, true, true,
    false)), EmptyString)))))))), FName) :: []))))) :: (((Npos (XO (XO (XI
    (XI (XO (XI XH))))))), (RdFields (CKAny, (((String ((Ascii (true, false,
    true, false, false, true, true, false)), (String ((Ascii (true, false,
    true, false, true, true, true, false)), (String ((Ascii (true, false,
    false, true, false, true, true, false)), (String ((Ascii (true, true,
    true, true, true, false, true, false)), (String ((Ascii (false, false,
    true, false, true, true, false, false)), (String ((Ascii (false, false,
    false, true, true, true, false, false)), (String ((Ascii (true, true,
    true, true, true, false, true, false)), (String ((Ascii (false, false,
    false, false, true, true, false, false)), EmptyString)))))))))))))))),
    FU8) :: (((String ((Ascii (true, false, true, false, false, true, true,
    false)), (String ((Ascii (true, false, true, false, true, true, true,
    false)), (String ((Ascii (true, false, false, true, false, true, true,
    false)), (String ((Ascii (true, true, true, true, true, false, true,
    false)), (String ((Ascii (false, false, true, false, true, true, false,
    false)), (String ((Ascii (false, false, false, true, true, true, false,
    false)), (String ((Ascii (true, true, true, true, true, false, true,
    false)), (String ((Ascii (true, false, false, false, true, true, false,
    false)), EmptyString)))))))))))))))), FU8) :: (((String ((Ascii (true,
    false, true, false, false, true, true, false)), (String ((Ascii (true,
    false, true, false, true, true, true, false)), (String ((Ascii (true,
    false, false, true, false, true, true, false)), (String ((Ascii (true,
    true, true, true, true, false, true, false)), (String ((Ascii (false,
    false, true, false, true, true, false, false)), (String ((Ascii (false,
    false, false, true, true, true, false, false)), (String ((Ascii (true,
    true, true, true, true, false, true, false)), (String ((Ascii (false,
    true, false, false, true, true, false, false)),
    EmptyString)))))))))))))))), FU8) :: (((String ((Ascii (true, false,
    true, false, false, true, true, false)), (String ((Ascii (true, false,
    true, false, true, true, true, false)), (String ((Ascii (true, false,
    false, true, false, true, true, false)), (String ((Ascii (true, true,
    true, true, true, false, true, false)), (String ((Ascii (false, false,
    true, false, true, true, false, false)), (String ((Ascii (false, false,
    false, true, true, true, false, false)), (String ((Ascii (true, true,
    true, true, true, false, true, false)), (String ((Ascii (true, true,
    false, false, true, true, false, false)), EmptyString)))))))))))))))),
    FU8) :: (((String ((Ascii (true, false, true, false, false, true, true,
    false)), (String ((Ascii (true, false, true, false, true, true, true,
    false)), (String ((Ascii (true, false, false, true, false, true, true,
    false)), (String ((Ascii (true, true, true, true, true, false, true,
    false)), (String ((Ascii (false, false, true, false, true, true, false,
    false)), (String ((Ascii (false, false, false, true, true, true, false,
    false)), (String ((Ascii (true, true, true, true, true, false, true,
    false)), (String ((Ascii (false, false, true, false, true, true, false,
    false)), EmptyString)))))))))))))))), FU8) :: (((String ((Ascii (true,
    false, true, false, false, true, true, false)), (String ((Ascii (true,
    false, true, false, true, true, true, false)), (String ((Ascii (true,
    false, false, true, false, true, true, false)), (String ((Ascii (true,
    true, true, true, true, false, true, false)), (String ((Ascii (false,
    false, true, false, true, true, false, false)), (String ((Ascii (false,
    false, false, true, true, true, false, false)), (String ((Ascii (true,
    true, true, true, true, false, true, false)), (String ((Ascii (true,
    false, true, false, true, true, false, false)),
    EmptyString)))))))))))))))), FU8) :: []))))))))) :: (((Npos (XI (XO (XI
    (XI (XO (XI XH))))))), (RdFields (CKAny, (((String ((Ascii (true, false,
    true, false, false, true, true, false)), (String ((Ascii (true, false,
    true, false, true, true, true, false)), (String ((Ascii (true, false,
    false, true, false, true, true, false)), (String ((Ascii (true, true,
    true, true, true, false, true, false)), (String ((Ascii (false, true,
    true, false, true, true, false, false)), (String ((Ascii (false, false,
    true, false, true, true, false, false)), (String ((Ascii (true, true,
    true, true, true, false, true, false)), (String ((Ascii (false, false,
    false, false, true, true, false, false)), EmptyString)))))))))))))))),
    FU8) :: (((String ((Ascii (true, false, true, false, false, true, true,
    false)), (String ((Ascii (true, false, true, false, true, true, true,
    false)), (String ((Ascii (true, false, false, true, false, true, true,
    false)), (String ((Ascii (true, true, true, true, true, false, true,
    false)), (String ((Ascii (false, true, true, false, true, true, false,
    false)), (String ((Ascii (false, false, true, false, true, true, false,
    false)), (String ((Ascii (true, true, true, true, true, false, true,
    false)), (String ((Ascii (true, false, false, false, true, true, false,
    false)), EmptyString)))))))))))))))), FU8) :: (((String ((Ascii (true,
    false, true, false, false, true, true, false)), (String ((Ascii (true,
    false, true, false, true, true, true, false)), (String ((Ascii (true,
    false, false, true, false, true, true, false)), (String ((Ascii (true,
    true, true, true, true, false, true, false)), (String ((Ascii (false,
    true, true, false, true, true, false, false)), (String ((Ascii (false,
    false, true, false, true, true, false, false)), (String ((Ascii (true,
    true, true, true, true, false, true, false)), (String ((Ascii (false,
    true, false, false, true, true, false, false)),
    EmptyString)))))))))))))))), FU8) :: (((String ((Ascii (true, false,
    true, false, false, true, true, false)), (String ((Ascii (true, false,
    true, false, true, true, true, false)), (String ((Ascii (true, false,
    false, true, false, true, true, false)), (String ((Ascii (true, true,
    true, true, true, false, true, false)), (String ((Ascii (false, true,
    true, false, true, true, false, false)), (String ((Ascii (false, false,
    true, false, true, true, false, false)), (String ((Ascii (true, true,
    true, true, true, false, true, false)), (String ((Ascii (true, true,
    false, false, true, true, false, false)), EmptyString)))))))))))))))),
    FU8) :: (((String ((Ascii (true, false, true, false, false, true, true,
    false)), (String ((Ascii (true, false, true, false, true, true, true,
    false)), (String ((Ascii (true, false, false, true, false, true, true,
    false)), (String ((Ascii (true, true, true, true, true, false, true,
    false)), (String ((Ascii (false, true, true, false, true, true, false,
    false)), (String ((Ascii (false, false, true, false, true, true, false,
    false)), (String ((Ascii (true, true, true, true, true, false, true,
    false)), (String ((Ascii (false, false, true, false, true, true, false,
    false)), EmptyString)))))))))))))))), FU8) :: (((String ((Ascii (true,
    false, true, false, false, true, true, false)), (String ((Ascii (true,
    false, true, false, true, true, true, false)), (String ((Ascii (true,
    false, false, true, false, true, true, false)), (String ((Ascii (true,
    true, true, true, true, false, true, false)), (String ((Ascii (false,
    true, true, false, true, true, false, false)), (String ((Ascii (false,
    false, true, false, true, true, false, false)), (String ((Ascii (true,
    true, true, true, true, false, true, false)), (String ((Ascii (true,
    false, true, false, true, true, false, false)),
    EmptyString)))))))))))))))), FU8) :: (((String ((Ascii (true, false,
    true, false, false, true, true, false)), (String ((Ascii (true, false,
    true, false, true, true, true, false)), (String ((Ascii (true, false,
    false, true, false, true, true, false)), (String ((Ascii (true, true,
    true, true, true, false, true, false)), (String ((Ascii (false, true,
    true, false, true, true, false, false)), (String ((Ascii (false, false,
    true, false, true, true, false, false)), (String ((Ascii (true, true,
    true, true, true, false, true, false)), (String ((Ascii (false, true,
    true, false, true, true, false, false)), EmptyString)))))))))))))))),
    FU8) :: (((String ((Ascii (true, false, true, false, false, true, true,
    false)), (String ((Ascii (true, false, true, false, true, true, true,
    false)), (String ((Ascii (true, false, false, true, false, true, true,
    false)), (String ((Ascii (true, true, true, true, true, false, true,
    false)), (String ((Ascii (false, true, true, false, true, true, false,
    false)), (String ((Ascii (false, false, true, false, true, true, false,
    false)), (String ((Ascii (true, true, true, true, true, false, true,
    false)), (String ((Ascii (true, true, true, false, true, true, false,
    false)), EmptyString)))))))))))))))), FU8) :: []))))))))))) :: (((Npos
    (XO (XO (XO (XO (XO (XO (XO (XO XH))))))))), (RdFields (CKAny, (((String
    ((Ascii (false, false, false, false, true, true, true, false)), (String
    ((Ascii (false, true, false, false, true, true, true, false)), (String
    ((Ascii (true, false, false, true, false, true, true, false)), (String
    ((Ascii (true, true, true, true, false, true, true, false)), (String
    ((Ascii (false, true, false, false, true, true, true, false)), (String
    ((Ascii (true, false, false, true, false, true, true, false)), (String
    ((Ascii (false, false, true, false, true, true, true, false)), (String
    ((Ascii (true, false, false, true, true, true, true, false)),
    EmptyString)))))))))))))))), FU16) :: (((String ((Ascii (true, true,
    true, false, true, true, true, false)), (String ((Ascii (true, false,
    true, false, false, true, true, false)), (String ((Ascii (true, false,
    false, true, false, true, true, false)), (String ((Ascii (true, true,
    true, false, false, true, true, false)), (String ((Ascii (false, false,
    false, true, false, true, true, false)), (String ((Ascii (false, false,
    true, false, true, true, true, false)), EmptyString)))))))))))),
    FU16) :: (((String ((Ascii (true, false, true, false, true, true, true,
    false)), (String ((Ascii (false, true, false, false, true, true, true,
    false)), (String ((Ascii (true, false, false, true, false, true, true,
    false)), EmptyString)))))), FRestUtf8) :: [])))))) :: (((Npos (XI (XI (XI
    (XI XH))))), (RdFields (CKAny, (((String ((Ascii (false, false, true,
    false, false, true, true, false)), (String ((Ascii (true, false, false,
    false, false, true, true, false)), (String ((Ascii (false, false, true,
    false, true, true, true, false)), (String ((Ascii (true, false, false,
    false, false, true, true, false)), EmptyString)))))))),
    FRest) :: [])))) :: (((Npos (XO (XO (XO (XO (XO XH)))))), (RdFields
    (CKAny, (((String ((Ascii (false, false, true, false, false, true, true,
    false)), (String ((Ascii (true, false, false, false, false, true, true,
    false)), (String ((Ascii (false, false, true, false, true, true, true,
    false)), (String ((Ascii (true, false, false, false, false, true, true,
    false)), EmptyString)))))))), FRest) :: [])))) :: (((Npos (XO (XO (XO (XO
    (XI XH)))))), (RdFields (CKAny, (((String ((Ascii (false, true, true,
    false, false, true, true, false)), (String ((Ascii (false, false, true,
    true, false, true, true, false)), (String ((Ascii (true, false, false,
    false, false, true, true, false)), (String ((Ascii (true, true, true,
    false, false, true, true, false)), (String ((Ascii (true, true, false,
    false, true, true, true, false)), EmptyString)))))))))),
    FDnskeyFlags) :: (((String ((Ascii (false, false, false, false, true,
    true, true, false)), (String ((Ascii (false, true, false, false, true,
    true, true, false)), (String ((Ascii (true, true, true, true, false,
    true, true, false)), (String ((Ascii (false, false, true, false, true,
    true, true, false)), (String ((Ascii (true, true, true, true, false,
    true, true, false)), (String ((Ascii (true, true, false, false, false,
    true, true, false)), (String ((Ascii (true, true, true, true, false,
    true, true, false)), (String ((Ascii (false, false, true, true, false,
    true, true, false)), EmptyString)))))))))))))))), (FConst8 ((Npos (XI
    XH)), EDNSKEYProtocol))) :: (((String ((Ascii (true, false, false, false,
    false, true, true, false)), (String ((Ascii (false, false, true, true,
    false, true, true, false)), (String ((Ascii (true, true, true, false,
    false, true, true, false)), (String ((Ascii (true, true, true, true,
    false, true, true, false)), (String ((Ascii (false, true, false, false,
    true, true, true, false)), (String ((Ascii (true, false, false, true,
    false, true, true, false)), (String ((Ascii (false, false, true, false,
    true, true, true, false)), (String ((Ascii (false, false, false, true,
    false, true, true, false)), (String ((Ascii (true, false, true, true,
    false, true, true, false)), (String ((Ascii (true, true, true, true,
    true, false, true, false)), (String ((Ascii (false, false, true, false,
    true, true, true, false)), (String ((Ascii (true, false, false, true,
    true, true, true, false)), (String ((Ascii (false, false, false, false,
    true, true, true, false)), (String ((Ascii (true, false, true, false,
    false, true, true, false)), EmptyString)))))))))))))))))))))))))))),
    (FEnum8 (EnAlgorithmType, EAlgorithmType))) :: (((String ((Ascii (false,
    false, false, false, true, true, true, false)), (String ((Ascii (true,
    false, true, false, true, true, true, false)), (String ((Ascii (false,
    true, false, false, false, true, true, false)), (String ((Ascii (false,
    false, true, true, false, true, true, false)), (String ((Ascii (true,
    false, false, true, false, true, true, false)), (String ((Ascii (true,
    true, false, false, false, true, true, false)), (String ((Ascii (true,
    true, true, true, true, false, true, false)), (String ((Ascii (true,
    true, false, true, false, true, true, false)), (String ((Ascii (true,
    false, true, false, false, true, true, false)), (String ((Ascii (true,
    false, false, true, true, true, true, false)),
    EmptyString)))))))))))))))))))), FRest) :: []))))))) :: (((Npos (XI (XI
    (XO (XI (XO XH)))))), (RdFields (CKAny, (((String ((Ascii (true, true,
    false, true, false, true, true, false)), (String ((Ascii (true, false,
    true, false, false, true, true, false)), (String ((Ascii (true, false,
    false, true, true, true, true, false)), (String ((Ascii (true, true,
    true, true, true, false, true, false)), (String ((Ascii (false, false,
    true, false, true, true, true, false)), (String ((Ascii (true, false,
    false, false, false, true, true, false)), (String ((Ascii (true, true,
    true, false, false, true, true, false)), EmptyString)))))))))))))),
    FU16) :: (((String ((Ascii (true, false, false, false, false, true, true,
    false)), (String ((Ascii (false, false, true, true, false, true, true,
    false)), (String ((Ascii (true, true, true, false, false, true, true,
    false)), (String ((Ascii (true, true, true, true, false, true, true,
    false)), (String ((Ascii (false, true, false, false, true, true, true,
    false)), (String ((Ascii (true, false, false, true, false, true, true,
    false)), (String ((Ascii (false, false, true, false, true, true, true,
    false)), (String ((Ascii (false, false, false, true, false, true, true,
    false)), (String ((Ascii (true, false, true, true, false, true, true,
    false)), (String ((Ascii (true, true, true, true, true, false, true,
    false)), (String ((Ascii (false, false, true, false, true, true, true,
    false)), (String ((Ascii (true, false, false, true, true, true, true,
    false)), (String ((Ascii (false, false, false, false, true, true, true,
    false)), (String ((Ascii (true, false, true, false, false, true, true,
    false)), EmptyString)))))))))))))))))))))))))))), (FEnum8
    (EnAlgorithmType, EAlgorithmType))) :: (((String ((Ascii (false, false,
    true, false, false, true, true, false)), (String ((Ascii (true, false,
    false, true, false, true, true, false)), (String ((Ascii (true, true,
    true, false, false, true, true, false)), (String ((Ascii (true, false,
    true, false, false, true, true, false)), (String ((Ascii (true, true,
    false, false, true, true, true, false)), (String ((Ascii (false, false,
    true, false, true, true, true, false)), (String ((Ascii (true, true,
    true, true, true, false, true, false)), (String ((Ascii (false, false,
    true, false, true, true, true, false)), (String ((Ascii (true, false,
    false, true, true, true, true, false)), (String ((Ascii (false, false,
    false, false, true, true, true, false)), (String ((Ascii (true, false,
    true, false, false, true, true, false)),
    EmptyString)))))))))))))))))))))), (FEnum8 (EnDigestType,
    EDigestType))) :: (((String ((Ascii (false, false, true, false, false,
    true, true, false)), (String ((Ascii (true, false, false, true, false,
    true, true, false)), (String ((Ascii (true, true, true, false, false,
    true, true, false)), (String ((Ascii (true, false, true, false, false,
    true, true, false)), (String ((Ascii (true, true, false, false, true,
    true, true, false)), (String ((Ascii (false, false, true, false, true,
    true, true, false)), EmptyString)))))))))))),
    FRest) :: []))))))) :: (((Npos (XI (XO (XO (XO (XO (XO (XO (XO
    XH))))))))), (RdFields (CKAny, (((String ((Ascii (false, true, true,
    false, false, true, true, false)), (String ((Ascii (false, false, true,
    true, false, true, true, false)), (String ((Ascii (true, false, false,
    false, false, true, true, false)), (String ((Ascii (true, true, true,
    false, false, true, true, false)), (String ((Ascii (true, true, false,
    false, true, true, true, false)), EmptyString)))))))))),
    FU8) :: (((String ((Ascii (false, false, true, false, true, true, true,
    false)), (String ((Ascii (true, false, false, false, false, true, true,
    false)), (String ((Ascii (true, true, true, false, false, true, true,
    false)), EmptyString)))))), FTag) :: (((String ((Ascii (false, true,
    true, false, true, true, true, false)), (String ((Ascii (true, false,
    false, false, false, true, true, false)), (String ((Ascii (false, false,
    true, true, false, true, true, false)), (String ((Ascii (true, false,
    true, false, true, true, true, false)), (String ((Ascii (true, false,
    true, false, false, true, true, false)), EmptyString)))))))))),
    FRest) :: [])))))) :: (((Npos (XI (XO (XO (XI (XO XH)))))), (RdSpecial
    SpOpt)) :: (((Npos (XO (XI (XO (XI (XO XH)))))), (RdSpecial
    SpApl)) :: (((Npos (XO (XO (XO (XO (XO (XO XH))))))), (RdSpecial
    SpSvcb)) :: (((Npos (XI (XO (XO (XO (XO (XO XH))))))), (RdSpecial
    SpHttps)) :: [])))))))))))))))))))))))))))))))))))))))))))))

(** val enc_dispatch : (n * writer) list **)

let enc_dispatch =
  ((Npos XH), (WrFields (ECIn, (((String ((Ascii (true, false, false, true,
    false, true, true, false)), (String ((Ascii (false, false, false, false,
    true, true, true, false)), (String ((Ascii (false, true, true, false,
    true, true, true, false)), (String ((Ascii (false, false, true, false,
    true, true, false, false)), (String ((Ascii (true, true, true, true,
    true, false, true, false)), (String ((Ascii (true, false, false, false,
    false, true, true, false)), (String ((Ascii (false, false, true, false,
    false, true, true, false)), (String ((Ascii (false, false, true, false,
    false, true, true, false)), (String ((Ascii (false, true, false, false,
    true, true, true, false)), EmptyString)))))))))))))))))),
    FIp4) :: [])))) :: (((Npos (XO XH)), (WrFields (ECField, (((String
    ((Ascii (false, true, true, true, false, true, true, false)), (String
    ((Ascii (true, true, false, false, true, true, true, false)), (String
    ((Ascii (true, true, true, true, true, false, true, false)), (String
    ((Ascii (false, false, true, false, false, true, true, false)), (String
    ((Ascii (true, true, true, true, true, false, true, false)), (String
    ((Ascii (false, true, true, true, false, true, true, false)), (String
    ((Ascii (true, false, false, false, false, true, true, false)), (String
    ((Ascii (true, false, true, true, false, true, true, false)), (String
    ((Ascii (true, false, true, false, false, true, true, false)),
    EmptyString)))))))))))))))))), FName) :: [])))) :: (((Npos (XI XH)),
    (WrFields (ECField, (((String ((Ascii (true, false, true, true, false,
    true, true, false)), (String ((Ascii (true, false, false, false, false,
    true, true, false)), (String ((Ascii (false, false, true, false, false,
    true, true, false)), (String ((Ascii (true, true, true, true, true,
    false, true, false)), (String ((Ascii (false, true, true, true, false,
    true, true, false)), (String ((Ascii (true, false, false, false, false,
    true, true, false)), (String ((Ascii (true, false, true, true, false,
    true, true, false)), (String ((Ascii (true, false, true, false, false,
    true, true, false)), EmptyString)))))))))))))))),
    FName) :: [])))) :: (((Npos (XO (XO XH))), (WrFields (ECField, (((String
    ((Ascii (true, false, true, true, false, true, true, false)), (String
    ((Ascii (true, false, false, false, false, true, true, false)), (String
    ((Ascii (false, false, true, false, false, true, true, false)), (String
    ((Ascii (true, true, true, true, true, false, true, false)), (String
    ((Ascii (false, true, true, true, false, true, true, false)), (String
    ((Ascii (true, false, false, false, false, true, true, false)), (String
    ((Ascii (true, false, true, true, false, true, true, false)), (String
    ((Ascii (true, false, true, false, false, true, true, false)),
    EmptyString)))))))))))))))), FName) :: [])))) :: (((Npos (XI (XO XH))),
    (WrFields (ECField, (((String ((Ascii (true, true, false, false, false,
    true, true, false)), (String ((Ascii (true, true, true, true, true,
    false, true, false)), (String ((Ascii (false, true, true, true, false,
    true, true, false)), (String ((Ascii (true, false, false, false, false,
    true, true, false)), (String ((Ascii (true, false, true, true, false,
    true, true, false)), (String ((Ascii (true, false, true, false, false,
    true, true, false)), EmptyString)))))))))))), FName) :: [])))) :: (((Npos
    (XO (XI XH))), (WrFields (ECField, (((String ((Ascii (true, false, true,
    true, false, true, true, false)), (String ((Ascii (true, true, true,
    true, true, false, true, false)), (String ((Ascii (false, true, true,
    true, false, true, true, false)), (String ((Ascii (true, false, false,
    false, false, true, true, false)), (String ((Ascii (true, false, true,
    true, false, true, true, false)), (String ((Ascii (true, false, true,
    false, false, true, true, false)), EmptyString)))))))))))),
    FName) :: (((String ((Ascii (false, true, false, false, true, true, true,
    false)), (String ((Ascii (true, true, true, true, true, false, true,
    false)), (String ((Ascii (false, true, true, true, false, true, true,
    false)), (String ((Ascii (true, false, false, false, false, true, true,
    false)), (String ((Ascii (true, false, true, true, false, true, true,
    false)), (String ((Ascii (true, false, true, false, false, true, true,
    false)), EmptyString)))))))))))), FName) :: (((String ((Ascii (true,
    true, false, false, true, true, true, false)), (String ((Ascii (true,
    false, true, false, false, true, true, false)), (String ((Ascii (false,
    true, false, false, true, true, true, false)), (String ((Ascii (true,
    false, false, true, false, true, true, false)), (String ((Ascii (true,
    false, false, false, false, true, true, false)), (String ((Ascii (false,
    false, true, true, false, true, true, false)), EmptyString)))))))))))),
    FU32) :: (((String ((Ascii (false, true, false, false, true, true, true,
    false)), (String ((Ascii (true, false, true, false, false, true, true,
    false)), (String ((Ascii (false, true, true, false, false, true, true,
    false)), (String ((Ascii (false, true, false, false, true, true, true,
    false)), (String ((Ascii (true, false, true, false, false, true, true,
    false)), (String ((Ascii (true, true, false, false, true, true, true,
    false)), (String ((Ascii (false, false, false, true, false, true, true,
    false)), EmptyString)))))))))))))), FU32) :: (((String ((Ascii (false,
    true, false, false, true, true, true, false)), (String ((Ascii (true,
    false, true, false, false, true, true, false)), (String ((Ascii (false,
    false, true, false, true, true, true, false)), (String ((Ascii (false,
    true, false, false, true, true, true, false)), (String ((Ascii (true,
    false, false, true, true, true, true, false)), EmptyString)))))))))),
    FU32) :: (((String ((Ascii (true, false, true, false, false, true, true,
    false)), (String ((Ascii (false, false, false, true, true, true, true,
    false)), (String ((Ascii (false, false, false, false, true, true, true,
    false)), (String ((Ascii (true, false, false, true, false, true, true,
    false)), (String ((Ascii (false, true, false, false, true, true, true,
    false)), (String ((Ascii (true, false, true, false, false, true, true,
    false)), EmptyString)))))))))))), FU32) :: (((String ((Ascii (true,
    false, true, true, false, true, true, false)), (String ((Ascii (true,
    false, false, true, false, true, true, false)), (String ((Ascii (false,
    true, true, true, false, true, true, false)), (String ((Ascii (true,
    true, true, true, true, false, true, false)), (String ((Ascii (false,
    false, true, false, true, true, true, false)), (String ((Ascii (false,
    false, true, false, true, true, true, false)), (String ((Ascii (false,
    false, true, true, false, true, true, false)), EmptyString)))))))))))))),
    FU32) :: [])))))))))) :: (((Npos (XI (XI XH))), (WrFields (ECField,
    (((String ((Ascii (true, false, true, true, false, true, true, false)),
    (String ((Ascii (true, false, false, false, false, true, true, false)),
    (String ((Ascii (false, false, true, false, false, true, true, false)),
    (String ((Ascii (true, true, true, true, true, false, true, false)),
    (String ((Ascii (false, true, true, true, false, true, true, false)),
    (String ((Ascii (true, false, false, false, false, true, true, false)),
    (String ((Ascii (true, false, true, true, false, true, true, false)),
    (String ((Ascii (true, false, true, false, false, true, true, false)),
    EmptyString)))))))))))))))), FName) :: [])))) :: (((Npos (XO (XO (XO
    XH)))), (WrFields (ECField, (((String ((Ascii (true, false, true, true,
    false, true, true, false)), (String ((Ascii (true, true, true, false,
    false, true, true, false)), (String ((Ascii (true, false, true, true,
    false, true, true, false)), (String ((Ascii (true, true, true, true,
    true, false, true, false)), (String ((Ascii (false, true, true, true,
    false, true, true, false)), (String ((Ascii (true, false, false, false,
    false, true, true, false)), (String ((Ascii (true, false, true, true,
    false, true, true, false)), (String ((Ascii (true, false, true, false,
    false, true, true, false)), EmptyString)))))))))))))))),
    FName) :: [])))) :: (((Npos (XI (XO (XO XH)))), (WrFields (ECField,
    (((String ((Ascii (false, true, true, true, false, true, true, false)),
    (String ((Ascii (true, false, true, false, false, true, true, false)),
    (String ((Ascii (true, true, true, false, true, true, true, false)),
    (String ((Ascii (true, true, true, true, true, false, true, false)),
    (String ((Ascii (false, true, true, true, false, true, true, false)),
    (String ((Ascii (true, false, false, false, false, true, true, false)),
    (String ((Ascii (true, false, true, true, false, true, true, false)),
    (String ((Ascii (true, false, true, false, false, true, true, false)),
    EmptyString)))))))))))))))), FName) :: [])))) :: (((Npos (XO (XI (XO
    XH)))), (WrFields (ECField, (((String ((Ascii (false, false, true, false,
    false, true, true, false)), (String ((Ascii (true, false, false, false,
    false, true, true, false)), (String ((Ascii (false, false, true, false,
    true, true, true, false)), (String ((Ascii (true, false, false, false,
    false, true, true, false)), EmptyString)))))))),
    FRest) :: [])))) :: (((Npos (XI (XI (XO XH)))), (WrFields (ECIn,
    (((String ((Ascii (true, false, false, true, false, true, true, false)),
    (String ((Ascii (false, false, false, false, true, true, true, false)),
    (String ((Ascii (false, true, true, false, true, true, true, false)),
    (String ((Ascii (false, false, true, false, true, true, false, false)),
    (String ((Ascii (true, true, true, true, true, false, true, false)),
    (String ((Ascii (true, false, false, false, false, true, true, false)),
    (String ((Ascii (false, false, true, false, false, true, true, false)),
    (String ((Ascii (false, false, true, false, false, true, true, false)),
    (String ((Ascii (false, true, false, false, true, true, true, false)),
    EmptyString)))))))))))))))))), FIp4) :: (((String ((Ascii (false, false,
    false, false, true, true, true, false)), (String ((Ascii (false, true,
    false, false, true, true, true, false)), (String ((Ascii (true, true,
    true, true, false, true, true, false)), (String ((Ascii (false, false,
    true, false, true, true, true, false)), (String ((Ascii (true, true,
    true, true, false, true, true, false)), (String ((Ascii (true, true,
    false, false, false, true, true, false)), (String ((Ascii (true, true,
    true, true, false, true, true, false)), (String ((Ascii (false, false,
    true, true, false, true, true, false)), EmptyString)))))))))))))))),
    FU8) :: (((String ((Ascii (false, true, false, false, false, true, true,
    false)), (String ((Ascii (true, false, false, true, false, true, true,
    false)), (String ((Ascii (false, false, true, false, true, true, true,
    false)), (String ((Ascii (true, true, true, true, true, false, true,
    false)), (String ((Ascii (true, false, true, true, false, true, true,
    false)), (String ((Ascii (true, false, false, false, false, true, true,
    false)), (String ((Ascii (false, false, false, false, true, true, true,
    false)), EmptyString)))))))))))))), FRest) :: [])))))) :: (((Npos (XO (XO
    (XI XH)))), (WrFields (ECField, (((String ((Ascii (false, false, false,
    false, true, true, true, false)), (String ((Ascii (false, false, true,
    false, true, true, true, false)), (String ((Ascii (false, true, false,
    false, true, true, true, false)), (String ((Ascii (true, true, true,
    true, true, false, true, false)), (String ((Ascii (false, false, true,
    false, false, true, true, false)), (String ((Ascii (true, true, true,
    true, true, false, true, false)), (String ((Ascii (false, true, true,
    true, false, true, true, false)), (String ((Ascii (true, false, false,
    false, false, true, true, false)), (String ((Ascii (true, false, true,
    true, false, true, true, false)), (String ((Ascii (true, false, true,
    false, false, true, true, false)), EmptyString)))))))))))))))))))),
    FName) :: [])))) :: (((Npos (XI (XO (XI XH)))), (WrFields (ECField,
    (((String ((Ascii (true, true, false, false, false, true, true, false)),
    (String ((Ascii (false, false, false, false, true, true, true, false)),
    (String ((Ascii (true, false, true, false, true, true, true, false)),
    EmptyString)))))), FStr) :: (((String ((Ascii (true, true, true, true,
    false, true, true, false)), (String ((Ascii (true, true, false, false,
    true, true, true, false)), EmptyString)))), FStr) :: []))))) :: (((Npos
    (XO (XI (XI XH)))), (WrFields (ECField, (((String ((Ascii (false, true,
    false, false, true, true, true, false)), (String ((Ascii (true, true,
    true, true, true, false, true, false)), (String ((Ascii (true, false,
    true, true, false, true, true, false)), (String ((Ascii (true, false,
    false, false, false, true, true, false)), (String ((Ascii (true, false,
    false, true, false, true, true, false)), (String ((Ascii (false, false,
    true, true, false, true, true, false)), (String ((Ascii (true, true,
    true, true, true, false, true, false)), (String ((Ascii (false, true,
    false, false, false, true, true, false)), (String ((Ascii (false, false,
    false, true, true, true, true, false)), EmptyString)))))))))))))))))),
    FName) :: (((String ((Ascii (true, false, true, false, false, true, true,
    false)), (String ((Ascii (true, true, true, true, true, false, true,
    false)), (String ((Ascii (true, false, true, true, false, true, true,
    false)), (String ((Ascii (true, false, false, false, false, true, true,
    false)), (String ((Ascii (true, false, false, true, false, true, true,
    false)), (String ((Ascii (false, false, true, true, false, true, true,
    false)), (String ((Ascii (true, true, true, true, true, false, true,
    false)), (String ((Ascii (false, true, false, false, false, true, true,
    false)), (String ((Ascii (false, false, false, true, true, true, true,
    false)), EmptyString)))))))))))))))))), FName) :: []))))) :: (((Npos (XI
    (XI (XI XH)))), (WrFields (ECField, (((String ((Ascii (false, false,
    false, false, true, true, true, false)), (String ((Ascii (false, true,
    false, false, true, true, true, false)), (String ((Ascii (true, false,
    true, false, false, true, true, false)), (String ((Ascii (false, true,
    true, false, false, true, true, false)), (String ((Ascii (true, false,
    true, false, false, true, true, false)), (String ((Ascii (false, true,
    false, false, true, true, true, false)), (String ((Ascii (true, false,
    true, false, false, true, true, false)), (String ((Ascii (false, true,
    true, true, false, true, true, false)), (String ((Ascii (true, true,
    false, false, false, true, true, false)), (String ((Ascii (true, false,
    true, false, false, true, true, false)), EmptyString)))))))))))))))))))),
    FU16) :: (((String ((Ascii (true, false, true, false, false, true, true,
    false)), (String ((Ascii (false, false, false, true, true, true, true,
    false)), (String ((Ascii (true, true, false, false, false, true, true,
    false)), (String ((Ascii (false, false, false, true, false, true, true,
    false)), (String ((Ascii (true, false, false, false, false, true, true,
    false)), (String ((Ascii (false, true, true, true, false, true, true,
    false)), (String ((Ascii (true, true, true, false, false, true, true,
    false)), (String ((Ascii (true, false, true, false, false, true, true,
    false)), EmptyString)))))))))))))))), FName) :: []))))) :: (((Npos (XO
    (XO (XO (XO XH))))), (WrFields (ECField, (((String ((Ascii (true, true,
    false, false, true, true, true, false)), (String ((Ascii (false, false,
    true, false, true, true, true, false)), (String ((Ascii (false, true,
    false, false, true, true, true, false)), (String ((Ascii (true, false,
    false, true, false, true, true, false)), (String ((Ascii (false, true,
    true, true, false, true, true, false)), (String ((Ascii (true, true,
    true, false, false, true, true, false)), (String ((Ascii (true, true,
    false, false, true, true, true, false)), EmptyString)))))))))))))),
    FStrs1) :: [])))) :: (((Npos (XI (XO (XO (XO XH))))), (WrFields (ECField,
    (((String ((Ascii (true, false, true, true, false, true, true, false)),
    (String ((Ascii (false, true, false, false, false, true, true, false)),
    (String ((Ascii (true, true, true, true, false, true, true, false)),
    (String ((Ascii (false, false, false, true, true, true, true, false)),
    (String ((Ascii (true, true, true, true, true, false, true, false)),
    (String ((Ascii (false, false, true, false, false, true, true, false)),
    (String ((Ascii (false, true, true, true, false, true, true, false)),
    (String ((Ascii (true, false, false, false, false, true, true, false)),
    (String ((Ascii (true, false, true, true, false, true, true, false)),
    (String ((Ascii (true, false, true, false, false, true, true, false)),
    EmptyString)))))))))))))))))))), FName) :: (((String ((Ascii (false,
    false, true, false, true, true, true, false)), (String ((Ascii (false,
    false, false, true, true, true, true, false)), (String ((Ascii (false,
    false, true, false, true, true, true, false)), (String ((Ascii (true,
    true, true, true, true, false, true, false)), (String ((Ascii (false,
    false, true, false, false, true, true, false)), (String ((Ascii (false,
    true, true, true, false, true, true, false)), (String ((Ascii (true,
    false, false, false, false, true, true, false)), (String ((Ascii (true,
    false, true, true, false, true, true, false)), (String ((Ascii (true,
    false, true, false, false, true, true, false)),
    EmptyString)))))))))))))))))), FName) :: []))))) :: (((Npos (XO (XI (XO
    (XO XH))))), (WrFields (ECField, (((String ((Ascii (true, true, false,
    false, true, true, true, false)), (String ((Ascii (true, false, true,
    false, true, true, true, false)), (String ((Ascii (false, true, false,
    false, false, true, true, false)), (String ((Ascii (false, false, true,
    false, true, true, true, false)), (String ((Ascii (true, false, false,
    true, true, true, true, false)), (String ((Ascii (false, false, false,
    false, true, true, true, false)), (String ((Ascii (true, false, true,
    false, false, true, true, false)), EmptyString)))))))))))))), (FEnum16
    (EnAFSDBSubtype, EAFSDBSubtype))) :: (((String ((Ascii (false, false,
    false, true, false, true, true, false)), (String ((Ascii (true, true,
    true, true, false, true, true, false)), (String ((Ascii (true, true,
    false, false, true, true, true, false)), (String ((Ascii (false, false,
    true, false, true, true, true, false)), (String ((Ascii (false, true,
    true, true, false, true, true, false)), (String ((Ascii (true, false,
    false, false, false, true, true, false)), (String ((Ascii (true, false,
    true, true, false, true, true, false)), (String ((Ascii (true, false,
    true, false, false, true, true, false)), EmptyString)))))))))))))))),
    FName) :: []))))) :: (((Npos (XI (XI (XO (XO XH))))), (WrFields (ECField,
    (((String ((Ascii (false, false, false, false, true, true, true, false)),
    (String ((Ascii (true, true, false, false, true, true, true, false)),
    (String ((Ascii (false, false, true, false, false, true, true, false)),
    (String ((Ascii (false, true, true, true, false, true, true, false)),
    (String ((Ascii (true, true, true, true, true, false, true, false)),
    (String ((Ascii (true, false, false, false, false, true, true, false)),
    (String ((Ascii (false, false, true, false, false, true, true, false)),
    (String ((Ascii (false, false, true, false, false, true, true, false)),
    (String ((Ascii (false, true, false, false, true, true, true, false)),
    (String ((Ascii (true, false, true, false, false, true, true, false)),
    (String ((Ascii (true, true, false, false, true, true, true, false)),
    (String ((Ascii (true, true, false, false, true, true, true, false)),
    EmptyString)))))))))))))))))))))))), FStrPsdn) :: [])))) :: (((Npos (XO
    (XO (XI (XO XH))))), (WrFields (ECField, (((String ((Ascii (true, false,
    false, true, false, true, true, false)), (String ((Ascii (true, true,
    false, false, true, true, true, false)), (String ((Ascii (false, false,
    true, false, false, true, true, false)), (String ((Ascii (false, true,
    true, true, false, true, true, false)), (String ((Ascii (true, true,
    true, true, true, false, true, false)), (String ((Ascii (true, false,
    false, false, false, true, true, false)), (String ((Ascii (false, false,
    true, false, false, true, true, false)), (String ((Ascii (false, false,
    true, false, false, true, true, false)), (String ((Ascii (false, true,
    false, false, true, true, true, false)), (String ((Ascii (true, false,
    true, false, false, true, true, false)), (String ((Ascii (true, true,
    false, false, true, true, true, false)), (String ((Ascii (true, true,
    false, false, true, true, true, false)),
    EmptyString)))))))))))))))))))))))), FStrIsdn) :: (((String ((Ascii
    (true, true, false, false, true, true, true, false)), (String ((Ascii
    (true, false, false, false, false, true, true, false)), EmptyString)))),
    FOptStrSa) :: []))))) :: (((Npos (XI (XO (XI (XO XH))))), (WrFields
    (ECField, (((String ((Ascii (false, false, false, false, true, true,
    true, false)), (String ((Ascii (false, true, false, false, true, true,
    true, false)), (String ((Ascii (true, false, true, false, false, true,
    true, false)), (String ((Ascii (false, true, true, false, false, true,
    true, false)), (String ((Ascii (true, false, true, false, false, true,
    true, false)), (String ((Ascii (false, true, false, false, true, true,
    true, false)), (String ((Ascii (true, false, true, false, false, true,
    true, false)), (String ((Ascii (false, true, true, true, false, true,
    true, false)), (String ((Ascii (true, true, false, false, false, true,
    true, false)), (String ((Ascii (true, false, true, false, false, true,
    true, false)), EmptyString)))))))))))))))))))), FU16) :: (((String
    ((Ascii (true, false, false, true, false, true, true, false)), (String
    ((Ascii (false, true, true, true, false, true, true, false)), (String
    ((Ascii (false, false, true, false, true, true, true, false)), (String
    ((Ascii (true, false, true, false, false, true, true, false)), (String
    ((Ascii (false, true, false, false, true, true, true, false)), (String
    ((Ascii (true, false, true, true, false, true, true, false)), (String
    ((Ascii (true, false, true, false, false, true, true, false)), (String
    ((Ascii (false, false, true, false, false, true, true, false)), (String
    ((Ascii (true, false, false, true, false, true, true, false)), (String
    ((Ascii (true, false, false, false, false, true, true, false)), (String
    ((Ascii (false, false, true, false, true, true, true, false)), (String
    ((Ascii (true, false, true, false, false, true, true, false)), (String
    ((Ascii (true, true, true, true, true, false, true, false)), (String
    ((Ascii (false, false, false, true, false, true, true, false)), (String
    ((Ascii (true, true, true, true, false, true, true, false)), (String
    ((Ascii (true, true, false, false, true, true, true, false)), (String
    ((Ascii (false, false, true, false, true, true, true, false)),
    EmptyString)))))))))))))))))))))))))))))))))),
    FName) :: []))))) :: (((Npos (XO (XI (XI (XO XH))))), (WrFields (ECField,
    (((String ((Ascii (false, false, true, false, false, true, true, false)),
    (String ((Ascii (true, false, false, false, false, true, true, false)),
    (String ((Ascii (false, false, true, false, true, true, true, false)),
    (String ((Ascii (true, false, false, false, false, true, true, false)),
    EmptyString)))))))), FRest) :: [])))) :: (((Npos (XI (XI (XO (XI XH))))),
    (WrFields (ECField, (((String ((Ascii (false, false, true, true, false,
    true, true, false)), (String ((Ascii (true, true, true, true, false,
    true, true, false)), (String ((Ascii (false, true, true, true, false,
    true, true, false)), (String ((Ascii (true, true, true, false, false,
    true, true, false)), (String ((Ascii (true, false, false, true, false,
    true, true, false)), (String ((Ascii (false, false, true, false, true,
    true, true, false)), (String ((Ascii (true, false, true, false, true,
    true, true, false)), (String ((Ascii (false, false, true, false, false,
    true, true, false)), (String ((Ascii (true, false, true, false, false,
    true, true, false)), EmptyString)))))))))))))))))),
    FStrGpos) :: (((String ((Ascii (false, false, true, true, false, true,
    true, false)), (String ((Ascii (true, false, false, false, false, true,
    true, false)), (String ((Ascii (false, false, true, false, true, true,
    true, false)), (String ((Ascii (true, false, false, true, false, true,
    true, false)), (String ((Ascii (false, false, true, false, true, true,
    true, false)), (String ((Ascii (true, false, true, false, true, true,
    true, false)), (String ((Ascii (false, false, true, false, false, true,
    true, false)), (String ((Ascii (true, false, true, false, false, true,
    true, false)), EmptyString)))))))))))))))), FStrGpos) :: (((String
    ((Ascii (true, false, false, false, false, true, true, false)), (String
    ((Ascii (false, false, true, true, false, true, true, false)), (String
    ((Ascii (false, false, true, false, true, true, true, false)), (String
    ((Ascii (true, false, false, true, false, true, true, false)), (String
    ((Ascii (false, false, true, false, true, true, true, false)), (String
    ((Ascii (true, false, true, false, true, true, true, false)), (String
    ((Ascii (false, false, true, false, false, true, true, false)), (String
    ((Ascii (true, false, true, false, false, true, true, false)),
    EmptyString)))))))))))))))), FStrGpos) :: [])))))) :: (((Npos (XI (XO (XI
    (XI XH))))), (WrFields (ECField, (((String ((Ascii (false, true, true,
    false, true, true, true, false)), (String ((Ascii (true, false, true,
    false, false, true, true, false)), (String ((Ascii (false, true, false,
    false, true, true, true, false)), (String ((Ascii (true, true, false,
    false, true, true, true, false)), (String ((Ascii (true, false, false,
    true, false, true, true, false)), (String ((Ascii (true, true, true,
    true, false, true, true, false)), (String ((Ascii (false, true, true,
    true, false, true, true, false)), EmptyString)))))))))))))),
    FU8) :: (((String ((Ascii (true, true, false, false, true, true, true,
    false)), (String ((Ascii (true, false, false, true, false, true, true,
    false)), (String ((Ascii (false, true, false, true, true, true, true,
    false)), (String ((Ascii (true, false, true, false, false, true, true,
    false)), EmptyString)))))))), FU8) :: (((String ((Ascii (false, false,
    false, true, false, true, true, false)), (String ((Ascii (true, true,
    true, true, false, true, true, false)), (String ((Ascii (false, true,
    false, false, true, true, true, false)), (String ((Ascii (true, false,
    false, true, false, true, true, false)), (String ((Ascii (false, true,
    false, true, true, true, true, false)), (String ((Ascii (true, true,
    true, true, true, false, true, false)), (String ((Ascii (false, false,
    false, false, true, true, true, false)), (String ((Ascii (false, true,
    false, false, true, true, true, false)), (String ((Ascii (true, false,
    true, false, false, true, true, false)), EmptyString)))))))))))))))))),
    FU8) :: (((String ((Ascii (false, true, true, false, true, true, true,
    false)), (String ((Ascii (true, false, true, false, false, true, true,
    false)), (String ((Ascii (false, true, false, false, true, true, true,
    false)), (String ((Ascii (false, false, true, false, true, true, true,
    false)), (String ((Ascii (true, true, true, true, true, false, true,
    false)), (String ((Ascii (false, false, false, false, true, true, true,
    false)), (String ((Ascii (false, true, false, false, true, true, true,
    false)), (String ((Ascii (true, false, true, false, false, true, true,
    false)), EmptyString)))))))))))))))), FU8) :: (((String ((Ascii (false,
    false, true, true, false, true, true, false)), (String ((Ascii (true,
    false, false, false, false, true, true, false)), (String ((Ascii (false,
    false, true, false, true, true, true, false)), (String ((Ascii (true,
    false, false, true, false, true, true, false)), (String ((Ascii (false,
    false, true, false, true, true, true, false)), (String ((Ascii (true,
    false, true, false, true, true, true, false)), (String ((Ascii (false,
    true, false, false, false, true, true, false)), (String ((Ascii (true,
    false, true, false, false, true, true, false)),
    EmptyString)))))))))))))))), FU32) :: (((String ((Ascii (false, false,
    true, true, false, true, true, false)), (String ((Ascii (true, true,
    true, true, false, true, true, false)), (String ((Ascii (false, true,
    true, true, false, true, true, false)), (String ((Ascii (true, true,
    true, false, false, true, true, false)), (String ((Ascii (true, false,
    false, true, false, true, true, false)), (String ((Ascii (false, false,
    true, false, true, true, true, false)), (String ((Ascii (true, false,
    true, false, true, true, true, false)), (String ((Ascii (false, true,
    false, false, false, true, true, false)), (String ((Ascii (true, false,
    true, false, false, true, true, false)), EmptyString)))))))))))))))))),
    FU32) :: (((String ((Ascii (true, false, false, false, false, true, true,
    false)), (String ((Ascii (false, false, true, true, false, true, true,
    false)), (String ((Ascii (false, false, true, false, true, true, true,
    false)), (String ((Ascii (true, false, false, true, false, true, true,
    false)), (String ((Ascii (false, false, true, false, true, true, true,
    false)), (String ((Ascii (true, false, true, false, true, true, true,
    false)), (String ((Ascii (false, true, false, false, false, true, true,
    false)), (String ((Ascii (true, false, true, false, false, true, true,
    false)), EmptyString)))))))))))))))), FU32) :: [])))))))))) :: (((Npos
    (XO (XI (XO (XI XH))))), (WrFields (ECField, (((String ((Ascii (false,
    false, false, false, true, true, true, false)), (String ((Ascii (false,
    true, false, false, true, true, true, false)), (String ((Ascii (true,
    false, true, false, false, true, true, false)), (String ((Ascii (false,
    true, true, false, false, true, true, false)), (String ((Ascii (true,
    false, true, false, false, true, true, false)), (String ((Ascii (false,
    true, false, false, true, true, true, false)), (String ((Ascii (true,
    false, true, false, false, true, true, false)), (String ((Ascii (false,
    true, true, true, false, true, true, false)), (String ((Ascii (true,
    true, false, false, false, true, true, false)), (String ((Ascii (true,
    false, true, false, false, true, true, false)),
    EmptyString)))))))))))))))))))), FU16) :: (((String ((Ascii (true, false,
    true, true, false, true, true, false)), (String ((Ascii (true, false,
    false, false, false, true, true, false)), (String ((Ascii (false, false,
    false, false, true, true, true, false)), (String ((Ascii (false, false,
    false, true, true, true, false, false)), (String ((Ascii (false, true,
    false, false, true, true, false, false)), (String ((Ascii (false, true,
    false, false, true, true, false, false)), EmptyString)))))))))))),
    FName) :: (((String ((Ascii (true, false, true, true, false, true, true,
    false)), (String ((Ascii (true, false, false, false, false, true, true,
    false)), (String ((Ascii (false, false, false, false, true, true, true,
    false)), (String ((Ascii (false, false, false, true, true, true, true,
    false)), (String ((Ascii (false, false, true, false, true, true, false,
    false)), (String ((Ascii (false, false, false, false, true, true, false,
    false)), (String ((Ascii (false, false, false, false, true, true, false,
    false)), EmptyString)))))))))))))), FName) :: [])))))) :: (((Npos (XO (XO
    (XI (XO (XO XH)))))), (WrFields (ECField, (((String ((Ascii (false,
    false, false, false, true, true, true, false)), (String ((Ascii (false,
    true, false, false, true, true, true, false)), (String ((Ascii (true,
    false, true, false, false, true, true, false)), (String ((Ascii (false,
    true, true, false, false, true, true, false)), (String ((Ascii (true,
    false, true, false, false, true, true, false)), (String ((Ascii (false,
    true, false, false, true, true, true, false)), (String ((Ascii (true,
    false, true, false, false, true, true, false)), (String ((Ascii (false,
    true, true, true, false, true, true, false)), (String ((Ascii (true,
    true, false, false, false, true, true, false)), (String ((Ascii (true,
    false, true, false, false, true, true, false)),
    EmptyString)))))))))))))))))))), FU16) :: (((String ((Ascii (true, false,
    true, false, false, true, true, false)), (String ((Ascii (false, false,
    false, true, true, true, true, false)), (String ((Ascii (true, true,
    false, false, false, true, true, false)), (String ((Ascii (false, false,
    false, true, false, true, true, false)), (String ((Ascii (true, false,
    false, false, false, true, true, false)), (String ((Ascii (false, true,
    true, true, false, true, true, false)), (String ((Ascii (true, true,
    true, false, false, true, true, false)), (String ((Ascii (true, false,
    true, false, false, true, true, false)), (String ((Ascii (false, true,
    false, false, true, true, true, false)), EmptyString)))))))))))))))))),
    FName) :: []))))) :: (((Npos (XI (XO (XO (XO (XO XH)))))), (WrFields
    (ECField, (((String ((Ascii (false, false, false, false, true, true,
    true, false)), (String ((Ascii (false, true, false, false, true, true,
    true, false)), (String ((Ascii (true, false, false, true, false, true,
    true, false)), (String ((Ascii (true, true, true, true, false, true,
    true, false)), (String ((Ascii (false, true, false, false, true, true,
    true, false)), (String ((Ascii (true, false, false, true, false, true,
    true, false)), (String ((Ascii (false, false, true, false, true, true,
    true, false)), (String ((Ascii (true, false, false, true, true, true,
    true, false)), EmptyString)))))))))))))))), FU16) :: (((String ((Ascii
    (true, true, true, false, true, true, true, false)), (String ((Ascii
    (true, false, true, false, false, true, true, false)), (String ((Ascii
    (true, false, false, true, false, true, true, false)), (String ((Ascii
    (true, true, true, false, false, true, true, false)), (String ((Ascii
    (false, false, false, true, false, true, true, false)), (String ((Ascii
    (false, false, true, false, true, true, true, false)),
    EmptyString)))))))))))), FU16) :: (((String ((Ascii (false, false, false,
    false, true, true, true, false)), (String ((Ascii (true, true, true,
    true, false, true, true, false)), (String ((Ascii (false, true, false,
    false, true, true, true, false)), (String ((Ascii (false, false, true,
    false, true, true, true, false)), EmptyString)))))))), FU16) :: (((String
    ((Ascii (false, false, true, false, true, true, true, false)), (String
    ((Ascii (true, false, false, false, false, true, true, false)), (String
    ((Ascii (false, true, false, false, true, true, true, false)), (String
    ((Ascii (true, true, true, false, false, true, true, false)), (String
    ((Ascii (true, false, true, false, false, true, true, false)), (String
    ((Ascii (false, false, true, false, true, true, true, false)),
    EmptyString)))))))))))), FName) :: []))))))) :: (((Npos (XO (XO (XI (XI
    XH))))), (WrFields (ECIn, (((String ((Ascii (true, false, false, true,
    false, true, true, false)), (String ((Ascii (false, false, false, false,
    true, true, true, false)), (String ((Ascii (false, true, true, false,
    true, true, true, false)), (String ((Ascii (false, true, true, false,
    true, true, false, false)), (String ((Ascii (true, true, true, true,
    true, false, true, false)), (String ((Ascii (true, false, false, false,
    false, true, true, false)), (String ((Ascii (false, false, true, false,
    false, true, true, false)), (String ((Ascii (false, false, true, false,
    false, true, true, false)), (String ((Ascii (false, true, false, false,
    true, true, true, false)), EmptyString)))))))))))))))))),
    FIp6) :: [])))) :: (((Npos (XO (XO (XI (XI (XO XH)))))), (WrFields
    (ECField, (((String ((Ascii (true, false, false, false, false, true,
    true, false)), (String ((Ascii (false, false, true, true, false, true,
    true, false)), (String ((Ascii (true, true, true, false, false, true,
    true, false)), (String ((Ascii (true, true, true, true, false, true,
    true, false)), (String ((Ascii (false, true, false, false, true, true,
    true, false)), (String ((Ascii (true, false, false, true, false, true,
    true, false)), (String ((Ascii (false, false, true, false, true, true,
    true, false)), (String ((Ascii (false, false, false, true, false, true,
    true, false)), (String ((Ascii (true, false, true, true, false, true,
    true, false)), EmptyString)))))))))))))))))), (FEnum8 (EnSSHFPAlgorithm,
    ESSHFPAlgorithm))) :: (((String ((Ascii (false, false, true, false, true,
    true, true, false)), (String ((Ascii (true, false, false, true, true,
    true, true, false)), (String ((Ascii (false, false, false, false, true,
    true, true, false)), (String ((Ascii (true, false, true, false, false,
    true, true, false)), (String ((Ascii (true, true, true, true, true,
    false, true, false)), EmptyString)))))))))), (FEnum8 (EnSSHFPType,
    ESSHFPType))) :: (((String ((Ascii (false, true, true, false, false,
    true, true, false)), (String ((Ascii (false, false, false, false, true,
    true, true, false)), EmptyString)))), FRest) :: [])))))) :: (((Npos (XI
    (XI (XI (XO (XO XH)))))), (WrFields (ECField, (((String ((Ascii (false,
    false, true, false, true, true, true, false)), (String ((Ascii (true,
    false, false, false, false, true, true, false)), (String ((Ascii (false,
    true, false, false, true, true, true, false)), (String ((Ascii (true,
    true, true, false, false, true, true, false)), (String ((Ascii (true,
    false, true, false, false, true, true, false)), (String ((Ascii (false,
    false, true, false, true, true, true, false)), EmptyString)))))))))))),
    FName) :: [])))) :: (((Npos (XO (XO (XO (XI (XO (XI XH))))))), (WrFields
    (ECField, (((String ((Ascii (false, false, false, false, true, true,
    true, false)), (String ((Ascii (false, true, false, false, true, true,
    true, false)), (String ((Ascii (true, false, true, false, false, true,
    true, false)), (String ((Ascii (false, true, true, false, false, true,
    true, false)), (String ((Ascii (true, false, true, false, false, true,
    true, false)), (String ((Ascii (false, true, false, false, true, true,
    true, false)), (String ((Ascii (true, false, true, false, false, true,
    true, false)), (String ((Ascii (false, true, true, true, false, true,
    true, false)), (String ((Ascii (true, true, false, false, false, true,
    true, false)), (String ((Ascii (true, false, true, false, false, true,
    true, false)), EmptyString)))))))))))))))))))), FU16) :: (((String
    ((Ascii (false, true, true, true, false, true, true, false)), (String
    ((Ascii (true, true, true, true, false, true, true, false)), (String
    ((Ascii (false, false, true, false, false, true, true, false)), (String
    ((Ascii (true, false, true, false, false, true, true, false)), (String
    ((Ascii (true, true, true, true, true, false, true, false)), (String
    ((Ascii (true, false, false, true, false, true, true, false)), (String
    ((Ascii (false, false, true, false, false, true, true, false)),
    EmptyString)))))))))))))), FU64) :: []))))) :: (((Npos (XI (XO (XO (XI
    (XO (XI XH))))))), (WrFields (ECField, (((String ((Ascii (false, false,
    false, false, true, true, true, false)), (String ((Ascii (false, true,
    false, false, true, true, true, false)), (String ((Ascii (true, false,
    true, false, false, true, true, false)), (String ((Ascii (false, true,
    true, false, false, true, true, false)), (String ((Ascii (true, false,
    true, false, false, true, true, false)), (String ((Ascii (false, true,
    false, false, true, true, true, false)), (String ((Ascii (true, false,
    true, false, false, true, true, false)), (String ((Ascii (false, true,
    true, true, false, true, true, false)), (String ((Ascii (true, true,
    false, false, false, true, true, false)), (String ((Ascii (true, false,
    true, false, false, true, true, false)), EmptyString)))))))))))))))))))),
    FU16) :: (((String ((Ascii (false, false, true, true, false, true, true,
    false)), (String ((Ascii (true, true, true, true, false, true, true,
    false)), (String ((Ascii (true, true, false, false, false, true, true,
    false)), (String ((Ascii (true, false, false, false, false, true, true,
    false)), (String ((Ascii (false, false, true, false, true, true, true,
    false)), (String ((Ascii (true, true, true, true, false, true, true,
    false)), (String ((Ascii (false, true, false, false, true, true, true,
    false)), (String ((Ascii (true, true, true, true, true, false, true,
    false)), (String ((Ascii (true, true, false, false, true, true, false,
    false)), (String ((Ascii (false, true, false, false, true, true, false,
    false)), EmptyString)))))))))))))))))))), FU32) :: []))))) :: (((Npos (XO
    (XI (XO (XI (XO (XI XH))))))), (WrFields (ECField, (((String ((Ascii
    (false, false, false, false, true, true, true, false)), (String ((Ascii
    (false, true, false, false, true, true, true, false)), (String ((Ascii
    (true, false, true, false, false, true, true, false)), (String ((Ascii
    (false, true, true, false, false, true, true, false)), (String ((Ascii
    (true, false, true, false, false, true, true, false)), (String ((Ascii
    (false, true, false, false, true, true, true, false)), (String ((Ascii
    (true, false, true, false, false, true, true, false)), (String ((Ascii
    (false, true, true, true, false, true, true, false)), (String ((Ascii
    (true, true, false, false, false, true, true, false)), (String ((Ascii
    (true, false, true, false, false, true, true, false)),
    EmptyString)))))))))))))))))))), FU16) :: (((String ((Ascii (false,
    false, true, true, false, true, true, false)), (String ((Ascii (true,
    true, true, true, false, true, true, false)), (String ((Ascii (true,
    true, false, false, false, true, true, false)), (String ((Ascii (true,
    false, false, false, false, true, true, false)), (String ((Ascii (false,
    false, true, false, true, true, true, false)), (String ((Ascii (true,
    true, true, true, false, true, true, false)), (String ((Ascii (false,
    true, false, false, true, true, true, false)), (String ((Ascii (true,
    true, true, true, true, false, true, false)), (String ((Ascii (false,
    true, true, false, true, true, false, false)), (String ((Ascii (false,
    false, true, false, true, true, false, false)),
    EmptyString)))))))))))))))))))), FU64) :: []))))) :: (((Npos (XI (XI (XO
    (XI (XO (XI XH))))))), (WrFields (ECField, (((String ((Ascii (false,
    false, false, false, true, true, true, false)), (String ((Ascii (false,
    true, false, false, true, true, true, false)), (String ((Ascii (true,
    false, true, false, false, true, true, false)), (String ((Ascii (false,
    true, true, false, false, true, true, false)), (String ((Ascii (true,
    false, true, false, false, true, true, false)), (String ((Ascii (false,
    true, false, false, true, true, true, false)), (String ((Ascii (true,
    false, true, false, false, true, true, false)), (String ((Ascii (false,
    true, true, true, false, true, true, false)), (String ((Ascii (true,
    true, false, false, false, true, true, false)), (String ((Ascii (true,
    false, true, false, false, true, true, false)),
    EmptyString)))))))))))))))))))), FU16) :: (((String ((Ascii (false, true,
    true, false, false, true, true, false)), (String ((Ascii (true, false,
    false, false, true, true, true, false)), (String ((Ascii (false, false,
    true, false, false, true, true, false)), (String ((Ascii (false, true,
    true, true, false, true, true, false)), EmptyString)))))))),
    FName) :: []))))) :: (((Npos (XO (XO (XI (XI (XO (XI XH))))))), (WrFields
    (ECField, (((String ((Ascii (true, false, true, false, false, true, true,
    false)), (String ((Ascii (true, false, true, false, true, true, true,
    false)), (String ((Ascii (true, false, false, true, false, true, true,
    false)), (String ((Ascii (true, true, true, true, true, false, true,
    false)), (String ((Ascii (false, false, true, false, true, true, false,
    false)), (String ((Ascii (false, false, false, true, true, true, false,
    false)), (String ((Ascii (true, true, true, true, true, false, true,
    false)), (String ((Ascii (false, false, false, false, true, true, false,
    false)), EmptyString)))))))))))))))), FU8) :: (((String ((Ascii (true,
    false, true, false, false, true, true, false)), (String ((Ascii (true,
    false, true, false, true, true, true, false)), (String ((Ascii (true,
    false, false, true, false, true, true, false)), (String ((Ascii (true,
    true, true, true, true, false, true, false)), (String ((Ascii (false,
    false, true, false, true, true, false, false)), (String ((Ascii (false,
    false, false, true, true, true, false, false)), (String ((Ascii (true,
    true, true, true, true, false, true, false)), (String ((Ascii (true,
    false, false, false, true, true, false, false)),
    EmptyString)))))))))))))))), FU8) :: (((String ((Ascii (true, false,
    true, false, false, true, true, false)), (String ((Ascii (true, false,
    true, false, true, true, true, false)), (String ((Ascii (true, false,
    false, true, false, true, true, false)), (String ((Ascii (true, true,
    true, true, true, false, true, false)), (String ((Ascii (false, false,
    true, false, true, true, false, false)), (String ((Ascii (false, false,
    false, true, true, true, false, false)), (String ((Ascii (true, true,
    true, true, true, false, true, false)), (String ((Ascii (false, true,
    false, false, true, true, false, false)), EmptyString)))))))))))))))),
    FU8) :: (((String ((Ascii (true, false, true, false, false, true, true,
    false)), (String ((Ascii (true, false, true, false, true, true, true,
    false)), (String ((Ascii (true, false, false, true, false, true, true,
    false)), (String ((Ascii (true, true, true, true, true, false, true,
    false)), (String ((Ascii (false, false, true, false, true, true, false,
    false)), (String ((Ascii (false, false, false, true, true, true, false,
    false)), (String ((Ascii (true, true, true, true, true, false, true,
    false)), (String ((Ascii (true, true, false, false, true, true, false,
    false)), EmptyString)))))))))))))))), FU8) :: (((String ((Ascii (true,
    false, true, false, false, true, true, false)), (String ((Ascii (true,
    false, true, false, true, true, true, false)), (String ((Ascii (true,
    false, false, true, false, true, true, false)), (String ((Ascii (true,
    true, true, true, true, false, true, false)), (String ((Ascii (false,
    false, true, false, true, true, false, false)), (String ((Ascii (false,
    false, false, true, true, true, false, false)), (String ((Ascii (true,
    true, true, true, true, false, true, false)), (String ((Ascii (false,
    false, true, false, true, true, false, false)),
    EmptyString)))))))))))))))), FU8) :: (((String ((Ascii (true, false,
    true, false, false, true, true, false)), (String ((Ascii (true, false,
    true, false, true, true, true, false)), (String ((Ascii (true, false,
    false, true, false, true, true, false)), (String ((Ascii (true, true,
    true, true, true, false, true, false)), (String ((Ascii (false, false,
    true, false, true, true, false, false)), (String ((Ascii (false, false,
    false, true, true, true, false, false)), (String ((Ascii (true, true,
    true, true, true, false, true, false)), (String ((Ascii (true, false,
    true, false, true, true, false, false)), EmptyString)))))))))))))))),
    FU8) :: []))))))))) :: (((Npos (XI (XO (XI (XI (XO (XI XH))))))),
    (WrFields (ECField, (((String ((Ascii (true, false, true, false, false,
    true, true, false)), (String ((Ascii (true, false, true, false, true,
    true, true, false)), (String ((Ascii (true, false, false, true, false,
    true, true, false)), (String ((Ascii (true, true, true, true, true,
    false, true, false)), (String ((Ascii (false, true, true, false, true,
    true, false, false)), (String ((Ascii (false, false, true, false, true,
    true, false, false)), (String ((Ascii (true, true, true, true, true,
    false, true, false)), (String ((Ascii (false, false, false, false, true,
    true, false, false)), EmptyString)))))))))))))))), FU8) :: (((String
    ((Ascii (true, false, true, false, false, true, true, false)), (String
    ((Ascii (true, false, true, false, true, true, true, false)), (String
    ((Ascii (true, false, false, true, false, true, true, false)), (String
    ((Ascii (true, true, true, true, true, false, true, false)), (String
    ((Ascii (false, true, true, false, true, true, false, false)), (String
    ((Ascii (false, false, true, false, true, true, false, false)), (String
    ((Ascii (true, true, true, true, true, false, true, false)), (String
    ((Ascii (true, false, false, false, true, true, false, false)),
    EmptyString)))))))))))))))), FU8) :: (((String ((Ascii (true, false,
    true, false, false, true, true, false)), (String ((Ascii (true, false,
    true, false, true, true, true, false)), (String ((Ascii (true, false,
    false, true, false, true, true, false)), (String ((Ascii (true, true,
    true, true, true, false, true, false)), (String ((Ascii (false, true,
    true, false, true, true, false, false)), (String ((Ascii (false, false,
    true, false, true, true, false, false)), (String ((Ascii (true, true,
    true, true, true, false, true, false)), (String ((Ascii (false, true,
    false, false, true, true, false, false)), EmptyString)))))))))))))))),
    FU8) :: (((String ((Ascii (true, false, true, false, false, true, true,
    false)), (String ((Ascii (true, false, true, false, true, true, true,
    false)), (String ((Ascii (true, false, false, true, false, true, true,
    false)), (String ((Ascii (true, true, true, true, true, false, true,
    false)), (String ((Ascii (false, true, true, false, true, true, false,
    false)), (String ((Ascii (false, false, true, false, true, true, false,
    false)), (String ((Ascii (true, true, true, true, true, false, true,
    false)), (String ((Ascii (true, true, false, false, true, true, false,
    false)), EmptyString)))))))))))))))), FU8) :: (((String ((Ascii (true,
    false, true, false, false, true, true, false)), (String ((Ascii (true,
    false, true, false, true, true, true, false)), (String ((Ascii (true,
    false, false, true, false, true, true, false)), (String ((Ascii (true,
    true, true, true, true, false, true, false)), (String ((Ascii (false,
    true, true, false, true, true, false, false)), (String ((Ascii (false,
    false, true, false, true, true, false, false)), (String ((Ascii (true,
    true, true, true, true, false, true, false)), (String ((Ascii (false,
    false, true, false, true, true, false, false)),
    EmptyString)))))))))))))))), FU8) :: (((String ((Ascii (true, false,
    true, false, false, true, true, false)), (String ((Ascii (true, false,
    true, false, true, true, true, false)), (String ((Ascii (true, false,
    false, true, false, true, true, false)), (String ((Ascii (true, true,
    true, true, true, false, true, false)), (String ((Ascii (false, true,
    true, false, true, true, false, false)), (String ((Ascii (false, false,
    true, false, true, true, false, false)), (String ((Ascii (true, true,
    true, true, true, false, true, false)), (String ((Ascii (true, false,
    true, false, true, true, false, false)), EmptyString)))))))))))))))),
    FU8) :: (((String ((Ascii (true, false, true, false, false, true, true,
    false)), (String ((Ascii (true, false, true, false, true, true, true,
    false)), (String ((Ascii (true, false, false, true, false, true, true,
    false)), (String ((Ascii (true, true, true, true, true, false, true,
    false)), (String ((Ascii (false, true, true, false, true, true, false,
    false)), (String ((Ascii (false, false, true, false, true, true, false,
    false)), (String ((Ascii (true, true, true, true, true, false, true,
    false)), (String ((Ascii (false, true, true, false, true, true, false,
    false)), EmptyString)))))))))))))))), FU8) :: (((String ((Ascii (true,
    false, true, false, false, true, true, false)), (String ((Ascii (true,
    false, true, false, true, true, true, false)), (String ((Ascii (true,
    false, false, true, false, true, true, false)), (String ((Ascii (true,
    true, true, true, true, false, true, false)), (String ((Ascii (false,
    true, true, false, true, true, false, false)), (String ((Ascii (false,
    false, true, false, true, true, false, false)), (String ((Ascii (true,
    true, true, true, true, false, true, false)), (String ((Ascii (true,
    true, true, false, true, true, false, false)),
    EmptyString)))))))))))))))), FU8) :: []))))))))))) :: (((Npos (XO (XO (XO
    (XO (XO (XO (XO (XO XH))))))))), (WrFields (ECField, (((String ((Ascii
    (false, false, false, false, true, true, true, false)), (String ((Ascii
    (false, true, false, false, true, true, true, false)), (String ((Ascii
    (true, false, false, true, false, true, true, false)), (String ((Ascii
    (true, true, true, true, false, true, true, false)), (String ((Ascii
    (false, true, false, false, true, true, true, false)), (String ((Ascii
    (true, false, false, true, false, true, true, false)), (String ((Ascii
    (false, false, true, false, true, true, true, false)), (String ((Ascii
    (true, false, false, true, true, true, true, false)),
    EmptyString)))))))))))))))), FU16) :: (((String ((Ascii (true, true,
    true, false, true, true, true, false)), (String ((Ascii (true, false,
    true, false, false, true, true, false)), (String ((Ascii (true, false,
    false, true, false, true, true, false)), (String ((Ascii (true, true,
    true, false, false, true, true, false)), (String ((Ascii (false, false,
    false, true, false, true, true, false)), (String ((Ascii (false, false,
    true, false, true, true, true, false)), EmptyString)))))))))))),
    FU16) :: (((String ((Ascii (true, false, true, false, true, true, true,
    false)), (String ((Ascii (false, true, false, false, true, true, true,
    false)), (String ((Ascii (true, false, false, true, false, true, true,
    false)), EmptyString)))))), FRestUtf8) :: [])))))) :: (((Npos (XI (XI (XI
    (XI XH))))), (WrFields (ECField, (((String ((Ascii (false, false, true,
    false, false, true, true, false)), (String ((Ascii (true, false, false,
    false, false, true, true, false)), (String ((Ascii (false, false, true,
    false, true, true, true, false)), (String ((Ascii (true, false, false,
    false, false, true, true, false)), EmptyString)))))))),
    FRest) :: [])))) :: (((Npos (XO (XO (XO (XO (XO XH)))))), (WrFields
    (ECField, (((String ((Ascii (false, false, true, false, false, true,
    true, false)), (String ((Ascii (true, false, false, false, false, true,
    true, false)), (String ((Ascii (false, false, true, false, true, true,
    true, false)), (String ((Ascii (true, false, false, false, false, true,
    true, false)), EmptyString)))))))), FRest) :: [])))) :: (((Npos (XO (XO
    (XO (XO (XI XH)))))), (WrFields (ECField, (((String ((Ascii (false, true,
    true, false, false, true, true, false)), (String ((Ascii (false, false,
    true, true, false, true, true, false)), (String ((Ascii (true, false,
    false, false, false, true, true, false)), (String ((Ascii (true, true,
    true, false, false, true, true, false)), (String ((Ascii (true, true,
    false, false, true, true, true, false)), EmptyString)))))))))),
    FDnskeyFlags) :: (((String ((Ascii (false, false, false, false, true,
    true, true, false)), (String ((Ascii (false, true, false, false, true,
    true, true, false)), (String ((Ascii (true, true, true, true, false,
    true, true, false)), (String ((Ascii (false, false, true, false, true,
    true, true, false)), (String ((Ascii (true, true, true, true, false,
    true, true, false)), (String ((Ascii (true, true, false, false, false,
    true, true, false)), (String ((Ascii (true, true, true, true, false,
    true, true, false)), (String ((Ascii (false, false, true, true, false,
    true, true, false)), EmptyString)))))))))))))))), (FConst8 ((Npos (XI
    XH)), EDNSKEYProtocol))) :: (((String ((Ascii (true, false, false, false,
    false, true, true, false)), (String ((Ascii (false, false, true, true,
    false, true, true, false)), (String ((Ascii (true, true, true, false,
    false, true, true, false)), (String ((Ascii (true, true, true, true,
    false, true, true, false)), (String ((Ascii (false, true, false, false,
    true, true, true, false)), (String ((Ascii (true, false, false, true,
    false, true, true, false)), (String ((Ascii (false, false, true, false,
    true, true, true, false)), (String ((Ascii (false, false, false, true,
    false, true, true, false)), (String ((Ascii (true, false, true, true,
    false, true, true, false)), (String ((Ascii (true, true, true, true,
    true, false, true, false)), (String ((Ascii (false, false, true, false,
    true, true, true, false)), (String ((Ascii (true, false, false, true,
    true, true, true, false)), (String ((Ascii (false, false, false, false,
    true, true, true, false)), (String ((Ascii (true, false, true, false,
    false, true, true, false)), EmptyString)))))))))))))))))))))))))))),
    (FEnum8 (EnAlgorithmType, EAlgorithmType))) :: (((String ((Ascii (false,
    false, false, false, true, true, true, false)), (String ((Ascii (true,
    false, true, false, true, true, true, false)), (String ((Ascii (false,
    true, false, false, false, true, true, false)), (String ((Ascii (false,
    false, true, true, false, true, true, false)), (String ((Ascii (true,
    false, false, true, false, true, true, false)), (String ((Ascii (true,
    true, false, false, false, true, true, false)), (String ((Ascii (true,
    true, true, true, true, false, true, false)), (String ((Ascii (true,
    true, false, true, false, true, true, false)), (String ((Ascii (true,
    false, true, false, false, true, true, false)), (String ((Ascii (true,
    false, false, true, true, true, true, false)),
    EmptyString)))))))))))))))))))), FRest) :: []))))))) :: (((Npos (XI (XI
    (XO (XI (XO XH)))))), (WrFields (ECField, (((String ((Ascii (true, true,
    false, true, false, true, true, false)), (String ((Ascii (true, false,
    true, false, false, true, true, false)), (String ((Ascii (true, false,
    false, true, true, true, true, false)), (String ((Ascii (true, true,
    true, true, true, false, true, false)), (String ((Ascii (false, false,
    true, false, true, true, true, false)), (String ((Ascii (true, false,
    false, false, false, true, true, false)), (String ((Ascii (true, true,
    true, false, false, true, true, false)), EmptyString)))))))))))))),
    FU16) :: (((String ((Ascii (true, false, false, false, false, true, true,
    false)), (String ((Ascii (false, false, true, true, false, true, true,
    false)), (String ((Ascii (true, true, true, false, false, true, true,
    false)), (String ((Ascii (true, true, true, true, false, true, true,
    false)), (String ((Ascii (false, true, false, false, true, true, true,
    false)), (String ((Ascii (true, false, false, true, false, true, true,
    false)), (String ((Ascii (false, false, true, false, true, true, true,
    false)), (String ((Ascii (false, false, false, true, false, true, true,
    false)), (String ((Ascii (true, false, true, true, false, true, true,
    false)), (String ((Ascii (true, true, true, true, true, false, true,
    false)), (String ((Ascii (false, false, true, false, true, true, true,
    false)), (String ((Ascii (true, false, false, true, true, true, true,
    false)), (String ((Ascii (false, false, false, false, true, true, true,
    false)), (String ((Ascii (true, false, true, false, false, true, true,
    false)), EmptyString)))))))))))))))))))))))))))), (FEnum8
    (EnAlgorithmType, EAlgorithmType))) :: (((String ((Ascii (false, false,
    true, false, false, true, true, false)), (String ((Ascii (true, false,
    false, true, false, true, true, false)), (String ((Ascii (true, true,
    true, false, false, true, true, false)), (String ((Ascii (true, false,
    true, false, false, true, true, false)), (String ((Ascii (true, true,
    false, false, true, true, true, false)), (String ((Ascii (false, false,
    true, false, true, true, true, false)), (String ((Ascii (true, true,
    true, true, true, false, true, false)), (String ((Ascii (false, false,
    true, false, true, true, true, false)), (String ((Ascii (true, false,
    false, true, true, true, true, false)), (String ((Ascii (false, false,
    false, false, true, true, true, false)), (String ((Ascii (true, false,
    true, false, false, true, true, false)),
    EmptyString)))))))))))))))))))))), (FEnum8 (EnDigestType,
    EDigestType))) :: (((String ((Ascii (false, false, true, false, false,
    true, true, false)), (String ((Ascii (true, false, false, true, false,
    true, true, false)), (String ((Ascii (true, true, true, false, false,
    true, true, false)), (String ((Ascii (true, false, true, false, false,
    true, true, false)), (String ((Ascii (true, true, false, false, true,
    true, true, false)), (String ((Ascii (false, false, true, false, true,
    true, true, false)), EmptyString)))))))))))),
    FRest) :: []))))))) :: (((Npos (XI (XO (XO (XO (XO (XO (XO (XO
    XH))))))))), (WrFields (ECField, (((String ((Ascii (false, true, true,
    false, false, true, true, false)), (String ((Ascii (false, false, true,
    true, false, true, true, false)), (String ((Ascii (true, false, false,
    false, false, true, true, false)), (String ((Ascii (true, true, true,
    false, false, true, true, false)), (String ((Ascii (true, true, false,
    false, true, true, true, false)), EmptyString)))))))))),
    FU8) :: (((String ((Ascii (false, false, true, false, true, true, true,
    false)), (String ((Ascii (true, false, false, false, false, true, true,
    false)), (String ((Ascii (true, true, true, false, false, true, true,
    false)), EmptyString)))))), FTag) :: (((String ((Ascii (false, true,
    true, false, true, true, true, false)), (String ((Ascii (true, false,
    false, false, false, true, true, false)), (String ((Ascii (false, false,
    true, true, false, true, true, false)), (String ((Ascii (true, false,
    true, false, true, true, true, false)), (String ((Ascii (true, false,
    true, false, false, true, true, false)), EmptyString)))))))))),
    FRest) :: [])))))) :: (((Npos (XI (XO (XO (XI (XO XH)))))), (WrSpecial
    SpOpt)) :: (((Npos (XO (XI (XO (XI (XO XH)))))), (WrSpecial
    SpApl)) :: (((Npos (XO (XO (XO (XO (XO (XO XH))))))), (WrSpecial
    SpSvcb)) :: (((Npos (XI (XO (XO (XO (XO (XO XH))))))), (WrSpecial
    SpHttps)) :: [])))))))))))))))))))))))))))))))))))))))))))))

(** val struct_encode_types : n list **)

let struct_encode_types =
  (Npos XH) :: ((Npos (XO XH)) :: ((Npos (XI XH)) :: ((Npos (XO (XO
    XH))) :: ((Npos (XI (XO XH))) :: ((Npos (XO (XI XH))) :: ((Npos (XI (XI
    XH))) :: ((Npos (XO (XO (XO XH)))) :: ((Npos (XI (XO (XO XH)))) :: ((Npos
    (XO (XI (XO XH)))) :: ((Npos (XI (XI (XO XH)))) :: ((Npos (XO (XO (XI
    XH)))) :: ((Npos (XI (XO (XI XH)))) :: ((Npos (XO (XI (XI
    XH)))) :: ((Npos (XI (XI (XI XH)))) :: ((Npos (XO (XO (XO (XO
    XH))))) :: ((Npos (XI (XI (XI (XI XH))))) :: ((Npos (XO (XO (XO (XO (XO
    XH)))))) :: ((Npos (XI (XO (XO (XO (XO XH)))))) :: ((Npos (XO (XI (XI (XO
    XH))))) :: ((Npos (XO (XO (XO (XO (XO (XO (XO (XO XH))))))))) :: ((Npos
    (XO (XO (XI (XI (XO XH)))))) :: ((Npos (XO (XO (XI (XO (XO
    XH)))))) :: ((Npos (XI (XI (XI (XO (XO XH)))))) :: ((Npos (XI (XO (XI (XI
    XH))))) :: ((Npos (XI (XO (XO (XO XH))))) :: ((Npos (XO (XI (XO (XO
    XH))))) :: ((Npos (XI (XI (XO (XO XH))))) :: ((Npos (XO (XO (XI (XO
    XH))))) :: ((Npos (XI (XO (XI (XO XH))))) :: ((Npos (XI (XI (XO (XI
    XH))))) :: ((Npos (XO (XI (XO (XI XH))))) :: ((Npos (XO (XO (XI (XI
    XH))))) :: []))))))))))))))))))))))))))))))))

type dst = { d_rest : bytes; d_off : n; d_len : n; d_cost : n }

type 'a dres =
| DOk of 'a * dst
| DErr of err * n
| DPanic of site
| DFuel

type 'a dM = dst -> 'a dres

(** val ret : 'a1 -> 'a1 dM **)

let ret a s =
  DOk (a, s)

(** val bind : 'a1 dM -> ('a1 -> 'a2 dM) -> 'a2 dM **)

let bind m f s =
  match m s with
  | DOk (a, s') -> f a s'
  | DErr (e, c) -> DErr (e, c)
  | DPanic x -> DPanic x
  | DFuel -> DFuel

(** val fail : err -> 'a1 dM **)

let fail e s =
  DErr (e, s.d_cost)

(** val panic : site -> 'a1 dM **)

let panic x _ =
  DPanic x

(** val lift : 'a1 res -> 'a1 dM **)

let lift = function
| Ok a -> ret a
| Err e -> fail e
| Panic x -> panic x
| OutOfFuel -> (fun _ -> DFuel)

(** val mk_main : bytes -> dst **)

let mk_main b =
  { d_rest = b; d_off = N0; d_len = (lenN b); d_cost = N0 }

(** val read : n -> bytes dM **)

let read n0 s =
  let off' = N.add s.d_off n0 in
  if N.leb pOW64 off'
  then DPanic SReadOverflow
  else if cmp_apply oP_read off' s.d_len
       then DOk ((takeN n0 s.d_rest), { d_rest = (dropN n0 s.d_rest); d_off =
              off'; d_len = s.d_len; d_cost = (N.add s.d_cost n0) })
       else DErr ((ENotEnoughBytes, (s.d_len :: (off' :: []))), s.d_cost)

(** val is_finished : bool dM **)

let is_finished s =
  if N.ltb s.d_off s.d_len
  then DOk (false, s)
  else if N.eqb s.d_off s.d_len
       then DOk (true, s)
       else DErr ((ENotEnoughBytes, (s.d_len :: (s.d_off :: []))), s.d_cost)

(** val finished : unit dM **)

let finished =
  bind is_finished (fun b ->
    if b
    then ret ()
    else (fun s -> DErr ((ETooManyBytes, (s.d_len :: (s.d_off :: []))),
           s.d_cost)))

(** val with_sub : n -> 'a1 dM -> 'a1 dM **)

let with_sub n0 m s =
  match read n0 s with
  | DOk (b, s') ->
    (match bind m (fun a -> bind finished (fun _ -> ret a)) { d_rest = b;
             d_off = N0; d_len = (lenN b); d_cost = s'.d_cost } with
     | DOk (a, c) ->
       DOk (a, { d_rest = s'.d_rest; d_off = s'.d_off; d_len = s'.d_len;
         d_cost = c.d_cost })
     | x -> x)
  | DErr (e, c) -> DErr (e, c)
  | DPanic x -> DPanic x
  | DFuel -> DFuel

(** val u8 : n dM **)

let u8 =
  bind (read (Npos XH)) (fun b ->
    match b with
    | [] -> panic SU8Index
    | x :: _ -> ret x)

(** val uint : n -> n dM **)

let uint k =
  bind (read k) (fun b ->
    if N.eqb (lenN b) k then ret (be b) else panic SGetUint)

(** val u16 : n dM **)

let u16 =
  uint (Npos (XO XH))

(** val u32 : n dM **)

let u32 =
  uint (Npos (XO (XO XH)))

(** val u64 : n dM **)

let u64 =
  uint (Npos (XO (XO (XO XH))))

(** val string_ : bytes dM **)

let string_ =
  bind u8 (fun length0 ->
    bind (read length0) (fun buffer ->
      if utf8_valid buffer then ret buffer else fail (EUtf8Error, [])))

(** val ipv4_addr : n dM **)

let ipv4_addr =
  u32

(** val ipv6_addr : bytes dM **)

let ipv6_addr =
  bind u16 (fun a ->
    bind u16 (fun b ->
      bind u16 (fun c ->
        bind u16 (fun d ->
          bind u16 (fun e ->
            bind u16 (fun f ->
              bind u16 (fun g ->
                bind u16 (fun h ->
                  ret
                    (app (u16b a)
                      (app (u16b b)
                        (app (u16b c)
                          (app (u16b d)
                            (app (u16b e)
                              (app (u16b f) (app (u16b g) (u16b h))))))))))))))))

(** val vec : bytes dM **)

let vec s =
  if cmp_apply oP_bytes s.d_off s.d_len
  then DOk (s.d_rest, { d_rest = []; d_off = s.d_len; d_len = s.d_len;
         d_cost = (N.add s.d_cost (N.sub s.d_len s.d_off)) })
  else DErr ((ENotEnoughBytes, (s.d_len :: (s.d_off :: []))), s.d_cost)

(** val is_compressed : n -> bool **)

let is_compressed l =
  N.eqb (N.coq_land l dEC_COMPRESSION_BITS) dEC_COMPRESSION_BITS

(** val ptr_offset : n -> n -> n **)

let ptr_offset l1 l2 =
  N.coq_lor
    (N.shiftl (N.coq_land l1 dEC_COMPRESSION_BITS_REV) (Npos (XO (XO (XO
      XH))))) l2

(** val jump : bytes -> n -> n -> dst **)

let jump main off cost =
  { d_rest = (dropN off main); d_off = off; d_len = (lenN main); d_cost =
    cost }

(** val domain_name_label : name -> n -> (name * n) dM **)

let domain_name_label nm length0 =
  bind (read length0) (fun buffer ->
    if utf8_valid buffer
    then bind (lift (check_label buffer)) (fun _ ->
           bind (lift (append_label nm buffer)) (fun nm' ->
             bind u8 (fun l -> ret (nm', l))))
    else fail (EUtf8Error, []))

(** val nAMEFUEL : nat **)

let nAMEFUEL =
  S (S (S (S (S (S (S (S (S (S (S (S (S (S (S (S (S (S (S (S (S (S (S (S (S
    (S (S (S (S (S (S (S (S (S (S (S (S (S (S (S (S (S (S (S (S (S (S (S (S
    (S (S (S (S (S (S (S (S (S (S (S (S (S (S (S (S (S (S (S (S (S (S (S (S
    (S (S (S (S (S (S (S (S (S (S (S (S (S (S (S (S (S (S (S (S (S (S (S (S
    (S (S (S (S (S (S (S (S (S (S (S (S (S (S (S (S (S (S (S (S (S (S (S (S
    (S (S (S (S (S (S (S (S (S (S (S (S (S (S (S (S (S (S (S (S (S (S (S (S
    (S (S (S (S (S (S (S (S (S (S (S (S (S (S (S (S (S (S (S (S (S (S (S (S
    (S (S (S (S (S (S (S (S (S (S (S (S (S (S (S (S (S (S (S (S (S (S (S (S
    (S (S (S (S (S (S (S (S (S (S (S (S (S (S (S (S (S (S (S (S (S (S (S (S
    (S (S (S (S (S (S (S (S (S (S (S (S (S (S (S (S (S (S (S (S (S (S (S (S
    (S (S (S (S (S (S (S (S (S (S (S (S (S (S (S (S (S (S (S (S (S (S (S (S
    (S (S (S (S (S (S (S (S (S (S (S (S (S (S (S (S (S (S (S (S (S (S (S (S
    (S (S (S (S (S (S (S (S (S (S (S (S (S (S (S (S (S (S (S (S (S (S (S (S
    (S (S (S (S (S (S (S
    O)))))))))))))))))))))))))))))))))))))))))))))))))))))))))))))))))))))))))))))))))))))))))))))))))))))))))))))))))))))))))))))))))))))))))))))))))))))))))))))))))))))))))))))))))))))))))))))))))))))))))))))))))))))))))))))))))))))))))))))))))))))))))))))))))))))))))))))))))))))))))))))))))))))))))))))))))))))))))))))))

(** val rec_loop : nat -> bytes -> name -> n list -> n -> name dM **)

let rec rec_loop fuel main nm recs length0 =
  match fuel with
  | O -> (fun _ -> DFuel)
  | S f ->
    if N.eqb length0 N0
    then ret nm
    else if is_compressed length0
         then bind u8 (fun buffer ->
                let offset = ptr_offset length0 buffer in
                if existsb (N.eqb offset) recs
                then fail (EEndlessRecursion, (offset :: []))
                else let recs' = offset :: recs in
                     let n0 = lenN recs' in
                     if cmp_apply oP_dec_maxrec n0 dOMAIN_NAME_MAX_RECURSION
                     then fail (EMaxRecursion, (n0 :: []))
                     else (fun s ->
                            bind u8 (fun l -> rec_loop f main nm recs' l)
                              (jump main offset s.d_cost)))
         else bind (domain_name_label nm length0) (fun pat ->
                let (nm', l) = pat in rec_loop f main nm' recs l)

(** val name_loop : nat -> bytes -> name -> n -> name dM **)

let rec name_loop fuel main nm length0 =
  match fuel with
  | O -> (fun _ -> DFuel)
  | S f ->
    if N.eqb length0 N0
    then ret nm
    else if is_compressed length0
         then bind u8 (fun buffer ->
                let offset = ptr_offset length0 buffer in
                (fun s ->
                match bind u8 (fun l -> rec_loop nAMEFUEL main nm [] l)
                        (jump main offset s.d_cost) with
                | DOk (nm', ds) ->
                  DOk (nm', { d_rest = s.d_rest; d_off = s.d_off; d_len =
                    s.d_len; d_cost = ds.d_cost })
                | x -> x))
         else bind (domain_name_label nm length0) (fun pat ->
                let (nm', l) = pat in name_loop f main nm' l)

(** val domain_name : bytes -> name dM **)

let domain_name main =
  bind u8 (fun length0 -> name_loop nAMEFUEL main [] length0)

(** val in_table : (string * n) list -> n -> bool **)

let in_table t v =
  existsb (fun p -> N.eqb (snd p) v) t

(** val enum_table : enumid -> (string * n) list **)

let enum_table = function
| EnAFSDBSubtype -> aFSDBSubtype_table
| EnSSHFPAlgorithm -> sSHFPAlgorithm_table
| EnSSHFPType -> sSHFPType_table
| EnAlgorithmType -> algorithmType_table
| EnDigestType -> digestType_table

(** val code : (string * n) list -> etag -> n dM -> n dM **)

let code t er rd =
  bind rd (fun v -> if in_table t v then ret v else fail (er, (v :: [])))

(** val cLASS_IN : n **)

let cLASS_IN =
  Npos XH

(** val rr_address_family_number : n dM **)

let rr_address_family_number =
  code addressFamilyNumber_table EEcsAddressNumber u16

(** val rr_address_sized : n -> cmp -> etag -> site -> bytes dM **)

let rr_address_sized size op e x =
  bind vec (fun buffer ->
    let n0 = lenN buffer in
    if cmp_apply op size n0
    then fail (e, (n0 :: []))
    else if N.ltb size n0
         then panic x
         else ret (app buffer (zeros (N.to_nat (N.sub size n0)))))

(** val rr_address : n -> addr dM **)

let rr_address fam =
  if N.eqb fam (Npos XH)
  then bind
         (rr_address_sized iPV4_SIZE oP_ipv4_size EEcsTooBigIpv4Address
           SCopyIpv4) (fun o -> ret { a_fam = (Npos XH); a_oct = o })
  else bind
         (rr_address_sized iPV6_SIZE oP_ipv6_size EEcsTooBigIpv6Address
           SCopyIpv6) (fun o -> ret { a_fam = (Npos (XO XH)); a_oct = o })

(** val strings_loop : nat -> bytes list -> bytes list dM **)

let rec strings_loop fuel acc =
  match fuel with
  | O -> (fun _ -> DFuel)
  | S f ->
    bind is_finished (fun fin ->
      if fin
      then ret (rev acc)
      else bind string_ (fun s -> strings_loop f (s :: acc)))

(** val loop_fuel : nat dM **)

let loop_fuel s =
  DOk ((S (N.to_nat (N.sub s.d_len s.d_off))), s)

(** val read_field : bytes -> fk -> fv list dM **)

let read_field main = function
| FU8 -> bind u8 (fun v -> ret ((VN v) :: []))
| FU16 -> bind u16 (fun v -> ret ((VN v) :: []))
| FU32 -> bind u32 (fun v -> ret ((VN v) :: []))
| FU64 -> bind u64 (fun v -> ret ((VN v) :: []))
| FName -> bind (domain_name main) (fun n0 -> ret ((VName n0) :: []))
| FStr -> bind string_ (fun s -> ret ((VBytes s) :: []))
| FRest -> bind vec (fun b -> ret ((VBytes b) :: []))
| FRestUtf8 ->
  bind vec (fun b ->
    if utf8_valid b then ret ((VBytes b) :: []) else fail (EUtf8Error, []))
| FIp4 -> bind ipv4_addr (fun v -> ret ((VN v) :: []))
| FIp6 -> bind ipv6_addr (fun b -> ret ((VBytes b) :: []))
| FEnum8 (e, er) ->
  bind (code (enum_table e) er u8) (fun v -> ret ((VN v) :: []))
| FEnum16 (e, er) ->
  bind (code (enum_table e) er u16) (fun v -> ret ((VN v) :: []))
| FStrPsdn ->
  bind string_ (fun s ->
    bind (lift (psdn_try_from s)) (fun s' -> ret ((VBytes s') :: [])))
| FStrIsdn ->
  bind string_ (fun s ->
    bind (lift (isdn_try_from s)) (fun s' -> ret ((VBytes s') :: [])))
| FOptStrSa ->
  bind is_finished (fun fin ->
    if fin
    then ret ((VOptStr None) :: [])
    else bind string_ (fun s ->
           bind (lift (sa_try_from s)) (fun s' ->
             ret ((VOptStr (Some s')) :: []))))
| FStrGpos ->
  bind string_ (fun s ->
    let n0 = lenN s in
    if (&&) (N.leb (Npos XH) n0)
         (N.leb n0 (Npos (XO (XO (XO (XO (XO (XO (XO (XO XH))))))))))
    then ret ((VBytes s) :: [])
    else fail (EGPOS, []))
| FTag ->
  bind string_ (fun s ->
    bind (lift (tag_try_from s)) (fun t -> ret ((VBytes t) :: [])))
| FStrs1 ->
  bind loop_fuel (fun fuel ->
    bind (strings_loop fuel []) (fun l ->
      match l with
      | [] -> fail (ETXTEmpty, [])
      | _ :: _ -> ret ((VStrs l) :: [])))
| FDnskeyFlags ->
  bind u16 (fun v ->
    if negb (N.eqb (N.coq_land v dNSKEY_ZERO_MASK) N0)
    then fail (EDNSKEYZeroFlags, (v :: []))
    else ret ((VN v) :: []))
| FConst8 (c, er) ->
  bind u8 (fun v -> if negb (N.eqb v c) then fail (er, (v :: [])) else ret [])
| FUnknown -> (fun _ -> DFuel)

(** val read_fields : bytes -> (string * fk) list -> fv list dM **)

let rec read_fields main = function
| [] -> ret []
| p :: r ->
  let (_, k) = p in
  bind (read_field main k) (fun v ->
    bind (read_fields main r) (fun vs -> ret (app v vs)))

(** val get_class : n -> n dM **)

let get_class c =
  if in_table class_table c then ret c else fail (EClass, (c :: []))

(** val class_rule : classrule -> n -> n dM **)

let class_rule ck hclass =
  match ck with
  | CKAny -> get_class hclass
  | CKIn er ->
    bind (get_class hclass) (fun c ->
      if N.eqb c cLASS_IN then ret c else fail (er, (c :: [])))
  | CKNone -> ret N0

(** val rr_opt_ttl : n -> ((n * n) * bool) dM **)

let rr_opt_ttl ttl =
  let ext =
    N.coq_land (N.shiftr ttl (fst dEC_OPT_extend_rcode))
      (snd dEC_OPT_extend_rcode)
  in
  let ver =
    N.coq_land (N.shiftr ttl (fst dEC_OPT_version)) (snd dEC_OPT_version)
  in
  let b1 =
    N.coq_land (N.shiftr ttl (fst dEC_OPT_flags_hi)) (snd dEC_OPT_flags_hi)
  in
  if N.eqb b1 N0
  then let b0 = N.coq_land ttl dEC_OPT_flags_lo in
       if negb (N.eqb b0 N0)
       then fail (EOPTZero, (b0 :: []))
       else ret ((ext, ver), false)
  else if N.eqb b1 eDNS_DNSSEC_MASK
       then let b0 = N.coq_land ttl dEC_OPT_flags_lo in
            if negb (N.eqb b0 N0)
            then fail (EOPTZero, (b0 :: []))
            else ret ((ext, ver), true)
       else fail (EOPTZero, (b1 :: []))

(** val rr_edns_ecs : ecs dM **)

let rr_edns_ecs =
  bind rr_address_family_number (fun fam ->
    bind u8 (fun src ->
      bind u8 (fun scope ->
        bind (rr_address fam) (fun a -> lift (ecs_new src scope a)))))

(** val cookie_len_ok : n -> bool **)

let cookie_len_ok n0 =
  (&&) (N.leb mINIMUM_COOKIE_LENGTH n0)
    (if cOOKIE_DEC_RANGE_INCL
     then N.leb n0 mAXIMUM_COOKIE_LENGTH
     else N.ltb n0 mAXIMUM_COOKIE_LENGTH)

(** val rr_edns_cookie : cookie dM **)

let rr_edns_cookie =
  bind vec (fun v ->
    let n0 = lenN v in
    if N.eqb cLIENT_COOKIE_LENGTH n0
    then if N.ltb n0 (Npos (XO (XO (XO XH))))
         then panic SCookieClient
         else lift (cookie_new (takeN (Npos (XO (XO (XO XH)))) v) None)
    else if cookie_len_ok n0
         then if N.ltb n0 (Npos (XO (XO (XO XH))))
              then panic SCookieClient
              else lift
                     (cookie_new (takeN (Npos (XO (XO (XO XH)))) v) (Some
                       (dropN (Npos (XO (XO (XO XH)))) v)))
         else fail (ECookieLength, (n0 :: [])))

(** val first_nonzero : bytes -> n option **)

let first_nonzero l =
  find (fun b -> negb (N.eqb b N0)) l

(** val rr_edns_padding : n dM **)

let rr_edns_padding =
  bind vec (fun p ->
    let n0 = lenN p in
    if N.leb pOW16 n0
    then fail (EPaddingLength, (n0 :: []))
    else (match first_nonzero p with
          | Some b -> fail (EPaddingZero, (b :: []))
          | None -> ret n0))

(** val oPT_ECS : n **)

let oPT_ECS =
  Npos (XO (XO (XO XH)))

(** val oPT_COOKIE : n **)

let oPT_COOKIE =
  Npos (XO (XI (XO XH)))

(** val oPT_PADDING : n **)

let oPT_PADDING =
  Npos (XO (XO (XI XH)))

(** val rr_edns_option : ednsopt dM **)

let rr_edns_option =
  bind (code eDNSOptionCode_table EEDNSOptionCode u16) (fun c ->
    bind u16 (fun len ->
      with_sub len
        (if N.eqb c oPT_ECS
         then bind rr_edns_ecs (fun e -> ret (OEcs e))
         else if N.eqb c oPT_COOKIE
              then bind rr_edns_cookie (fun k -> ret (OCookie k))
              else bind rr_edns_padding (fun p -> ret (OPadding p)))))

(** val many : nat -> 'a1 dM -> 'a1 list -> 'a1 list dM **)

let rec many fuel item acc =
  match fuel with
  | O -> (fun _ -> DFuel)
  | S f ->
    bind is_finished (fun fin ->
      if fin
      then ret (rev acc)
      else bind item (fun x -> many f item (x :: acc)))

(** val rr_opt : name -> n -> n -> rdata dM **)

let rr_opt owner hclass ttl =
  match owner with
  | [] ->
    bind (rr_opt_ttl ttl) (fun pat ->
      let (p, dnssec) = pat in
      let (ext, ver) = p in
      bind loop_fuel (fun fuel ->
        bind (many fuel rr_edns_option []) (fun opts ->
          ret (ROpt (hclass, ext, ver, dnssec, opts)))))
  | _ :: _ -> fail (EOPTDomainName, [])

(** val rr_apl_apitem : apitem dM **)

let rr_apl_apitem =
  bind rr_address_family_number (fun fam ->
    bind u8 (fun prefix ->
      bind u8 (fun buffer ->
        let negation =
          N.eqb (N.coq_land buffer aPL_NEGATION_MASK) aPL_NEGATION_MASK
        in
        let address_length = N.coq_land buffer aDDRESS_LENGTH_MASK in
        bind (with_sub address_length (rr_address fam)) (fun a ->
          lift (apitem_new prefix negation a)))))

(** val rr_apl : n -> rdata dM **)

let rr_apl hclass =
  bind (class_rule (CKIn EAPLClass) hclass) (fun _ ->
    bind loop_fuel (fun fuel ->
      bind (many fuel rr_apl_apitem []) (fun items -> ret (RApl items))))

(** val rr_service_parameter : n -> svcparam dM **)

let rr_service_parameter key =
  if N.eqb key N0
  then bind loop_fuel (fun fuel ->
         bind (many fuel u16 []) (fun l -> ret (PMandatory l)))
  else if N.eqb key (Npos XH)
       then bind loop_fuel (fun fuel ->
              bind (many fuel string_ []) (fun l -> ret (PAlpn l)))
       else if N.eqb key (Npos (XO XH))
            then ret PNoDefaultAlpn
            else if N.eqb key (Npos (XI XH))
                 then bind u16 (fun p -> ret (PPort p))
                 else if N.eqb key (Npos (XO (XO XH)))
                      then bind loop_fuel (fun fuel ->
                             bind (many fuel ipv4_addr []) (fun l ->
                               ret (PIpv4Hint l)))
                      else if N.eqb key (Npos (XI (XO XH)))
                           then bind u16 (fun length0 ->
                                  bind vec (fun cl ->
                                    if negb (N.eqb (lenN cl) length0)
                                    then fail (EECHLengthMismatch,
                                           (length0 :: ((lenN cl) :: [])))
                                    else ret (PEch cl)))
                           else if N.eqb key (Npos (XO (XI XH)))
                                then bind loop_fuel (fun fuel ->
                                       bind (many fuel ipv6_addr [])
                                         (fun l -> ret (PIpv6Hint l)))
                                else if N.eqb key (Npos (XI (XI (XI (XI (XI
                                          (XI (XI (XI (XI (XI (XI (XI (XI (XI
                                          (XI XH))))))))))))))))
                                     then ret PKey65535
                                     else bind vec (fun d ->
                                            ret (PPrivate (key, d)))

(** val svc_params : nat -> svcparam list -> svcparam list dM **)

let rec svc_params fuel acc =
  match fuel with
  | O -> (fun _ -> DFuel)
  | S f ->
    bind is_finished (fun fin ->
      if fin
      then ret acc
      else bind u16 (fun key ->
             bind u16 (fun len ->
               bind (with_sub len (rr_service_parameter key)) (fun p ->
                 let (acc', inserted) = set_insert p acc in
                 if inserted
                 then svc_params f acc'
                 else fail (ESVCBDuplicateKey, (key :: []))))))

(** val rr_service_binding : bytes -> n -> rdata dM **)

let rr_service_binding main hclass =
  bind (class_rule (CKIn ESVCBClass) hclass) (fun _ ->
    bind u16 (fun priority ->
      bind (domain_name main) (fun target ->
        if negb (N.eqb priority N0)
        then bind loop_fuel (fun fuel ->
               bind (svc_params fuel []) (fun ps ->
                 ret (RSvcb (priority, target, ps))))
        else ret (RSvcb (priority, target, [])))))

(** val lookup : n -> (n * 'a1) list -> 'a1 option **)

let rec lookup k = function
| [] -> None
| p :: r -> let (k', v) = p in if N.eqb k k' then Some v else lookup k r

(** val tYPE_OPT : n **)

let tYPE_OPT =
  Npos (XI (XO (XO (XI (XO XH)))))

(** val rr_type : n dM **)

let rr_type =
  code type_table EType u16

(** val rr_class : n dM **)

let rr_class =
  code class_table EClass u16

(** val rr_body : bytes -> n -> name -> n -> n -> rr dM **)

let rr_body main type_ owner hclass ttl =
  match lookup type_ dec_dispatch with
  | Some r ->
    (match r with
     | RdFields (ck, f) ->
       bind (class_rule ck hclass) (fun c ->
         bind (read_fields main f) (fun vs ->
           ret { r_type = type_; r_name = owner; r_class = c; r_ttl = ttl;
             r_data = (RFields vs) }))
     | RdSpecial s ->
       (match s with
        | SpOpt ->
          bind (rr_opt owner hclass ttl) (fun d ->
            ret { r_type = type_; r_name = []; r_class = N0; r_ttl = N0;
              r_data = d })
        | SpApl ->
          bind (rr_apl hclass) (fun d ->
            ret { r_type = type_; r_name = owner; r_class = cLASS_IN; r_ttl =
              ttl; r_data = d })
        | _ ->
          bind (rr_service_binding main hclass) (fun d ->
            ret { r_type = type_; r_name = owner; r_class = cLASS_IN; r_ttl =
              ttl; r_data = d })))
  | None -> fail (ENotYetImplemented, (type_ :: []))

(** val rr_ : bytes -> rr dM **)

let rr_ main =
  bind (domain_name main) (fun owner ->
    bind rr_type (fun type_ ->
      bind u16 (fun hclass ->
        bind u32 (fun ttl ->
          bind u16 (fun rd_length ->
            with_sub rd_length (rr_body main type_ owner hclass ttl))))))

(** val rd_q_type : n dM **)

let rd_q_type =
  code qType_table EQType u16

(** val rd_q_class : n dM **)

let rd_q_class =
  code qClass_table EQClass u16

(** val question_ : bytes -> question dM **)

let question_ main =
  bind (domain_name main) (fun n0 ->
    bind rd_q_type (fun t ->
      bind rd_q_class (fun c -> ret { q_name = n0; q_type = t; q_class = c })))

(** val fbit : ((n * n) * n) -> n -> n -> n **)

let fbit spec b0 b1 =
  let (p, shift) = spec in
  let (oct, mask0) = p in
  N.shiftr (N.coq_land (if N.eqb oct N0 then b0 else b1) mask0) shift

(** val flags_ : flags dM **)

let flags_ =
  bind u8 (fun b0 ->
    let opcode = fbit dEC_FLAG_opcode b0 N0 in
    if negb (in_table opcode_table opcode)
    then fail (EOpcode, (opcode :: []))
    else bind u8 (fun b1 ->
           let z = fbit dEC_FLAG_z b0 b1 in
           if negb (N.eqb z N0)
           then fail (EZNotZeroes, (z :: []))
           else let rcode = fbit dEC_FLAG_rcode b0 b1 in
                if negb (in_table rCode_table rcode)
                then fail (ERCode, (rcode :: []))
                else ret { f_qr = (negb (N.eqb (fbit dEC_FLAG_qr b0 b1) N0));
                       f_opcode = opcode; f_aa =
                       (negb (N.eqb (fbit dEC_FLAG_aa b0 b1) N0)); f_tc =
                       (negb (N.eqb (fbit dEC_FLAG_tc b0 b1) N0)); f_rd =
                       (negb (N.eqb (fbit dEC_FLAG_rd b0 b1) N0)); f_ra =
                       (negb (N.eqb (fbit dEC_FLAG_ra b0 b1) N0)); f_ad =
                       (negb (N.eqb (fbit dEC_FLAG_ad b0 b1) N0)); f_cd =
                       (negb (N.eqb (fbit dEC_FLAG_cd b0 b1) N0)); f_rcode =
                       rcode }))

(** val repeat_dm : nat -> 'a1 dM -> 'a1 list dM **)

let rec repeat_dm n0 m =
  match n0 with
  | O -> ret []
  | S n' -> bind m (fun x -> bind (repeat_dm n' m) (fun r -> ret (x :: r)))

(** val dns_ : bytes -> dns dM **)

let dns_ main s =
  if negb (N.eqb s.d_off N0)
  then DErr ((EOffset, (s.d_off :: [])), s.d_cost)
  else let bytes_len = s.d_len in
       if cmp_apply oP_dns_min bytes_len dNS_MIN_LENGTH
       then DErr ((ENotEnoughBytes, (bytes_len :: (dNS_MIN_LENGTH :: []))),
              s.d_cost)
       else if cmp_apply oP_dns_max bytes_len mAXIMUM_DNS_PACKET_SIZE
            then DErr ((EDnsPacketTooBig, (bytes_len :: [])), s.d_cost)
            else bind u16 (fun id ->
                   bind flags_ (fun fl ->
                     bind u16 (fun qc ->
                       bind u16 (fun ac ->
                         bind u16 (fun nc ->
                           bind u16 (fun rc ->
                             bind (repeat_dm (N.to_nat qc) (question_ main))
                               (fun qd ->
                               bind (repeat_dm (N.to_nat ac) (rr_ main))
                                 (fun an ->
                                 bind (repeat_dm (N.to_nat nc) (rr_ main))
                                   (fun ns ->
                                   bind (repeat_dm (N.to_nat rc) (rr_ main))
                                     (fun ar ->
                                     bind is_finished (fun fin ->
                                       if fin
                                       then ret { m_id = id; m_flags = fl;
                                              m_qd = qd; m_an = an; m_ns =
                                              ns; m_ar = ar }
                                       else (fun s' -> DErr
                                              ((ERemainingBytes,
                                              (s'.d_off :: [])), s'.d_cost)))))))))))))
                   s

(** val run : (bytes -> 'a1 dM) -> bytes -> 'a1 dres **)

let run m b =
  m b (mk_main b)

(** val dec_Dns : bytes -> dns dres **)

let dec_Dns =
  run dns_

(** val dec_Flags : bytes -> flags dres **)

let dec_Flags =
  run (fun _ -> flags_)

(** val dec_Question : bytes -> question dres **)

let dec_Question =
  run question_

(** val dec_RR : bytes -> rr dres **)

let dec_RR =
  run rr_

(** val dec_DomainName : bytes -> name dres **)

let dec_DomainName =
  run domain_name

(** val dec_Type : bytes -> n dres **)

let dec_Type =
  run (fun _ -> rr_type)

(** val dec_Class : bytes -> n dres **)

let dec_Class =
  run (fun _ -> rr_class)

(** val dec_QType : bytes -> n dres **)

let dec_QType =
  run (fun _ -> rd_q_type)

(** val dec_QClass : bytes -> n dres **)

let dec_QClass =
  run (fun _ -> rd_q_class)

(** val rr_get_ttl : rr -> n option **)

let rr_get_ttl r =
  if N.eqb r.r_type tYPE_OPT then None else Some r.r_ttl

(** val rr_get_class : rr -> n option **)

let rr_get_class r =
  if N.eqb r.r_type tYPE_OPT then None else Some r.r_class

type est = { e_buf : bytes; e_idx : (name * (n * n)) list;
             e_names : (n * name) list }

type 'a eres =
| EOk of 'a * est
| EErr of err
| EPanic of site
| EIllTyped

type 'a eM = est -> 'a eres

(** val eret : 'a1 -> 'a1 eM **)

let eret a s =
  EOk (a, s)

(** val ebind : 'a1 eM -> ('a1 -> 'a2 eM) -> 'a2 eM **)

let ebind m f s =
  match m s with
  | EOk (a, s') -> f a s'
  | EErr e -> EErr e
  | EPanic x -> EPanic x
  | EIllTyped -> EIllTyped

(** val efail : err -> 'a1 eM **)

let efail e _ =
  EErr e

(** val e_init : est **)

let e_init =
  { e_buf = []; e_idx = []; e_names = [] }

(** val put : bytes -> unit eM **)

let put b s =
  EOk ((), { e_buf = (app s.e_buf b); e_idx = s.e_idx; e_names = s.e_names })

(** val eu8 : n -> unit eM **)

let eu8 n0 =
  put (u8b n0)

(** val eu16 : n -> unit eM **)

let eu16 n0 =
  put (u16b n0)

(** val eu32 : n -> unit eM **)

let eu32 n0 =
  put (u32b n0)

(** val eu64 : n -> unit eM **)

let eu64 n0 =
  put (u64b n0)

(** val buf_len : n eM **)

let buf_len s =
  EOk ((lenN s.e_buf), s)

(** val get_offset : n eM **)

let get_offset =
  ebind buf_len (fun n0 ->
    if N.ltb n0 pOW16 then eret n0 else efail (XLength, (n0 :: [])))

(** val patch : n -> bytes -> bytes -> bytes **)

let patch i b buf =
  app (takeN i buf) (app b (dropN (N.add i (lenN b)) buf))

(** val set_u16 : n -> n -> unit eM **)

let set_u16 n0 index s =
  let len = lenN s.e_buf in
  if N.ltb (N.sub (N.add index (Npos (XO XH))) (Npos XH)) len
  then EOk ((), { e_buf = (patch index (u16b n0) s.e_buf); e_idx = s.e_idx;
         e_names = s.e_names })
  else EErr (XNotEnoughBytes, (len :: (index :: [])))

(** val set_u8 : n -> n -> unit eM **)

let set_u8 n0 index s =
  let len = lenN s.e_buf in
  if N.ltb (N.sub (N.add index (Npos XH)) (Npos XH)) len
  then EOk ((), { e_buf = (patch index (u8b n0) s.e_buf); e_idx = s.e_idx;
         e_names = s.e_names })
  else EErr (XNotEnoughBytes, (len :: (index :: [])))

(** val estring : bytes -> unit eM **)

let estring b =
  let length0 = lenN b in
  if cmp_apply oP_string_len length0 sTRING_MAX
  then efail (XString, (length0 :: []))
  else ebind (eu8 length0) (fun _ -> put b)

(** val create_length_index : n eM **)

let create_length_index =
  ebind buf_len (fun i -> ebind (eu16 N0) (fun _ -> eret i))

(** val set_length_index : n -> unit eM **)

let set_length_index li =
  ebind buf_len (fun len ->
    if N.ltb len (N.add li (Npos (XO XH)))
    then (fun _ -> EPanic SLenIndexSub)
    else let length0 = N.sub len (N.add li (Npos (XO XH))) in
         if N.ltb length0 pOW16
         then set_u16 length0 li
         else efail (XLength, (length0 :: [])))

(** val idx_lookup : name -> (name * (n * n)) list -> (n * n) option **)

let rec idx_lookup n0 = function
| [] -> None
| p :: r ->
  let (k, v) = p in if name_eqb n0 k then Some v else idx_lookup n0 r

(** val compress : name -> n option eM **)

let compress suffix s =
  match idx_lookup suffix s.e_idx with
  | Some p ->
    let (index, recursion) = p in
    if cmp_apply oP_compress_offset eNC_MAX_OFFSET index
    then EErr (XCompression, (index :: []))
    else if cmp_apply oP_compress_rec recursion dOMAIN_NAME_MAX_RECURSION
         then EOk (None, s)
         else ebind (eu16 (N.coq_lor eNC_COMPRESSION_BITS index)) (fun _ ->
                eret (Some recursion)) s
  | None -> EOk (None, s)

(** val elabel : label -> n eM **)

let elabel l =
  ebind get_offset (fun index -> ebind (estring l) (fun _ -> eret index))

(** val merge_index : (name * n) list -> n -> unit eM **)

let merge_index local recursion s =
  if cmp_apply oP_merge_rec recursion dOMAIN_NAME_MAX_RECURSION
  then EErr (XMaxRecursion, (recursion :: []))
  else EOk ((), { e_buf = s.e_buf; e_idx =
         (app (map (fun p -> ((fst p), ((snd p), recursion))) local) s.e_idx);
         e_names = s.e_names })

(** val enc_name_loop : name -> (name * n) list -> unit eM **)

let rec enc_name_loop labels local =
  match labels with
  | [] -> ebind (estring []) (fun _ -> merge_index local N0)
  | l :: rest ->
    ebind (compress labels) (fun r ->
      match r with
      | Some recursion -> merge_index local (N.add recursion (Npos XH))
      | None ->
        ebind (elabel l) (fun index ->
          enc_name_loop rest
            (if cmp_apply oP_index_offset index eNC_MAX_OFFSET
             then (labels, index) :: local
             else local)))

(** val log_name : name -> unit eM **)

let log_name n0 s =
  EOk ((), { e_buf = s.e_buf; e_idx = s.e_idx; e_names = (((lenN s.e_buf),
    n0) :: s.e_names) })

(** val enc_domain_name : name -> unit eM **)

let enc_domain_name n0 =
  ebind (log_name n0) (fun _ -> enc_name_loop n0 [])

(** val addr_prefix_loop : cmp -> n -> bytes -> n -> bytes res **)

let rec addr_prefix_loop op step oct prefix =
  match oct with
  | [] -> Ok []
  | b :: r ->
    if cmp_apply op prefix (Npos (XO (XO (XO XH))))
    then Ok (b :: [])
    else if N.ltb prefix step
         then Panic SPrefixSub
         else (match addr_prefix_loop op step r (N.sub prefix step) with
               | Ok t -> Ok (b :: t)
               | x -> x)

(** val rr_address_with_prefix : addr -> n -> unit eM **)

let rr_address_with_prefix a prefix =
  match if N.eqb a.a_fam (Npos XH)
        then addr_prefix_loop oP_enc_prefix4 eNC_PREFIX_STEP4 a.a_oct prefix
        else addr_prefix_loop oP_enc_prefix6 eNC_PREFIX_STEP6 a.a_oct prefix with
  | Ok b -> put b
  | Err e -> efail e
  | Panic x -> (fun _ -> EPanic x)
  | OutOfFuel -> (fun _ -> EIllTyped)

(** val emap : ('a1 -> unit eM) -> 'a1 list -> unit eM **)

let rec emap f = function
| [] -> eret ()
| x :: r -> ebind (f x) (fun _ -> emap f r)

(** val write_field : fk -> fv option -> unit eM **)

let write_field k v =
  match k with
  | FU8 ->
    (match v with
     | Some f -> (match f with
                  | VN n0 -> eu8 n0
                  | _ -> (fun _ -> EIllTyped))
     | None -> (fun _ -> EIllTyped))
  | FU16 ->
    (match v with
     | Some f -> (match f with
                  | VN n0 -> eu16 n0
                  | _ -> (fun _ -> EIllTyped))
     | None -> (fun _ -> EIllTyped))
  | FU32 ->
    (match v with
     | Some f -> (match f with
                  | VN n0 -> eu32 n0
                  | _ -> (fun _ -> EIllTyped))
     | None -> (fun _ -> EIllTyped))
  | FU64 ->
    (match v with
     | Some f -> (match f with
                  | VN n0 -> eu64 n0
                  | _ -> (fun _ -> EIllTyped))
     | None -> (fun _ -> EIllTyped))
  | FName ->
    (match v with
     | Some f ->
       (match f with
        | VName n0 -> enc_domain_name n0
        | _ -> (fun _ -> EIllTyped))
     | None -> (fun _ -> EIllTyped))
  | FRest ->
    (match v with
     | Some f -> (match f with
                  | VBytes b -> put b
                  | _ -> (fun _ -> EIllTyped))
     | None -> (fun _ -> EIllTyped))
  | FRestUtf8 ->
    (match v with
     | Some f -> (match f with
                  | VBytes b -> put b
                  | _ -> (fun _ -> EIllTyped))
     | None -> (fun _ -> EIllTyped))
  | FIp4 ->
    (match v with
     | Some f -> (match f with
                  | VN n0 -> eu32 n0
                  | _ -> (fun _ -> EIllTyped))
     | None -> (fun _ -> EIllTyped))
  | FIp6 ->
    (match v with
     | Some f -> (match f with
                  | VBytes b -> put b
                  | _ -> (fun _ -> EIllTyped))
     | None -> (fun _ -> EIllTyped))
  | FEnum8 (_, _) ->
    (match v with
     | Some f -> (match f with
                  | VN n0 -> eu8 n0
                  | _ -> (fun _ -> EIllTyped))
     | None -> (fun _ -> EIllTyped))
  | FEnum16 (_, _) ->
    (match v with
     | Some f -> (match f with
                  | VN n0 -> eu16 n0
                  | _ -> (fun _ -> EIllTyped))
     | None -> (fun _ -> EIllTyped))
  | FOptStrSa ->
    (match v with
     | Some f ->
       (match f with
        | VOptStr o -> (match o with
                        | Some s -> estring s
                        | None -> eret ())
        | _ -> (fun _ -> EIllTyped))
     | None -> (fun _ -> EIllTyped))
  | FStrs1 ->
    (match v with
     | Some f ->
       (match f with
        | VStrs l -> emap estring l
        | _ -> (fun _ -> EIllTyped))
     | None -> (fun _ -> EIllTyped))
  | FDnskeyFlags ->
    (match v with
     | Some f -> (match f with
                  | VN n0 -> eu16 n0
                  | _ -> (fun _ -> EIllTyped))
     | None -> (fun _ -> EIllTyped))
  | FConst8 (c, _) -> eu8 c
  | FUnknown -> (fun _ -> EIllTyped)
  | _ ->
    (match v with
     | Some f ->
       (match f with
        | VBytes s -> estring s
        | _ -> (fun _ -> EIllTyped))
     | None -> (fun _ -> EIllTyped))

(** val has_value : fk -> bool **)

let has_value = function
| FConst8 (_, _) -> false
| _ -> true

(** val value_names : (string * fk) list -> string list **)

let value_names f =
  map fst (filter (fun p -> has_value (snd p)) f)

(** val assoc : string -> string list -> fv list -> fv option **)

let rec assoc nm ns vs =
  match ns with
  | [] -> None
  | n0 :: ns' ->
    (match vs with
     | [] -> None
     | v :: vs' -> if eqb1 nm n0 then Some v else assoc nm ns' vs')

(** val write_fields :
    string list -> fv list -> (string * fk) list -> unit eM **)

let rec write_fields names vals = function
| [] -> eret ()
| p :: r ->
  let (nm, k) = p in
  ebind (write_field k (assoc nm names vals)) (fun _ ->
    write_fields names vals r)

(** val dec_value_names : n -> string list **)

let dec_value_names t =
  match lookup t dec_dispatch with
  | Some r ->
    (match r with
     | RdFields (_, f) -> value_names f
     | RdSpecial _ -> [])
  | None -> []

(** val enc_opt_ttl : n -> n -> bool -> n **)

let enc_opt_ttl ext ver dnssec =
  N.coq_lor
    (N.coq_lor (N.shiftl ext eNC_OPT_extend_rcode_shift)
      (N.shiftl ver eNC_OPT_version_shift))
    (if dnssec then N.shiftl eDNS_DNSSEC_MASK eNC_OPT_dnssec_shift else N0)

(** val enc_ecs : ecs -> unit eM **)

let enc_ecs e =
  ebind (eu16 oPT_ECS) (fun _ ->
    ebind create_length_index (fun li ->
      ebind (eu16 e.e_addr.a_fam) (fun _ ->
        ebind (eu8 e.e_src) (fun _ ->
          ebind (eu8 e.e_scope) (fun _ ->
            ebind (rr_address_with_prefix e.e_addr (ecs_prefix e)) (fun _ ->
              set_length_index li))))))

(** val enc_cookie : cookie -> unit eM **)

let enc_cookie c =
  ebind (eu16 oPT_COOKIE) (fun _ ->
    ebind create_length_index (fun li ->
      ebind (put c.c_client) (fun _ ->
        ebind (match c.c_server with
               | Some s -> put s
               | None -> eret ()) (fun _ -> set_length_index li))))

(** val enc_padding : n -> unit eM **)

let enc_padding n0 =
  ebind (eu16 oPT_PADDING) (fun _ ->
    ebind (eu16 n0) (fun _ -> put (zeros (N.to_nat (N.modulo n0 pOW16)))))

(** val enc_edns_option : ednsopt -> unit eM **)

let enc_edns_option = function
| OEcs e -> enc_ecs e
| OCookie c -> enc_cookie c
| OPadding n0 -> enc_padding n0

(** val set_address_length_index : bool -> n -> unit eM **)

let set_address_length_index negation ali =
  ebind buf_len (fun len ->
    if N.ltb len (N.add ali (Npos XH))
    then (fun _ -> EPanic SAddrLenIndexSub)
    else let length0 = N.sub len (N.add ali (Npos XH)) in
         if N.ltb length0 (Npos (XO (XO (XO (XO (XO (XO (XO (XO XH)))))))))
         then if cmp_apply oP_apl_len length0 aPL_NEGATION_MASK
              then set_u8
                     (if negation
                      then N.coq_lor length0 aPL_NEGATION_MASK
                      else length0) ali
              else efail (XAPLAddressLength, (length0 :: []))
         else efail (XLength, (length0 :: [])))

(** val enc_apitem : apitem -> unit eM **)

let enc_apitem i =
  ebind (eu16 i.i_addr.a_fam) (fun _ ->
    ebind (eu8 i.i_prefix) (fun _ ->
      ebind buf_len (fun ali ->
        ebind (eu8 N0) (fun _ ->
          ebind (rr_address_with_prefix i.i_addr i.i_prefix) (fun _ ->
            set_address_length_index i.i_neg ali)))))

(** val insert_sorted : n -> n list -> n list **)

let rec insert_sorted x l = match l with
| [] -> x :: []
| y :: r -> if N.leb x y then x :: l else y :: (insert_sorted x r)

(** val sort_keys : n list -> n list **)

let sort_keys l =
  fold_right insert_sorted [] l

(** val enc_service_parameter : svcparam -> unit eM **)

let enc_service_parameter p =
  ebind (eu16 (param_key p)) (fun _ ->
    ebind create_length_index (fun li ->
      ebind
        (match p with
         | PMandatory keys -> emap eu16 (sort_keys keys)
         | PAlpn ids -> emap estring ids
         | PPort port -> eu16 port
         | PIpv4Hint h -> emap eu32 h
         | PEch cl ->
           let n0 = lenN cl in
           if N.ltb (Npos (XI (XI (XI (XI (XI (XI (XI (XI (XI (XI (XI (XI (XI
                (XI (XI XH)))))))))))))))) n0
           then efail (XLength, (n0 :: []))
           else ebind (eu16 n0) (fun _ -> put cl)
         | PIpv6Hint h -> emap put h
         | PPrivate (_, d) -> put d
         | _ -> eret ()) (fun _ -> set_length_index li)))

(** val enc_rr : rr -> unit eM **)

let enc_rr r =
  match lookup r.r_type enc_dispatch with
  | Some w ->
    (match w with
     | WrFields (ec, f) ->
       (match r.r_data with
        | RFields vals ->
          ebind (enc_domain_name r.r_name) (fun _ ->
            ebind (eu16 r.r_type) (fun _ ->
              ebind
                (eu16 (match ec with
                       | ECField -> r.r_class
                       | ECIn -> cLASS_IN)) (fun _ ->
                ebind (eu32 r.r_ttl) (fun _ ->
                  ebind create_length_index (fun li ->
                    ebind (write_fields (dec_value_names r.r_type) vals f)
                      (fun _ -> set_length_index li))))))
        | _ -> (fun _ -> EIllTyped))
     | WrSpecial s ->
       (match s with
        | SpOpt ->
          (match r.r_data with
           | ROpt (payload, ext, ver, dnssec, opts) ->
             ebind (enc_domain_name []) (fun _ ->
               ebind (eu16 r.r_type) (fun _ ->
                 ebind (eu16 payload) (fun _ ->
                   ebind (eu32 (enc_opt_ttl ext ver dnssec)) (fun _ ->
                     ebind create_length_index (fun li ->
                       ebind (emap enc_edns_option opts) (fun _ ->
                         set_length_index li))))))
           | _ -> (fun _ -> EIllTyped))
        | SpApl ->
          (match r.r_data with
           | RApl items ->
             ebind (enc_domain_name r.r_name) (fun _ ->
               ebind (eu16 r.r_type) (fun _ ->
                 ebind (eu16 cLASS_IN) (fun _ ->
                   ebind (eu32 r.r_ttl) (fun _ ->
                     ebind create_length_index (fun li ->
                       ebind (emap enc_apitem items) (fun _ ->
                         set_length_index li))))))
           | _ -> (fun _ -> EIllTyped))
        | _ ->
          (match r.r_data with
           | RSvcb (prio, target, params) ->
             ebind (enc_domain_name r.r_name) (fun _ ->
               ebind (eu16 r.r_type) (fun _ ->
                 ebind (eu16 cLASS_IN) (fun _ ->
                   ebind (eu32 r.r_ttl) (fun _ ->
                     ebind create_length_index (fun li ->
                       ebind (eu16 prio) (fun _ ->
                         ebind (enc_domain_name target) (fun _ ->
                           ebind
                             (if negb (N.eqb prio N0)
                              then emap enc_service_parameter params
                              else eret ()) (fun _ -> set_length_index li))))))))
           | _ -> (fun _ -> EIllTyped))))
  | None -> (fun _ -> EIllTyped)

(** val enc_question : question -> unit eM **)

let enc_question q =
  ebind (enc_domain_name q.q_name) (fun _ ->
    ebind (eu16 q.q_type) (fun _ -> eu16 q.q_class))

(** val eflag : ((n * n) * n) -> bool -> n -> n **)

let eflag spec b oct =
  let (p, _) = spec in
  let (o, mask0) = p in if (&&) (N.eqb o oct) b then mask0 else N0

(** val eshift : ((n * n) * n) -> n -> n -> n **)

let eshift spec v oct =
  let (p, shift) = spec in
  let (o, _) = p in
  if N.eqb o oct
  then N.modulo (N.shiftl v shift) (Npos (XO (XO (XO (XO (XO (XO (XO (XO
         XH)))))))))
  else N0

(** val flags_octet : flags -> n -> n **)

let flags_octet f oct =
  N.coq_lor (eflag eNC_FLAG_qr f.f_qr oct)
    (N.coq_lor (eshift eNC_FLAG_opcode f.f_opcode oct)
      (N.coq_lor (eflag eNC_FLAG_aa f.f_aa oct)
        (N.coq_lor (eflag eNC_FLAG_tc f.f_tc oct)
          (N.coq_lor (eflag eNC_FLAG_rd f.f_rd oct)
            (N.coq_lor (eflag eNC_FLAG_ra f.f_ra oct)
              (N.coq_lor (eflag eNC_FLAG_ad f.f_ad oct)
                (N.coq_lor (eflag eNC_FLAG_cd f.f_cd oct)
                  (eshift eNC_FLAG_rcode f.f_rcode oct))))))))

(** val enc_flags : flags -> unit eM **)

let enc_flags f =
  ebind (eu8 (flags_octet f N0)) (fun _ -> eu8 (flags_octet f (Npos XH)))

(** val enc_count : 'a1 list -> unit eM **)

let enc_count l =
  let n0 = lenN l in
  if N.ltb n0 pOW16 then eu16 n0 else efail (XLength, (n0 :: []))

(** val enc_dns : dns -> unit eM **)

let enc_dns m =
  ebind (eu16 m.m_id) (fun _ ->
    ebind (enc_flags m.m_flags) (fun _ ->
      ebind (enc_count m.m_qd) (fun _ ->
        ebind (enc_count m.m_an) (fun _ ->
          ebind (enc_count m.m_ns) (fun _ ->
            ebind (enc_count m.m_ar) (fun _ ->
              ebind (emap enc_question m.m_qd) (fun _ ->
                ebind (emap enc_rr m.m_an) (fun _ ->
                  ebind (emap enc_rr m.m_ns) (fun _ ->
                    ebind (emap enc_rr m.m_ar) (fun _ ->
                      ebind get_offset (fun _ -> eret ())))))))))))

(** val erun : unit eM -> bytes res **)

let erun m =
  match m e_init with
  | EOk (_, s) -> Ok s.e_buf
  | EErr e -> Err e
  | EPanic x -> Panic x
  | EIllTyped -> OutOfFuel

(** val enc_Dns : dns -> bytes res **)

let enc_Dns m =
  erun (enc_dns m)

(** val enc_Flags : flags -> bytes res **)

let enc_Flags f =
  erun (enc_flags f)

(** val enc_Question : question -> bytes res **)

let enc_Question q =
  erun (enc_question q)

(** val enc_RR : rr -> bytes res **)

let enc_RR r =
  erun (enc_rr r)

(** val enc_DomainName : name -> bytes res **)

let enc_DomainName n0 =
  erun (enc_domain_name n0)

(** val enc_code : n -> bytes res **)

let enc_code c =
  erun (eu16 c)
