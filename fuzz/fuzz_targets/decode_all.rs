#![no_main]
//! Coverage-guided search for C01/C02: every decode entry point on the same input; every accepted
//! value is cloned, compared, formatted, queried and re-encoded; a decoded message that re-encodes
//! must decode again.  Any panic is a finding (the input is replayed as a `D` case by tools/check.py).
use bytes::Bytes;
use dns_message_parser::question::{QClass, QType, Question};
use dns_message_parser::rr::{Class, Type, RR};
use dns_message_parser::{Dns, DomainName, Flags};
use libfuzzer_sys::fuzz_target;

fuzz_target!(|data: &[u8]| {
    let b = Bytes::copy_from_slice(data);
    if let Ok(v) = Dns::decode(b.clone()) {
        let _ = format!("{} {:?}", v, v);
        let c = v.clone();
        assert!(c == v);
        if let Ok(w) = v.encode() {
            let _ = Dns::decode(w.freeze());
        }
    }
    if let Ok(v) = RR::decode(b.clone()) {
        let _ = format!("{} {:?}", v, v);
        let _ = (v.get_ttl(), v.get_class());
        let _ = v.encode();
    }
    if let Ok(v) = Question::decode(b.clone()) {
        let _ = format!("{} {:?}", v, v);
        let _ = v.encode();
    }
    if let Ok(v) = DomainName::decode(b.clone()) {
        let _ = format!("{} {:?}", v, v);
        let _ = v.encode();
    }
    if let Ok(v) = Flags::decode(b.clone()) {
        let _ = format!("{} {:?}", v, v);
        let _ = v.encode();
    }
    let _ = Type::decode(b.clone());
    let _ = Class::decode(b.clone());
    let _ = QType::decode(b.clone());
    let _ = QClass::decode(b);
});
