#!/usr/bin/env python3
"""Seeded case generators for the correspondence check (docs/PROTOCOL.md).

Abstract values are Python tuples mirroring the canon syntax:
  name   = ('N', [bytes, ...])
  rr     = ('RR', type, name, class, ttl, rdata)
  rdata  = ('G', [field...]) | ('OPT', payload, ext, ver, do, [opt...]) | ('APL', [item...])
         | ('SVCB', prio, name, [param...])
  field  = int | bytes | name | ('L', [bytes...]) | ('O', None|bytes)
Every random choice comes from the random.Random instance passed in.
"""
import os
import re
import struct

REPO = os.environ.get("VERIF_REPO", "/repo")

# ------------------------------------------------------------------ canon printing

def hx(b):
    return "x" + bytes(b).hex()


def canon(v):
    if isinstance(v, bool):
        return "1" if v else "0"
    if isinstance(v, int):
        return str(v)
    if isinstance(v, (bytes, bytearray)):
        return hx(v)
    if isinstance(v, tuple):
        tag = v[0]
        if tag == 'N':
            items = [hx(l) for l in v[1]]
        elif tag == 'L':
            items = [canon(x) for x in v[1]]
        elif tag == 'O':
            items = [] if v[1] is None else [hx(v[1])]
        elif tag == 'G':
            items = [canon(x) for x in v[1]]
        elif tag == 'RAW':       # literal canon text
            return v[1]
        else:
            items = [canon(x) if not isinstance(x, list) else canon(('L', x)) for x in v[1:]]
        return "(" + " ".join([tag] + items) + ")"
    if isinstance(v, list):
        return canon(('L', v))
    raise TypeError(v)


# ------------------------------------------------------------------ vocabulary

TYPES = {'A': 1, 'NS': 2, 'MD': 3, 'MF': 4, 'CNAME': 5, 'SOA': 6, 'MB': 7, 'MG': 8, 'MR': 9, 'NULL': 10,
         'WKS': 11, 'PTR': 12, 'HINFO': 13, 'MINFO': 14, 'MX': 15, 'TXT': 16, 'RP': 17, 'AFSDB': 18,
         'X25': 19, 'ISDN': 20, 'RT': 21, 'NSAP': 22, 'GPOS': 27, 'AAAA': 28, 'LOC': 29, 'EID': 31,
         'NIMLOC': 32, 'SRV': 33, 'KX': 36, 'DNAME': 39, 'OPT': 41, 'APL': 42, 'DS': 43, 'SSHFP': 44,
         'DNSKEY': 48, 'NID': 104, 'L32': 105, 'L64': 106, 'LP': 107, 'EUI48': 108, 'EUI64': 109,
         'URI': 256, 'CAA': 257, 'PX': 26, 'SVCB': 64, 'HTTPS': 65}
NOCLASS = {'A', 'AAAA', 'WKS', 'APL', 'SVCB', 'HTTPS'}
# field kinds: 8 16 32 64 name str rest utf8rest ip6 e:<list> digits hexopt gpos tag strs dnskeyflags
FMT = {
    'A': ['32'], 'NS': ['name'], 'MD': ['name'], 'MF': ['name'], 'CNAME': ['name'],
    'SOA': ['name', 'name', '32', '32', '32', '32', '32'], 'MB': ['name'], 'MG': ['name'], 'MR': ['name'],
    'NULL': ['rest'], 'WKS': ['32', '8', 'rest'], 'PTR': ['name'], 'HINFO': ['str', 'str'],
    'MINFO': ['name', 'name'], 'MX': ['16', 'name'], 'TXT': ['strs'], 'RP': ['name', 'name'],
    'AFSDB': ['e:1,2', 'name'], 'X25': ['digits'], 'ISDN': ['digits', 'hexopt'], 'RT': ['16', 'name'],
    'NSAP': ['rest'], 'GPOS': ['gpos', 'gpos', 'gpos'], 'LOC': ['8', '8', '8', '8', '32', '32', '32'],
    'PX': ['16', 'name', 'name'], 'KX': ['16', 'name'], 'SRV': ['16', '16', '16', 'name'], 'AAAA': ['ip6'],
    'SSHFP': ['e8:0,1,2', 'e8:0,1', 'rest'], 'DNAME': ['name'], 'NID': ['16', '64'], 'L32': ['16', '32'],
    'L64': ['16', '64'], 'LP': ['16', 'name'], 'EUI48': ['8'] * 6, 'EUI64': ['8'] * 8,
    'URI': ['16', '16', 'utf8rest'], 'EID': ['rest'], 'NIMLOC': ['rest'],
    'DNSKEY': ['dnskeyflags', 'e8:0,1,2,3,4,5,6,7,8,12,13,14,15,16,252,253,254', 'rest'],
    'DS': ['16', 'e8:0,1,2,3,4,5,6,7,8,12,13,14,15,16,252,253,254', 'e8:0,1,2,3,4', 'rest'],
    'CAA': ['8', 'tag', 'rest'],
}
CLASSES = [1, 2, 3, 4]
OPCODES = [0, 1, 2, 4, 5, 6]
RCODES = list(range(12))
QTYPES = [1, 2, 5, 6, 12, 15, 16, 28, 33, 252, 253, 254, 255, 64, 65, 257]
QCLASSES = [1, 2, 3, 4, 254, 255]
LABEL_POOL = [b"a", b"b", b"c", b"example", b"org", b"com", b"www", b"mail", b"ns1", b"EXAMPLE", b"Org",
              b"x" * 63, b"\xc3\xa9t\xc3\xa9", b"a.b", b"_sip", b"0"]


def rnd_label(r):
    k = r.random()
    if k < 0.7:
        return r.choice(LABEL_POOL)
    n = r.choice([1, 2, 3, 5, 10, 31, 62, 63])
    return bytes(r.choice(b"abcdefghijklmnopqrstuvwxyzABCDEFGHIJKLMNOPQRSTUVWXYZ0123456789-_") for _ in range(n))


def name_wire_len(labels):
    return sum(len(l) + 1 for l in labels) + 1


def rnd_name(r, maxlabels=5):
    n = r.choice([0, 1, 2, 2, 3, 3, 4, maxlabels])
    labels = []
    for _ in range(n):
        l = rnd_label(r)
        if name_wire_len(labels + [l]) > 255:
            break
        labels.append(l)
    return ('N', labels)


def rnd_bytes(r, lo=0, hi=40):
    n = r.choice([lo, lo, hi, r.randint(lo, hi), r.randint(lo, hi)])
    return bytes(r.randrange(256) for _ in range(n))


def rnd_text(r, lo=0, hi=30):
    n = r.choice([lo, hi, r.randint(lo, hi)])
    s = bytearray()
    while len(s) < n:
        c = r.random()
        if c < 0.85:
            s.append(r.choice(b"abcXYZ019 .-/"))
        else:
            s += r.choice(["é", "ß", "İ", "K", "€", "😀"]).encode()
    return bytes(s[:n]) if is_utf8(bytes(s[:n])) else bytes(s)


def is_utf8(b):
    try:
        b.decode("utf-8")
        return True
    except UnicodeDecodeError:
        return False


def rnd_u(r, bits):
    top = (1 << bits) - 1
    return r.choice([0, 1, top, top - 1, 1 << (bits - 1), r.randrange(top + 1), r.randrange(top + 1)])


def rnd_field(r, k, names):
    if k in ('8', '16', '32', '64'):
        return rnd_u(r, int(k))
    if k == 'name':
        return pick_name(r, names)
    if k == 'str':
        return rnd_text(r, 0, 40)
    if k == 'rest':
        return rnd_bytes(r, 0, 40)
    if k == 'utf8rest':
        return rnd_text(r, 0, 40)
    if k == 'ip6':
        return bytes(r.randrange(256) for _ in range(16))
    if k.startswith('e:') or k.startswith('e8:'):
        return int(r.choice(k.split(':')[1].split(',')))
    if k == 'digits':
        return bytes(r.choice(b"0123456789") for _ in range(r.choice([0, 1, 5, 15])))
    if k == 'hexopt':
        return ('O', None if r.random() < 0.4 else bytes(r.choice(b"0123456789abcdefABCDEF") for _ in range(r.choice([0, 1, 4, 8]))))
    if k == 'gpos':
        return bytes(r.choice(b"0123456789.-") for _ in range(r.choice([1, 2, 6, 12])))
    if k == 'tag':
        return bytes(r.choice(b"abcdefghijklmnopqrstuvwxyz0123456789") for _ in range(r.choice([1, 5, 15])))
    if k == 'strs':
        return ('L', [rnd_text(r, 0, 30) for _ in range(r.choice([1, 1, 2, 3]))])
    if k == 'dnskeyflags':
        return r.choice([0, 1, 256, 257])
    raise ValueError(k)


def pick_name(r, names):
    """reuse / extend an earlier name (to provoke compression) or make a fresh one"""
    k = r.random()
    if names and k < 0.35:
        return r.choice(names)
    if names and k < 0.7:
        base = r.choice(names)[1]
        cut = r.randrange(len(base) + 1)
        labels = [rnd_label(r) for _ in range(r.choice([1, 1, 2]))] + list(base[cut:])
        if name_wire_len(labels) <= 255:
            n = ('N', labels)
            names.append(n)
            return n
    n = rnd_name(r)
    names.append(n)
    return n


def mask_addr(octets, prefix):
    out = bytearray(octets)
    for i in range(len(out) * 8):
        if i >= prefix:
            out[i // 8] &= ~(0x80 >> (i % 8)) & 0xFF
    return bytes(out)


def rnd_prefix_addr(r, fam, prefix=None):
    size = 4 if fam == 1 else 16
    if prefix is None:
        prefix = r.choice([0, 1, 7, 8, 9, 16, 24, size * 8 - 1, size * 8, r.randint(0, size * 8)])
    return prefix, mask_addr(bytes(r.randrange(256) for _ in range(size)), prefix)


def rnd_option(r):
    k = r.random()
    if k < 0.4:
        fam = r.choice([1, 2])
        size = 4 if fam == 1 else 16
        src = r.choice([0, 8, 16, 24, 25, size * 8, r.randint(0, size * 8)])
        scope = r.choice([0, 0, src, r.randint(0, size * 8)])
        _, a = rnd_prefix_addr(r, fam, max(src, scope))
        return ('ECS', fam, src, scope, a)
    if k < 0.75:
        client = bytes(r.randrange(256) for _ in range(8))
        server = None if r.random() < 0.4 else bytes(r.randrange(256) for _ in range(r.choice([8, 9, 16, 31, 32])))
        return ('COOKIE', client, ('O', server))
    return ('PAD', r.choice([0, 1, 6, 64, 300]))


def rnd_param(r, key=None):
    if key is None:
        key = r.choice([0, 1, 2, 3, 4, 5, 6, 7, 8, 100, 65280, 65534, 65535])
    if key == 0:
        return ('MAND', *sorted(set(r.choice([1, 2, 3, 4, 5, 6, 7, 100]) for _ in range(r.choice([0, 1, 2, 4])))))
    if key == 1:
        return ('ALPN', *[rnd_text(r, 0, 10) for _ in range(r.choice([0, 1, 2, 3]))])
    if key == 2:
        return ('NODEF',)
    if key == 3:
        return ('PORT', rnd_u(r, 16))
    if key == 4:
        return ('V4', *[bytes(r.randrange(256) for _ in range(4)) for _ in range(r.choice([0, 1, 2, 8]))])
    if key == 5:
        return ('ECH', rnd_bytes(r, 0, 30))
    if key == 6:
        return ('V6', *[bytes(r.randrange(256) for _ in range(16)) for _ in range(r.choice([0, 1, 2]))])
    if key == 65535:
        return ('K65535',)
    return ('PRIV', key, rnd_bytes(r, 0, 300 if r.random() < 0.1 else 20))


PARAM_KEY = {'MAND': 0, 'ALPN': 1, 'NODEF': 2, 'PORT': 3, 'V4': 4, 'ECH': 5, 'V6': 6, 'K65535': 65535}


def param_key(p):
    return p[1] if p[0] == 'PRIV' else PARAM_KEY[p[0]]


def rnd_rr(r, names, tname=None):
    if tname is None:
        tname = r.choice(list(TYPES))
    t = TYPES[tname]
    if tname == 'OPT':
        return ('RR', t, ('N', []), 0, 0,
                ('OPT', rnd_u(r, 16), rnd_u(r, 8), rnd_u(r, 8), r.random() < 0.5,
                 [rnd_option(r) for _ in range(r.choice([0, 1, 2, 4]))]))
    owner = pick_name(r, names)
    ttl = rnd_u(r, 32)
    if tname == 'APL':
        items = []
        for _ in range(r.choice([0, 1, 2, 3])):
            fam = r.choice([1, 2])
            p, a = rnd_prefix_addr(r, fam)
            items.append(('I', fam, p, r.random() < 0.3, a))
        return ('RR', t, owner, 1, ttl, ('APL', items))
    if tname in ('SVCB', 'HTTPS'):
        prio = r.choice([0, 1, 1, 2, 65535])
        target = pick_name(r, names)
        params = {}
        if prio != 0:
            for _ in range(r.choice([0, 1, 2, 3, 5])):
                p = rnd_param(r)
                params.setdefault(param_key(p), p)
        return ('RR', t, owner, 1, ttl, ('SVCB', prio, target, [params[k] for k in sorted(params)]))
    cls = 1 if tname in NOCLASS else r.choice(CLASSES)
    return ('RR', t, owner, cls, ttl, ('G', [rnd_field(r, k, names) for k in FMT[tname]]))


def rnd_flags(r):
    b = lambda: r.random() < 0.5
    return ('F', b(), r.choice(OPCODES), b(), b(), b(), b(), b(), b(), r.choice(RCODES))


def rnd_dns(r, maxrec=4, types=None):
    names = []
    qd = [('Q', pick_name(r, names), r.choice(QTYPES), r.choice(QCLASSES)) for _ in range(r.choice([0, 1, 1, 2]))]
    secs = []
    for _ in range(3):
        secs.append([rnd_rr(r, names, r.choice(types) if types else None) for _ in range(r.choice([0, 1, 2, maxrec]))])
    return ('Dns', rnd_u(r, 16), rnd_flags(r), qd, secs[0], secs[1], secs[2])


# ------------------------------------------------------------------ reference renderer (layout choices)

class Layout:
    """Layout choices for one rendering.  mode: 'plain' (no compression), 'lib' (greedy suffix
    compression like an ordinary encoder), 'rand' (random legal pointer choices, chains up to 16 hops),
    plus label case flips, address octet counts, SvcParam permutation."""
    def __init__(self, r, mode='rand', case=False, addr='rand', perm=False):
        self.r, self.mode, self.case, self.addr, self.perm = r, mode, case, addr, perm


class Renderer:
    def __init__(self, lay, base=0):
        self.buf = bytearray()
        self.lay = lay
        self.base = base
        self.starts = []   # (offset, labels from there (folded), hops needed from there)
        self.fields = []   # (kind, pos, covered_start, covered_end) length fields, for near-miss mutation
        self.bounds = []   # field boundary offsets

    def u8(self, v): self.buf.append(v & 255)
    def u16(self, v): self.buf += struct.pack(">H", v & 0xFFFF)
    def u32(self, v): self.buf += struct.pack(">I", v & 0xFFFFFFFF)
    def u64(self, v): self.buf += struct.pack(">Q", v & 0xFFFFFFFFFFFFFFFF)
    def raw(self, b): self.buf += b

    def string(self, s):
        self.fields.append(('str', len(self.buf), len(self.buf) + 1, len(self.buf) + 1 + len(s)))
        self.u8(len(s)); self.raw(s)

    def name(self, n, compress_ok=True):
        labels = list(n[1])
        r = self.lay.r
        i = 0
        new_starts = []
        while i < len(labels):
            suffix = tuple(l.lower() for l in labels[i:])
            cands = [(o, h) for (o, s, h) in self.starts if s == suffix and o < 0x4000 and h <= 15]
            use = None
            if compress_ok and cands:
                if self.lay.mode == 'lib':
                    use = cands[0]
                elif self.lay.mode == 'rand' and r.random() < 0.6:
                    use = r.choice(cands)
            if use is not None:
                pos = len(self.buf) + self.base
                self.buf += struct.pack(">H", 0xC000 | use[0])
                for (o, k) in new_starts:
                    self.starts.append((o, tuple(l.lower() for l in labels[k:]), use[1] + 1))
                self.bounds.append(len(self.buf))
                return
            l = labels[i]
            if self.lay.case:
                l = bytes((c ^ 0x20) if (65 <= c <= 90 or 97 <= c <= 122) and r.random() < 0.5 else c for c in l)
            new_starts.append((len(self.buf) + self.base, i))
            self.u8(len(l)); self.raw(l)
            i += 1
        zeros = getattr(self, "zeros", None)
        if zeros is None:
            zeros = self.zeros = []
        if compress_ok and self.lay.mode == 'rand' and zeros and r.random() < 0.3:
            # the root (the end of every name) written as a pointer to the terminating zero octet of an earlier name:
            # a legal backward pointer to a prior occurrence of the (empty) suffix
            self.buf += struct.pack(">H", 0xC000 | r.choice(zeros))
            for (o, k) in new_starts:
                self.starts.append((o, tuple(l.lower() for l in labels[k:]), 1))
            self.bounds.append(len(self.buf))
            return
        if len(self.buf) + self.base < 0x4000:
            zeros.append(len(self.buf) + self.base)
        self.u8(0)
        for (o, k) in new_starts:
            self.starts.append((o, tuple(l.lower() for l in labels[k:]), 0))
        self.bounds.append(len(self.buf))

    def lenfield(self, kind):
        pos = len(self.buf)
        self.u16(0)
        return (kind, pos)

    def patch(self, lf):
        kind, pos = lf
        n = len(self.buf) - pos - 2
        self.buf[pos:pos + 2] = struct.pack(">H", n & 0xFFFF)
        self.fields.append((kind, pos, pos + 2, len(self.buf)))

    def prefix_addr(self, octets, prefix):
        size = len(octets)
        minimal = (prefix + 7) // 8
        # minimal count must also cover every non-zero octet
        while minimal < size and any(octets[minimal:]):
            minimal += 1
        if self.lay.addr == 'min':
            k = minimal
        elif self.lay.addr == 'full':
            k = size
        else:
            k = self.lay.r.randint(minimal, size)
        self.raw(octets[:k])

    def field(self, k, v):
        if k == '8' or k.startswith('e8:'): self.u8(v)
        elif k == '16' or k.startswith('e:') or k == 'dnskeyflags':
            self.u16(v)
            if k == 'dnskeyflags':
                self.u8(3)
        elif k == '32': self.u32(v)
        elif k == '64': self.u64(v)
        elif k == 'name': self.name(v)
        elif k in ('str', 'digits', 'gpos', 'tag'): self.string(v)
        elif k in ('rest', 'utf8rest', 'ip6'): self.raw(v)
        elif k == 'hexopt':
            if v[1] is not None: self.string(v[1])
        elif k == 'strs':
            for s in v[1]: self.string(s)
        else: raise ValueError(k)
        self.bounds.append(len(self.buf))

    def option(self, o):
        if o[0] == 'ECS':
            self.u16(8); lf = self.lenfield('opt')
            self.u16(o[1]); self.u8(o[2]); self.u8(o[3]); self.prefix_addr(o[4], max(o[2], o[3])); self.patch(lf)
        elif o[0] == 'COOKIE':
            self.u16(10); lf = self.lenfield('opt'); self.raw(o[1])
            if o[2][1] is not None: self.raw(o[2][1])
            self.patch(lf)
        else:
            self.u16(12); lf = self.lenfield('opt'); self.raw(bytes(o[1])); self.patch(lf)
        self.bounds.append(len(self.buf))

    def param(self, p):
        self.u16(param_key(p)); lf = self.lenfield('param')
        t = p[0]
        if t == 'MAND':
            for k in p[1:]: self.u16(k)
        elif t == 'ALPN':
            for s in p[1:]: self.string(s)
        elif t == 'PORT': self.u16(p[1])
        elif t in ('V4', 'V6'):
            for a in p[1:]: self.raw(a)
        elif t == 'ECH':
            self.u16(len(p[1])); self.raw(p[1])
        elif t == 'PRIV': self.raw(p[2])
        self.patch(lf)
        self.bounds.append(len(self.buf))

    def rr(self, rr):
        _, t, owner, cls, ttl, rd = rr
        tname = [k for k, v in TYPES.items() if v == t][0]
        self.name(owner)
        self.u16(t)
        if rd[0] == 'OPT':
            self.u16(rd[1]); self.u32((rd[2] << 24) | (rd[3] << 16) | (0x8000 if rd[4] else 0))
        else:
            self.u16(cls); self.u32(ttl)
        self.bounds.append(len(self.buf))
        lf = self.lenfield('rdlen')
        if rd[0] == 'G':
            for k, v in zip(FMT[tname], rd[1]):
                self.field(k, v)
        elif rd[0] == 'OPT':
            for o in rd[5]: self.option(o)
        elif rd[0] == 'APL':
            for it in rd[1]:
                self.u16(it[1]); self.u8(it[2])
                pos = len(self.buf); self.u8(0)
                self.prefix_addr(it[4], it[2])
                n = len(self.buf) - pos - 1
                self.buf[pos] = n | (0x80 if it[3] else 0)
                self.fields.append(('afd', pos, pos + 1, len(self.buf)))
                self.bounds.append(len(self.buf))
        else:
            self.u16(rd[1]); self.name(rd[2])
            ps = list(rd[3])
            if self.lay.perm:
                self.lay.r.shuffle(ps)
            for p in ps: self.param(p)
        self.patch(lf)
        self.bounds.append(len(self.buf))

    def question(self, q):
        self.name(q[1]); self.u16(q[2]); self.u16(q[3])
        self.bounds.append(len(self.buf))

    def flags(self, f):
        _, qr, op, aa, tc, rd, ra, ad, cd, rc = f
        self.u8((0x80 if qr else 0) | (op << 3) | (4 if aa else 0) | (2 if tc else 0) | (1 if rd else 0))
        self.u8((0x80 if ra else 0) | (0x20 if ad else 0) | (0x10 if cd else 0) | rc)

    def dns(self, m):
        _, id_, fl, qd, an, ns, ar = m
        self.u16(id_); self.flags(fl)
        for i, sec in enumerate((qd, an, ns, ar)):
            self.fields.append(('count', len(self.buf), None, None))
            self.u16(len(sec))
        self.bounds.append(len(self.buf))
        for q in qd: self.question(q)
        for sec in (an, ns, ar):
            for x in sec: self.rr(x)
        return bytes(self.buf)


def render_dns(m, lay):
    rn = Renderer(lay)
    return rn.dns(m), rn


# ------------------------------------------------------------------ corpus

def corpus_vectors():
    """byte-string literals of the repository's tests (valid and malformed messages)"""
    vecs = []
    roots = [os.path.join(REPO, "tests")]
    files = []
    for root in roots:
        for fn in sorted(os.listdir(root)):
            if fn.endswith(".rs"):
                files.append(os.path.join(root, fn))
    for dp, _, fns in os.walk(os.path.join(REPO, "src")):
        for fn in sorted(fns):
            if fn == "tests.rs":
                files.append(os.path.join(dp, fn))
    for path in files:
        src = open(path, encoding="utf-8").read()
        for m in re.finditer(r'b"((?:[^"\\]|\\.|\\\n)*)"', src, re.S):
            lit = m.group(1)
            out = bytearray()
            i = 0
            while i < len(lit):
                c = lit[i]
                if c == "\\":
                    d = lit[i + 1]
                    if d == "x":
                        out.append(int(lit[i + 2:i + 4], 16)); i += 4
                    elif d == "\n":
                        i += 2
                        while i < len(lit) and lit[i] in " \t\n":
                            i += 1
                    elif d == "n": out.append(10); i += 2
                    elif d == "r": out.append(13); i += 2
                    elif d == "t": out.append(9); i += 2
                    elif d == "0": out.append(0); i += 2
                    elif d in "\\\"'": out.append(ord(d)); i += 2
                    else: i += 2
                else:
                    out += c.encode(); i += 1
            vecs.append(bytes(out))
    seen = set()
    res = []
    for v in vecs:
        if v not in seen:
            seen.add(v); res.append(v)
    return res


# ------------------------------------------------------------------ mutation streams

def near_miss(r, wire, rn, per=6):
    """length/count perturbations, truncations and suffixes derived from the renderer's field map"""
    out = []
    fields = rn.fields
    deltas = [-2, -1, 1, 2, 255, -255, 256, -256]
    picks = fields if len(fields) <= per else r.sample(fields, per)
    for (kind, pos, a, b) in picks:
        width = 1 if kind in ('str', 'afd') else 2
        cur = int.from_bytes(wire[pos:pos + width], "big")
        vals = set()
        for d in deltas:
            vals.add((cur + d) % (1 << (8 * width)))
        vals.add(0); vals.add((1 << (8 * width)) - 1)
        if kind == 'afd':
            vals |= {cur ^ 0x80, cur ^ 0x40, (cur & 0x80) | 0x7f}
        for v in sorted(vals):
            if v != cur:
                w = bytearray(wire); w[pos:pos + width] = v.to_bytes(width, "big"); out.append(bytes(w))
    bounds = sorted(set(rn.bounds))
    for bd in (bounds if len(bounds) <= per else r.sample(bounds, per)):
        for d in (-1, 0, 1):
            if 0 <= bd + d < len(wire):
                out.append(wire[:bd + d])
    for k in (1, 2, 3, 4):
        out.append(wire + bytes(r.randrange(256) for _ in range(k)))
    return out


def byte_level(r, wire, n=4):
    out = []
    for _ in range(n):
        w = bytearray(wire)
        k = r.random()
        if not w:
            w.append(r.randrange(256))
        elif k < 0.5:
            i = r.randrange(len(w)); w[i] ^= 1 << r.randrange(8)
        elif k < 0.7:
            i = r.randrange(len(w)); w[i] = r.choice([0, 0xff, 0xc0, 0x3f, 0x40, 0x80, r.randrange(256)])
        elif k < 0.85:
            i = r.randrange(len(w) + 1); w[i:i] = bytes([r.randrange(256)])
        else:
            i = r.randrange(len(w)); del w[i]
        out.append(bytes(w))
    return out


def hexs(b):
    return b.hex() if b else "-"


# ------------------------------------------------------------------ pointer mazes (C07)

def pointer_graphs(maxnodes):
    """all graphs of <= maxnodes nodes placed after a 12-octet header: node = label 'a' |
    pointer to node j | end.  Yields (wire, start offsets)"""
    import itertools
    for n in range(1, maxnodes + 1):
        kinds = ['L', 'E'] + ['P%d' % j for j in range(n)]
        for combo in itertools.product(kinds, repeat=n):
            # offsets: label 2 octets, end 1, pointer 2
            offs = []
            o = 12
            for c in combo:
                offs.append(o)
                o += 1 if c == 'E' else 2
            buf = bytearray(12)
            for c in combo:
                if c == 'L': buf += b"\x01a"
                elif c == 'E': buf += b"\x00"
                else: buf += struct.pack(">H", 0xC000 | offs[int(c[1:])])
            yield bytes(buf), offs


def chain_message(r, hops, tail=b"\x03org\x00", owner_at_end=True):
    """a Dns message with one question whose name is a chain of `hops` pointers"""
    buf = bytearray(struct.pack(">HHHHHH", r.randrange(65536), 0x0100, 1, 0, 0, 0))
    # layout: question name = pointer to P1; P1 -> P2 ... -> tail.  Put the chain after the question.
    qpos = len(buf)
    chain_start = qpos + 2 + 4
    buf += struct.pack(">H", 0xC000 | chain_start)
    buf += struct.pack(">HH", 1, 1)
    for i in range(hops - 1):
        buf += struct.pack(">H", 0xC000 | (chain_start + 2 * (i + 1)))
    buf += tail
    return bytes(buf)
