#!/usr/bin/env python3
"""debug helper: run streams through both runners and print disagreements"""
import sys, os, random, shutil
sys.path.insert(0, os.path.dirname(os.path.abspath(__file__)))
import common as C, streams as S
rng = random.Random(int(sys.argv[1]) if len(sys.argv) > 1 else 1)
n = int(sys.argv[2]) if len(sys.argv) > 2 else 300
cases = S.corpus_d(("Dns",)) + S.structured_d(rng, n) + S.near_miss_d(rng, n // 4) + S.byte_level_d(rng, n // 2) \
    + S.element_cases(rng, n) + S.value_e(rng, n) + S.value_e_rr(rng, n)
wd = os.path.join(C.WORK, "try")
impl = C.run_sharded(C.HARNESS_BIN, cases, "impl", wd, 600)
model = C.run_sharded(C.DRIVER_BIN, cases, "model", wd, 600)
bad = 0
from collections import Counter
cnt = Counter()
for c, i, m in zip(cases, impl, model):
    cnt[(c.split(" ")[0], i.split(" ")[0])] += 1
    if i != m:
        bad += 1
        if bad <= int(os.environ.get("SHOW", "8")):
            print("CASE ", c[:1500]); print(" impl ", i[:1500]); print(" model", m[:1500])
print(len(cases), "cases", bad, "disagreements", dict(cnt))
shutil.rmtree(wd, ignore_errors=True)
