#!/usr/bin/env python3
"""Properties decided on D (decode) and E (encode) cases: C01-C10, C14-C18."""
import itertools
import struct

from propbase import Prop, strip_cost, field
import gen_cases as G
import streams as S
import refdec as R


# ------------------------------------------------------------------ output parsing

def parse_d(line):
    """OK <canon> cost=<n> acc=<acc> reenc=<r> d2=<d>  |  ERR <words> cost=<n>  |  PANIC ..."""
    if line.startswith("OK "):
        i = line.rfind(" cost=")
        rest = line[i + 1:]
        d = {"status": "OK", "canon": line[3:i]}
        j = rest.find(" d2=")
        d["d2"] = rest[j + 4:]
        for kv in rest[:j].split(" "):
            k, v = kv.split("=", 1)
            d[k] = v
        d["cost"] = int(d["cost"])
        return d
    if line.startswith("ERR "):
        i = line.rfind(" cost=")
        return {"status": "ERR", "err": line[4:i], "cost": int(line[i + 6:])}
    if line.startswith("PANIC"):
        return {"status": "PANIC", "msg": line[6:]}
    return {"status": "OTHER", "raw": line}


def case_wire(case):
    w = case.split(" ")
    return w[1], (bytes.fromhex(w[2]) if w[2] != "-" else b"")


def rr_wire(t, cls, ttl, rdata, owner=b"\x00"):
    return owner + struct.pack(">HHIH", t, cls, ttl, len(rdata) & 0xFFFF) + rdata


def msg_wire(qd=(), an=(), ns=(), ar=(), id_=0x1234, fl=0x0100):
    return struct.pack(">HHHHHH", id_, fl, len(qd), len(an), len(ns), len(ar)) + b"".join(qd) + b"".join(an) + b"".join(ns) + b"".join(ar)


def wname(labels):
    return b"".join(bytes([len(l)]) + l for l in labels) + b"\x00"


# ------------------------------------------------------------------ special streams

def guard_cases():
    """RR-level inputs aimed at the length guards named in C01"""
    out = []
    for n in range(0, 66):                       # cookie lengths
        out.append(rr_wire(41, 1232, 0, struct.pack(">HH", 10, n) + bytes(range(n))))
    for fam, size in ((1, 4), (2, 16)):
        for k in range(0, size + 3):             # ECS / APL address octet counts
            for p in (0, 1, 7, 8, 9, 8 * size - 1, 8 * size, 8 * size + 1, 255):
                for fill in (0, 255):
                    a = bytes([fill] * k)
                    out.append(rr_wire(41, 4096, 0, struct.pack(">HHHBB", 8, 4 + k, fam, p, 0) + a))
                    out.append(rr_wire(41, 4096, 0, struct.pack(">HHHBB", 8, 4 + k, fam, 0, p) + a))
                    out.append(rr_wire(42, 1, 60, struct.pack(">HBB", fam, p, k) + a))
                    out.append(rr_wire(42, 1, 60, struct.pack(">HBB", fam, p, k | 0x80) + a))
    for n in (0, 1, 2, 3):                       # option header truncations
        out.append(rr_wire(41, 512, 0, bytes([0, 8, 0, 9])[:n]))
    for code in (8, 10, 12):
        for ln in (0, 1, 2, 3, 4, 5, 7, 8, 9, 15, 16, 17, 40, 41, 255):
            out.append(rr_wire(41, 512, 0, struct.pack(">HH", code, ln) + bytes(ln)))
            out.append(rr_wire(41, 512, 0, struct.pack(">HH", code, ln + 1) + bytes(ln)))
    for key in (0, 1, 2, 3, 4, 5, 6, 7, 65535):  # SvcParam value lengths
        for ln in (0, 1, 2, 3, 4, 5, 15, 16, 17, 32):
            for t in (64, 65):
                out.append(rr_wire(t, 1, 60, struct.pack(">H", 1) + b"\x00" + struct.pack(">HH", key, ln) + bytes([1] * ln)))
    for t in sorted(R.FMT):                      # every plain type with RDATA of 0..=20 octets
        for ln in range(0, 21):
            out.append(rr_wire(t, 1, 60, bytes([3] * ln)))
            out.append(rr_wire(t, 1, 60, bytes([0] * ln)))
    return ["D RR " + G.hexs(w) for w in out]


def exhaustive_short(maxlen, entries):
    out = []
    for e in entries:
        out.append("D %s -" % e)
        for n in range(1, maxlen + 1):
            for v in range(256 ** n):
                out.append("D %s %s" % (e, v.to_bytes(n, "big").hex()))
    return out


ENTRIES = ["Dns", "Flags", "Question", "RR", "DomainName", "Type", "Class", "QType", "QClass"]


def enumerate_cases(length, entries, second=None):
    """A cases covering every octet string of exactly `length` (3 or 4) octets: one case per prefix of
    length-2 octets, each enumerating the 65,536 two-octet suffixes in-process; `second`: restrict the second
    octet of a 2-octet prefix to these values (every first octet is kept)"""
    out = []
    for e in entries:
        for v in range(256 ** (length - 2)):
            if second is not None and length == 4 and (v & 0xFF) not in second:
                continue
            out.append("A %s %s 2" % (e, v.to_bytes(length - 2, "big").hex()))
    return out


def nested_names_msg(depth, rng=None):
    """answers: NS records whose owner names are progressively nested: a0; a1.a0; a2.a1.a0; ..."""
    labs = []
    an = []
    for i in range(depth):
        labs = [b"n%d" % i] + labs
        an.append(('RR', 2, ('N', list(labs)), 1, 60, ('G', [('N', list(labs))])))
    return ('Dns', 7, ('F', 1, 0, 0, 0, 0, 0, 0, 0, 0), [], an, [], [])


def nested_wire(depth):
    m = nested_names_msg(depth)
    return G.render_dns(m, G.Layout(None, mode='lib', case=False, addr='min', perm=False))[0]


def big_messages(rng, sizes):
    """valid messages padded with NULL records up to about the given sizes"""
    out = []
    for size in sizes:
        m = list(G.rnd_dns(rng, maxrec=3))
        filler = []
        left = size
        while left > 200:
            k = min(left - 20, rng.choice([1000, 4000, 16000, 60000]))
            filler.append(('RR', 10, ('N', [b"pad"]), 1, 0, ('G', [bytes(rng.randrange(256) for _ in range(16)) * (k // 16)])))
            left -= k + 20
        m[4] = filler[:len(filler) // 2] + list(m[4]) + filler[len(filler) // 2:]
        out.append(tuple(m))
    return out


# =================================================================================== C01

class C01(Prop):
    pid = "C01"
    timeout = 3600

    def streams(self, tier, rng):
        search = tier == "search"      # the bounded search after a broken obligation: thorough minus the heaviest streams
        n = 400 if tier == "quick" else 4000
        s = [("exhaustive-len<=2", [] if search else exhaustive_short(2, ENTRIES)),
             ("exhaustive-len-3", [] if search else enumerate_cases(3, ENTRIES)),
             ("corpus-all-entries", S.corpus_d(ENTRIES)),
             ("guards", guard_cases()),
             ("structured", S.structured_d(rng, n)),
             ("near-miss", S.near_miss_d(rng, n // 4, per=8)),
             ("byte-level", S.byte_level_d(rng, n, k=6)),
             ("elements", S.element_cases(rng, n)),
             ("targeted-special", special_d(rng, tier))]
        el = []
        for c in S.element_cases(rng, n // 2):
            e, w = case_wire(c)
            for x in G.byte_level(rng, w, 6):
                el.append("D %s %s" % (e, G.hexs(x)))
        s.append(("elements-mutated", el))
        big = []
        for m in big_messages(rng, [16000, 65000] if tier == "quick" else [16000, 33000, 65000, 65400, 65537]):
            w, rn = G.render_dns(m, G.Layout(rng, mode='lib'))
            big.append(S.d("Dns", w))
            big.append(S.d("Dns", w + bytes(65538 - len(w)) if len(w) < 65538 else w))
            for x in G.near_miss(rng, w, rn, 3)[:12]:
                big.append(S.d("Dns", x))
        s.append(("big", big))
        if tier in ("thorough", "search"):
            # octet strings of length 4 as a name: every first octet x the second octet in every class that the name
            # reader distinguishes (end, short labels, 62..65, 0xbe..0xc1 around the pointer tag, 0xfe, 0xff) x all
            # 65,536 suffixes (2.5e8 decodes per runner; the complete 4.3e9 took the model runner an hour on a busy
            # machine and then timed out); the flag and code entry points read two octets only
            if not search:
                s.append(("len-4-names-all-first-octets-x-22-second-octets",
                          enumerate_cases(4, ["DomainName"], second={0, 1, 2, 3, 4, 0x3e, 0x3f, 0x40, 0x41, 0x7f, 0x80, 0xbe, 0xbf,
                                                                    0xc0, 0xc1, 0xc2, 0xc3, 0xc4, 0xfd, 0xfe, 0xff, 0x61})))
            # coverage-guided search (libFuzzer) seeded with the repository's vectors: crash inputs on every entry
            # point, the corpus it grew (inputs reaching new code) on the message and record entry points
            import common as C
            import os
            wd = os.path.join(C.WORK, "C01-fuzz")
            os.makedirs(wd, exist_ok=True)
            crashes, found, log = C.fuzz_inputs(60 if search else 180, wd, S.corpus())
            self.fuzz_log = "%d crash inputs, corpus grown to %d inputs; %s" % (len(crashes), len(found), log.replace("\n", " ")[-160:])
            fz = []
            for b in crashes:
                fz += [S.d(e, b) for e in ENTRIES]
            for b in found[:6000]:
                fz.append(S.d("Dns", b))
                fz.append(S.d("RR", b))
            s.append(("coverage-guided", fz))
        return s

    def view(self, case, line):
        if case.startswith("A "):
            return field(line, "panic") or line
        return "PANIC" if line.startswith("PANIC") else "NOPANIC"

    def oracle(self, case, line):
        if case.startswith("A "):
            return None if field(line, "panic") == "0" else "a panic among the 65,536 inputs %s ++ xx xx: %s" % (case.split(" ")[2], line[:120])
        return Prop.oracle(self, case, line)

    def outcome(self, case, line):
        return "enumerated-65536" if case.startswith("A ") else Prop.outcome(self, case, line)

    def nontrivial(self, case, line):
        if case.startswith("A "):
            return True
        e, w = case_wire(case)
        return len(w) >= (13 if e == "Dns" else 2)

    def rule(self):
        return ("D cases on all nine decode entry points: every byte string of length <= 2 (exhaustive), the repository's "
                "vectors on every entry point, length-guard inputs (cookie 0..65, address octet counts 0..size+2 x prefixes, "
                "option/parameter/RDATA lengths), structured valid messages, near-miss and byte-level mutations, mutated "
                "stand-alone elements, messages up to 65,538 octets; every byte string of length 3 on all nine entry points "
                "(and of length 4 on the name entry point in the thorough tier) through in-process enumeration "
                "(A cases: 65,536 inputs each, outcome counts and a digest of the results compared with the model); the harness also clones, compares, formats (Display, "
                "Debug), queries accessors and re-encodes every accepted value under catch_unwind in a debug build with "
                "overflow checks; non-trivial = input long enough to get past the first field; distinct by text")

    def assumptions(self):
        return ["coverage-guided search (thorough tier): " + getattr(self, "fuzz_log", "not run in this tier"),
                "abort, stack overflow and OOM are runtime events outside the model; a dying or hanging runner is bisected to the responsible case (ABORT line, reported as the failing input)",
                "Clone/PartialEq/Display/Debug of decoded values are exercised by the harness (test), not covered by a theorem"]


# =================================================================================== C02

def accepted_but_inconsistent(line):
    """the harness asserts that DomainName::len() equals the octets of the labels it prints; when that assertion fires the
    decoder HAS returned a value (an accepted input), whose length bookkeeping is wrong"""
    return line.startswith("PANIC") and "harness: Debug label extraction disagrees with len()" in line


def special_d(rng, tier):
    """D cases shared by the decode-side properties: the targeted streams that other properties grew because a seeded
    change slipped through (limits of labels/names on the wire, nested RDATA pointers at every offset geometry,
    names equal only under Unicode folding, boundary values in both address renderings)"""
    out = []
    lab = lambda k: bytes([k]) + bytes(97 + (i % 26) for i in range(k))
    q = lambda name: msg_wire(qd=[name + b"\x00\x01\x00\x01"])
    for k in (0, 1, 62, 63, 64, 65, 127, 128, 191):
        body = bytes([k]) + bytes(97 + (i % 26) for i in range(k))
        out.append(S.d("Dns", q(body + b"\x00")))
        out.append(S.d("Dns", q(lab(3) + body + b"\x00")))
        out.append(S.d("Dns", q(b"\xc0\x0e" + body + b"\x00")))          # the label behind a pointer
        out.append(S.d("DomainName", body + b"\x00"))
        out.append(S.d("DomainName", b"\xc0\x02" + body + b"\x00"))
    for total in range(252, 259):
        labs, left = [], total - 1
        while left > 1:
            k = min(left - 1, 63)
            labs.append(lab(k))
            left -= k + 1
        if left == 1:
            continue
        out.append(S.d("Dns", q(b"".join(labs) + b"\x00")))
        out.append(S.d("Dns", q(labs[0] + bytes([0xC0, 12 + len(labs[0]) + 2]) + b"".join(labs[1:]) + b"\x00")))
    for rr in rdata_offset_sweep(rng, 6 if tier != "thorough" else 12, 24 if tier != "thorough" else 36):
        m = ('Dns', 7, ('F', 1, 0, 0, 0, 0, 0, 0, 0, 0), [], [rr], [], [])
        out.append(S.d("Dns", G.render_dns(m, G.Layout(rng, mode="lib"))[0]))
        rn = G.Renderer(G.Layout(rng, mode="lib"))
        rn.rr(rr)
        out.append(S.d("RR", bytes(rn.buf)))
    ms = merge_candidate_messages()
    for m in ms[::3] if tier != "thorough" else ms:
        out.append(S.d("Dns", G.render_dns(m, G.Layout(rng, mode='plain'))[0]))
    for m in boundary_messages():
        for addr in ("min", "full"):
            out.append(S.d("Dns", G.render_dns(m, G.Layout(rng, mode="lib", addr=addr))[0]))
    for rr in extreme_rrs():
        m = ('Dns', 9, ('F', 1, 0, 0, 0, 0, 0, 0, 0, 0), [], [rr], [], [])
        out.append(S.d("Dns", G.render_dns(m, G.Layout(rng, mode="lib"))[0]))
        rn = G.Renderer(G.Layout(rng, mode="plain"))
        rn.rr(rr)
        out.append(S.d("RR", bytes(rn.buf)))
    # long variable fields (bit maps, keys, digests, values, texts of 8,192 / 8,193 / 40,000 octets of 0xff or 'a'): what
    # an accessor or a Display implementation computes from an index or a length must not overflow
    for ln in (8192, 8193, 40000):
        ff = bytes([255]) * ln
        for t, rd in ((10, ff), (11, bytes([192, 0, 2, 1, 6]) + ff), (11, bytes([192, 0, 2, 1, 17]) + bytes(ln - 1) + b"\x80"), (22, ff), (31, ff),
                      (32, ff), (44, b"\x01\x01" + ff), (48, b"\x01\x01\x03\x08" + ff), (43, b"\x12\x34\x08\x02" + ff),
                      (257, b"\x80\x05issue" + ff), (256, b"\x00\x01\x00\x02" + b"a" * ln), (16, (b"\xff" + b"a" * 255) * (ln // 256))):
            out.append(S.d("RR", rr_wire(t, 1, 5, rd)))
        out.append(S.d("RR", opt_rr(512, 0, struct.pack(">HH", 12, ln) + bytes(ln))))
        out.append(S.d("RR", rr_wire(64, 1, 5, b"\x00\x01\x00" + struct.pack(">HH", 7, ln) + ff)))
        out.append(S.d("RR", rr_wire(64, 1, 5, b"\x00\x01\x00" + struct.pack(">HH", 5, ln + 2) + struct.pack(">H", ln) + ff)))
    # zero-length elements followed by further elements, in every list-like place: the classic way to make a loop stop
    # advancing (empty character-strings in TXT, zero-length options / items / parameters / alpn ids, empty RDATA)
    st = lambda b: bytes([len(b)]) + b
    par = lambda k, v: struct.pack(">HH", k, len(v)) + v
    opt = lambda c, v: struct.pack(">HH", c, len(v)) + v
    for strs in ([b"", b"abc"], [b"abc", b""], [b"", b""], [b"", b"", b"a"], [b"a\x00", b"b"], [b"\x00"], [b"\x00\x00", b"x"]):
        out.append(S.d("RR", rr_wire(16, 1, 5, b"".join(st(x) for x in strs))))
    out.append(S.d("RR", rr_wire(16, 1, 5, b"\x00\x00")))
    out.append(S.d("RR", rr_wire(13, 1, 5, st(b"") + st(b"os"))))
    out.append(S.d("RR", rr_wire(13, 1, 5, st(b"") + st(b""))))
    out.append(S.d("RR", rr_wire(20, 1, 5, st(b"") + st(b""))))
    out.append(S.d("RR", rr_wire(27, 1, 5, st(b"1") + st(b"") + st(b"2"))))
    out.append(S.d("RR", opt_rr(512, 0, opt(12, b"") + opt(12, b"\x00") + opt(12, b""))))
    out.append(S.d("RR", opt_rr(512, 0, opt(12, b"") + opt(10, bytes(8)) + opt(12, b"") + opt(8, struct.pack(">HBB", 1, 0, 0)))))
    out.append(S.d("RR", rr_wire(42, 1, 5, struct.pack(">HBB", 1, 0, 0) * 3 + struct.pack(">HBB", 2, 0, 0x80) + struct.pack(">HBB", 1, 8, 1) + b"\x0a")))
    out.append(S.d("RR", rr_wire(64, 1, 5, b"\x00\x01\x00" + par(1, b"") + par(2, b"") + par(4, b"") + par(6, b"") + par(7, b"") + par(65535, b""))))
    out.append(S.d("RR", rr_wire(64, 1, 5, b"\x00\x01\x00" + par(1, st(b"") + st(b"h2") + st(b"")) + par(3, b"\x00\x50"))))
    out.append(S.d("RR", rr_wire(65, 1, 5, b"\x00\x01\x00" + par(0, b"") + par(5, b"\x00\x00") + par(7, b""))))
    for t in (10, 22, 31, 32):
        out.append(S.d("Dns", msg_wire(an=[rr_wire(t, 1, 5, b""), rr_wire(t, 1, 5, b""), rr_wire(1, 1, 5, bytes(4))], fl=0x8000)))
    # the last element of a list overruns its window (a length octet / length field announcing more than is left)
    for rd in (b"\x05ab", b"\x07", b"\x01a\x05bc", b"\xff" + b"a" * 254, b"\x00\x03ab"):
        out.append(S.d("RR", rr_wire(16, 1, 5, rd)))
        out.append(S.d("Dns", msg_wire(an=[rr_wire(16, 1, 5, rd)], fl=0x8000)))
    out.append(S.d("RR", rr_wire(13, 1, 5, st(b"cpu") + b"\x09os")))
    out.append(S.d("RR", opt_rr(512, 0, opt(12, b"") + struct.pack(">HH", 12, 9) + bytes(3))))
    out.append(S.d("RR", opt_rr(512, 0, opt(10, bytes(8)) + b"\x00\x0c\x00")))
    out.append(S.d("RR", rr_wire(42, 1, 5, struct.pack(">HBB", 1, 8, 1) + b"\x0a" + struct.pack(">HBB", 1, 16, 3) + b"\x0a")))
    out.append(S.d("RR", rr_wire(64, 1, 5, b"\x00\x01\x00" + par(3, b"\x00\x50") + struct.pack(">HH", 7, 9) + b"abc")))
    out.append(S.d("RR", rr_wire(64, 1, 5, b"\x00\x01\x00" + par(1, st(b"h2") + b"\x05h3"))))
    out.append(S.d("RR", rr_wire(64, 1, 5, b"\x00\x01\x00" + par(1, st(b"h2")) + b"\x00\x03\x00")))
    # text whose Display form needs escaping, mixed with multi-octet characters (character index versus octet offset),
    # in every text-bearing field; labels with leading / trailing white space (legal octets, must be kept)
    for txt in ("\u00e9,x", "\u65e5\u672c\\", "h\u00fc,2", "a\\b,c", "\"q\"", "x y", "\u00e9\u00e9\u00e9,,\\\\", ",", "\\", "\U0001f600,\u00e9\\",
                "tab\there", "nul\x00in", "\u00a0nbsp"):
        b = txt.encode()
        out.append(S.d("RR", rr_wire(64, 1, 5, b"\x00\x01\x00" + par(1, st(b) + st(b"h2")))))
        out.append(S.d("RR", rr_wire(65, 1, 5, b"\x00\x01\x00" + par(1, st(b"h3") + st(b)) + par(65280, b))))
        out.append(S.d("RR", rr_wire(16, 1, 5, st(b) + st(b"second"))))
        out.append(S.d("RR", rr_wire(13, 1, 5, st(b) + st(b))))
        out.append(S.d("RR", rr_wire(256, 1, 5, b"\x00\x01\x00\x02" + b)))
        out.append(S.d("RR", rr_wire(257, 1, 5, b"\x00\x05issue" + b)))
        out.append(S.d("DomainName", st(b) + b"\x03org\x00"))
    for lab in (b" a", b"a ", b" ", b"\ta", b"a\n", b"\xc2\xa0a", b" a b ", b"\r\n"):
        out.append(S.d("DomainName", st(lab) + b"\x03org\x00"))
        out.append(S.d("Dns", msg_wire(qd=[st(lab) + st(b"a") + b"\x00\x00\x01\x00\x01", st(b"a") + b"\x00\x00\x01\x00\x01"])))
    # text that is not UTF-8 in every text-bearing field (the library's documented rule: rejected, never repaired)
    for bad in (b"\x80", b"\xff", b"caf\xc3", b"\xc3\x28", b"a\xe2\x82", b"\xed\xa0\x80", b"\xf8\x88\x80\x80\x80", b"ok\xc0\xaf"):
        out.append(S.d("RR", rr_wire(16, 1, 5, st(b"fine") + st(bad))))
        out.append(S.d("RR", rr_wire(13, 1, 5, st(bad) + st(b"os"))))
        out.append(S.d("RR", rr_wire(27, 1, 5, st(b"1") + st(bad) + st(b"2"))))
        out.append(S.d("RR", rr_wire(256, 1, 5, b"\x00\x01\x00\x02" + bad)))
        out.append(S.d("RR", rr_wire(64, 1, 5, b"\x00\x01\x00" + par(1, st(b"h2") + st(bad)))))
        out.append(S.d("RR", rr_wire(65, 1, 5, b"\x00\x01\x00" + par(1, st(bad)))))
        out.append(S.d("DomainName", st(bad) + b"\x03org\x00"))
        out.append(S.d("RR", rr_wire(2, 1, 5, st(b"ns") + st(bad) + b"\x00")))
    # `mandatory` lists as they may come from the wire: duplicated and unsorted keys (the list is kept as it is)
    for keys_ in ([1, 1], [3, 3, 4], [65280, 1, 65280], [4, 1], [1, 6, 3], [3, 1, 3, 1], [1, 1, 1, 1, 1]):
        byk = {1: par(1, st(b"h2")), 3: par(3, b"\x01\xbb"), 4: par(4, bytes([192, 0, 2, 1])), 6: par(6, bytes(15) + b"\x01"),
               65280: par(65280, b"x")}
        body = par(0, b"".join(struct.pack(">H", k) for k in keys_)) + b"".join(byk[k] for k in sorted(set(keys_)))
        for t in (64, 65):
            out.append(S.d("RR", rr_wire(t, 1, 5, b"\x00\x01\x00" + body)))
            out.append(S.d("Dns", msg_wire(an=[rr_wire(t, 1, 5, b"\x00\x01\x03svc\x00" + body)], fl=0x8000)))
    return out


def dns_d_streams(rng, n, tier):
    s = [("corpus", S.corpus_d(("Dns",))),
         ("structured", S.structured_d(rng, n)),
         ("near-miss", S.near_miss_d(rng, n // 4, per=6)),
         ("byte-level", S.byte_level_d(rng, n // 2, k=4)),
         ("nested-names", [S.d("Dns", nested_wire(k)) for k in range(1, 65)]),
         ("targeted-special", special_d(rng, tier))]
    return s


class C02(Prop):
    pid = "C02"
    panic_neutral = True

    def agree(self, case, il, ml):
        # only inputs the library accepts are judged by this property
        if not il.startswith("OK "):
            return True
        return self.view(case, il) == self.view(case, ml)

    def streams(self, tier, rng):
        n = 600 if tier == "quick" else 6000
        s = dns_d_streams(rng, n, tier)
        big = []
        for m in big_messages(rng, [20000, 60000]):
            big.append(S.d("Dns", G.render_dns(m, G.Layout(rng, mode='lib'))[0]))
        s.append(("big", big))
        merge = [S.d("Dns", G.render_dns(m, G.Layout(rng, mode='plain'))[0]) for m in merge_candidate_messages()]
        s.append(("names-equal-only-under-unicode-folding", merge))
        return s

    def view(self, case, line):
        d = parse_d(line)
        if d["status"] != "OK":
            return "NOT-ACCEPTED"
        return "OK reenc=%s d2=%s" % ("ERR" if d["reenc"].startswith("ERR") else "bytes", d["d2"].split(":")[0])

    def nontrivial(self, case, line):
        return line.startswith("OK ")

    def oracle(self, case, line):
        d = parse_d(line)
        if d["status"] != "OK":
            return None      # a panic while decoding is C01's subject, not a round-trip failure
        size = R.uncompressed_size(R.parse_canon(d["canon"]))
        if size > 65535:
            return None
        if d["reenc"].startswith("ERR"):
            return "accepted message (uncompressed size <= %d) does not re-encode: %s" % (size, d["reenc"])
        if d["d2"] != "same":
            # the key list of `mandatory` denotes a set (emission sorts it, DESIGN.md 2.2): compare modulo its order
            if d["d2"].startswith("diff:") and R.canon_fold(d["d2"][5:]) == R.canon_fold(d["canon"]):
                return None
            return "decode(encode(decode(b))) differs from decode(b): d2=%s" % d["d2"][:300]
        return None

    def rule(self):
        return ("D Dns cases: repository vectors, structured valid messages in every layout (plain / greedy / random legal "
                "pointers, case flips, address octet counts, SvcParam permutations), near-miss and byte-level mutations, "
                "progressively nested names depth 1..=64, messages of 20 and 60 KiB; non-trivial = the decoder accepted "
                "(so the re-encode and second decode ran); distinct by text")


# =================================================================================== C03

def overaccept_cases(rng):
    """inputs on which a lenient decoder would accept something the grammar forbids"""
    out = []
    for t in sorted(R.FMT) + [42, 64, 65]:
        rd = {1: bytes(4), 28: bytes(16), 11: bytes(5), 42: b"", 64: b"\x00\x01\x00", 65: b"\x00\x00\x00"}.get(t, None)
        for cls in (0, 1, 2, 3, 4, 5, 254, 255, 0xFFFF):
            if rd is not None:
                out.append(S.d("RR", rr_wire(t, cls, 5, rd)))
    # duplicated / unsorted parameters
    par = lambda k, v: struct.pack(">HH", k, len(v)) + v
    ps = [par(3, b"\x00\x50"), par(3, b"\x01\xbb"), par(1, b"\x02h2"), par(7, b"x"), par(0, b"\x00\x03\x00\x01")]
    for a, b, c in itertools.product(range(len(ps)), repeat=3):
        out.append(S.d("RR", rr_wire(64, 1, 5, b"\x00\x01\x00" + ps[a] + ps[b] + ps[c])))
    # names of 250..=258 wire octets, plain and via a pointer
    for total in range(250, 259):
        labs = []
        left = total - 1
        while left > 0:
            k = min(63, left - 1)
            labs.append(b"a" * k)
            left -= k + 1
        out.append(S.d("DomainName", wname(labs)))
        tail = wname(labs[1:])
        out.append(S.d("Question", tail + bytes([len(labs[0])]) + labs[0] + b"\xc0\x00" + b"\x00\x01\x00\x01"))
    # validated text fields (CAA tag: ASCII letters/digits; X25/ISDN address: ASCII digits; ISDN subaddress: ASCII hex):
    # characters that a Unicode-aware predicate (is_alphanumeric, is_numeric, is_digit(16)) would let through
    texts = [b"issue", b"ISSUE", "iss\u00fce".encode(), "ISSU\u00c9".encode(), "tag\u0663".encode(), "\uff11\uff12".encode(),
             "x\u00b2".encode(), "\u01c5".encode(), "\u00e9".encode(), "\uff41\uff26".encode(), "\u0661\u0662\u0663".encode(),
             b"a b", b"a-b", b"a.b", b"", b"0123456789", b"09afAF", b"g", b"+1", b" 1", b"1 ", "\u06f1".encode(), "1\u0969".encode()]
    st = lambda b: bytes([len(b)]) + b
    for t in texts:
        out.append(S.d("RR", rr_wire(257, 1, 5, b"\x00" + st(t) + b"v")))          # CAA flags tag value
        out.append(S.d("RR", rr_wire(19, 1, 5, st(t))))                            # X25 PSDN address
        out.append(S.d("RR", rr_wire(20, 1, 5, st(t))))                            # ISDN address
        out.append(S.d("RR", rr_wire(20, 1, 5, st(b"12") + st(t))))                # ISDN address + subaddress
        out.append(S.d("RR", rr_wire(27, 1, 5, st(t) + st(b"1") + st(b"2"))))      # GPOS
    # reserved bits, trailing garbage
    for fl in (0x0040, 0x7800, 0x000c, 0x000f):
        out.append(S.d("Dns", msg_wire(fl=fl)))
    for k in (1, 2):
        out.append(S.d("Dns", msg_wire() + bytes(k)))
    return out


class C03(Prop):
    pid = "C03"
    panic_neutral = True

    def streams(self, tier, rng):
        n = 600 if tier == "quick" else 6000
        s = dns_d_streams(rng, n, tier)
        s.append(("elements", S.element_cases(rng, n)))
        s.append(("corpus-elements", S.corpus_d(("RR", "Question", "DomainName"))))
        s.append(("over-acceptance", overaccept_cases(rng)))
        s.append(("guards", guard_cases()))
        s.append(("names-through-pointers", overlong_via_pointer()))
        # the same inputs as W cases: the "model" column is then the Coq reference decoder Spec/Wire.v
        w = []
        for name, cs in s:
            w += ["W" + c[1:] for c in cs if c.split(" ")[1] in ("Dns", "RR", "Question", "DomainName", "Flags")]
        s.append(("coq-reference-decoder", w))
        return s

    def agree(self, case, il, ml):
        # one-sided property: only inputs the LIBRARY accepts are judged (what it rejects is C04's subject)
        if not il.startswith("OK "):
            return True
        if case.startswith("W "):
            return il == ml
        return self.view(case, il) == self.view(case, ml)

    def view(self, case, line):
        if case.startswith("W "):
            return line
        d = parse_d(line)
        if d["status"] != "OK":
            return "NOT-ACCEPTED"
        return "OK %s acc=%s" % (d["canon"], d["acc"])

    def nontrivial(self, case, line):
        return line.startswith("OK ")

    def oracle(self, case, line):
        if case.startswith("W "):
            return None
        d = parse_d(line)
        if accepted_but_inconsistent(line):
            e, w = case_wire(case)
            r = R.ref_decode(e, w)
            if r[0] != "OK":
                return "library accepts input the RFC grammar rejects (%s); the returned name's len() disagrees with its labels" % r[1]
            return None
        if d["status"] != "OK":
            return None      # C03 is one-sided: only accepted inputs are judged (a panic is C01's subject)
        e, w = case_wire(case)
        r = R.ref_decode(e, w)
        if r[0] != "OK":
            return "library accepts input the RFC grammar rejects (%s)" % r[1]
        if r[1] != d["canon"]:
            return "library value differs from the wire: library %s reference %s" % (d["canon"][:300], r[1][:300])
        if e in ("RR", "Dns"):
            accs = getattr(r[2], "accs", [])
            exp = ",".join("%d:%s:%s" % (t, "-" if ttl is None else ttl, "-" if c is None else c) for t, ttl, c in accs) or "-"
            if exp != d["acc"]:
                return "accessors disagree with the wire header: to_type:get_ttl:get_class = %s, wire %s" % (d["acc"][:200], exp[:200])
        return None

    def rule(self):
        return ("D cases (Dns, RR, Question, DomainName): repository vectors, structured valid messages in every layout, "
                "near-miss/byte-level mutations, over-acceptance probes (every class value per type, duplicated/unsorted "
                "SvcParams, names of 250..=258 octets, reserved bits, trailing octets), length-guard inputs; every accepted "
                "input is re-read by the independent reference decoder tools/refdec.py; non-trivial = accepted; distinct by text")

    def assumptions(self):
        return ["tools/refdec.py is the independent reading of the RFC grammar restricted by the library's documented rules (UTF-8 text, IN-only types, non-empty TXT, ...)",
                "leniencies shared by grammar and library (forward pointers, 65,536-octet message, unsorted mandatory list on input) are not judged (DESIGN.md 8.3)"]


# =================================================================================== C04

def boundary_messages():
    """(description, abstract message) pairs the RFCs allow and a strict-but-wrong decoder would refuse"""
    F = ('F', 0, 0, 0, 0, 1, 0, 0, 0, 0)
    root = ('N', [])
    ex = ('N', [b"example", b"org"])

    def m(*ar):
        return ('Dns', 1, F, [('Q', ex, 1, 1)], [], [], list(ar))
    opt = lambda *o: ('RR', 41, root, 0, 0, ('OPT', 1232, 0, 0, False, list(o)))
    out = []
    out.append(m(opt(('COOKIE', bytes(8), ('O', bytes(32))))))
    out.append(m(opt(('COOKIE', bytes(8), ('O', bytes(8))))))
    out.append(m(opt(('PAD', 0))))
    out.append(m(opt(('ECS', 1, 0, 0, bytes(4)))))
    out.append(m(opt(('ECS', 2, 0, 0, bytes(16)))))
    out.append(m(('RR', 42, ex, 1, 9, ('APL', [('I', 1, 0, False, bytes(4)), ('I', 2, 0, True, bytes(16))]))))
    out.append(m(('RR', 10, ex, 1, 9, ('G', [b""]))))
    out.append(m(('RR', 257, ex, 1, 9, ('G', [0, b"issue", b""]))))
    out.append(m(('RR', 11, ex, 1, 9, ('G', [0x0A000001, 6, b""]))))
    out.append(m(('RR', 64, ex, 1, 9, ('SVCB', 1, root, [('PRIV', 7, b"")]))))
    out.append(m(('RR', 64, ex, 1, 9, ('SVCB', 1, root, [('ALPN',), ('V4',), ('V6',), ('MAND',)][:0] + [('ECH', b"")]))))
    out.append(m(('RR', 2, ('N', [b"x" * 63]), 1, 9, ('G', [('N', [b"y" * 63, b"z" * 63, b"w" * 63, b"v" * 61])]))))
    return out


class C04(Prop):
    pid = "C04"

    def __init__(self):
        self.expect = {}

    def add(self, out, m, wire):
        c = S.d("Dns", wire)
        self.expect[c] = R.canon_fold(G.canon(m))
        out.append(c)

    def streams(self, tier, rng):
        n = 1500 if tier == "quick" else 15000
        st = []
        for mode in ("plain", "lib", "rand"):
            out = []
            for m, w, rn in S.valid_messages(rng, n // 3, modes=(mode,)):
                self.add(out, m, w)
            st.append(("layout-" + mode, out))
        out = []
        # records with several RDATA names, random legal pointer chains (second and later names reached through 2+ hops)
        for m, w, rn in S.valid_messages(rng, n // 3, maxrec=6, types=["SOA", "MINFO", "RP", "PX", "MX", "SRV", "NS", "SVCB"],
                                         modes=("rand",), case=False):
            self.add(out, m, w)
        st.append(("multi-name-rdata-pointer-chains", out))
        out = []
        for m in boundary_messages():
            for addr in ("min", "full"):
                w, _ = G.render_dns(m, G.Layout(rng, mode="lib", addr=addr))
                self.add(out, m, w)
        st.append(("boundary-values", out))
        out = []
        for k in list(range(1, 20)) + [32, 64]:
            m = nested_names_msg(k)
            self.add(out, m, G.render_dns(m, G.Layout(rng, mode="lib"))[0])
        # pointer chains of 1..=17 hops to one name, and a pointer to offset 0x3FFF
        for hops in range(1, 18):
            w = G.chain_message(rng, hops)
            idn = struct.unpack(">H", w[:2])[0]
            m = ('Dns', idn, ('F', 0, 0, 0, 0, 1, 0, 0, 0, 0), [('Q', ('N', [b"org"]), 1, 1)], [], [], [])
            # the chain tail follows the question section: not a well-formed message layout; skip the exact compare
        st.append(("nested", out))
        out = []
        for m in big_messages(rng, [16300, 16500, 40000, 65000] if tier == "quick" else [16300, 16384, 16500, 30000, 40000, 65000, 65400]):
            w, _ = G.render_dns(m, G.Layout(rng, mode="rand", case=True))
            if len(w) <= 65535:
                self.add(out, m, w)
        st.append(("big", out))
        out = []
        for rr in rdata_offset_sweep(rng, 8 if tier == "quick" else 16, 24 if tier == "quick" else 40):
            m = ('Dns', 7, ('F', 1, 0, 0, 0, 0, 0, 0, 0, 0), [], [rr], [], [])
            self.add(out, m, G.render_dns(m, G.Layout(rng, mode="lib"))[0])
        st.append(("rdata-relative-vs-absolute-offsets", out))
        out = []
        for rr in extreme_rrs():
            m = ('Dns', 9, ('F', 1, 0, 0, 0, 0, 0, 0, 0, 0), [], [rr], [], [])
            for mode in ("plain", "lib"):
                self.add(out, m, G.render_dns(m, G.Layout(rng, mode=mode))[0])
        st.append(("per-type-extremes", out))
        w_ = []
        for name, cs in st:
            w_ += ["W" + c[1:] for c in cs]
        # near-miss inputs too: whatever the Coq reference decoder accepts, the library must accept with the same value
        w_ += ["W" + c[1:] for c in S.near_miss_d(rng, 100 if tier == "quick" else 1000, per=6)]
        w_ += ["W" + c[1:] for c in guard_cases()]
        w_ += ["W" + c[1:] for c in overlong_via_pointer()]
        st.append(("coq-reference-decoder", w_))
        # every octet string of length 3 on the element entry points: verdicts AND values (digest) vs the model
        st.append(("exhaustive-len-3-digest", enumerate_cases(3, ["DomainName", "Flags", "Question", "RR"])))
        return st

    def agree(self, case, il, ml):
        if case.startswith("W "):
            # completeness: the Coq reference decoder accepts => the library accepts with the same value
            return (not ml.startswith("OK ")) or il == ml
        return self.view(case, il) == self.view(case, ml)

    def view(self, case, line):
        if case.startswith("W ") or case.startswith("A "):
            return line
        d = parse_d(line)
        if d["status"] != "OK":
            return d["status"]
        return "OK " + R.canon_fold(d["canon"])

    def oracle(self, case, line):
        if case.startswith("A "):
            return None
        if case.startswith("W "):
            return "implementation panicked: " + line[:200] if line.startswith("PANIC") else None
        d = parse_d(line)
        if d["status"] == "PANIC":
            return "implementation panicked: " + line[:200]
        exp = self.expect.get(case)
        if exp is None:
            return None
        if d["status"] != "OK":
            return "well-formed message rejected: %s; expected %s" % (line[:200], exp[:300])
        got = R.canon_fold(d["canon"])
        if got != exp:
            return "well-formed message decoded to a different value: got %s expected %s" % (got[:300], exp[:300])
        return None

    def rule(self):
        return ("D Dns cases produced by the Python reference renderer from random abstract messages over the whole vocabulary "
                "(46 record variants, 3 options, 9 SvcParam kinds) under layout choices plain / greedy / random legal backward "
                "pointers (<= 16 hops), label case flips, address octet counts minimal..full, SvcParam permutations; boundary "
                "values (32-octet server cookie, Padding(0), /0 prefixes without address octets, empty NULL/CAA/WKS/opaque "
                "values, 63-octet labels, 255-octet name), nesting depth 1..64, messages above 16 KiB up to the limit; every "
                "case non-trivial; distinct by text")

    def assumptions(self):
        return ["the renderer tools/gen_cases.py Renderer is the executable definition of 'legal wire rendering' used by the tie; the theorem side quantifies over the reference decoder's language"]


# =================================================================================== shared: encode oracles

def check_pointers(lay, maxhops=16, only=None):
    for nm in lay.names:
        if nm["hops"] > maxhops:
            return "emitted name at %d needs %d pointer hops" % (nm["start"], nm["hops"])
        for pos, tgt in nm["ptrs"]:
            if tgt >= pos and pos >= nm["start"]:
                return "pointer at %d does not point backwards (target %d)" % (pos, tgt)
            if tgt >= 16384:
                return "pointer target %d is not below 16384" % tgt
            if tgt not in lay.label_starts:
                return "pointer target %d is not the start of a previously written label sequence" % tgt
    return None


def encode_oracle(case, line, expect_ok=True, maxhops=16):
    """E <elem> <canon>: OK <hex> must be read back by the reference decoder as the same value with a
    well-formed layout"""
    if line.startswith("PANIC"):
        return "implementation panicked: " + line[:200]
    w = case.split(" ", 2)
    elem, canon = w[1], w[2]
    if line.startswith("ERR"):
        return ("legal value failed to encode: " + line[:200]) if expect_ok else None
    if not line.startswith("OK "):
        return None
    b = bytes.fromhex(line[3:]) if line[3:] != "-" else b""
    if len(b) > 65535 and elem == "Dns":
        return "encoder emitted a message of %d octets (> 65535)" % len(b)
    entry = {"Dns": "Dns", "RR": "RR", "S": "RR", "Question": "Question", "Flags": "Flags", "DomainName": "DomainName",
             "Type": "Type", "Class": "Class", "QType": "QType", "QClass": "QClass"}[elem]
    r = R.ref_decode(entry, b)
    if r[0] != "OK":
        return "output is not a well-formed %s: %s" % (entry, r[1])
    exp = R.canon_fold(expand_rep(canon))
    got = R.canon_fold(r[1])
    if exp != got:
        return "output decodes to a different value: got %s expected %s" % (got[:300], exp[:300])
    return check_pointers(r[2], maxhops)


def expand_rep(canon):
    if "(REP " not in canon:
        return canon
    t = R.parse_canon(canon)

    def ex(t):
        if isinstance(t, int) or t[0] == 'x':
            return t
        items = []
        for i in t[1]:
            if not isinstance(i, int) and i[0] == 'REP':
                items += [ex(i[1][1])] * i[1][0]
            else:
                items.append(ex(i))
        return (t[0], items)
    return R.unparse(ex(t))


# =================================================================================== C05

class C05(Prop):
    pid = "C05"

    def streams(self, tier, rng):
        n = 1200 if tier == "quick" else 12000
        s = [("values", S.value_e(rng, n)),
             ("values-many-records", S.value_e(rng, n // 10, maxrec=12)),
             ("boundary-values", ["E Dns " + G.canon(m) for m in boundary_messages()]),
             ("nested-names", ["E Dns " + G.canon(nested_names_msg(k)) for k in range(1, 65)]),
             ("around-0x3FFF", straddle_cases(range(-48, 49, 4) if tier == "quick" else range(-48, 49))),
             ("hundreds-of-distinct-names-reused", ["E Dns " + G.canon(many_names_msg(k)) for k in (300, 400)]),
             ("names-equal-only-under-unicode-folding", ["E Dns " + G.canon(m) for m in merge_candidate_messages()]),
             ("per-type-extremes", ["E Dns " + G.canon(('Dns', 9, ('F', 1, 0, 0, 0, 0, 0, 0, 0, 0), [], [r], [], [])) for r in extreme_rrs()]
              + ["E RR " + G.canon(r) for r in extreme_rrs()]),
             ("big", ["E Dns " + G.canon(m) for m in big_messages(rng, [16300, 16500, 30000, 60000] if tier == "quick"
                                                                  else [16000, 16300, 16384, 16500, 30000, 50000, 60000, 64000])])]
        return s

    def oracle(self, case, line):
        return encode_oracle(case, line, expect_ok=True)

    def rule(self):
        return ("E Dns cases over random API-constructible valid values of the whole vocabulary, boundary values, nested names "
                "depth 1..64, messages of 16-64 KiB; output compared byte-exact with the model and re-read by the reference "
                "decoder (value equality up to label case; counts, every length field, pointer targets backwards / < 16384 / "
                "at label starts, hops <= 16, size <= 65535); every case non-trivial; distinct by text")


# =================================================================================== C06

def name_seq_msg(names, spacer=0, rng=None):
    """questions carry the names; an optional NULL record first moves them to a chosen offset"""
    an = []
    if spacer:
        an = [('RR', 10, ('N', []), 1, 0, ('G', [bytes(spacer)]))]
    return ('Dns', 1, ('F', 0, 0, 0, 0, 0, 0, 0, 0, 0), [], an,
            [('RR', 2, ('N', list(n)), 1, 0, ('G', [('N', list(n2))])) for n, n2 in zip(names[0::2], names[1::2] + [[]])], [])


def extreme_rrs():
    """for every plain record type: values with every field at the low end, at the high end and at a mixed setting
    (integers 0 / all-ones / 0x80.., names root / 255 octets / ordinary, strings empty / 255 octets, remainders empty /
    300 octets, enumerations first / last member) -- one record type among 46 is a likely place for a slip"""
    long_name = [b"a" * 63, b"b" * 63, b"c" * 63, b"d" * 61]

    def fld(k, v):
        if k in ('8', '16', '32', '64'):
            bits = int(k)
            return [0, (1 << bits) - 1, 1 << (bits - 1)][v]
        if k == 'name':
            return ('N', [[], long_name, [b"mail", b"example", b"org"]][v])
        if k == 'str':
            return [b"", b"s" * 255, b"text"][v]
        if k == 'rest':
            return [b"", bytes(range(256)) + bytes(44), b"\x00"][v]
        if k == 'utf8rest':
            return [b"", ("\u00e9" * 150).encode(), b"ftp://x"][v]
        if k == 'ip6':
            return [bytes(16), bytes([255] * 16), bytes(range(16))][v]
        if k.startswith('e:') or k.startswith('e8:'):
            m = [int(x) for x in k.split(':')[1].split(',')]
            return [m[0], m[-1], m[len(m) // 2]][v]
        if k == 'digits':
            return [b"", b"9" * 15, b"0"][v]
        if k == 'hexopt':
            return ('O', [None, b"fF" * 4, b""][v])
        if k == 'gpos':
            return [b"0", b"-123.456789", b"."][v]
        if k == 'tag':
            return [b"a", b"z9" * 7, b"issue"][v]
        if k == 'strs':
            return ('L', [[b""], [b"x" * 255, b"", b"y" * 255], [b"a", b"b"]][v])
        if k == 'dnskeyflags':
            return [0, 257, 256][v]
        raise ValueError(k)
    out = []
    for tname, kinds in G.FMT.items():
        for v in range(3):
            cls = 1 if tname in G.NOCLASS else [1, 4, 3][v]
            owner = [[], [b"x", b"example", b"org"], long_name][v]
            out.append(('RR', G.TYPES[tname], ('N', owner), cls, [0, 0xFFFFFFFF, 0x80000000][v], ('G', [fld(k, v) for k in kinds])))
    return out


def merge_candidate_messages():
    """messages with names that an over-eager encoder could merge: equal only under Unicode (not ASCII) case folding,
    or printing alike with different label boundaries; every ordered pair, the second one in a compressible position"""
    pool = [b"k", b"K", "\u212a".encode(), "\u00e9".encode(), "\u00c9".encode(), "m\u00dcnchen".encode(), "m\u00fcnchen".encode(),
            "\u0130".encode(), "i\u0307".encode(), b"i", "\u00df".encode(), "\u1e9e".encode(), b"ss", b"a.b", b"a",
            # octets that differ only in bit 5 (0x20) without being an ASCII letter pair
            b"@", b"`", b"[x]", b"{x}", b"^", b"~", b"_", b"\x7f", b"1", b"\x11", "\u00c0".encode(), "\u00e0".encode()]
    tails = [[b"example", b"org"], [b"b", b"example", b"org"]]
    out = []
    for x in pool:
        for y in pool:
            for t in tails:
                out.append(name_seq_msg([[x] + t, [b"mail", y] + t, [y] + t, [b"www", x] + t]))
    return out


def rdata_offset_sweep(rng, amax=16, bmax=24):
    """records with two RDATA names where the second points at the first and the first into the owner (nested
    pointers), for every pair of first-label lengths: the RDATA-relative offset of the second name sweeps across the
    absolute offsets that the pointers refer to (a decoder that mixes the two coordinate systems shows here).
    -> list of (abstract record, stand-alone wire)"""
    base = [b"example", b"org"]
    fields = {'SOA': lambda n1, n2: [('N', n1), ('N', n2), 1, 2, 3, 4, 5], 'MINFO': lambda n1, n2: [('N', n1), ('N', n2)],
              'RP': lambda n1, n2: [('N', n1), ('N', n2)], 'PX': lambda n1, n2: [10, ('N', n1), ('N', n2)]}
    out = []
    for tname, mk in fields.items():
        for a in range(1, amax + 1):
            for b in range(1, bmax + 1):
                owner = [b"x" * a] + base
                n1 = [b"y" * b] + base
                n2 = [b"admin"] + n1
                out.append(('RR', G.TYPES[tname], ('N', owner), 1, 300, ('G', mk(n1, n2))))
        # chains that end at the owner's FIRST octet (offset 0 of a stand-alone record, offset 12 of a message):
        # second RDATA name -> first RDATA name -> whole owner name
        for a in (1, 2, 7):
            for b in (1, 3, 9):
                owner = [b"x" * a] + base
                n1 = [b"y" * b] + owner
                n2 = [b"admin"] + n1
                out.append(('RR', G.TYPES[tname], ('N', owner), 1, 300, ('G', mk(n1, n2))))
                out.append(('RR', G.TYPES[tname], ('N', owner), 1, 300, ('G', mk(owner, n1))))
    return out


def many_names_msg(count, zones=7, reuse=True):
    """`count` distinct owner names host<i>.zone<i mod zones>.example.org, then (reuse) all of them again: more
    distinct suffixes than any fixed-size compression table would hold"""
    names = [[b"host%d" % i, b"zone%d" % (i % zones), b"example", b"org"] for i in range(count)]
    seq = names + (names if reuse else [])
    return ('Dns', 9, ('F', 1, 0, 0, 0, 0, 0, 0, 0, 0), [],
            [('RR', 1, ('N', list(n)), 1, 60, ('G', [i & 0xFFFFFFFF])) for i, n in enumerate(seq[:count])], [],
            [('RR', 1, ('N', list(n)), 1, 60, ('G', [i & 0xFFFFFFFF])) for i, n in enumerate(seq[count:])])


def straddle_cases(deltas):
    """a shared suffix placed within a few octets of the pointer limit 0x3FFF/0x4000 behind a NULL spacer"""
    edge = []
    for delta in deltas:
        for base in (0x3FFF, 0x4000):
            spacer = base + delta - 23
            names = [[b"aaa", b"bbb", b"ccc"], [b"x", b"bbb", b"ccc"], [b"y", b"ccc"], [b"aaa", b"bbb", b"ccc"]]
            edge.append("E Dns " + G.canon(name_seq_msg(names, spacer)))
    return edge


class C06(Prop):
    pid = "C06"

    def streams(self, tier, rng):
        alpha = [b"a", b"b", b"c"]
        pool = [[]] + [[x] for x in alpha] + [[x, y] for x in alpha for y in alpha]
        seqs = []
        for k in (1, 2, 3):
            for combo in itertools.product(range(len(pool)), repeat=k):
                seqs.append([pool[i] for i in combo])
        ex = ["E Dns " + G.canon(name_seq_msg(s)) for s in seqs]
        rnd = []
        deep = [[x, y, z] for x in alpha for y in alpha for z in alpha]
        flip = lambda l: bytes(c ^ 0x20 for c in l)
        for _ in range(1500 if tier == "quick" else 20000):
            k = rng.choice([2, 3, 4, 4, 6, 10])
            names = []
            for _ in range(k):
                n = list(rng.choice(pool + deep))
                n = [flip(l) if rng.random() < 0.3 else l for l in n]
                names.append(n)
            rnd.append("E Dns " + G.canon(name_seq_msg(names)))
        nest = ["E Dns " + G.canon(nested_names_msg(k)) for k in range(1, 65)]
        edge = []
        # header 12 + root owner 1 + 10 + spacer: first name starts at 23 + spacer + 11 (ns owner..)
        for delta in (range(-48, 49, 4) if tier == "quick" else range(-48, 49)):
            for base in (0x3FFF, 0x4000):
                spacer = base + delta - 23
                names = [[b"aaa", b"bbb", b"ccc"], [b"x", b"bbb", b"ccc"], [b"y", b"ccc"], [b"aaa", b"bbb", b"ccc"]]
                edge.append("E Dns " + G.canon(name_seq_msg(names, spacer)))
        longs = []
        for _ in range(20 if tier == "quick" else 200):
            names = []
            base = []
            for _ in range(rng.choice([30, 60, 120])):
                if rng.random() < 0.5 and base:
                    n = [G.rnd_label(rng)] + rng.choice(base)
                else:
                    n = list(G.rnd_name(rng)[1])
                if G.name_wire_len(n) <= 255:
                    names.append(n)
                    base.append(n[rng.randrange(len(n) + 1):] if n else [])
            longs.append("E Dns " + G.canon(name_seq_msg(names)))
        # labels containing '.', labels that are concatenations of other labels, UTF-8 labels: name identity is
        # label-wise, so these must never be merged with names that merely print alike
        tricky = []
        tpool = [[b"a.b", b"c"], [b"a", b"b", b"c"], [b"a", b"b.c"], [b"ab", b"c"], [b"a", b"bc"], [b"a.b.c"], [b"A.B", b"C"],
                 [b"a", b"B", b"c"], ["é".encode(), b"c"], ["É".encode(), b"c"], [b"c"], [b"b", b"c"], [b"b.c"], [b".", b"c"], [b"a\x00", b"c"], [b"a", b"c"]]
        for combo in itertools.product(range(len(tpool)), repeat=2):
            tricky.append("E Dns " + G.canon(name_seq_msg([tpool[i] for i in combo])))
        for _ in range(300 if tier == "quick" else 3000):
            tricky.append("E Dns " + G.canon(name_seq_msg([rng.choice(tpool) for _ in range(rng.choice([3, 4, 6]))])))
        many = ["E Dns " + G.canon(many_names_msg(k)) for k in ((100, 300, 400) if tier == "quick" else (100, 257, 300, 400, 513, 1000))]
        return [("exhaustive<=3-names", ex), ("random-sequences", rnd), ("nesting-1..64", nest),
                ("around-0x3FFF", edge), ("long-sequences", longs), ("label-boundaries", tricky),
                ("hundreds-of-distinct-names-reused", many),
                ("names-an-over-eager-table-could-merge", ["E Dns " + G.canon(m) for m in merge_candidate_messages()])]

    def oracle(self, case, line):
        return encode_oracle(case, line, expect_ok=True)

    def nontrivial(self, case, line):
        return "c0" in line or "c1" in line or len(line) > 60

    def rule(self):
        return ("E Dns cases whose records carry a sequence of names: exhaustively every sequence of <= 3 names over the 13 names "
                "of depth <= 2 on a 3-label alphabet, random sequences of 2..10 names of depth <= 3 with case variants, nesting "
                "depth 1..=64, a shared suffix placed at offsets within +-48 octets of 0x3FFF/0x4000 behind a NULL spacer, "
                "random sequences of 30..120 names; byte-exact vs the model; reference decoder re-expands every name and checks "
                "every pointer (backwards, < 16384, at a label start, <= 16 hops); non-trivial = output contains a pointer or "
                "several names; distinct by text")


def overlong_via_pointer():
    """names that become over-long (or exactly maximal) only through a pointer: literal prefix + pointer to a
    literal suffix, bare pointers to maximal names, pointer chains to maximal names, fans into long label runs"""
    over = []
    for total in range(248, 262):
        for split in (1, 60, 120, 200):
            # suffix placed first (as a stand-alone name at offset 12 in a question), prefix + pointer afterwards
            def labs(n):
                out = b""
                left = n
                while left > 0:
                    k = min(63, left - 1)
                    if k <= 0:
                        break
                    out += bytes([k]) + b"a" * k
                    left -= k + 1
                return out
            suf = labs(total - 1 - split) + b"\x00"
            pre = labs(split)
            q1 = suf + b"\x00\x01\x00\x01"
            q2 = pre + b"\xc0\x0c" + b"\x00\x01\x00\x01"
            over.append(S.d("Dns", msg_wire(qd=[q1, q2])))
    over.append(S.d("DomainName", b"\xc0\x02" + b"\x01a" * 200 + b"\x00"))
    over.append(S.d("DomainName", b"\x01b\xc0\x04" + b"\x01a" * 127 + b"\x00"))
    # the same limits with labels of multi-octet characters (the limits count OCTETS, not characters): names of
    # 250..=262 and of 300, 450, 830 wire octets whose labels are runs of 2-, 3- and 4-octet characters, plain, as the
    # target of a pointer, and split into literal prefix + pointer
    for ch in ("\u00e9".encode(), "\u20ac".encode(), "\U0001f600".encode()):
        w = len(ch)
        per = (63 // w) * w                     # longest label of whole characters
        for total in list(range(250, 263)) + [300, 450, 830]:
            body, left = b"", total - 1
            while left > w:
                k = min(per, ((left - 1) // w) * w)
                body += bytes([k]) + ch * (k // w)
                left -= k + 1
            body += b"\x01a" * (left // 2)
            name = body + b"\x00"
            over.append(S.d("DomainName", name))
            over.append(S.d("Dns", msg_wire(qd=[name + b"\x00\x01\x00\x01"])))
            over.append(S.d("DomainName", b"\xc0\x02" + name))
            first = 1 + body[0]
            over.append(S.d("Dns", msg_wire(qd=[name[first:] + b"\x00\x01\x00\x01", name[:first] + b"\xc0\x0c\x00\x01\x00\x01"])))
    run = b"\x01a" * 3000 + b"\x00"
    fanq = [run + b"\x00\x01\x00\x01"] + [struct.pack(">H", 0xC000 | (12 + 2 * i)) + b"\x00\x01\x00\x01" for i in range(0, 300)]
    over.append(S.d("Dns", msg_wire(qd=fanq)))
    # chains in which every hop also contributes a label: `01 a c0 <next>` x hops, then the terminator
    for hops in list(range(1, 41)) + [60, 100, 126]:
        def chain(base):
            body = bytearray()
            for i in range(hops):
                body += b"\x01a" + struct.pack(">H", 0xC000 | (base + 4 * (i + 1)))
            return bytes(body) + b"\x00"
        # as the RDATA of a NULL record behind a question whose name points (forwards) at the chain
        base = 12 + 6 + 11
        q = struct.pack(">H", 0xC000 | base) + b"\x00\x01\x00\x01"
        over.append(S.d("Dns", msg_wire(qd=[q], an=[rr_wire(10, 1, 0, chain(base))])))
        over.append(S.d("DomainName", chain(0)))
    over.append(S.d("DomainName", b"\xc0\x02\x01a\xc0\x02"))
    over.append(S.d("DomainName", b"\x01b\xc0\x04\x01a\xc0\x00"))
    # exactly maximal (255) and just over (256..258) names reached through a BARE pointer and through a 2-pointer chain
    for total in range(252, 259):
        def labs2(n):
            out = b""
            left = n
            while left > 0:
                k = min(63, left - 1)
                if k <= 0:
                    break
                out += bytes([k]) + b"b" * k
                left -= k + 1
            return out
        full = labs2(total - 1) + b"\x00"
        q1 = full + b"\x00\x01\x00\x01"
        q2 = b"\xc0\x0c\x00\x01\x00\x01"
        q3 = struct.pack(">H", 0xC000 | (12 + len(q1))) + b"\x00\x01\x00\x01"
        over.append(S.d("Dns", msg_wire(qd=[q1, q2])))
        over.append(S.d("Dns", msg_wire(qd=[q1, q2, q3])))
        rr = b"\xc0\x0c" + struct.pack(">HHIH", 2, 1, 5, 2) + b"\xc0\x0c"
        over.append(S.d("Dns", msg_wire(qd=[q1], an=[rr])))
    return over


# =================================================================================== C07

COST_K = 290              # C07_work_linear: cost_of (dec_Dns b) <= 290 * lenN b + 544 (Proofs/DecCostMsg.v)
COST_C = 544


class C07(Prop):
    pid = "C07"
    panic_neutral = True

    def streams(self, tier, rng):
        graphs = []
        for w, offs in G.pointer_graphs(5 if tier == "quick" else 6):
            # the question name starts at node 0; also as a stand-alone name
            graphs.append(S.d("DomainName", w[12:] if False else w))
        gq = []
        for w, offs in G.pointer_graphs(4 if tier == "quick" else 5):
            q = bytearray(w)
            q[4:6] = b"\x00\x01"
            gq.append(S.d("Dns", bytes(q) + b"\x00\x01\x00\x01"))
        chains = []
        for hops in range(1, 65):
            chains.append(S.d("Dns", G.chain_message(rng, hops)))
            chains.append(S.d("Dns", G.chain_message(rng, hops, tail=b"\x3f" + b"a" * 63 + b"\x3f" + b"b" * 63 + b"\x3f" + b"c" * 63 + b"\x3d" + b"d" * 61 + b"\x00")))
        fans = []
        for k in (10, 100, 1000, 5000) if tier == "quick" else (10, 100, 1000, 5000, 16000):
            long_name = (b"\x3f" + b"a" * 63) * 3 + b"\x3d" + b"b" * 61 + b"\x00"
            qd = [long_name + b"\x00\x01\x00\x01"] + [b"\xc0\x0c\x00\x01\x00\x01"] * k
            fans.append(S.d("Dns", msg_wire(qd=qd)))
            # fan of pointers into a self-referencing chain
            qd = [b"\xc0\x0c\x00\x01\x00\x01"] * k
            fans.append(S.d("Dns", msg_wire(qd=qd)))
        mazes = []
        for _ in range(200 if tier == "quick" else 3000):
            size = rng.choice([40, 200, 1000, 5000]) if tier == "quick" else rng.choice([40, 200, 1000, 5000, 30000, 65000])
            buf = bytearray(msg_wire(qd=[], id_=rng.randrange(65536)))
            buf[4:6] = struct.pack(">H", rng.choice([1, 2, 50]))
            while len(buf) < size:
                k = rng.random()
                if k < 0.5:
                    buf += struct.pack(">H", 0xC000 | rng.randrange(min(len(buf) + 40, 0x4000)))
                    buf += b"\x00\x01\x00\x01"
                elif k < 0.8:
                    l = rng.choice([1, 1, 2, 63])
                    buf += bytes([l]) + b"a" * l
                else:
                    buf += b"\x00\x00\x01\x00\x01"
            mazes.append(S.d("Dns", bytes(buf)))
        over = overlong_via_pointer()

        def descending(hops, fan=0):
            """answer section: a NULL record whose RDATA is  tail | P1 | P2 | ... | Pn  with P1 -> tail and Pk -> Pk-1
            (every pointer goes strictly BACKWARDS); then an NS record whose name points at Pn: `hops` hops in all;
            `fan` further NS records pointing at Pn as well"""
            hdr = 12
            rd_at = hdr + 1 + 10
            tail = b"\x03org\x00"
            body = bytearray(tail)
            prev = rd_at
            for _ in range(hops - 1):
                at = rd_at + len(body)
                body += struct.pack(">H", 0xC000 | prev)
                prev = at
            if prev > 0x3FFF:
                return None
            ns = rr_wire(2, 1, 0, struct.pack(">H", 0xC000 | prev))
            an = [rr_wire(10, 1, 0, bytes(body))] + [ns] * (1 + fan)
            return S.d("Dns", msg_wire(an=an, fl=0x8000))
        desc = [descending(h) for h in list(range(1, 41)) + [64, 100, 1000, 4000, 8000]]
        desc += [descending(8000, fan=k) for k in ((50, 500) if tier == "quick" else (50, 500, 4000))]
        desc = [c for c in desc if c is not None]
        return [("overlong-via-pointer", over), ("descending-chains", desc),
                ("pointer-graphs-name", graphs), ("pointer-graphs-question", gq), ("chains-1..64", chains),
                ("fans", fans), ("mazes", mazes), ("corpus", S.corpus_d(("Dns", "DomainName"))),
                ("targeted-special", special_d(rng, tier))]

    def view(self, case, line):
        d = parse_d(line)
        if d["status"] == "OK":
            return "OK cost=%d" % d["cost"]
        if d["status"] == "PANIC":
            return "PANIC-BUDGET" if "octet budget exceeded" in line else "ERR"
        if d["status"] == "ERR":
            e = d["err"]
            if e.startswith("MaxRecursion") or e.startswith("EndlessRecursion") or "DomainNameLength" in e:
                return "ERR %s cost=%d" % (e, d["cost"])
            return "ERR cost=%d" % d["cost"]
        return d["status"]

    def nontrivial(self, case, line):
        return "c0" in case

    def oracle(self, case, line):
        d = parse_d(line)
        if accepted_but_inconsistent(line):
            e, w = case_wire(case)
            r = R.ref_decode(e, w)
            if r[0] != "OK":
                return "accepted a name the reference expansion rejects (%s); the returned name's len() disagrees with its labels" % r[1]
            return None
        if d["status"] == "PANIC":
            if "octet budget exceeded" in line:
                return "decoder exceeded the octet budget (loop or super-linear work): " + line[:200]
            return None      # any other panic is C01's subject
        if d["status"] == "OTHER":
            return None
        e, w = case_wire(case)
        if d["cost"] > COST_K * len(w) + COST_C:
            return "examined %d octets for an input of %d octets (bound %d*len+%d)" % (d["cost"], len(w), COST_K, COST_C)
        if d["status"] == "OK":
            r = R.ref_decode(e, w)
            if r[0] != "OK":
                return "accepted a name the reference expansion rejects: " + r[1]
            for nm in r[2].names:
                if nm["hops"] > 17:
                    return "name expanded across %d pointer hops" % nm["hops"]
        return None

    def rule(self):
        return ("D cases (DomainName, Dns): every pointer graph of <= 5 nodes (label / pointer-to-node / end; <= 6 thorough) as "
                "a stand-alone name and of <= 4 nodes as a question name, pointer chains of 1..=64 hops to a short and to a "
                "253-octet name, fans of up to 5,000 (16,000) pointers to one long name / to a self-reference, random pointer "
                "mazes up to 5 KiB (64 KiB); the octet counter of the hook is compared exactly with the model's cost and "
                "checked against K*len+C; the harness arms the hook's budget so that a loop becomes a PANIC line; "
                "non-trivial = the input contains a pointer octet; distinct by text")

    def assumptions(self):
        return ["'work' is the number of octets examined by Decoder::read/bytes (hook counter); wall-clock time and allocation are not measured"]


# =================================================================================== C09

class C09(Prop):
    pid = "C09"
    panic_neutral = True

    def agree(self, case, il, ml):
        # only inputs the library accepts are judged by this property
        if not il.startswith("OK "):
            return True
        return self.view(case, il) == self.view(case, ml)

    def streams(self, tier, rng):
        n = 300 if tier == "quick" else 3000
        nm = []
        for m, w, rn in S.valid_messages(rng, n):
            for x in G.near_miss(rng, w, rn, per=40 if tier == "thorough" else 10):
                nm.append(S.d("Dns", x))
        el = []
        for _ in range(n):
            names = []
            rn = G.Renderer(G.Layout(rng, mode="plain"))
            rn.rr(G.rnd_rr(rng, names))
            w = bytes(rn.buf)
            for x in G.near_miss(rng, w, rn, per=10):
                el.append(S.d("RR", x))
        return [("near-miss-dns", nm), ("near-miss-rr", el), ("guards", guard_cases()),
                ("structured", S.structured_d(rng, n)), ("corpus", S.corpus_d(("Dns", "RR"))),
                ("targeted-special", special_d(rng, tier))]

    def view(self, case, line):
        d = parse_d(line)
        if d["status"] == "OK":
            return "OK " + d["canon"]
        if d["status"] == "ERR":
            e = d["err"]
            if e.split(" ")[0] in ("NotEnoughBytes", "TooManyBytes", "RemainingBytes"):
                return "ERR " + e
            return "NOT-ACCEPTED"
        return "NOT-ACCEPTED"

    def nontrivial(self, case, line):
        return True

    def oracle(self, case, line):
        d = parse_d(line)
        if d["status"] != "OK":
            return None      # only accepted inputs are judged (a panic is C01's subject)
        e, w = case_wire(case)
        r = R.ref_decode(e, w)
        if r[0] != "OK":
            return "accepted although the framing is not exact: " + r[1]
        if r[1] != d["canon"]:
            return "a field absorbed octets outside its window: library %s reference %s" % (d["canon"][:300], r[1][:300])
        return None

    def rule(self):
        return ("D cases: from valid messages and stand-alone records, every count / RDLENGTH / option, item, parameter and "
                "character-string length changed by -2..+2, +-255, +-256, 0 and max, truncation at field boundaries +-1, suffixes of "
                "1..4 octets; length-guard inputs; framing errors (NotEnoughBytes/TooManyBytes/RemainingBytes) compared with "
                "payload; every accepted input must be framed exactly by the reference decoder; distinct by text")


# =================================================================================== C10

class C10(Prop):
    pid = "C10"

    def __init__(self):
        self.pair = {}
        self.sweep_expect = {}

    def streams(self, tier, rng):
        n = 800 if tier == "quick" else 8000
        rr = []
        srr = []
        first = []
        for _ in range(n):
            names = []
            r = G.rnd_rr(rng, names)
            c = G.canon(r)
            rr.append("E RR " + c)
            srr.append("E S " + c)
            if r[1] != 41:
                m = ('Dns', 0, ('F', 0, 0, 0, 0, 0, 0, 0, 0, 0), [], [r], [], [])
                mc = "E Dns " + G.canon(m)
                first.append(mc)
                self.pair[mc] = "E RR " + c
        for r in extreme_rrs():
            c = G.canon(r)
            rr.append("E RR " + c)
            srr.append("E S " + c)
            m = ('Dns', 0, ('F', 0, 0, 0, 0, 0, 0, 0, 0, 0), [], [r], [], [])
            mc = "E Dns " + G.canon(m)
            first.append(mc)
            self.pair[mc] = "E RR " + c
        # stand-alone records have no message around them: RDATA up to the 16-bit RDLENGTH limit must encode whatever the
        # total size (owner + 10 + RDATA may exceed 65,535)
        longo = [b"a" * 63, b"b" * 63, b"c" * 63, b"d" * 61]
        for ln in (65000, 65270, 65271, 65524, 65525, 65526, 65534, 65535):
            for owner in ([], longo):
                for r in (('RR', 10, ('N', owner), 1, 0, ('G', [bytes(ln)])),
                          ('RR', 256, ('N', owner), 1, 0, ('G', [1, 2, b"u" * (ln - 4)])),
                          ('RR', 44, ('N', owner), 1, 0, ('G', [1, 1, bytes(ln - 2)]))):
                    rr.append("E RR " + G.canon(r))
                    srr.append("E S " + G.canon(r))
        qs = []
        for _ in range(n // 4):
            q = ('Q', G.rnd_name(rng), rng.choice(G.QTYPES), rng.choice(G.QCLASSES))
            qs.append("E Question " + G.canon(q))
            m = ('Dns', 0, ('F', 0, 0, 0, 0, 0, 0, 0, 0, 0), [q], [], [], [])
            mc = "E Dns " + G.canon(m)
            first.append(mc)
            self.pair[mc] = "E Question " + G.canon(q)
        ns = ["E DomainName " + G.canon(G.rnd_name(rng)) for _ in range(n // 4)]
        fl = ["E Flags " + G.canon(G.rnd_flags(rng)) for _ in range(200)]
        dec = S.element_cases(rng, n)
        # stand-alone records whose second RDATA name is reached through nested pointers, every offset geometry
        sweep = []
        for r in rdata_offset_sweep(rng, 12 if tier == "quick" else 20, 16 if tier == "quick" else 30):
            rn = G.Renderer(G.Layout(rng, mode="lib"))
            rn.rr(r)
            sweep.append(S.d("RR", bytes(rn.buf)))
            self.sweep_expect[sweep[-1]] = R.canon_fold(G.canon(r))
        return [("rr", rr), ("record-structs", srr), ("question", qs), ("name", ns), ("flags", fl),
                ("first-in-message", first), ("decode-elements", dec), ("standalone-nested-pointer-offsets", sweep)]

    def view(self, case, line):
        if case.startswith("D "):
            d = parse_d(line)
            if d["status"] != "OK":
                return d["status"]
            return "OK %s reenc=%s d2=%s" % (d["canon"], d["reenc"], d["d2"].split(":")[0])
        return line

    def oracle(self, case, line):
        if line.startswith("PANIC"):
            return "implementation panicked: " + line[:200]
        if case.startswith("D "):
            d = parse_d(line)
            exp = self.sweep_expect.get(case)
            if exp is not None:
                if d["status"] != "OK":
                    return "stand-alone record in the encoder's own layout is rejected by its own decoder: %s" % d.get("err", line[:120])
                if R.canon_fold(d["canon"]) != exp:
                    return "stand-alone record decodes to another value: %s, expected %s" % (d["canon"][:200], exp[:200])
            if d["status"] == "OK":
                if d["reenc"].startswith("ERR"):
                    return "decoded element does not re-encode: " + d["reenc"]
                if d["d2"] != "same":
                    return "element does not round-trip through its own codec: " + d["d2"][:200]
            return None
        if line == "NOENC":
            return None
        return encode_oracle(case, line, expect_ok=True)

    def cross(self, cases, impl):
        """first element of a message = stand-alone bytes with pointer offsets shifted by 12"""
        out = {c: l for c, l in zip(cases, impl)}
        fails = []
        for i, c in enumerate(cases):
            p = self.pair.get(c)
            if p is None or p not in out:
                continue
            a, b = impl[i], out[p]
            if not (a.startswith("OK ") and b.startswith("OK ")):
                if a.split(" ")[0] != b.split(" ")[0]:
                    fails.append((i, "element encodes alone (%s) but not as first element of a message (%s)" % (b[:80], a[:80])))
                continue
            msg = bytes.fromhex(a[3:])
            alone = bytes.fromhex(b[3:])
            body = bytearray(msg[12:])
            r = R.ref_decode("RR" if p.startswith("E RR") else "Question", alone)
            if r[0] != "OK":
                continue
            shifted = bytearray(alone)
            for nm in r[2].names:
                for pos, tgt in nm["ptrs"]:
                    if pos < len(alone) and nm["start"] <= pos < nm["end"]:
                        shifted[pos:pos + 2] = struct.pack(">H", 0xC000 | (tgt + 12))
            if bytes(shifted) != bytes(body):
                fails.append((i, "element occupies different octets as first element of a message: alone %s in message %s" % (alone.hex()[:200], bytes(body).hex()[:200])))
        return fails

    def rule(self):
        return ("E cases on every stand-alone encode entry point (RR, the record structs' own encode, Question, DomainName, Flags) "
                "over random valid values, the same element as the only element of a message (bytes compared up to the pointer "
                "shift of 12), D cases on RR/Question/DomainName with re-encode and second decode; reference decoder reads every "
                "output at offset 0; every case non-trivial; distinct by text")


# =================================================================================== C14

class C14(Prop):
    pid = "C14"

    def streams(self, tier, rng):
        reps, n = (32, 120) if tier == "quick" else (1000, 600)
        enc = []
        for c in S.value_e(rng, n) + ["E Dns " + G.canon(nested_names_msg(k)) for k in (3, 17, 40)]:
            for th in (1, 4, 16):
                enc.append("R %d %d %s" % (reps if th > 1 else reps * 2, th, c))
        heavy = []
        for _ in range(n // 4):
            names = []
            base = []
            for _ in range(60):
                if rng.random() < 0.6 and base:
                    nn = [G.rnd_label(rng)] + rng.choice(base)
                else:
                    nn = list(G.rnd_name(rng)[1])
                if G.name_wire_len(nn) <= 255:
                    names.append(nn)
                    base.append(nn[rng.randrange(len(nn) + 1):] if nn else [])
            heavy.append("R %d 16 E Dns %s" % (reps, G.canon(name_seq_msg(names))))
        dec = []
        for c in S.structured_d(rng, n) + S.byte_level_d(rng, n // 4):
            dec.append("R %d %d %s" % (reps, rng.choice([1, 4, 16]), c))
        # names straddling the pointer limit 0x3FFF: several suffixes of ONE name go through the local table, the place
        # where a seed-dependent iteration order could show
        edge = []
        for delta in range(-40, 8, 4):
            spacer = 0x3FFF + delta - 23
            names = [[b"l0", b"l1", b"l2", b"l3", b"l4", b"l5", b"l6", b"l7", b"zone", b"example"],
                     [b"x", b"l1", b"l2", b"l3", b"l4", b"l5", b"l6", b"l7", b"zone", b"example"],
                     [b"y", b"l3", b"l4", b"l5", b"l6", b"l7", b"zone", b"example"], [b"z", b"l6", b"l7", b"zone", b"example"],
                     [b"w", b"zone", b"example"], [b"v", b"example"]]
            edge.append("R %d 16 E Dns %s" % (max(reps, 64), G.canon(name_seq_msg(names, spacer))))
        many = ["R %d 16 E Dns %s" % (max(reps // 2, 16), G.canon(many_names_msg(k))) for k in (300, 400)]
        # names that differ only in the case of a NON-ASCII letter (or are equal only under Unicode folding): if equality
        # and hash of the table key ever disagree on them, a lookup succeeds or fails depending on the per-instance seed
        pairs = [("\u00e9", "\u00c9"), ("\u00fc", "\u00dc"), ("\u00f6", "\u00d6"), ("\u00e4", "\u00c4"), ("\u00f1", "\u00d1"),
                 ("\u03c3", "\u03a3"), ("\u0436", "\u0416"), ("k", "\u212a"), ("\u00df", "\u1e9e"), ("i\u0307", "\u0130"),
                 ("\u00e0", "\u00c0"), ("\u00ff", "\u0178")]
        names = []
        for lo, up in pairs:
            for t in ([b"example", b"org"], [b"b", b"example", b"org"]):
                names += [[lo.encode()] + t, [b"mail", up.encode()] + t, [up.encode()] + t, [b"www", lo.encode()] + t]
        fold = ["R %d %d E Dns %s" % (max(reps * 8, 256), th, G.canon(name_seq_msg(names))) for th in (1, 16)]
        # inputs whose FIRST compressed name needs several pointer hops, on threads that decode rejected inputs in between
        # (the harness interleaves them on every second thread): state surviving a failed call would show here
        hist = []
        for hops in (2, 3, 5, 9, 16):
            w = G.chain_message(rng, hops)
            for th in (1, 4, 16):
                hist.append("R %d %d D Dns %s" % (max(reps, 48), th, G.hexs(w)))
        for nm in (b"\x01x\xc0\x04\xc0\x06\x01y\x00", b"\xc0\x02\xc0\x04\x01z\x00", b"\x01a\xc0\x04\x01b\xc0\x08\x01c\x00"):
            for th in (1, 16):
                hist.append("R %d %d D DomainName %s" % (max(reps, 48), th, G.hexs(nm)))
        # small values encoded on threads that encode LARGER values of the same kinds in between (see the harness)
        for v in (('RR', 64, ('N', [b"a"]), 1, 1, ('SVCB', 1, ('N', []), [('MAND', 1), ('ALPN', b"h2")])),
                  ('RR', 65, ('N', [b"a"]), 1, 1, ('SVCB', 1, ('N', []), [('MAND', 3, 1), ('ALPN', b"h2"), ('PORT', 1)])),
                  ('RR', 41, ('N', []), 0, 0, ('OPT', 512, 0, 0, False, [('PAD', 1)])),
                  ('RR', 42, ('N', [b"a"]), 1, 5, ('APL', [('I', 1, 8, False, bytes([10, 0, 0, 0]))])),
                  ('RR', 16, ('N', [b"a"]), 1, 5, ('G', [('L', [b"x"])])),
                  ('RR', 2, ('N', [b"org"]), 1, 5, ('G', [('N', [b"example", b"org"])]))):
            for th in (1, 4, 16):
                hist.append("R %d %d E RR %s" % (max(reps, 48), th, G.canon(v)))
        return [("encode-repeated", enc), ("encode-name-heavy-16-threads", heavy), ("decode-repeated", dec),
                ("encode-straddling-0x3FFF-16-threads", edge), ("encode-hundreds-of-names-16-threads", many),
                ("encode-names-differing-in-non-ascii-case", fold), ("small-inputs-after-other-inputs-on-the-same-thread", hist)]

    def view(self, case, line):
        # determinism is the property: compare how many distinct results there were and whether the input
        # was left unchanged, not the result itself (that is the business of the codec properties)
        return line.split(" first=")[0]

    def oracle(self, case, line):
        if "PANIC" in line.split(" first=")[0]:
            return "implementation panicked: " + line[:200]
        if not line.startswith("distinct=1 "):
            return "repeated / concurrent calls produced different results: " + line[:200]
        if " unchanged=1 " not in line:
            return "the shared input was modified: " + line[:200]
        return None

    def rule(self):
        return ("R cases: every E/D case repeated 32x (1000x thorough) on each of 1, 4 and 16 threads sharing the input through an "
                "Arc (fresh Encoder and fresh RandomState per call); name-heavy messages (60 names with shared suffixes) on 16 "
                "threads; the set of distinct results must be the singleton the model predicts and the input unchanged; every "
                "case non-trivial; distinct by text")

    def assumptions(self):
        return ["real thread interleavings are sampled by the harness, not enumerated; freedom from data races rests on Rust's Send/Sync rules plus the generated audit (no static/interior-mutable state)"]


# =================================================================================== C08

def value_hard_limit_violation(t):
    """does the canon value violate a hard wire limit whatever the compression does?  (strings > 255 in
    character-string positions, opaque RDATA / option / parameter bodies > 65535, sections > 65535)"""
    tag, it = t
    if tag == 'Dns':
        for sec in it[2:6]:
            n = 0
            for x in sec[1]:
                n += x[1][0] if (not isinstance(x, int) and x[0] == 'REP') else 1
            if n > 65535:
                return "section with %d entries" % n
        for sec in it[3:6]:
            for r in sec[1]:
                rr = r[1][1] if r[0] == 'REP' else r
                v = value_hard_limit_violation(rr)
                if v:
                    return v
        return None
    if tag == 'RR':
        ty = it[0]
        rd = it[4]
        if rd[0] == 'G':
            kinds = R.FMT.get(ty, [])
            kinds = [k for k in kinds if k != 'proto3']
            total = 0
            for k, v in zip(kinds, rd[1]):
                if k in ('str', 'digits', 'gpos', 'tag') and len(v[1]) // 2 > 255:
                    return "character-string of %d octets" % (len(v[1]) // 2)
                if k == 'opthex' and v[1] and len(v[1][0][1]) // 2 > 255:
                    return "character-string of %d octets" % (len(v[1][0][1]) // 2)
                if k == 'strs1':
                    for sx in v[1]:
                        if len(sx[1]) // 2 > 255:
                            return "character-string of %d octets" % (len(sx[1]) // 2)
                        total += 1 + len(sx[1]) // 2
                if k in ('rest', 'utf8rest') or k in ('str', 'digits', 'gpos', 'tag'):
                    total += len(v[1]) // 2
            if total > 65535:
                return "RDATA of more than 65535 octets"
        if rd[0] == 'OPT':
            for o in rd[1][4][1]:
                if o[0] == 'PAD' and o[1][0] > 65535:
                    return "padding of %d octets" % o[1][0]
            if sum((o[1][0] + 4) if o[0] == 'PAD' else 4 for o in rd[1][4][1]) > 65535:
                return "OPT RDATA of more than 65535 octets"
        if rd[0] == 'SVCB' and rd[1][0] != 0:
            tot = 0
            for p_ in rd[1][2][1]:
                if p_[0] in ('PRIV', 'ECH'):
                    n = len(p_[1][-1][1]) // 2
                    if n > 65535 - (2 if p_[0] == 'ECH' else 0):
                        return "SvcParam value of %d octets" % n
                    tot += n + 4
                if p_[0] == 'ALPN':
                    for i in p_[1]:
                        if len(i[1]) // 2 > 255:
                            return "alpn id of %d octets" % (len(i[1]) // 2)
            if tot > 65535:
                return "SVCB RDATA of more than 65535 octets"
    return None


def subst_node(t, tag, new):
    if isinstance(t, int) or t[0] == 'x':
        return t
    if t[0] == tag:
        return new(t)
    return (t[0], [subst_node(i, tag, new) for i in t[1]])


def find_nodes(t, tag, acc):
    if isinstance(t, int) or t[0] == 'x':
        return acc
    if t[0] == tag:
        acc.append(t)
    for i in t[1]:
        find_nodes(i, tag, acc)
    return acc


class C08(Prop):
    pid = "C08"

    def streams(self, tier, rng):
        n = 400 if tier == "quick" else 4000
        F = ('F', 0, 0, 0, 0, 0, 0, 0, 0, 0)
        ex = ('N', [b"example", b"org"])

        def msg(*rrs, qd=()):
            return ('Dns', 1, F, list(qd), list(rrs), [], [])
        strings = []
        for ln in list(range(250, 262)) + [0, 1, 300]:
            s_ = b"a" * ln
            strings.append("E Dns " + G.canon(msg(('RR', 13, ex, 1, 0, ('G', [s_, b"x"])))))
            strings.append("E Dns " + G.canon(msg(('RR', 16, ex, 1, 0, ('G', [('L', [b"ok", s_])])))))
            strings.append("E Dns " + G.canon(msg(('RR', 19, ex, 1, 0, ('G', [b"1" * ln])))))
            strings.append("E Dns " + G.canon(msg(('RR', 257, ex, 1, 0, ('G', [0, b"t" * max(ln, 1), b"v"])))))
            strings.append("E Dns " + G.canon(msg(('RR', 20, ex, 1, 0, ('G', [b"12", ('O', b"a" * ln)])))))
            strings.append("E Dns " + G.canon(msg(('RR', 64, ex, 1, 0, ('SVCB', 1, ('N', []), [('ALPN', b"h2", s_)])))))
            strings.append("E RR " + G.canon(('RR', 13, ex, 1, 0, ('G', [s_, s_]))))
        # the limits count octets, not characters: strings of 2- and 4-octet characters around 255 octets
        for ch in ("\u00e9".encode(), "\U0001f600".encode()):
            for ln in (252, 254, 255, 256, 257, 258, 260, 300, 512):
                s_ = ch * (ln // len(ch)) + b"a" * (ln % len(ch))
                strings.append("E Dns " + G.canon(msg(('RR', 13, ex, 1, 0, ('G', [s_, b"x"])))))
                strings.append("E Dns " + G.canon(msg(('RR', 16, ex, 1, 0, ('G', [('L', [b"ok", s_])])))))
                strings.append("E Dns " + G.canon(msg(('RR', 64, ex, 1, 0, ('SVCB', 1, ('N', []), [('ALPN', b"h2", s_)])))))
                strings.append("E Dns " + G.canon(msg(('RR', 256, ex, 1, 0, ('G', [1, 2, s_])))))
        big = []
        for ln in (65520, 65534, 65535, 65536, 65537, 70000):
            big.append("E RR " + G.canon(('RR', 10, ('N', []), 1, 0, ('G', [bytes(ln)]))))
            big.append("E RR " + G.canon(('RR', 41, ('N', []), 0, 0, ('OPT', 512, 0, 0, False, [('PAD', min(65535, ln - 4))]))))
            big.append("E RR " + G.canon(('RR', 64, ('N', []), 1, 0, ('SVCB', 1, ('N', []), [('PRIV', 7, bytes(ln - 7))]))))
            big.append("E RR " + G.canon(('RR', 64, ('N', []), 1, 0, ('SVCB', 1, ('N', []), [('ECH', bytes(ln - 9))]))))
        for total in (16000, 16400, 65000, 65500, 65535, 65536, 65600, 131000):
            k = total // 16000 + 1
            per = (total - 12) // k - 11
            rrs = [('RR', 10, ('N', []), 1, 0, ('G', [bytes(per)]))] * k
            big.append("E Dns " + G.canon(msg(*rrs)))
        txt = ('RR', 16, ('N', []), 1, 0, ('G', [('L', [b"a" * 255] * 255)]))
        big.append("E Dns " + G.canon(msg(txt, txt)))
        sections = []
        q = "(Q (N) 1 1)"
        r_ = "(RR 1 (N) 1 0 (G 0))"
        for cnt in (65536, 65537, 70000):
            sections.append("E Dns (Dns 1 (F 0 0 0 0 0 0 0 0 0) (L (REP %d %s)) (L) (L) (L))" % (cnt, q))
            sections.append("E Dns (Dns 1 (F 0 0 0 0 0 0 0 0 0) (L) (L (REP %d %s)) (L) (L))" % (cnt, r_))
            sections.append("E Dns (Dns 1 (F 0 0 0 0 0 0 0 0 0) (L) (L) (L) (L (REP %d %s)))" % (cnt, r_))
        sections.append("E Dns (Dns 1 (F 0 0 0 0 0 0 0 0 0) (L (REP 1000 %s)) (L (REP 600 %s)) (L) (L))" % (q, r_))
        if tier == "thorough":
            sections.append("E Dns (Dns 1 (F 0 0 0 0 0 0 0 0 0) (L (REP 13000 %s)) (L) (L) (L))" % q)
        known = []
        for rc in (16, 17, 23):
            known.append("E Dns " + G.canon(('Dns', 1, ('F', 1, 0, 0, 0, 0, 0, 0, 0, rc), [], [], [], [])))
            known.append("E Flags " + G.canon(('F', 1, 0, 0, 0, 0, 0, 0, 0, rc)))
        known.append("E Dns " + G.canon(msg(('RR', 27, ex, 1, 0, ('G', [b"", b"1", b"2"])))))
        known.append("E Dns " + G.canon(msg(('RR', 27, ex, 1, 0, ('G', [b"1", b"1", b""])))))
        for num, data in ((3, b"\x01"), (0, b"\x00"), (2, b"x"), (65535, b"y"), (5, b"\x00\x09z"), (4, b"\x01\x02\x03")):
            known.append("E Dns " + G.canon(msg(('RR', 64, ex, 1, 0, ('SVCB', 1, ('N', []), [('PRIV', num, data)])))))
        known.append("E Dns " + G.canon(msg(('RR', 64, ex, 1, 0, ('SVCB', 0, ('N', [b"t"]), [('PORT', 80)])))))
        known.append("E Dns " + G.canon(msg(('RR', 65, ex, 1, 0, ('SVCB', 0, ('N', []), [('NODEF',), ('PORT', 1)])))))
        return [("around-0x3FFF", straddle_cases(range(-48, 49, 4) if tier == "quick" else range(-48, 49))),
                ("string-lengths", strings), ("big-rdata-and-messages", big), ("oversized-sections", sections),
                ("known-classes", known), ("valid-values", S.value_e(rng, n)), ("valid-rr", S.value_e_rr(rng, n)),
                ("names-equal-only-under-unicode-folding", ["E Dns " + G.canon(m) for m in merge_candidate_messages()[::3]]),
                ("boundary-values", ["E Dns " + G.canon(m) for m in boundary_messages()])]

    def nontrivial(self, case, line):
        return True

    def oracle(self, case, line):
        if line.startswith("PANIC"):
            return "implementation panicked: " + line[:200]
        w = case.split(" ", 2)
        t = R.parse_canon(w[2])
        hard = value_hard_limit_violation(t)
        if line.startswith("OK "):
            if hard:
                return "unrepresentable value (%s) encoded without an error (%d octets)" % (hard, (len(line) - 3) // 2)
            if (len(line) - 3) // 2 > 65535 and w[1] == "Dns":
                return "encoder emitted a message of %d octets (> 65535)" % ((len(line) - 3) // 2)
            return encode_oracle(case, line, expect_ok=False)
        if line.startswith("ERR") and hard is None and w[1] == "Dns" and R.uncompressed_size(R.parse_canon(expand_rep(w[2]))) <= 65535 \
                and "REP" not in w[2]:
            return "representable value failed to encode: " + line[:200]
        return None

    def known(self, case, line, failure):
        w = case.split(" ", 2)
        t = R.parse_canon(w[2])
        if not line.startswith("OK "):
            return None
        b = bytes.fromhex(line[3:]) if line[3:] != "-" else b""
        entry = {"Dns": "Dns", "RR": "RR", "Flags": "Flags"}.get(w[1])
        if entry is None:
            return None
        r = R.ref_decode(entry, b)
        fl = find_nodes(t, 'F', [])
        if fl and fl[0][1][8] >= 16 and r[0] == "OK":
            # KF4: only the flag word differs: rcode OR-ed into the octet
            rc = fl[0][1][8]
            exp = subst_node(R.fold_names(t), 'F', lambda f: ('F', f[1][:7] + [f[1][7] | ((rc >> 4) & 1), rc & 15]))
            if R.unparse(exp) == R.canon_fold(r[1]):
                return "KF4"
        if r[0] == "REJECT" and "GPOS empty string" in r[1]:
            for rr in find_nodes(t, 'RR', []):
                if rr[1][0] == 27 and any(f[1] == "" for f in rr[1][4][1]):
                    return "KF5"
        privs = [p_ for p_ in find_nodes(t, 'PRIV', []) if p_[1][0] in (0, 1, 2, 3, 4, 5, 6, 65535)]
        if privs:
            return "KF6"
        for sv in find_nodes(t, 'SVCB', []):
            if sv[1][0] == 0 and sv[1][2][1] and r[0] == "OK":
                exp = subst_node(R.fold_names(t), 'SVCB', lambda x: ('SVCB', [x[1][0], x[1][1], ('L', [])]) if x[1][0] == 0 else x)
                if R.unparse(exp) == R.canon_fold(r[1]):
                    return "KF7"
        return None

    def rule(self):
        return ("E cases beyond the wire limits: character strings of 0,1,250..261,300 octets in every string position (HINFO, TXT, "
                "X25, CAA tag, ISDN sa, alpn id), opaque RDATA / padding / SvcParam / ECH bodies of 65,520..70,000 octets, messages "
                "of 16 KiB..131 KB made of NULL records, two maximal TXT records, sections of 65,536 / 65,537 / 70,000 entries, "
                "the four known-finding classes, random valid values; on Ok the output is re-read by the reference decoder; every "
                "case non-trivial; distinct by text")

    def assumptions(self):
        return ["sections of exactly 65,535 entries are exercised only in the thorough tier with 13,000 entries (the list-append model makes 65,535 take minutes); the count check itself is proved (C08_counts_exact)"]


# =================================================================================== C15

def opt_rr(cls, ttl, rdata, owner=b"\x00"):
    return rr_wire(41, cls, ttl, rdata, owner)


class C15(Prop):
    pid = "C15"

    def streams(self, tier, rng):
        d = []
        for k in range(4):
            for v in range(256):
                d.append(S.d("RR", opt_rr(1232, v << (8 * k), b"")))
        for cls in (0, 1, 511, 512, 1232, 4096, 65535):
            d.append(S.d("RR", opt_rr(cls, 0, b"")))
        d.append(S.d("RR", opt_rr(512, 0, b"", owner=b"\x01a\x00")))
        opt = lambda code, body, ln=None: struct.pack(">HH", code, len(body) if ln is None else ln) + body
        for n in range(0, 65):
            d.append(S.d("RR", opt_rr(512, 0, opt(10, bytes(range(n))))))
            d.append(S.d("RR", opt_rr(512, 0, opt(12, bytes(n)))))
            d.append(S.d("RR", opt_rr(512, 0, opt(12, bytes(n)[:-1] + b"\x01" if n else b""))))
        d.append(S.d("RR", opt_rr(512, 0, opt(12, bytes(65531)))))
        d.append(S.d("RR", opt_rr(512, 0, opt(12, bytes(65530) + b"\x07"))))
        # padding with SEVERAL non-zero octets, chosen so that they cancel under xor / sum / and: a check that folds the
        # octets instead of looking at each one lets them through
        vals = (0x00, 0x01, 0x02, 0x03, 0x80, 0x7f, 0xfe, 0xff)
        for a_ in vals:
            for b_ in vals:
                d.append(S.d("RR", opt_rr(512, 0, opt(12, bytes([a_, b_])))))
                d.append(S.d("RR", opt_rr(512, 0, opt(12, bytes([a_, 0, b_])))))
        for pad in (b"\x01\x02\x03", b"\x00\xff\x00\x00\xff\x00", b"\x80\x80", b"\xff\x01", b"\x55\xaa", b"\x0f\xf0\xff",
                    b"\x01" * 256, b"\x02" * 128, bytes(range(256)), b"\x80" * 2 + bytes(30)):
            d.append(S.d("RR", opt_rr(512, 0, opt(12, pad))))
        for fam, size in ((1, 4), (2, 16), (0, 4), (3, 4)):
            for k in range(0, size + 2):
                for src, scope in ((0, 0), (8 * k, 0), (0, 8 * k), (8 * k + 1, 0), (8 * size, 0), (8 * size + 1, 0), (7, 9)):
                    if src < 256 and scope < 256:
                        for fill in (0x00, 0xFF, 0x80):
                            d.append(S.d("RR", opt_rr(512, 0, opt(8, struct.pack(">HBB", fam, src, scope) + bytes([fill] * k)))))
        bodies = [opt(10, bytes(8)), opt(12, b""), opt(8, struct.pack(">HBB", 1, 0, 0)), opt(12, bytes(3)), opt(10, bytes(24))]
        for k in (1, 2, 3, 4):
            for combo in itertools.product(range(len(bodies) if k < 4 else 3), repeat=k):
                d.append(S.d("RR", opt_rr(512, 0, b"".join(bodies[i] for i in combo))))
        for delta in (-2, -1, 1, 2, 255, 256):
            for b_ in bodies:
                code, ln = struct.unpack(">HH", b_[:4])
                d.append(S.d("RR", opt_rr(512, 0, struct.pack(">HH", code, (ln + delta) & 0xFFFF) + b_[4:])))
        for code in (0, 1, 7, 9, 11, 13, 65535):
            d.append(S.d("RR", opt_rr(512, 0, opt(code, b""))))
        e = []
        for _ in range(400 if tier == "quick" else 4000):
            opts = [G.rnd_option(rng) for _ in range(rng.choice([0, 1, 2, 4]))]
            e.append("E RR " + G.canon(('RR', 41, ('N', []), 0, 0, ('OPT', G.rnd_u(rng, 16), G.rnd_u(rng, 8), G.rnd_u(rng, 8), rng.random() < 0.5, opts))))
        for n in (None, 8, 9, 31, 32):
            sv = None if n is None else bytes(range(n))
            e.append("E RR " + G.canon(('RR', 41, ('N', []), 0, 0, ('OPT', 512, 0, 0, False, [('COOKIE', bytes(8), ('O', sv))]))))
        for n in (0, 1, 64, 65531):
            e.append("E RR " + G.canon(('RR', 41, ('N', []), 0, 0, ('OPT', 512, 0, 0, True, [('PAD', n)]))))
        return [("decode-opt", d), ("encode-opt", e)]

    def view(self, case, line):
        if case.startswith("D "):
            dd = parse_d(line)
            if dd["status"] != "OK":
                return dd["status"]
            return "OK %s reenc=%s" % (dd["canon"], dd["reenc"])
        return line

    def oracle(self, case, line):
        if line.startswith("PANIC"):
            return "implementation panicked: " + line[:200]
        if case.startswith("D "):
            dd = parse_d(line)
            e, w = case_wire(case)
            r = R.ref_decode(e, w)
            if dd["status"] == "OK":
                if r[0] != "OK":
                    return "OPT record accepted outside the RFC value domain (%s)" % r[1]
                if r[1] != dd["canon"]:
                    return "OPT fields differ from the RFC 6891 layout: library %s reference %s" % (dd["canon"][:300], r[1][:300])
                if dd["reenc"].startswith("ERR") or dd["d2"] != "same":
                    return "accepted OPT record is not emitted so that it decodes to the same record: reenc=%s d2=%s" % (dd["reenc"][:100], dd["d2"][:200])
            elif dd["status"] == "ERR" and r[0] == "OK":
                return "OPT record inside the RFC value domain rejected: %s (reference: %s)" % (dd["err"], r[1][:300])
            return None
        return encode_oracle(case, line, expect_ok=True)

    def rule(self):
        return ("D RR / E RR cases on OPT records: TTL words by independent octets (4 x 256, complete), payload sizes at boundaries, "
                "non-root owner, cookie lengths 0..=64, padding lengths 0..=64 with and without a non-zero octet and 65,531, ECS for "
                "families 0..3 x address octet counts 0..size+1 x prefix pairs x fill octets, all sequences of <= 3 of five option "
                "bodies and <= 4 of three, option-length deltas, unsupported option codes; encode of random option lists and "
                "boundary cookies/paddings; verdict and value compared with the reference decoder in BOTH directions; every case "
                "non-trivial; distinct by text")


# =================================================================================== C16

def svcb_rr(t, prio, target, params_wire, cls=1):
    return rr_wire(t, cls, 300, struct.pack(">H", prio) + target + params_wire)


class C16(Prop):
    pid = "C16"

    def streams(self, tier, rng):
        par = lambda k, v, ln=None: struct.pack(">HH", k, len(v) if ln is None else ln) + v
        vals = {0: b"\x00\x01\x00\x04", 1: b"\x02h2\x02h3", 2: b"", 3: b"\x01\xbb", 4: bytes([192, 0, 2, 1]), 5: b"\x00\x03abc",
                6: bytes(16), 7: b"opaque", 65534: b"", 65535: b""}
        d = []
        keys = list(vals)
        pool = [0, 1, 3, 4, 7, 65535]
        for k in (1, 2, 3):
            for combo in itertools.product(pool, repeat=k):
                for t in (64, 65):
                    d.append(S.d("RR", svcb_rr(t, 1, b"\x00", b"".join(par(x, vals[x]) for x in combo))))
        for combo in itertools.product([1, 3, 7], repeat=4):
            d.append(S.d("RR", svcb_rr(64, 1, b"\x00", b"".join(par(x, vals[x]) for x in combo))))
        for x in keys:
            v = vals[x]
            for delta in (-2, -1, 1, 2, 3, 4, 15, 16, 17):
                n = len(v) + delta
                if n >= 0:
                    body = (v + bytes(40))[:n]
                    d.append(S.d("RR", svcb_rr(64, 1, b"\x00", par(x, body))))
                d.append(S.d("RR", svcb_rr(64, 1, b"\x00", par(x, v, (len(v) + delta) & 0xFFFF))))
        for bad in (b"\x80", b"\xff", b"caf\xc3", b"\xc3\x28", b"\xed\xa0\x80"):
            stb = lambda b: bytes([len(b)]) + b
            d.append(S.d("RR", svcb_rr(64, 1, b"\x00", par(1, stb(b"h2") + stb(bad)))))
            d.append(S.d("RR", svcb_rr(65, 1, b"\x00", par(1, stb(bad)))))
            d.append(S.d("RR", svcb_rr(64, 1, b"\x00", par(1, stb((bad * 85)[:255])))))
        d.append(S.d("RR", svcb_rr(64, 1, b"\x00", par(5, b"\x00\x04abc"))))
        d.append(S.d("RR", svcb_rr(64, 1, b"\x00", par(1, b"\x05h2"))))
        d.append(S.d("RR", svcb_rr(64, 1, b"\x00", par(0, b"\x00\x04\x00\x01"))))
        for prio in (0, 1, 65535):
            for t in (64, 65):
                d.append(S.d("RR", svcb_rr(t, prio, b"\x03foo\x00", b"")))
                d.append(S.d("RR", svcb_rr(t, prio, b"\x03foo\x00", par(3, b"\x00\x50"))))
        for cls in (0, 2, 3, 4, 255):
            d.append(S.d("RR", svcb_rr(64, 1, b"\x00", b"", cls=cls)))
        e = []
        for _ in range(600 if tier == "quick" else 6000):
            names = []
            e.append("E RR " + G.canon(G.rnd_rr(rng, names, rng.choice(["SVCB", "HTTPS"]))))
        for keys_ in ([4, 1], [6, 5, 4, 3, 1], [1, 1], [65535, 0], []):
            e.append("E RR " + G.canon(('RR', 64, ('N', [b"a"]), 1, 1, ('SVCB', 1, ('N', []), [('MAND', *keys_), ('PORT', 1)]))))
        # every order (and duplication) of the listed mandatory keys: all sequences of <= 4 (thorough: <= 5) keys
        alpha, maxlen = ((1, 3, 4, 6), 4) if tier != "thorough" else ((1, 2, 3, 4, 5, 6), 5)
        for n in range(2, maxlen + 1):
            for keys_ in itertools.product(alpha, repeat=n):
                byk = {1: ('ALPN', b"h2"), 2: ('NODEF',), 3: ('PORT', 443), 4: ('V4', bytes([192, 0, 2, 1])), 5: ('ECH', b"x"),
                       6: ('V6', bytes(15) + b"\x01")}
                ps = [('MAND', *keys_)] + [byk[k] for k in sorted(set(keys_))]
                e.append("E RR " + G.canon(('RR', 64 + (n & 1), ('N', [b"a"]), 1, 1, ('SVCB', 1, ('N', []), ps))))
        for n in (0, 1, 255, 300):
            e.append("E RR " + G.canon(('RR', 65, ('N', [b"a"]), 1, 1, ('SVCB', 2, ('N', [b"t"]), [('ECH', bytes(n)), ('PRIV', 7, bytes(n)), ('PRIV', 65534, b"")]))))
        e.append("E RR " + G.canon(('RR', 64, ('N', [b"a"]), 1, 1, ('SVCB', 0, ('N', [b"alias"]), []))))
        return [("decode-svcb", d), ("encode-svcb", e)]

    def view(self, case, line):
        if case.startswith("D "):
            dd = parse_d(line)
            if dd["status"] != "OK":
                return dd["status"]
            return "OK %s reenc=%s" % (dd["canon"], dd["reenc"])
        return line

    def check_emitted(self, b):
        r = R.ref_decode("RR", b)
        if r[0] != "OK":
            return "emitted record is not well-formed: " + r[1]
        ks = r[2].param_keys
        if any(x >= y for x, y in zip(ks, ks[1:])):
            return "emitted SvcParam keys are not strictly increasing: %s" % ks
        for mn in find_nodes(R.parse_canon(r[1]), 'MAND', []):
            if mn[1] != sorted(mn[1]):
                return "emitted mandatory key list is not sorted: %s" % mn[1]
        return None

    def oracle(self, case, line):
        if line.startswith("PANIC"):
            return "implementation panicked: " + line[:200]
        if case.startswith("D "):
            dd = parse_d(line)
            e, w = case_wire(case)
            r = R.ref_decode(e, w)
            if dd["status"] == "OK":
                if r[0] != "OK":
                    return "SVCB/HTTPS record accepted although malformed (%s)" % r[1]
                if r[1] != dd["canon"]:
                    return "parameter values differ from the wire: library %s reference %s" % (dd["canon"][:300], r[1][:300])
                if not dd["reenc"].startswith("ERR"):
                    return self.check_emitted(bytes.fromhex(dd["reenc"]))
            elif dd["status"] == "ERR" and r[0] == "OK":
                return "well-formed SVCB/HTTPS record rejected: %s" % dd["err"]
            return None
        o = encode_oracle(case, line, expect_ok=True)
        if o is None and line.startswith("OK "):
            return self.check_emitted(bytes.fromhex(line[3:]))
        return o

    def rule(self):
        return ("D RR / E RR cases on SVCB and HTTPS: every wire sequence of <= 3 parameters over six kinds (incl. duplicates and "
                "unsorted orders) for both types, all 4-sequences over three kinds, for each of the ten keys the value length "
                "changed by -2..+17 both in the body and in the length field, ECH/alpn inner-length mismatches, priorities 0/1/65535 "
                "with and without parameters, every class value; encode of random parameter sets, unsorted / duplicated mandatory "
                "lists, ECH and opaque values of 0..300 octets, alias form; verdict and values compared with the reference decoder "
                "in both directions, emitted key order and mandatory order checked on the wire; every case non-trivial")


# =================================================================================== C17

class C17(Prop):
    pid = "C17"

    def patterns(self, size, full):
        pats = [bytes(size), bytes([255] * size)]
        bits = range(8 * size) if full else list(range(0, 8 * size, 5)) + [7, 8, 8 * size - 1]
        for b in bits:
            pats.append((1 << (8 * size - 1 - b)).to_bytes(size, "big"))
        for p in (range(8 * size + 1) if full else list(range(0, 8 * size + 1, 7)) + [8, 24, 8 * size]):
            pats.append((((1 << p) - 1) << (8 * size - p)).to_bytes(size, "big"))
        return pats

    def streams(self, tier, rng):
        full = tier == "thorough"
        d, e = [], []
        for fam, size in ((1, 4), (2, 16)):
            pats = self.patterns(size, full or fam == 1)
            prefixes = range(256) if (full or fam == 1) else list(range(0, 135)) + [200, 255]
            for a in pats:
                for p in prefixes:
                    ks = range(0, size + 2) if (full or p % 8 == 0 or p < 34) else (0, size)
                    for k in ks:
                        body = (a + b"\x00")[:k]
                        neg = (p + k) & 1
                        d.append(S.d("RR", rr_wire(42, 1, 0, struct.pack(">HBB", fam, p, k | (0x80 if neg else 0)) + body)))
                    if p <= 8 * size and int.from_bytes(a, "big") & ((1 << (8 * size - p)) - 1) == 0:
                        e.append("E RR " + G.canon(('RR', 42, ('N', []), 1, 0, ('APL', [('I', fam, p, bool(p & 1), a)]))))
                for src, scope in ((0, 0), (8, 0), (24, 0), (24, 25), (25, 24), (0, 24), (8 * size, 0), (8 * size - 1, 8 * size), (7, 9), (16, 17)):
                    if max(src, scope) <= 8 * size and int.from_bytes(a, "big") & ((1 << (8 * size - max(src, scope))) - 1) == 0:
                        e.append("E RR " + G.canon(('RR', 41, ('N', []), 0, 0, ('OPT', 512, 0, 0, False, [('ECS', fam, src, scope, a)]))))
                    for k in (0, size // 2, size, size + 1):
                        d.append(S.d("RR", opt_rr(512, 0, struct.pack(">HHHBB", 8, 4 + k, fam, src, scope) + (a + b"\x00")[:k])))
        return [("decode-grid", d), ("encode-grid", e)]

    def view(self, case, line):
        if case.startswith("D "):
            dd = parse_d(line)
            if dd["status"] != "OK":
                return dd["status"]
            return "OK %s reenc=%s" % (dd["canon"], dd["reenc"])
        return line

    def oracle(self, case, line):
        if line.startswith("PANIC"):
            return "implementation panicked: " + line[:200]
        if case.startswith("D "):
            dd = parse_d(line)
            e, w = case_wire(case)
            r = R.ref_decode(e, w)
            if dd["status"] == "OK":
                if r[0] != "OK":
                    return "address-prefix item accepted although the RFC form forbids it (%s)" % r[1]
                if r[1] != dd["canon"]:
                    return "family/prefix/negation/address differ from the wire: library %s reference %s" % (dd["canon"][:200], r[1][:200])
            elif dd["status"] == "ERR" and r[0] == "OK":
                return "RFC-conformant address-prefix form rejected: %s" % dd["err"]
            return None
        o = encode_oracle(case, line, expect_ok=True)
        if o is not None:
            return o
        r = R.ref_decode("RR", bytes.fromhex(line[3:]))
        for kind, fam, p, cnt, raw in r[2].addr_counts:
            if kind == "ECS":
                want = (p[0] + 7) // 8
                if cnt != want:
                    return "ECS address emitted with %d octets, RFC 7871 mandates ceil(%d/8) = %d" % (cnt, p[0], want)
            else:
                if cnt and raw[cnt - 1] == 0:
                    return "APL address emitted with trailing zero octets (%d octets: %s)" % (cnt, raw.hex())
        return None

    def known(self, case, line, failure):
        if not (case.startswith("E ") and line.startswith("OK ")):
            return None
        r = R.ref_decode("RR", bytes.fromhex(line[3:]))
        if r[0] != "OK":
            return None
        for kind, fam, p, cnt, raw in r[2].addr_counts:
            # KF2 (narrowed by the repair of the address writer): an ECS value whose address has a non-zero octet
            # beyond ceil(source/8) -- possible only with scope > source -- is written up to that octet
            if kind == "ECS" and "RFC 7871" in failure and p[1] > p[0] and cnt > (p[0] + 7) // 8 and raw[cnt - 1] != 0:
                return "KF2"
        return None

    def rule(self):
        return ("the grid of the property: both families x prefixes 0..=255 (IPv6 quick: 0..134, 200, 255) x {zero, all-ones, "
                "single-bit, prefix-mask addresses} x address octet counts 0..=size+1 x negation for APL items (D RR), ECS with ten "
                "(source, scope) pairs x octet counts, and E RR for every consistent (address, prefix) of the grid; complete for "
                "IPv4 in the quick tier and for both families in the thorough tier; verdict/value vs the reference decoder in both "
                "directions; emitted octet count vs the RFC count; every case non-trivial")

    def exhaustive(self, tier):
        return tier == "thorough"


# =================================================================================== C18

POST1035 = {17: "RP", 18: "AFSDB", 21: "RT", 26: "PX", 33: "SRV", 36: "KX", 39: "DNAME", 107: "LP", 64: "SVCB", 65: "SVCB"}


class C18(Prop):
    pid = "C18"

    def streams(self, tier, rng):
        base = [b"example", b"org"]
        out = []
        fmt = {17: lambda n: [('N', n), ('N', [b"t"] + n)], 18: lambda n: [1, ('N', n)], 21: lambda n: [10, ('N', n)],
               26: lambda n: [10, ('N', n), ('N', [b"x"] + n)], 33: lambda n: [1, 2, 3, ('N', n)], 36: lambda n: [10, ('N', n)],
               39: lambda n: [('N', n)], 107: lambda n: [10, ('N', n)],
               2: lambda n: [('N', n)], 5: lambda n: [('N', n)], 15: lambda n: [10, ('N', n)], 6: lambda n: [('N', n), ('N', [b"h"] + n), 1, 2, 3, 4, 5],
               12: lambda n: [('N', n)], 14: lambda n: [('N', n), ('N', n)], 3: lambda n: [('N', n)], 4: lambda n: [('N', n)],
               7: lambda n: [('N', n)], 8: lambda n: [('N', n)], 9: lambda n: [('N', n)]}

        def rr(t, owner, n):
            if t in (64, 65):
                return ('RR', t, ('N', owner), 1, 60, ('SVCB', 1, ('N', n), [('PORT', 443)]))
            return ('RR', t, ('N', owner), 1, 60, ('G', fmt[t](n)))
        F = ('F', 1, 0, 0, 0, 0, 0, 0, 0, 0)
        for t in sorted(set(POST1035) | set(fmt)):
            for overlap in (1, 2, 3):
                suffix = ([b"deep"] + base)[-overlap:] if overlap < 3 else [b"deep"] + base
                target = [b"host"] + suffix
                # earlier name: question / owner of the same record / owner of an earlier record / RDATA of an earlier NS record
                out.append(("E Dns " + G.canon(('Dns', 1, F, [('Q', ('N', [b"deep"] + base), 1, 1)], [rr(t, [b"other"], target)], [], [])), t))
                out.append(("E Dns " + G.canon(('Dns', 1, F, [], [rr(t, [b"deep"] + base, target)], [], [])), t))
                out.append(("E Dns " + G.canon(('Dns', 1, F, [], [('RR', 1, ('N', [b"deep"] + base), 1, 1, ('G', [1])), rr(t, [b"zz"], target)], [], [])), t))
                out.append(("E Dns " + G.canon(('Dns', 1, F, [], [('RR', 2, ('N', [b"q"]), 1, 1, ('G', [('N', [b"deep"] + base)])), rr(t, [b"zz"], target)], [], [])), t))
                out.append(("E Dns " + G.canon(('Dns', 1, F, [], [rr(t, [b"aa"], target), rr(t, [b"bb"], target)], [], [])), t))
        self.types = {c: t for c, t in out}
        return [("rdata-names-after-earlier-names", [c for c, _ in out])]

    def rdata_pointer(self, line):
        """first (type, position) of a compression pointer inside an RDATA name of a post-RFC-1035 type"""
        r = R.ref_decode("Dns", bytes.fromhex(line[3:]))
        if r[0] != "OK":
            return ("malformed", r[1])
        for nm in r[2].names:
            if nm["where"].startswith("rdata:"):
                t = int(nm["where"][6:])
                if t in POST1035 and any(nm["start"] <= pos < nm["end"] for pos, _ in nm["ptrs"]):
                    return (t, nm["start"])
        return None

    def oracle(self, case, line):
        if line.startswith("PANIC"):
            return "implementation panicked: " + line[:200]
        if not line.startswith("OK "):
            return "legal message failed to encode: " + line[:200]
        o = encode_oracle(case, line, expect_ok=True)
        if o:
            return o
        rp = self.rdata_pointer(line)
        if rp is None:
            return None
        if rp[0] == "malformed":
            return "output not well-formed: " + rp[1]
        return "RDATA name of type %d (%s) at offset %d is emitted with a compression pointer" % (rp[0], POST1035[rp[0]], rp[1])

    def known(self, case, line, failure):
        if "is emitted with a compression pointer" not in failure or not line.startswith("OK "):
            return None
        rp = self.rdata_pointer(line)
        if rp and rp[0] in POST1035:
            return "KF1-" + POST1035[rp[0]]
        return None

    def nontrivial(self, case, line):
        return True

    def rule(self):
        return ("E Dns cases: for each of the nine post-RFC-1035 types with an RDATA name (RP, AFSDB, RT, PX, SRV, KX, DNAME, LP, "
                "SVCB/HTTPS) and the RFC 1035 types that may compress, a record whose RDATA name shares a suffix of 1..3 labels with "
                "an earlier name in each earlier-name position (question, own owner, owner of an earlier record, RDATA of an earlier "
                "record, RDATA of an earlier record of the same type); pointer positions from the reference decoder's trace on the "
                "implementation's bytes; byte-exact vs the model; every case non-trivial")
