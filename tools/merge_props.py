#!/usr/bin/env python3
"""merge_props.py <src Props file> <dst Props file> <title>: append the theorems/examples of src to dst
(imports merged at the top; clashing Definition/Example names get a suffix)."""
import re, sys
src = open(sys.argv[1]).read()
dst = open(sys.argv[2]).read()
title = sys.argv[3]
imps = re.findall(r"(?ms)^((?:From \S+ )?Require Import.*?\.)\s*$", src)
body = src
for i in imps:
    body = body.replace(i, "")
body = "\n".join(l for l in body.split("\n") if not l.startswith("Local Open Scope") and not l.startswith("Ltac Zify"))
suffix = "_" + re.sub(r"\W", "", title.split()[0]).lower()
for nm in set(re.findall(r"(?m)^(?:Definition|Example|Fixpoint|Lemma|Let)\s+(\w+)", body)):
    if re.search(r"(?m)^(?:Definition|Example|Fixpoint|Lemma|Theorem|Let)\s+" + nm + r"\b", dst):
        body = re.sub(r"\b" + nm + r"\b", nm + suffix, body)
        print("renamed", nm)
m = re.search(r"(?ms)^((?:From \S+ )?Require Import.*?\.)\s*$", dst)
dst = dst[:m.start()] + "\n".join(imps) + "\n" + dst[m.start():]
dst = dst.rstrip() + "\n\n(* " + "-" * 90 + "\n   " + title + " *)\n" + body.strip() + "\n"
open(sys.argv[2], "w").write(dst)
