#!/usr/bin/env python3
"""Apply every seeded change in turn to $VERIF_REPO (default /repo), run every claimed check (quick) and
record which checks raise which alarm; revert after each.  usage: matrix.py [seeded-id ...]"""
import json
import os
import re
import subprocess
import sys

VERIF = os.path.dirname(os.path.dirname(os.path.abspath(__file__)))
REPO = os.environ.get("VERIF_REPO", "/repo")


def claimed():
    return [c["property_id"] for c in json.load(open(os.path.join(VERIF, "MANIFEST.json")))["checks"]]


def run_check(pid):
    p = subprocess.run([sys.executable, os.path.join(VERIF, "tools", "check.py"), pid], cwd=VERIF,
                       stdout=subprocess.PIPE, stderr=subprocess.STDOUT, timeout=3000)
    out = p.stdout.decode("utf-8", "replace")
    v = [l for l in out.splitlines() if l.startswith("VIOLATION")]
    kind = "-"
    if v:
        kind = "input" if "no-failing-input-found" not in v[0] else "no-input"
        m = re.search(r"replay=(\S+)", v[0])
        if m:
            try:
                r = json.load(open(os.path.join(VERIF, m.group(1))))
                kind += ":" + r.get("kind", "?")
            except Exception:
                pass
    return p.returncode, kind


def run_all(pids):
    """all claimed checks; MATRIX_JOBS of them at a time (builds are serialised by the checks' own lock)"""
    jobs = int(os.environ.get("MATRIX_JOBS", "1"))
    if jobs <= 1:
        return {pid: run_check(pid) for pid in pids}
    from concurrent.futures import ThreadPoolExecutor
    with ThreadPoolExecutor(jobs) as ex:
        return dict(zip(pids, ex.map(run_check, pids)))


def main():
    ids = sys.argv[1:] or sorted(os.listdir(os.path.join(VERIF, "seeded")))
    pids = claimed()
    res = {}
    base = {}
    base = {} if os.environ.get("MATRIX_OWN_ONLY") else run_all(pids)
    res["unchanged"] = base
    print("unchanged", base, flush=True)
    for sid in ids:
        d = os.path.join(VERIF, "seeded", sid)
        if not os.path.exists(os.path.join(d, "patch.diff")):
            continue
        meta = json.load(open(os.path.join(d, "meta.json")))
        if subprocess.run(["git", "-C", REPO, "apply", os.path.join(d, "patch.diff")]).returncode != 0:
            res[sid] = "patch does not apply"
            continue
        row = {}
        try:
            own = [p for p in pids if p == meta["property"][:3]]
            row = run_all(own if (os.environ.get("MATRIX_OWN_ONLY") and own) else pids)
        finally:
            subprocess.run(["git", "-C", REPO, "checkout", "--", "."])
        res[sid] = {"target": meta["property"], "checks": row}
        print(sid, meta["property"], {k: v for k, v in row.items() if v[0] != 0}, flush=True)
        json.dump(res, open(os.path.join(VERIF, "matrix_out.json"), "w"), indent=1)
    json.dump(res, open(os.path.join(VERIF, "matrix_out.json"), "w"), indent=1)


if __name__ == "__main__":
    main()
