#!/bin/bash
# run the seeded-change matrix inside a `vp run --with-repo` snapshot (or in place when VP_RUN_REPO is unset)
set -e
cd "$(dirname "$0")/.."
if [ -n "$VP_RUN_REPO" ]; then
  export VERIF_REPO="$VP_RUN_REPO"
  sed -i "s#path = \"/repo\"#path = \"$VP_RUN_REPO\"#" harness/Cargo.toml
fi
export MATRIX_JOBS=${MATRIX_JOBS:-3}
python3 tools/check.py --setup
python3 tools/matrix.py "$@"
cat matrix_out.json
