#!/usr/bin/env python3
"""Per-property check.  usage:  check.py <Cxx> [--tier quick|thorough] [--replay file]
                                 check.py --setup

Steps (DESIGN.md section 5): translator -> Coq obligations of Props/<Cxx>.v (+ Print Assumptions
audit) -> build harness (from /repo's working tree, hook cfg on) and extracted model driver ->
generate the property's case streams -> run both -> compare under the property's view -> evaluate the
property oracle on the implementation's outputs -> known findings -> evidence -> verdict."""
import argparse
import json
import os
import random
import shutil
import sys
import time

sys.path.insert(0, os.path.dirname(os.path.abspath(__file__)))
import common as C   # noqa: E402
import propdefs      # noqa: E402


def write_replay(pid, payload):
    os.makedirs(C.REPLAY, exist_ok=True)
    n = 1
    while os.path.exists(os.path.join(C.REPLAY, "%s-%d.json" % (pid, n))):
        n += 1
    path = os.path.join(C.REPLAY, "%s-%d.json" % (pid, n))
    with open(path, "w") as f:
        json.dump(payload, f, indent=1)
    return os.path.relpath(path, C.VERIF)


def run_cases(P, streams, workdir, have_model):
    cases = []
    index = []
    for name, cs in streams:
        for c in cs:
            cases.append(c)
            index.append(name)
    impl = C.run_sharded(C.HARNESS_BIN, cases, "impl", workdir, timeout=P.timeout)
    model = C.run_sharded(have_model, cases, "model", workdir, timeout=P.timeout) if have_model else [None] * len(cases)
    return cases, index, impl, model


def analyse(P, cases, index, impl, model):
    """returns dict with oracle failures, known hits, disagreements, histograms"""
    fails, known, disagree, runner = [], {}, [], []
    model_timeout = []
    hist = {}
    nontrivial = set()
    for i, c in enumerate(cases):
        il = impl[i]
        ml = model[i]
        st = hist.setdefault(index[i], {"n": 0, "outcomes": {}})
        st["n"] += 1
        oc = P.outcome(c, il)
        st["outcomes"][oc] = st["outcomes"].get(oc, 0) + 1
        if il.startswith("ABORT"):
            fails.append((i, "the implementation's process died or hung on this case: " + il[:200]))
            continue
        if il.startswith("RUNNER-FAIL") or il.startswith("BAD-CASE") or il.startswith("BUILD-ERR"):
            runner.append((i, il))
            continue
        if P.nontrivial(c, il):
            nontrivial.add(C.sha(c))
        o = P.oracle(c, il)
        if o is not None:
            kf = P.known(c, il, o)
            if kf:
                known.setdefault(kf, []).append(i)
            else:
                fails.append((i, o))
        if ml is not None:
            if ml.startswith("RUNNER-FAIL rc=124"):
                # the MODEL runner ran out of time (a busy machine): no comparison for this case -- the implementation's
                # line has been judged by the oracle above; counted in the evidence, not an alarm
                model_timeout.append(i)
            elif ml.startswith("RUNNER-FAIL") or ml.startswith("BAD-CASE") or ml.startswith("BUILD-ERR"):
                runner.append((i, "model: " + ml))
            elif not P.agree(c, il, ml):
                if not P.known_disagreement(c, il, ml):
                    disagree.append(i)
    for i, o in P.cross(cases, impl):
        kf = P.known(cases[i], impl[i], o)
        if kf:
            known.setdefault(kf, []).append(i)
        else:
            fails.append((i, o))
    return {"fails": fails, "known": known, "disagree": disagree, "runner": runner, "hist": hist,
            "nontrivial": len(nontrivial), "model_timeout": len(model_timeout)}


def smallest(idxs, cases):
    return min(idxs, key=lambda i: len(cases[i]))


def main():
    ap = argparse.ArgumentParser()
    ap.add_argument("pid", nargs="?")
    ap.add_argument("--tier", default=os.environ.get("VERIF_TIER", "quick"))
    ap.add_argument("--replay")
    ap.add_argument("--setup", action="store_true")
    ap.add_argument("--no-proof", action="store_true", help="debug: skip the Coq obligations")
    a = ap.parse_args()
    seed = int(os.environ.get("VERIF_SEED", "1") or 1)

    if a.setup:
        return setup()
    pid = a.pid
    P = propdefs.get(pid)
    tier = "thorough" if a.tier == "thorough" else "quick"
    t0 = time.time()
    workdir = os.path.join(C.WORK, pid)
    shutil.rmtree(workdir, ignore_errors=True)
    os.makedirs(workdir, exist_ok=True)

    # ---- build (exclusive)
    with C.BuildLock():
        tr_ok, tr_log = C.run_translator()
        audit = C.source_audit()
        if a.no_proof:
            pb = {"ok": True, "log": "", "theorems": C.parse_props_file(pid), "assumptions": {}, "wall": 0}
        else:
            pb = C.build_props_cone(pid)
        drv_ok, drv_log = C.build_driver()
        h_ok, h_log = C.build_harness()
        model_bin = None
        if drv_ok:
            # private copy: another check may rebuild the driver while we run
            model_bin = os.path.join(workdir, "driver")
            shutil.copy(C.DRIVER_BIN, model_bin)
        elif os.path.exists(C.DRIVER_BASE):
            model_bin = os.path.join(workdir, "driver")
            shutil.copy(C.DRIVER_BASE, model_bin)
        impl_bin = os.path.join(workdir, "harness")
        if h_ok:
            shutil.copy(C.HARNESS_BIN, impl_bin)
    if not h_ok:
        print("ERROR: the harness does not build against /repo's working tree")
        print(h_log[-3000:])
        return 2
    C.HARNESS_BIN = impl_bin

    if a.replay:
        return replay(P, a.replay, model_bin)

    # ---- obligations
    theorems = pb["theorems"]
    obligations = len(theorems)
    bad_axioms = {}
    discharged = 0
    if pb["ok"]:
        for t in theorems:
            ax = pb["assumptions"].get(t)
            if ax is None:
                bad_axioms[t] = ["<no Print Assumptions output>"]
            elif [x for x in ax if x not in C.ALLOWED_AXIOMS]:
                bad_axioms[t] = ax
            else:
                discharged += 1
    chk = None
    if tier == "thorough" and pb["ok"] and not a.no_proof and pb.get("mode") in ("full build", None):
        with C.BuildLock():
            chk_ok, chk = C.run_coqchk(pid)
        if not chk_ok:
            bad_axioms["coqchk"] = [str(chk)]
    proof_ok = pb["ok"] and not bad_axioms and not audit and tr_ok and obligations > 0

    # ---- correspondence + oracle
    rng = random.Random(seed)
    streams = P.streams(tier, rng)
    cases, index, impl, model = run_cases(P, streams, workdir, model_bin)
    res = analyse(P, cases, index, impl, model)
    searched = False
    degraded = pb.get("degraded") or []
    if (not proof_ok or res["disagree"] or degraded) and not res["fails"] and tier == "quick":
        # search for a concrete failing input with the thorough streams + targeted neighbourhood
        searched = True
        extra = P.streams("search", random.Random(seed + 1))
        extra.append(("neighbourhood", P.neighbourhood([cases[i] for i in res["disagree"][:20]], rng)))
        c2, i2, im2, mo2 = run_cases(P, extra, workdir, model_bin)
        r2 = analyse(P, c2, i2, im2, mo2)
        if r2["fails"] or (degraded and (r2["disagree"] or r2["runner"])):
            base = len(cases)
            cases += c2
            index += i2
            impl += im2
            model += mo2
            res["fails"] += [(base + i, o) for i, o in r2["fails"]]
            res["disagree"] += [base + i for i in r2["disagree"]]
            res["runner"] += [(base + i, w) for i, w in r2["runner"]]
        elif degraded:
            # the extra scrutiny agreed everywhere: count it in the evidence
            res["searched_cases"] = len(c2)

    # ---- known findings: the recorded witnesses must still fail in the recorded way
    kf_lines = []
    for kf in P.known_findings():
        out = C.run_sharded(C.HARNESS_BIN, [kf["case"]], "kf", workdir)[0]
        o = P.oracle(kf["case"], out)
        if o is not None and P.known(kf["case"], out, o) == kf["id"]:
            kf_lines.append("KNOWN-FINDING: property=%s %s: %s" % (pid, kf["id"], kf["what"]))
    for l in kf_lines:
        print(l)

    # ---- verdict
    violations = []
    if res["fails"]:
        i = smallest([i for i, _ in res["fails"]], cases)
        msg = dict(res["fails"])[i]
        path = write_replay(pid, {"property": pid, "kind": "oracle", "case": cases[i], "stream": index[i],
                                  "impl_output": impl[i], "model_output": model[i], "oracle": msg,
                                  "seed": seed, "tier": tier,
                                  "proof_ok": proof_ok, "broken_obligation": pb.get("failing"),
                                  "other_failures": len(res["fails"]) - 1})
        violations.append("VIOLATION property=%s replay=%s" % (pid, path))
    elif not proof_ok:
        why = {"kind": "proof", "property": pid, "broken_obligation": pb.get("failing"), "error": pb.get("error"),
               "translator_ok": tr_ok, "audit": audit, "unexpected_axioms": bad_axioms,
               "searched_thorough_streams": searched, "seed": seed,
               "note": "no concrete failing input found; the theorem above is no longer checked"}
        if obligations == 0:
            why["error"] = "no theorems found in Props/%s.v" % pid
        path = write_replay(pid, why)
        violations.append("VIOLATION property=%s replay=%s no-failing-input-found" % (pid, path))
    elif res["disagree"]:
        i = smallest(res["disagree"], cases)
        path = write_replay(pid, {"property": pid, "kind": "correspondence", "case": cases[i], "stream": index[i],
                                  "impl_output": impl[i], "model_output": model[i],
                                  "impl_view": P.view(cases[i], impl[i]), "model_view": P.view(cases[i], model[i]),
                                  "disagreements": len(res["disagree"]), "seed": seed, "tier": tier,
                                  "note": "model and implementation differ inside this property's view; "
                                          "the property oracle holds on every explored input"})
        violations.append("VIOLATION property=%s replay=%s no-failing-input-found" % (pid, path))
    if res["runner"] and not violations:
        i, why = res["runner"][0]
        path = write_replay(pid, {"property": pid, "kind": "runner", "case": cases[i], "output": why,
                                  "count": len(res["runner"])})
        violations.append("VIOLATION property=%s replay=%s no-failing-input-found" % (pid, path))
    if model_bin is None and not violations:
        path = write_replay(pid, {"property": pid, "kind": "model-build", "log": drv_log[-2000:]})
        violations.append("VIOLATION property=%s replay=%s no-failing-input-found" % (pid, path))

    # ---- evidence
    samples = []
    seen = set()
    for i, c in enumerate(cases):
        if index[i] not in seen:
            seen.add(index[i])
            samples.append({"stream": index[i], "case": c[:400], "impl": impl[i][:400]})
    ev = {
        "property_id": pid, "tier": tier, "seed": seed, "level": "proof",
        "coverage": {
            "obligations": max(obligations, 1), "discharged": discharged,
            "theorems": theorems,
            "checker_cmd": "make -C coq Props/%s.vo  (coqc 8.16.1, full .vo build; Print Assumptions under every theorem)%s"
                           % (pid, "; coqchk -silent -o DNS.Props.%s" % pid if chk else ""),
            "trusted_base": P.trusted_base(),
            "assumptions_printed": {t: ("Closed under the global context" if ax == [] else ax)
                                    for t, ax in pb.get("assumptions", {}).items()},
            "evaluations": len(cases), "distinct_nontrivial": res["nontrivial"],
            "rule": P.rule(),
            "streams": res["hist"],
            "traces_validated_against_impl": sum(1 for m in model if m is not None) - res.get("model_timeout", 0),
            "cases_without_model_output_because_the_model_runner_ran_out_of_time": res.get("model_timeout", 0),
            "disagreements": len(res["disagree"]),
            "known_finding_hits": {k: len(v) for k, v in res["known"].items()},
            "samples": samples[:12],
            "exhaustive": P.exhaustive(tier),
            "coq_wall_s": round(pb.get("wall", 0), 1),
            "proof_mode": pb.get("mode"),
            "translator_tie_lost_for": degraded,
            "search_stream_cases_run_because_of_that": res.get("searched_cases", 0),
            "coqchk": chk,
            "generated_definitions_in_dependency_cone": (pb.get("cone") or {}).get("deps"),
            "generated_definitions_differing_from_baseline": (pb.get("cone") or {}).get("changed", []),
        },
        "assumptions": P.assumptions(),
        "wall_s": round(time.time() - t0, 2),
        "violations": len(violations),
    }
    os.makedirs(C.EVID, exist_ok=True)
    with open(os.path.join(C.EVID, pid + ".json"), "w") as f:
        json.dump(ev, f, indent=1)
    shutil.rmtree(workdir, ignore_errors=True)

    for v in violations:
        print(v)
    print("%s %s: obligations %d/%d, cases %d (non-trivial %d), disagreements %d, oracle failures %d, known %d, %.1fs"
          % (pid, tier, discharged, obligations, len(cases), res["nontrivial"], len(res["disagree"]),
             len(res["fails"]), sum(len(v) for v in res["known"].values()), time.time() - t0))
    return 1 if violations else 0


def replay(P, path, model_bin):
    r = json.load(open(path))
    if "case" not in r:
        print("replay file names a broken obligation, not an input: %s" % r.get("broken_obligation"))
        print(json.dumps(r, indent=1)[:3000])
        return 1
    workdir = os.path.join(C.WORK, P.pid + "-replay")
    out = C.run_sharded(C.HARNESS_BIN, [r["case"]], "impl", workdir)[0]
    mo = C.run_sharded(model_bin, [r["case"]], "model", workdir)[0] if model_bin else None
    shutil.rmtree(workdir, ignore_errors=True)
    print("case:  " + r["case"][:2000])
    print("impl:  " + out[:2000])
    print("model: " + str(mo)[:2000])
    o = P.oracle(r["case"], out)
    print("oracle: " + ("holds" if o is None else o))
    dis = mo is not None and not P.agree(r["case"], out, mo)
    print("correspondence: " + ("DISAGREE" if dis else "agree"))
    if o is not None or dis:
        print("VIOLATION property=%s replay=%s" % (P.pid, path))
        return 1
    return 0


def setup():
    t0 = time.time()
    with C.BuildLock():
        ok, log = C.run_translator()
        print(log.strip())
        C.ensure_makefile()
        rc, log = C.coq_make([])
        print(log[-1500:])
        if rc != 0:
            print("setup: Coq build failed")
            return 1
        for fn in sorted(os.listdir(os.path.join(C.COQ, "Props"))):
            if fn.endswith(".v"):
                pid = fn[:-2]
                pb = C.build_props(pid)
                if pb["ok"] and not C.gen_status()["changed"]:
                    C.record_proved(pid, pb)
        ok, log = C.build_driver()
        if not ok:
            print(log[-3000:])
            return 1
        shutil.copy(C.DRIVER_BIN, C.DRIVER_BASE)
        print("baseline build saved" if C.save_baseline_build() else "baseline build not saved")
        ok, log = C.build_harness()
        if not ok:
            print(log[-3000:])
            return 1
    print("setup done in %.0fs" % (time.time() - t0))
    return 0


if __name__ == "__main__":
    sys.exit(main())
