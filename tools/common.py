#!/usr/bin/env python3
"""Shared machinery of the checks: building (translator, Coq, extraction, OCaml driver, Rust harness)
and running the two runners over case files.  Everything lives under /verif; nothing under /tmp."""
import fcntl
import hashlib
import json
import os
import re
import shutil
import subprocess
import sys
import time

VERIF = os.path.dirname(os.path.dirname(os.path.abspath(__file__)))
REPO = os.environ.get("VERIF_REPO", "/repo")
COQ = os.path.join(VERIF, "coq")
OCAML = os.path.join(VERIF, "ocaml")
HARNESS = os.path.join(VERIF, "harness")
WORK = os.path.join(VERIF, "work")
REPLAY = os.path.join(VERIF, "replay")
EVID = os.path.join(VERIF, "evidence")
HARNESS_BIN = os.path.join(HARNESS, "target", "debug", "harness")
DRIVER_BIN = os.path.join(OCAML, "driver")
DRIVER_BASE = os.path.join(OCAML, "driver.base")
NPROC = min(16, os.cpu_count() or 4)

ENV = dict(os.environ)
ENV.update({"CARGO_NET_OFFLINE": "true", "LC_ALL": "C"})

ALLOWED_AXIOMS = set()   # every property theorem is expected to be closed under the global context

FORBIDDEN = re.compile(r"\b(Admitted|admit|Axiom|Parameter|Conjecture|Unset\s+Guard|bypass_check|"
                       r"type-in-type|impredicative-set|Admit\s+Obligations)\b")


def sh(cmd, cwd=None, timeout=None, env=None):
    """run, return (rc, combined output)"""
    try:
        p = subprocess.run(cmd, cwd=cwd, env=env or ENV, stdout=subprocess.PIPE, stderr=subprocess.STDOUT,
                           timeout=timeout, shell=isinstance(cmd, str))
        return p.returncode, p.stdout.decode("utf-8", "replace")
    except subprocess.TimeoutExpired as e:
        out = (e.stdout or b"").decode("utf-8", "replace")
        return 124, out + "\n[timeout after %ss]" % timeout


class BuildLock:
    def __enter__(self):
        self.f = open(os.path.join(VERIF, ".build.lock"), "w")
        fcntl.flock(self.f, fcntl.LOCK_EX)
        return self

    def __exit__(self, *a):
        fcntl.flock(self.f, fcntl.LOCK_UN)
        self.f.close()


def strip_coq_comments(s):
    out = []
    depth = 0
    i = 0
    while i < len(s):
        if s.startswith("(*", i):
            depth += 1
            i += 2
        elif s.startswith("*)", i) and depth > 0:
            depth -= 1
            i += 2
        else:
            if depth == 0:
                out.append(s[i])
            i += 1
    return "".join(out)


def source_audit():
    """grep the development for forbidden constructs (outside comments)"""
    bad = []
    for dp, _, fns in os.walk(COQ):
        for fn in fns:
            if fn.endswith(".v"):
                p = os.path.join(dp, fn)
                txt = strip_coq_comments(open(p, encoding="utf-8").read())
                for m in FORBIDDEN.finditer(txt):
                    bad.append("%s: %s" % (os.path.relpath(p, VERIF), m.group(0)))
    proj = open(os.path.join(COQ, "_CoqProject")).read()
    for w in ("type-in-type", "impredicative-set", "-vos", "-vok"):
        if w in proj:
            bad.append("_CoqProject: " + w)
    return bad


BASELINE_BUILD = os.path.join(WORK, "baseline_build")
_RSYNC_FILTER = ["--include=*/", "--include=*.vo", "--include=*.vos", "--include=*.vok", "--include=*.glob", "--include=.*.aux",
                 "--include=Gen/*.v", "--include=Gen/status.json", "--include=/model.ml", "--include=/model.mli",
                 "--exclude=*"]


def save_baseline_build():
    """after a complete build of the unchanged tree (setup): keep a copy of every compiled file, of the generated
    sources they were compiled from and of the extracted model, with their time stamps.  When a later run finds the
    generated files equal to the baseline again (a changed source was reverted), restore_baseline_build() puts that
    build back instead of recompiling everything that depends on the regenerated files."""
    st = gen_status()
    if st["changed"] or st["underived"]:
        return False
    os.makedirs(BASELINE_BUILD, exist_ok=True)
    rc, out = sh(["rsync", "-a", "--delete"] + _RSYNC_FILTER + [COQ + "/", BASELINE_BUILD + "/"], timeout=600)
    if rc != 0:
        shutil.rmtree(BASELINE_BUILD, ignore_errors=True)
        return False
    with open(os.path.join(BASELINE_BUILD, "STAMP"), "w") as f:
        f.write(sources_hash())
    return True


def restore_baseline_build():
    """see save_baseline_build(); only when the generated files are the baseline ones, the hand-written sources are
    those of the saved build, and some generated file was rewritten since (its time stamp differs from the saved one)"""
    stamp = os.path.join(BASELINE_BUILD, "STAMP")
    try:
        if open(stamp).read() != sources_hash():
            return False
    except FileNotFoundError:
        return False
    st = gen_status()
    if st["changed"] or st["underived"]:
        return False
    stale = False
    gdir = os.path.join(BASELINE_BUILD, "Gen")
    for fn in os.listdir(gdir):
        if not fn.endswith(".v"):
            continue
        a, b = os.path.join(gdir, fn), os.path.join(COQ, "Gen", fn)
        try:
            if open(a, "rb").read() != open(b, "rb").read():
                return False
            if int(os.stat(a).st_mtime) != int(os.stat(b).st_mtime):
                stale = True
        except FileNotFoundError:
            return False
    if not stale:
        return False
    rc, out = sh(["rsync", "-a"] + _RSYNC_FILTER + [BASELINE_BUILD + "/", COQ + "/"], timeout=600)
    return rc == 0


def run_translator():
    rc, out = sh([sys.executable, os.path.join(VERIF, "tools", "gen_tables.py")], timeout=120)
    if rc == 0:
        try:
            if restore_baseline_build():
                out += "\nbaseline build restored (generated files equal the baseline again)"
        except Exception as ex:       # the cache is an optimisation only
            out += "\nbaseline build not restored: %s" % ex
    return rc == 0, out


def ensure_makefile():
    mk = os.path.join(COQ, "Makefile")
    proj = os.path.join(COQ, "_CoqProject")
    if not os.path.exists(mk) or os.path.getmtime(mk) < os.path.getmtime(proj):
        sh("coq_makefile -f _CoqProject -o Makefile", cwd=COQ, timeout=120)


def coq_make(targets, timeout=3000):
    ensure_makefile()
    return sh(["make", "-j%d" % NPROC] + targets, cwd=COQ, timeout=timeout)


def parse_props_file(pid):
    """names of Theorems in Props/<pid>.v and the statement text of each"""
    p = os.path.join(COQ, "Props", pid + ".v")
    if not os.path.exists(p):
        return []
    txt = strip_coq_comments(open(p, encoding="utf-8").read())
    return re.findall(r"\bTheorem\s+(\w+)", txt)


def parse_assumptions(log, theorems):
    """Print Assumptions output blocks, in order of the theorems of the file"""
    blocks = []
    cur = None
    for line in log.splitlines():
        if line.startswith("Closed under the global context"):
            blocks.append([])
            cur = None
        elif line.startswith("Axioms:"):
            cur = []
            blocks.append(cur)
        elif cur is not None:
            m = re.match(r"^(\S+)\s*:", line)
            if m:
                cur.append(m.group(1))
            elif line.strip() == "" or not line.startswith(" "):
                if not re.match(r"^\s", line) and line.strip():
                    cur = None
    res = {}
    for i, t in enumerate(theorems):
        res[t] = blocks[i] if i < len(blocks) else None
    return res


def build_props(pid):
    """(re)compile Props/<pid>.vo; returns dict with ok, log, theorems, assumptions, failing"""
    tgt = "Props/%s.vo" % pid
    vo = os.path.join(COQ, tgt)
    if os.path.exists(vo):
        os.remove(vo)           # force Print Assumptions to run again
    t0 = time.time()
    rc, log = coq_make([tgt])
    theorems = parse_props_file(pid)
    res = {"ok": rc == 0, "log": log, "theorems": theorems, "wall": time.time() - t0,
           "assumptions": {}, "failing": None}
    if rc == 0:
        res["assumptions"] = parse_assumptions(log, theorems)
    else:
        m = re.search(r'File "\./([^"]+)", line (\d+)', log)
        res["failing"] = "%s:%s" % (m.group(1), m.group(2)) if m else "unknown"
        em = re.search(r"Error:(.*?)(?:\n\n|\Z)", log, re.S)
        res["error"] = em.group(1).strip()[:600] if em else log[-600:]
    return res


GEN_FILES = ("Consts", "Tables", "Audit", "Formats")


def sources_hash():
    """hash of every hand-written Coq source (everything except coq/Gen) and the project file"""
    h = hashlib.sha256()
    for dp, dn, fns in sorted(os.walk(COQ)):
        dn.sort()
        if os.path.basename(dp) == "Gen":
            continue
        for fn in sorted(fns):
            if fn.endswith(".v") or fn == "_CoqProject":
                h.update(fn.encode())
                h.update(open(os.path.join(dp, fn), "rb").read())
    return h.hexdigest()[:20]


def gen_status():
    p = os.path.join(COQ, "Gen", "status.json")
    if os.path.exists(p):
        return json.load(open(p))
    return {"underived": [], "changed": []}


def theorem_deps(pid, theorems):
    """names of the generated definitions (coq/Gen) in the transitive dependency cone of the theorems of
    Props/<pid>.v, computed by the dpdgraph plugin on the compiled development"""
    if not theorems:
        return []
    wd = os.path.join(WORK, "deps")
    os.makedirs(wd, exist_ok=True)
    names = set()
    for t in theorems:
        dpd = os.path.join(wd, "%s_%s.dpd" % (pid, t))
        vf = os.path.join(wd, "Deps_%s_%s.v" % (pid, t))
        with open(vf, "w") as f:
            f.write("From DNS Require Import Props.%s.\nFrom dpdgraph Require Import dpdgraph.\n"
                    "Set DependGraph File \"%s\".\nPrint DependGraph %s.\n" % (pid, dpd, t))
        rc, out = sh(["coqc", "-Q", COQ, "DNS", vf], cwd=wd, timeout=900)
        if rc != 0 or not os.path.exists(dpd):
            return None
        for line in open(dpd, encoding="utf-8", errors="replace"):
            if line.startswith("N:"):
                m = re.match(r'N: \d+ "([^"]+)" \[.*path="([^"]*)"', line)
                if m and m.group(2).split(".")[-1] in GEN_FILES:
                    names.add(m.group(1))
    shutil.rmtree(wd, ignore_errors=True)
    return sorted(names)


PROVED = os.path.join(COQ, "proved.json")


def load_proved():
    if os.path.exists(PROVED):
        try:
            return json.load(open(PROVED))
        except Exception:
            pass
    return {}


def record_proved(pid, pb):
    """remember a successful build of Props/<pid>.v on the baseline tables: theorems, assumptions, the
    dependency cone on generated definitions, keyed by the hash of the hand-written sources"""
    d = load_proved()
    deps = theorem_deps(pid, pb["theorems"])
    if deps is None:
        return
    d[pid] = {"srchash": sources_hash(), "theorems": pb["theorems"], "assumptions": pb["assumptions"], "deps": deps}
    with open(PROVED, "w") as f:
        json.dump(d, f, indent=1)


def build_props_cone(pid):
    """obligations of a property under the CURRENT generated tables.
    - no generated definition differs from the baseline: ordinary (incremental) build of Props/<pid>.vo;
    - some differ but none lies in the dependency cone of this property's theorems (dpdgraph): the theorems
      and their proofs do not mention what changed, so the recorded baseline build stands (no rebuild);
    - a definition of the cone changed value: rebuild against the new tables (a broken proof is a broken obligation);
    - a definition of the cone could not be re-derived from the source (the translator does not understand a
      rewrite): its BASELINE definition stays in the model, the theorems about that model stand, and the tie of
      that definition to the code is the correspondence check of this run, extended by the search streams
      ("degraded" tie; reported in the evidence).  A behavioural difference then shows as a disagreement."""
    st = gen_status()
    changed = set(st["changed"])
    rec = load_proved().get(pid)
    if changed and rec and rec["srchash"] == sources_hash():
        hit = sorted(changed & set(rec["deps"]))
        if not hit:
            return {"ok": True, "log": "", "theorems": rec["theorems"], "assumptions": rec["assumptions"], "wall": 0,
                    "failing": None, "cone": {"deps": len(rec["deps"]), "changed": sorted(changed), "hit": []},
                    "mode": "dependency cone unaffected: recorded baseline build stands"}
        under = sorted(set(st["underived"]) & set(rec["deps"]))
        if under and not (set(hit) - set(under)):
            # every affected definition of the cone is one the translator could not re-derive: the model keeps its
            # BASELINE definition (it then is a hand-written part of the model), the theorems proved about it stand,
            # and its tie to the code on this run is the correspondence check, which gets the search streams too
            return {"ok": True, "log": "", "theorems": rec["theorems"], "assumptions": rec["assumptions"], "wall": 0,
                    "failing": None, "degraded": under,
                    "cone": {"deps": len(rec["deps"]), "changed": sorted(changed), "hit": hit},
                    "mode": "translator tie lost for %s (baseline definitions kept); recorded baseline build stands, "
                            "tie by correspondence incl. search streams" % ", ".join(under)}
        pb = build_props(pid)
        pb["cone"] = {"deps": len(rec["deps"]), "changed": sorted(changed), "hit": hit}
        pb["mode"] = "cone hit: rebuilt against the regenerated tables"
        if under:
            pb["degraded"] = under
            pb["mode"] += "; translator tie lost for %s (baseline definitions kept)" % ", ".join(under)
        return pb
    pb = build_props(pid)
    pb["mode"] = "full build"
    if pb["ok"] and not changed and (rec is None or rec["srchash"] != sources_hash() or rec.get("theorems") != pb["theorems"]):
        record_proved(pid, pb)
    rec = load_proved().get(pid)
    if pb["ok"] and changed:
        # no valid baseline record (the hand-written sources changed since setup): compute the cone now
        deps = theorem_deps(pid, pb["theorems"]) or []
        under = sorted(set(st["underived"]) & set(deps))
        pb["cone"] = {"deps": len(deps), "changed": sorted(changed), "hit": sorted(changed & set(deps))}
        if under:
            pb["degraded"] = under
            pb["mode"] = ("rebuilt; translator tie lost for %s (baseline definitions kept), tie by correspondence incl. "
                          "search streams" % ", ".join(under))
    elif rec:
        pb["cone"] = {"deps": len(rec["deps"]), "changed": sorted(changed), "hit": sorted(changed & set(rec["deps"]))}
    return pb


def run_coqchk(pid, timeout=3000):
    """independent re-check of the compiled closure of Props/<pid>.vo; returns (ok, summary)"""
    rc, out = sh(["coqchk", "-silent", "-o", "-Q", ".", "DNS", "DNS.Props." + pid], cwd=COQ, timeout=timeout)
    summary = {}
    for key in ("Axioms", "Constants/Inductives relying on type-in-type",
                "Constants/Inductives relying on unsafe (co)fixpoints", "Inductives whose positivity is assumed"):
        m = re.search(r"\* " + re.escape(key) + r":\s*(.*?)(?=\n\s*\n|\n\*|\Z)", out, re.S)
        summary[key] = m.group(1).strip() if m else "?"
    ok = rc == 0 and all(v == "<none>" for v in summary.values())
    return ok, summary


def build_driver():
    """extraction + ocamlfind ocamlopt; only when model.ml changed"""
    if not os.path.exists(os.path.join(COQ, "model.ml")):
        for ext in (".vo", ".vos", ".vok", ".glob"):
            try:
                os.remove(os.path.join(COQ, "Extract", "Extract" + ext))
            except FileNotFoundError:
                pass
    rc, log = coq_make(["Extract/Extract.vo"])
    if rc != 0:
        return False, log
    gen = os.path.join(OCAML, "gen")
    os.makedirs(gen, exist_ok=True)
    changed = False
    for fn in ("model.ml", "model.mli"):
        src = os.path.join(COQ, fn)
        dst = os.path.join(gen, fn)
        if not os.path.exists(src):
            return False, "extraction did not produce " + fn
        if not os.path.exists(dst) or open(src, "rb").read() != open(dst, "rb").read():
            shutil.copy(src, dst)
            changed = True
    dsrc = os.path.join(OCAML, "driver.ml")
    ddst = os.path.join(gen, "driver.ml")
    if not os.path.exists(ddst) or open(dsrc, "rb").read() != open(ddst, "rb").read():
        shutil.copy(dsrc, ddst)
        changed = True
    if changed or not os.path.exists(DRIVER_BIN):
        rc, log2 = sh("ocamlfind ocamlopt -w -a -inline 50 -I . model.mli model.ml driver.ml -o ../driver.new",
                      cwd=gen, timeout=600)
        if rc != 0 or not os.path.exists(os.path.join(OCAML, "driver.new")):
            return False, log + log2
        os.replace(os.path.join(OCAML, "driver.new"), DRIVER_BIN)
    return True, log


def build_harness():
    lock_src = os.path.join(REPO, "Cargo.lock")
    rc, log = sh(["cargo", "build", "--offline"], cwd=HARNESS, timeout=1800)
    return rc == 0 and os.path.exists(HARNESS_BIN), log


# ---------------------------------------------------------------------------------- runners

def _run_one(binary, cases, cf, of, timeout):
    with open(cf, "w") as f:
        f.write("\n".join(cases) + "\n")
    if os.path.exists(of):
        os.remove(of)
    try:
        p = subprocess.run([binary, cf, of], stdout=subprocess.DEVNULL, stderr=subprocess.PIPE, env=ENV, timeout=timeout)
        rc, err = p.returncode, p.stderr
    except subprocess.TimeoutExpired:
        rc, err = 124, b"timeout"
    lines = open(of).read().split("\n") if os.path.exists(of) else []
    if lines:
        lines.pop()              # "" after the final newline, or an incomplete line of a killed runner
    return rc, err, lines


def _isolate(binary, cases, cf, of, timeout, depth=0):
    """a runner died (abort, stack overflow, kill) or hung on this list of cases: find the case(s)
    responsible by bisection and give them an ABORT line; every other case gets its ordinary output"""
    if not cases:
        return []
    rc, err, lines = _run_one(binary, cases, cf, of, timeout)
    if rc == 0 and len(lines) == len(cases):
        return lines
    if len(cases) == 1:
        why = "timeout" if rc == 124 else "exit status %s" % rc
        return ["ABORT %s %s" % (why, err.decode("utf-8", "replace")[-160:].replace("\n", " "))]
    if depth > 24:
        return ["RUNNER-FAIL rc=%s" % rc] * len(cases)
    # the cases before the crash point have output already: keep it, isolate in the rest
    done = lines[:len(cases)] if rc != 124 else []
    k = len(done)
    if k >= len(cases):
        k = len(cases) - 1
        done = done[:k]
    rest = cases[k:]
    first = _isolate(binary, rest[:1], cf, of, timeout, depth + 1)
    return done + first + _isolate(binary, rest[1:], cf, of, timeout, depth + 1)


STALL_IMPL = int(os.environ.get("VERIF_STALL", "120"))      # seconds without a new output line before a running implementation runner counts as hung


def _read_lines(of):
    try:
        lines = open(of, errors="replace").read().split("\n")
    except FileNotFoundError:
        return []
    if lines:
        lines.pop()              # "" after the final newline, or an incomplete last line of a killed runner
    return lines


def run_sharded(binary, cases, tag, workdir, timeout=1800, stall=None):
    """run `binary` over `cases` (list of lines) split into NPROC shards; returns list of output lines (same length).
    Both runners write one line per case and flush it.  When a runner process dies (abort, stack overflow, kill) the
    case it was working on -- the one after the last complete line -- gets an `ABORT ...` line and the rest of the shard
    is run again.  The IMPLEMENTATION runner is also watched for stalls: no new line for `stall` seconds (default
    STALL_IMPL) while the process is alive = a hang on that case (ABORT timeout).  When the overall budget `timeout`
    runs out the unfinished cases get `RUNNER-FAIL rc=124 timeout` (a busy machine, not a verdict)."""
    n = len(cases)
    if n == 0:
        return []
    os.makedirs(workdir, exist_ok=True)
    is_impl = os.path.abspath(binary) == os.path.abspath(HARNESS_BIN)
    if stall is None and is_impl:
        stall = STALL_IMPL
    nshard = min(NPROC, max(1, n // 50)) if n >= 100 else 1
    # interleave so that heavy cases spread over the shards
    shards = [cases[i::nshard] for i in range(nshard)]
    deadline = time.time() + timeout

    def start(st):
        with open(st["cf"], "w") as f:
            f.write("\n".join(st["rest"]) + "\n")
        if os.path.exists(st["of"]):
            os.remove(st["of"])
        st["p"] = subprocess.Popen([binary, st["cf"], st["of"]], stdout=subprocess.DEVNULL, stderr=subprocess.PIPE, env=ENV)
        st["size"] = 0
        st["grown"] = time.time()

    sts = []
    for i, sc in enumerate(shards):
        st = {"cf": os.path.join(workdir, "%s.%d.cases" % (tag, i)), "of": os.path.join(workdir, "%s.%d.out" % (tag, i)),
              "rest": list(sc), "out": [], "k": len(sc), "restarts": 0, "done": False}
        start(st)
        sts.append(st)

    def finish(st, why):
        """the process is gone (exited, died, or was killed for `why`): keep its complete lines; if cases are left,
        blame the next one and run the remainder again"""
        try:
            err = st["p"].stderr.read() if st["p"].stderr else b""
        except Exception:
            err = b""
        lines = _read_lines(st["of"])[:len(st["rest"])]
        st["out"] += lines
        left = st["rest"][len(lines):]
        if not left:
            st["done"] = True
            return
        if why == "budget":
            st["out"] += ["RUNNER-FAIL rc=124 timeout"] * len(left)
            st["done"] = True
            return
        if why is None:
            why = "exit status %s" % st["p"].returncode
        st["out"].append("ABORT %s %s" % (why, err.decode("utf-8", "replace")[-160:].replace("\n", " ")))
        st["rest"] = left[1:]
        st["restarts"] += 1
        if not st["rest"]:
            st["done"] = True
        elif st["restarts"] > 40:
            st["out"] += ["RUNNER-FAIL rc=%s after 40 restarts" % st["p"].returncode] * len(st["rest"])
            st["done"] = True
        else:
            start(st)

    while not all(st["done"] for st in sts):
        now = time.time()
        for st in sts:
            if st["done"]:
                continue
            rc = st["p"].poll()
            if rc is not None:
                finish(st, None)
                continue
            try:
                size = os.path.getsize(st["of"])
            except OSError:
                size = 0
            if size != st["size"]:
                st["size"], st["grown"] = size, now
            if now > deadline:
                st["p"].kill()
                st["p"].wait()
                finish(st, "budget")
            elif stall is not None and now - st["grown"] > stall:
                st["p"].kill()
                st["p"].wait()
                finish(st, "timeout")
        time.sleep(0.2)
    res = [None] * n
    for i, st in enumerate(sts):
        out = st["out"][:st["k"]]
        out += ["RUNNER-FAIL rc=1 missing output"] * (st["k"] - len(out))
        res[i::nshard] = out
    return res


FUZZ = os.path.join(VERIF, "fuzz")


def fuzz_inputs(seconds, workdir, seeds):
    """coverage-guided search (cargo-fuzz / libFuzzer on the nightly toolchain) over all decode entry points;
    returns (crash inputs, corpus inputs, log tail).  A support for the search for failing inputs, never a proof."""
    corpus = os.path.join(workdir, "fuzzcorpus")
    art = os.path.join(workdir, "fuzzart")
    shutil.rmtree(corpus, ignore_errors=True)
    shutil.rmtree(art, ignore_errors=True)
    os.makedirs(corpus)
    os.makedirs(art)
    for v in seeds:
        with open(os.path.join(corpus, hashlib.sha1(v).hexdigest()), "wb") as f:
            f.write(v)
    lock = os.path.join(REPO, "Cargo.lock")
    if os.path.exists(lock) and not os.path.exists(os.path.join(FUZZ, "Cargo.lock")):
        shutil.copy(lock, os.path.join(FUZZ, "Cargo.lock"))
    toml = os.path.join(FUZZ, "Cargo.toml")
    txt = open(toml).read()
    want = 'dns-message-parser = { path = "%s" }' % REPO
    new = re.sub(r'dns-message-parser = \{ path = "[^"]*" \}', want, txt)
    if new != txt:
        open(toml, "w").write(new)
    rc, out = sh(["cargo", "+nightly", "fuzz", "build", "--fuzz-dir", FUZZ], cwd=FUZZ, timeout=1800)
    if rc != 0:
        return [], [], "fuzz build failed: " + out[-400:]
    rc, out = sh(["cargo", "+nightly", "fuzz", "run", "--fuzz-dir", FUZZ, "decode_all", corpus, "--",
                  "-max_total_time=%d" % seconds, "-max_len=8192", "-jobs=%d" % max(1, NPROC // 2),
                  "-workers=%d" % max(1, NPROC // 2), "-artifact_prefix=" + art + "/"],
                 cwd=workdir, timeout=seconds * 3 + 600)
    crashes = [open(os.path.join(art, f), "rb").read() for f in sorted(os.listdir(art))
               if f.startswith(("crash-", "oom-", "timeout-"))]
    found = [open(os.path.join(corpus, f), "rb").read() for f in sorted(os.listdir(corpus))]
    return crashes, found, out[-300:]


def sha(s):
    return hashlib.sha256(s.encode()).hexdigest()[:16]


def load_known_findings():
    p = os.path.join(VERIF, "known_findings.json")
    if os.path.exists(p):
        return json.load(open(p))
    return {"open": [], "fixed": []}
