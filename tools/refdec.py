#!/usr/bin/env python3
"""Independent reference decoder for the DNS wire grammar (RFC 1035 and the per-type RFCs),
restricted by the library's documented rejection rules.  Written from the RFCs, in a different style
from both the Rust decoder and the Coq model: the message is first *framed* from its counts and
length fields, then every RDATA window is interpreted from a per-type format table.  It produces the
canonical value text of docs/PROTOCOL.md and a layout trace (names, pointers, length fields).

ref_decode(entry, wire) -> ('OK', canon_text, layout) | ('REJECT', reason)
"""

SUPPORTED_CLASS = {1, 2, 3, 4}
QCLASS = {1, 2, 3, 4, 254, 255}
OPCODES = {0, 1, 2, 4, 5, 6}
RCODES = set(range(12)) | set(range(16, 24))
ALGS = {0, 1, 2, 3, 4, 5, 6, 7, 8, 12, 13, 14, 15, 16, 252, 253, 254}
DIGESTS = {0, 1, 2, 3, 4}
# the TYPE registry as far as the library names it
TYPE_CODES = set(list(range(1, 54)) + list(range(55, 66)) + [99, 100, 101, 102, 103, 104, 105, 106, 107, 108, 109,
                 249, 250, 251, 256, 257, 258, 259, 260, 32768, 32769])
QTYPE_CODES = (TYPE_CODES - {41}) | {252, 253, 254, 255}

# RDATA formats: field kinds
FMT = {
    1: ['ip4'], 2: ['name'], 3: ['name'], 4: ['name'], 5: ['name'],
    6: ['name', 'name', 'u32', 'u32', 'u32', 'u32', 'u32'], 7: ['name'], 8: ['name'], 9: ['name'],
    10: ['rest'], 11: ['ip4', 'u8', 'rest'], 12: ['name'], 13: ['str', 'str'], 14: ['name', 'name'],
    15: ['u16', 'name'], 16: ['strs1'], 17: ['name', 'name'], 18: ['afsdb', 'name'], 19: ['digits'],
    20: ['digits', 'opthex'], 21: ['u16', 'name'], 22: ['rest'], 27: ['gpos', 'gpos', 'gpos'],
    29: ['u8', 'u8', 'u8', 'u8', 'u32', 'u32', 'u32'], 26: ['u16', 'name', 'name'], 36: ['u16', 'name'],
    33: ['u16', 'u16', 'u16', 'name'], 28: ['ip6'], 44: ['sshfp_alg', 'sshfp_type', 'rest'], 39: ['name'],
    104: ['u16', 'u64'], 105: ['u16', 'u32'], 106: ['u16', 'u64'], 107: ['u16', 'name'],
    108: ['u8'] * 6, 109: ['u8'] * 8, 256: ['u16', 'u16', 'utf8rest'], 31: ['rest'], 32: ['rest'],
    48: ['dnskeyflags', 'proto3', 'alg', 'rest'], 43: ['u16', 'alg', 'digest', 'rest'],
    257: ['u8', 'tag', 'rest'],
}
IN_ONLY = {1, 11, 28, 42, 64, 65}
POST_1035_NAME_TYPES = {17, 18, 21, 26, 33, 36, 39, 107, 64, 65}


class Reject(Exception):
    pass


def hx(b):
    return "x" + bytes(b).hex()


def is_utf8(b):
    try:
        bytes(b).decode("utf-8")
        return True
    except UnicodeDecodeError:
        return False


class Layout:
    def __init__(self):
        self.names = []      # dict(start, labels, hops, ptrs[(pos,tgt)], where)
        self.lengths = []    # (kind, pos, value, start, end)
        self.label_starts = set()
        self.records = []    # (start, type, rdata_start, rdata_end)
        self.param_keys = []  # SvcParam keys in wire order (all records)
        self.addr_counts = []  # (kind 'ECS'|'APL', family, prefix or (src,scope), octets on the wire, raw octets)


def expand_name(msg, off, lay, where, limit=None):
    """RFC 1035 4.1.4: labels up to a terminator, following at most 17 pointers.  `limit` is the end
    of the window in which the name's own octets (up to and including the first pointer) must lie.
    returns (labels, next offset)"""
    labels = []
    ptrs = []
    pos = off
    end_own = None
    hops = 0
    total = 1
    wend = len(msg) if limit is None else limit
    starts = []
    while True:
        bound = wend if end_own is None else len(msg)
        if pos >= bound:
            raise Reject("name runs out of data")
        l = msg[pos]
        if l == 0:
            pos += 1
            break
        if l >= 192:
            if pos + 1 >= bound:
                raise Reject("truncated pointer")
            tgt = ((l & 63) << 8) | msg[pos + 1]
            hops += 1
            if hops > 17:
                raise Reject("more than 17 pointer hops")
            ptrs.append((pos, tgt))
            if end_own is None:
                end_own = pos + 2
            if tgt in [t for _, t in ptrs[:-1]]:
                raise Reject("pointer loop")
            pos = tgt
            continue
        if l >= 64:
            raise Reject("label type 0x40/0x80")
        if pos + 1 + l > bound:
            raise Reject("label runs out of data")
        lab = msg[pos + 1:pos + 1 + l]
        if not is_utf8(lab):
            raise Reject("label not UTF-8 (library rule)")
        total += l + 1
        if total > 255:
            raise Reject("name longer than 255 octets")
        starts.append(pos)
        labels.append(bytes(lab))
        pos += 1 + l
    if end_own is None:
        end_own = pos
    lay.names.append({"start": off, "labels": labels, "hops": hops, "ptrs": ptrs, "where": where,
                      "end": end_own})
    lay.label_starts.update(starts)
    return labels, end_own


def c_name(labels):
    return "(N" + "".join(" " + hx(l) for l in labels) + ")"


class Win:
    """a window [pos, end) of the message"""
    def __init__(self, msg, pos, end, lay):
        self.msg, self.pos, self.end, self.lay = msg, pos, end, lay

    def take(self, n):
        if self.pos + n > self.end:
            raise Reject("field overruns its window")
        b = self.msg[self.pos:self.pos + n]
        self.pos += n
        return b

    def u(self, n):
        return int.from_bytes(self.take(n), "big")

    def rest(self):
        return self.take(self.end - self.pos)

    def done(self):
        return self.pos == self.end

    def string(self):
        pos = self.pos
        n = self.u(1)
        s = self.take(n)
        self.lay.lengths.append(("str", pos, n, pos + 1, pos + 1 + n))
        if not is_utf8(s):
            raise Reject("character-string not UTF-8 (library rule)")
        return s

    def name(self, where):
        labels, nxt = expand_name(self.msg, self.pos, self.lay, where, self.end)
        self.pos = nxt
        return labels

    def sub(self, n):
        if self.pos + n > self.end:
            raise Reject("length field overruns its window")
        w = Win(self.msg, self.pos, self.pos + n, self.lay)
        self.pos += n
        return w


def prefix_addr(w, fam, prefix, what):
    size = 4 if fam == 1 else 16
    raw = w.rest()
    if len(raw) > size:
        raise Reject(what + ": more address octets than the family has")
    full = bytes(raw) + bytes(size - len(raw))
    if prefix > 8 * size:
        raise Reject(what + ": prefix exceeds family size")
    v = int.from_bytes(full, "big")
    if v & ((1 << (8 * size - prefix)) - 1):
        raise Reject(what + ": address bit beyond the prefix")
    return full


def option(w):
    lay = w.lay
    pos = w.pos
    code = w.u(2)
    n = w.u(2)
    body = w.sub(n)
    lay.lengths.append(("opt", pos + 2, n, pos + 4, pos + 4 + n))
    if code == 8:
        fam = body.u(2)
        if fam not in (1, 2):
            raise Reject("ECS family")
        src = body.u(1)
        scope = body.u(1)
        lay.addr_counts.append(("ECS", fam, (src, scope), body.end - body.pos, bytes(body.msg[body.pos:body.end])))
        a = prefix_addr(body, fam, max(src, scope), "ECS")
        return "(ECS %d %d %d %s)" % (fam, src, scope, hx(a))
    if code == 10:
        if not (n == 8 or 16 <= n <= 40):
            raise Reject("cookie length")
        c = body.take(8)
        s = body.rest()
        return "(COOKIE %s %s)" % (hx(c), "(O)" if n == 8 else "(O %s)" % hx(s))
    if code == 12:
        p = body.rest()
        if any(p):
            raise Reject("padding not zero")
        return "(PAD %d)" % n
    raise Reject("EDNS option code %d not supported" % code)


def svc_param(w):
    lay = w.lay
    pos = w.pos
    key = w.u(2)
    n = w.u(2)
    b = w.sub(n)
    lay.lengths.append(("param", pos + 2, n, pos + 4, pos + 4 + n))
    lay.param_keys.append(key)
    if key == 0:
        ks = []
        while not b.done():
            ks.append(b.u(2))
        return key, "(MAND" + "".join(" %d" % k for k in ks) + ")"
    if key == 1:
        ids = []
        while not b.done():
            ids.append(b.string())
        return key, "(ALPN" + "".join(" " + hx(i) for i in ids) + ")"
    if key == 2:
        if n:
            raise Reject("no-default-alpn with a value")
        return key, "(NODEF)"
    if key == 3:
        p = b.u(2)
        if not b.done():
            raise Reject("port length")
        return key, "(PORT %d)" % p
    if key == 4 or key == 6:
        size = 4 if key == 4 else 16
        hs = []
        while not b.done():
            hs.append(b.take(size))
        return key, "(%s" % ("V4" if key == 4 else "V6") + "".join(" " + hx(h) for h in hs) + ")"
    if key == 5:
        ln = b.u(2)
        cl = b.rest()
        if ln != len(cl):
            raise Reject("ech length prefix")
        return key, "(ECH %s)" % hx(cl)
    if key == 65535:
        if n:
            raise Reject("key 65535 with a value")
        return key, "(K65535)"
    return key, "(PRIV %d %s)" % (key, hx(b.rest()))


def field(w, k, where):
    if k == 'u8':
        return str(w.u(1))
    if k == 'u16':
        return str(w.u(2))
    if k == 'u32' or k == 'ip4':
        return str(w.u(4))
    if k == 'u64':
        return str(w.u(8))
    if k == 'name':
        return c_name(w.name(where))
    if k == 'str':
        return hx(w.string())
    if k == 'rest':
        return hx(w.rest())
    if k == 'utf8rest':
        b = w.rest()
        if not is_utf8(b):
            raise Reject("URI target not UTF-8 (library rule)")
        return hx(b)
    if k == 'ip6':
        return hx(w.take(16))
    if k == 'strs1':
        l = []
        while not w.done():
            l.append(w.string())
        if not l:
            raise Reject("TXT without a string (library rule)")
        return "(L" + "".join(" " + hx(s) for s in l) + ")"
    if k == 'afsdb':
        v = w.u(2)
        if v not in (1, 2):
            raise Reject("AFSDB subtype")
        return str(v)
    if k == 'digits':
        s = w.string()
        if not all(48 <= c <= 57 for c in s):
            raise Reject("digit string")
        return hx(s)
    if k == 'opthex':
        if w.done():
            return "(O)"
        s = w.string()
        if not all(chr(c) in "0123456789abcdefABCDEF" for c in s):
            raise Reject("ISDN subaddress")
        return "(O %s)" % hx(s)
    if k == 'gpos':
        s = w.string()
        if not 1 <= len(s) <= 256:
            raise Reject("GPOS empty string (library rule)")
        return hx(s)
    if k == 'sshfp_alg':
        v = w.u(1)
        if v not in (0, 1, 2):
            raise Reject("SSHFP algorithm")
        return str(v)
    if k == 'sshfp_type':
        v = w.u(1)
        if v not in (0, 1):
            raise Reject("SSHFP fp type")
        return str(v)
    if k == 'alg':
        v = w.u(1)
        if v not in ALGS:
            raise Reject("DNSSEC algorithm")
        return str(v)
    if k == 'digest':
        v = w.u(1)
        if v not in DIGESTS:
            raise Reject("digest type")
        return str(v)
    if k == 'dnskeyflags':
        v = w.u(2)
        if v & 0xFEFE:
            raise Reject("DNSKEY reserved flag bits")
        return str(v)
    if k == 'proto3':
        if w.u(1) != 3:
            raise Reject("DNSKEY protocol")
        return None
    if k == 'tag':
        s = w.string()
        if not s or not all(chr(c).isalnum() and c < 128 for c in s):
            raise Reject("CAA tag")
        return hx(bytes(s).lower())
    raise AssertionError(k)


def record(w, lay):
    start = w.pos
    owner = w.name("owner")
    t = w.u(2)
    cls = w.u(2)
    ttl = w.u(4)
    lpos = w.pos
    rdlen = w.u(2)
    rd = w.sub(rdlen)
    lay.lengths.append(("rdlen", lpos, rdlen, lpos + 2, lpos + 2 + rdlen))
    lay.records.append((start, t, lpos + 2, lpos + 2 + rdlen))
    if t not in TYPE_CODES:
        raise Reject("TYPE %d unknown" % t)
    if t == 41:
        if owner:
            raise Reject("OPT owner not root")
        if ttl & 0x7FFF:
            raise Reject("OPT reserved flag bits")
        opts = []
        while not rd.done():
            opts.append(option(rd))
        data = "(OPT %d %d %d %d (L%s))" % (cls, ttl >> 24, (ttl >> 16) & 255, (ttl >> 15) & 1,
                                           "".join(" " + o for o in opts))
        return "(RR 41 (N) 0 0 %s)" % data, (t, None, None)
    if cls not in SUPPORTED_CLASS:
        raise Reject("CLASS %d not supported" % cls)
    if t in IN_ONLY and cls != 1:
        raise Reject("type %d is IN only" % t)
    if t == 42:
        items = []
        while not rd.done():
            fam = rd.u(2)
            if fam not in (1, 2):
                raise Reject("APL family")
            prefix = rd.u(1)
            apos = rd.pos
            b = rd.u(1)
            body = rd.sub(b & 127)
            lay.lengths.append(("afd", apos, b & 127, apos + 1, apos + 1 + (b & 127)))
            lay.addr_counts.append(("APL", fam, prefix, b & 127, bytes(body.msg[body.pos:body.end])))
            a = prefix_addr(body, fam, prefix, "APL")
            items.append("(I %d %d %d %s)" % (fam, prefix, b >> 7, hx(a)))
        data = "(APL (L%s))" % "".join(" " + i for i in items)
    elif t in (64, 65):
        prio = rd.u(2)
        target = rd.name("rdata:%d" % t)
        params = {}
        if prio == 0:
            if not rd.done():
                raise Reject("alias form with parameters (library rule)")
        while not rd.done():
            k, txt = svc_param(rd)
            if k in params:
                raise Reject("duplicated SvcParam key")
            params[k] = txt
        data = "(SVCB %d %s (L%s))" % (prio, c_name(target), "".join(" " + params[k] for k in sorted(params)))
    elif t in FMT:
        fs = []
        for k in FMT[t]:
            v = field(rd, k, "rdata:%d" % t)
            if v is not None:
                fs.append(v)
        if not rd.done():
            raise Reject("RDATA longer than its fields")
        data = "(G%s)" % "".join(" " + f for f in fs)
    else:
        raise Reject("TYPE %d not implemented by the library" % t)
    return "(RR %d %s %d %d %s)" % (t, c_name(owner), cls, ttl, data), (t, ttl, cls)


def flags(w):
    v = w.u(2)
    opcode = (v >> 11) & 15
    rcode = v & 15
    if opcode not in OPCODES:
        raise Reject("opcode")
    if v & 0x40:
        raise Reject("Z bit")
    if rcode not in RCODES:
        raise Reject("rcode")
    b = lambda i: (v >> i) & 1
    return "(F %d %d %d %d %d %d %d %d %d)" % (b(15), opcode, b(10), b(9), b(8), b(7), b(5), b(4), rcode)


def question(w):
    n = w.name("question")
    t = w.u(2)
    c = w.u(2)
    if t not in QTYPE_CODES:
        raise Reject("QTYPE")
    if c not in QCLASS:
        raise Reject("QCLASS")
    return "(Q %s %d %d)" % (c_name(n), t, c)


def ref_decode(entry, wire):
    msg = bytes(wire)
    lay = Layout()
    w = Win(msg, 0, len(msg), lay)
    try:
        if entry == "Dns":
            if len(msg) < 12:
                raise Reject("shorter than a header")
            if len(msg) > 65536:
                raise Reject("longer than 65536 octets (library rule)")
            id_ = w.u(2)
            f = flags(w)
            counts = [w.u(2) for _ in range(4)]
            lay.counts = counts
            qs = [question(w) for _ in range(counts[0])]
            secs = []
            accs = []
            for k in range(3):
                rs = []
                for _ in range(counts[k + 1]):
                    txt, acc = record(w, lay)
                    rs.append(txt)
                    accs.append(acc)
                secs.append(rs)
            if not w.done():
                raise Reject("octets after the last record")
            L = lambda xs: "(L" + "".join(" " + x for x in xs) + ")"
            lay.accs = accs
            return ("OK", "(Dns %d %s %s %s %s %s)" % (id_, f, L(qs), L(secs[0]), L(secs[1]), L(secs[2])), lay)
        if entry == "Flags":
            return ("OK", flags(w), lay)
        if entry == "Question":
            return ("OK", question(w), lay)
        if entry == "RR":
            txt, acc = record(w, lay)
            lay.accs = [acc]
            return ("OK", txt, lay)
        if entry == "DomainName":
            return ("OK", c_name(w.name("name")), lay)
        if entry in ("Type", "Class", "QType", "QClass"):
            v = w.u(2)
            ok = {"Type": TYPE_CODES, "Class": SUPPORTED_CLASS, "QType": QTYPE_CODES, "QClass": QCLASS}[entry]
            if v not in ok:
                raise Reject("code point")
            return ("OK", str(v), lay)
        raise AssertionError(entry)
    except Reject as e:
        return ("REJECT", str(e))


# ------------------------------------------------------------------ canon text utilities

def parse_canon(s):
    """canon text -> nested python: int | ('x', hexstr) | (TAG, [items])"""
    pos = [0]

    def tree():
        c = s[pos[0]]
        if c == '(':
            pos[0] += 1
            st = pos[0]
            while s[pos[0]] not in " )":
                pos[0] += 1
            tag = s[st:pos[0]]
            items = []
            while True:
                if s[pos[0]] == ')':
                    pos[0] += 1
                    return (tag, items)
                pos[0] += 1
                items.append(tree())
        if c == 'x':
            st = pos[0] + 1
            pos[0] += 1
            while pos[0] < len(s) and s[pos[0]] not in " )":
                pos[0] += 1
            return ('x', s[st:pos[0]])
        st = pos[0]
        while pos[0] < len(s) and s[pos[0]].isdigit():
            pos[0] += 1
        return int(s[st:pos[0]])
    return tree()


def unparse(t):
    if isinstance(t, int):
        return str(t)
    if t[0] == 'x':
        return "x" + t[1]
    return "(" + " ".join([t[0]] + [unparse(i) for i in t[1]]) + ")"


def fold_names(t):
    """ASCII-lower-case every label inside (N ...) nodes; sort the key list of (MAND ...)"""
    if isinstance(t, int) or t[0] == 'x':
        return t
    if t[0] == 'N':
        return ('N', [('x', bytes.fromhex(i[1]).lower().hex()) for i in t[1]])
    if t[0] == 'MAND':
        return ('MAND', sorted(t[1]))
    return (t[0], [fold_names(i) for i in t[1]])


def canon_fold(s):
    return unparse(fold_names(parse_canon(s)))


def uncompressed_size(t):
    """wire size of a canon Dns value without any compression (upper bound for the encoder's output)"""
    def nm(n):
        return 1 + sum(1 + len(i[1]) // 2 for i in n[1])

    def hexlen(x):
        return len(x[1]) // 2

    def fld(v):
        if isinstance(v, int):
            return 8
        if v[0] == 'x':
            return 1 + hexlen(v)
        if v[0] == 'N':
            return nm(v)
        if v[0] == 'PAD':
            return v[1][0] + 4
        return sum(fld(i) for i in v[1]) + 8
    tag, it = t
    if tag == 'Dns':
        return 12 + sum(nm(q[1][0]) + 4 for q in it[2][1]) + sum(uncompressed_size(r) for sec in it[3:6] for r in sec[1])
    if tag == 'RR':
        return nm(it[1]) + 10 + fld(it[4]) + 64
    return 0
