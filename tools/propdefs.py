#!/usr/bin/env python3
"""Registry of the per-property definitions (streams, view, oracle, known-finding classes)."""
import os
import sys

sys.path.insert(0, os.path.dirname(os.path.abspath(__file__)))
from propbase import Prop            # noqa: E402,F401
import props_c11                      # noqa: E402
import props_values                   # noqa: E402
import props_codec                    # noqa: E402

MODULES = [props_c11, props_values, props_codec]
REGISTRY = {}


def get(pid):
    if not REGISTRY:
        for mod in MODULES:
            for k, v in vars(mod).items():
                if isinstance(v, type) and issubclass(v, Prop) and v is not Prop and v.pid:
                    REGISTRY[v.pid] = v
    if pid not in REGISTRY:
        raise SystemExit("unknown property " + str(pid))
    return REGISTRY[pid]()
