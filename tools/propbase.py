#!/usr/bin/env python3
"""Base class of the per-property definitions (streams, view, oracle, known-finding classes)."""
import os
import re
import sys

sys.path.insert(0, os.path.dirname(os.path.abspath(__file__)))
import common as C          # noqa: E402
import gen_cases as G       # noqa: E402

TRUSTED_COMMON = [
    "Coq 8.16.1 kernel (coqc; vm_compute used for finite enumerations and witnesses; native_compute not used); thorough tier: coqchk -o on the closure",
    "axioms: none declared; every property theorem must print 'Closed under the global context'",
    "translator tools/gen_tables.py + tools/gen_formats.py (enum tables, constants, comparison operators, masks, per-type RDATA format tables, source audit re-read from /repo/src on every run; baseline in tools/gen_baseline)",
    "dpdgraph plugin (dependency cone of each theorem on generated definitions)",
    "hand-written Gallina model coq/Model/*.v of src/decode, src/encode and the validated value types; specification files coq/Spec/{Iana,Names,Wire,Render,USize}.v",
    "extraction: ExtrOcamlBasic only (bool, option, unit, list, prod, sumbool, sumor); no Extract Constant; N/positive/nat/string stay extracted inductives",
    "correspondence check: Rust harness (harness/), OCaml driver (ocaml/driver.ml), canonical printers, Python generators and reference renderer, tools/refdec.py (oracle), tools/check.py",
    "rustc/cargo debug profile with overflow checks; Rust's own semantics of integers, slices, Vec, String, HashMap, BTreeSet, bytes::Bytes",
]


def strip_cost(line):
    return re.sub(r" cost=\d+", "", line)


def field(line, key):
    m = re.search(r"(?:^| )" + key + r"=(\S+)", line)
    return m.group(1) if m else None


class Prop:
    pid = None
    timeout = 900

    def streams(self, tier, rng):
        raise NotImplementedError

    def view(self, case, line):
        return line

    panic_neutral = False   # True: a panicking call is outside this property's subject (it is C01's / C08's)

    def agree(self, case, il, ml):
        """do implementation line and model line agree inside this property's view?"""
        if self.panic_neutral and il.startswith("PANIC") and "octet budget exceeded" not in il:
            return True
        return self.view(case, il) == self.view(case, ml)

    def outcome(self, case, line):
        w = line.split(" ")
        if w[0] == "ERR" and len(w) > 1:
            return "ERR " + w[1]
        return w[0][:40]

    def nontrivial(self, case, line):
        return True

    def oracle(self, case, line):
        if line.startswith("PANIC"):
            return "implementation panicked: " + line[:200]
        if line.startswith("ABORT"):
            return "the process died or hung on this case: " + line[:200]
        return None

    def known(self, case, line, failure):
        return None

    def cross(self, cases, impl):
        """cross-case oracle: list of (index, failure message)"""
        return []

    def known_disagreement(self, case, il, ml):
        return False

    def known_findings(self):
        return [k for k in C.load_known_findings().get("open", []) if k["property"] == self.pid]

    def neighbourhood(self, cases, rng):
        out = []
        for c in cases:
            w = c.split(" ")
            if w[0] == "A" and len(w) == 4:
                # expand a disagreeing enumeration case into its 65,536 individual D cases
                pre = "" if w[2] == "-" else w[2]
                out += ["D %s %s%04x" % (w[1], pre, v) for v in range(65536)]
            if w[0] == "D" and len(w) == 3 and w[2] != "-":
                b = bytes.fromhex(w[2])
                for m in G.byte_level(rng, b, 40):
                    out.append("D %s %s" % (w[1], G.hexs(m)))
        return out

    def trusted_base(self):
        return TRUSTED_COMMON

    def assumptions(self):
        return []

    def rule(self):
        return ""

    def exhaustive(self, tier):
        return False


