#!/usr/bin/env python3
"""mutant_table.py <matrix_out.json>...: markdown table of which checks raise which alarm for every seeded change"""
import json, os, sys
VERIF = os.path.dirname(os.path.dirname(os.path.abspath(__file__)))
res = {}
for p in sys.argv[1:]:
    res.update(json.load(open(p)))
rows = []
for sid in sorted(k for k in res if k != "unchanged"):
    r = res[sid]
    if not isinstance(r, dict):
        continue
    meta = json.load(open(os.path.join(VERIF, "seeded", sid, "meta.json")))
    tgt = r["target"]
    inp = sorted(p for p, v in r["checks"].items() if v[0] != 0 and v[1].startswith("input") and p != tgt[:3])
    noi = sorted(p for p, v in r["checks"].items() if v[0] != 0 and not v[1].startswith("input") and p != tgt[:3])
    partial = len(r["checks"]) < 10
    own = r["checks"].get(tgt, [0, "-"])
    ownv = "yes, with input" if own[0] and own[1].startswith("input") else ("yes, no-input" if own[0] else ("n/a" if tgt.startswith("none") else "NO"))
    what = meta["summary"].split(". ")[0][:150].replace("|", "/")
    rows.append("| %s | %s | %s | %s | %s | %s |" % (sid, tgt[:4], what, ownv, "(own check only)" if partial else (" ".join(inp) or "-"),
                                                     "" if partial else (" ".join(noi) or "-")))
print("| change | target | what it does (first sentence of its meta.json) | caught by its own check | other checks with a failing input | checks with `no-failing-input-found` |")
print("|---|---|---|---|---|---|")
print("\n".join(rows))
u = res.get("unchanged")
if u and len(u):
    print("\nUnchanged tree: " + ("no check raises an alarm." if all(v[0] == 0 for v in u.values()) else "ALARMS: %s" % u))
