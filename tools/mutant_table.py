#!/usr/bin/env python3
"""mutant_table.py --full <matrix json>... --own <own-only json>...: markdown table of which checks raise which alarm
for every seeded change.  `full` files hold a row over all checks (cross-property columns), `own` files the result of
the change's own check at a later commit (they take precedence for the 'caught by its own check' column)."""
import json, os, sys
VERIF = os.path.dirname(os.path.dirname(os.path.abspath(__file__)))
full, own = {}, {}
mode = None
for a in sys.argv[1:]:
    if a in ("--full", "--own"):
        mode = a
        continue
    (full if mode == "--full" else own).update(json.load(open(a)))
rows = []
nseed = nown = 0
for sid in sorted(set(full) | set(own), key=lambda s: (s.startswith("benign"), s)):
    if sid == "unchanged":
        continue
    rf, ro = full.get(sid), own.get(sid)
    r = rf if isinstance(rf, dict) else ro
    if not isinstance(r, dict):
        continue
    meta = json.load(open(os.path.join(VERIF, "seeded", sid, "meta.json")))
    tgt = r["target"]
    what = meta["summary"].split(". ")[0][:140].replace("|", "/").replace("\n", " ")
    if sid.startswith("benign"):
        src = ro if isinstance(ro, dict) and len(ro["checks"]) >= 10 else rf
        al = sorted(p for p, v in src["checks"].items() if v[0] != 0) if isinstance(src, dict) else None
        rows.append("| %s | – | %s | n/a | %s | |" % (sid, what, "not run over all checks" if al is None else
                                                   ("no alarm on any of the %d checks" % len(src["checks"]) if not al else
                                                    "alarm (`no-failing-input-found`): " + " ".join(al))))
        continue
    nseed += 1
    t3 = tgt[:3]
    o = None
    if isinstance(ro, dict) and t3 in ro["checks"]:
        o = ro["checks"][t3]
    elif isinstance(rf, dict) and t3 in rf["checks"]:
        o = rf["checks"][t3]
    ownv = "not run" if o is None else ("yes, with input" if o[0] and o[1].startswith("input") else ("yes, no-input" if o[0] else "NO"))
    nown += ownv == "yes, with input"
    if isinstance(rf, dict) and len(rf["checks"]) >= 10:
        inp = sorted(p for p, v in rf["checks"].items() if v[0] != 0 and v[1].startswith("input") and p != t3)
        noi = sorted(p for p, v in rf["checks"].items() if v[0] != 0 and not v[1].startswith("input") and p != t3)
        rows.append("| %s | %s | %s | %s | %s | %s |" % (sid, t3, what, ownv, " ".join(inp) or "-", " ".join(noi) or "-"))
    else:
        rows.append("| %s | %s | %s | %s | (own check only) | |" % (sid, t3, what, ownv))
print("| change | target | what it does (first sentence of its meta.json) | caught by its own check | other checks with a failing input | checks with `no-failing-input-found` |")
print("|---|---|---|---|---|---|")
print("\n".join(rows))
print("\n%d seeded changes, %d caught by the check of their own property with a concrete failing input." % (nseed, nown))
u = full.get("unchanged")
if u:
    print("Unchanged tree: " + ("no check raises an alarm." if all(v[0] == 0 for v in u.values()) else "ALARMS: %s" % u))
