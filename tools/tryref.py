#!/usr/bin/env python3
import sys, os, random, shutil
sys.path.insert(0, os.path.dirname(os.path.abspath(__file__)))
import common as C, streams as S, refdec as R
rng = random.Random(int(sys.argv[1]) if len(sys.argv) > 1 else 1)
n = int(sys.argv[2]) if len(sys.argv) > 2 else 300
cases = S.corpus_d(("Dns","RR","Question","DomainName")) + S.structured_d(rng, n) + S.near_miss_d(rng, n // 4) + S.byte_level_d(rng, n // 2) + S.element_cases(rng, n)
wd = os.path.join(C.WORK, "try")
impl = C.run_sharded(C.HARNESS_BIN, cases, "impl", wd, 600)
bad = 0; acc = 0
for c, i in zip(cases, impl):
    w = c.split(" ")
    wire = bytes.fromhex(w[2]) if w[2] != "-" else b""
    r = R.ref_decode(w[1], wire)
    if i.startswith("OK "):
        acc += 1
        canon = i[3:i.index(" cost=")]
        ok = r[0] == "OK" and r[1] == canon
    else:
        ok = r[0] == "REJECT"
    if not ok:
        bad += 1
        if bad <= 6:
            print("CASE", c[:600]); print(" impl", i[:600]); print(" ref ", str(r[:2])[:600])
print(len(cases), "cases", acc, "accepted", bad, "mismatches")
shutil.rmtree(wd, ignore_errors=True)
