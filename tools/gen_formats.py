#!/usr/bin/env python3
"""Translator: derives coq/Gen/Formats.v (per-type RDATA format tables) from the Rust source.

    dec_dispatch        : TYPE code -> what Decoder::rr_<type> reads, in order
    enc_dispatch        : TYPE code -> what Encoder::rr_<type> writes, in order
    struct_encode_types : TYPE codes of the record structs with a public encode()

The translation is semantic: the sources are cleaned (comments, test items), macro_rules!
invocations are expanded, everything is tokenised (so layout is irrelevant) and the statements
of every reader / writer are interpreted symbolically:

  * decode: every read (`self.u16()?`, a helper such as `self.rr_algorithm_type()?`, the TXT
    loop, the optional SA block, ...) creates a *slot*; later statements refine the slot
    (`PSDNAddress::try_from`, the GPOS length check, the DNSKEY zero-mask check, ...); the
    struct literal at the end gives every slot the name of the struct field it ends up in.
  * encode: the fixed frame (owner, TYPE, CLASS, TTL, length index ... set_length_index) is
    checked and every write in between is classified; the field name is the struct field
    the value is taken from.

Nothing is guessed: a statement that is not understood yields a `("?", FUnknown)` entry and
taints the variables it mentions, a field whose value cannot be traced yields
`(field, FUnknown)`, a function that cannot be analysed yields the single entry
`("?", FUnknown)`.  The Coq proofs check FUnknown-freeness, so they break.  Warnings go to
stderr; the translator never raises on unexpected source.
"""
import os
import re
import sys

sys.path.insert(0, os.path.dirname(os.path.abspath(__file__)))
import gen_tables as gt  # noqa: E402
from gen_tables import clean, fn_body, balanced, intlit  # noqa: E402

UNKNOWN = "FUnknown"
UNKNOWN_ENTRY = ("?", UNKNOWN)

WARNINGS = []
QUIET = [0]   # >0 while scanning candidate functions speculatively


def warn(msg):
    if QUIET[0]:
        return
    WARNINGS.append(msg)
    sys.stderr.write("gen_formats: warning: %s\n" % msg)


# ---------------------------------------------------------------- tokens

TOK = re.compile(r"""
    '(?:\\.|[^\\'])'                       # char literal
  | '[A-Za-z_]\w*                          # lifetime
  | ""                                     # string literal (contents removed by clean())
  | 0x[0-9a-fA-F_]+\w* | 0b[01_]+\w* | \d[\d_]*(?:[A-Za-z]\w*)?
  | \$?[A-Za-z_]\w*                        # identifier / macro metavariable / pattern variable
  | \.\.= | \.\.\. | <<= | >>=
  | :: | -> | => | == | != | <= | >= | && | \|\| | \.\. | \+= | -= | \*= | /= | \|= | &= | \^= | << | >>
  | \S
""", re.X)

PRIM_TYPES = {"u8", "u16", "u32", "u64", "u128", "usize", "i8", "i16", "i32", "i64", "isize",
              "str", "bool", "char", "f32", "f64"}
OPEN = {"(": ")", "[": "]", "{": "}"}
CLOSE = {")", "]", "}"}
IDENT = re.compile(r"^[A-Za-z_]\w*$")


def strip_attrs(text):
    """remove #[...] / #![...] attributes (bracket balanced); #[cfg(..)] / #[cfg_attr(..)] leave the
    token __cfg__ behind: a statement that carries it is not understood (clean() already removed
    the #[cfg(test)] items)"""
    out = []
    i = 0
    n = len(text)
    while i < n:
        if text[i] == "#" and re.match(r"#!?\[", text[i:i + 3]):
            j = text.index("[", i)
            depth = 0
            k = j
            while k < n:
                if text[k] == "[":
                    depth += 1
                elif text[k] == "]":
                    depth -= 1
                    if depth == 0:
                        break
                k += 1
            if re.match(r"\s*cfg", text[j + 1:k]):
                out.append(" __cfg__ ")
            i = k + 1
        else:
            out.append(text[i])
            i += 1
    return "".join(out)


def tokenize(text):
    toks = TOK.findall(text)
    # drop module-path qualifiers:  crate::rr::Type::A -> Type::A ; std::str::from_utf8 -> from_utf8
    out = []
    i = 0
    n = len(toks)
    in_path = False    # the previous segment was a dropped module name (std::str::from_utf8: `str` is a module)
    while i < n:
        t = toks[i]
        if (i + 1 < n and toks[i + 1] == "::" and IDENT.match(t) and (t not in PRIM_TYPES or in_path)
                and (t in ("crate", "super", "self", "std", "core") or t == t.lower())
                and (not out or out[-1] not in (".",))):
            i += 2
            in_path = True
            continue
        in_path = False
        out.append(t)
        i += 1
    return out


def J(toks):
    return " ".join(toks)


_PCACHE = {}


def P(pat):
    """compile a Rust-like pattern: $x matches one identifier (same name = same identifier),
    $lit... matches an integer literal; everything else literally, token by token"""
    if pat in _PCACHE:
        return _PCACHE[pat]
    seen = set()
    parts = []
    for t in tokenize(pat):
        if t.startswith("$"):
            nm = t[1:]
            if nm in seen:
                parts.append("(?P=%s)" % nm)
            else:
                seen.add(nm)
                parts.append("(?P<%s>%s)" % (nm, r"(?:0x|0b)?\d\w*" if nm.startswith("lit") else r"[A-Za-z_]\w*"))
        else:
            parts.append(re.escape(t))
    rx = re.compile(" ".join(parts))
    _PCACHE[pat] = rx
    return rx


def M(pat, toks):
    return P(pat).fullmatch(J(toks))


def match_close(toks, i):
    """toks[i] is an opening bracket -> index of the matching closing one"""
    depth = 0
    for k in range(i, len(toks)):
        if toks[k] in OPEN:
            depth += 1
        elif toks[k] in CLOSE:
            depth -= 1
            if depth == 0:
                return k
    raise ValueError("unbalanced")


def split_top(toks, sep):
    """split a token list at top-level occurrences of sep"""
    parts = []
    cur = []
    depth = 0
    for t in toks:
        if t in OPEN:
            depth += 1
        elif t in CLOSE:
            depth -= 1
        if t == sep and depth == 0:
            parts.append(cur)
            cur = []
        else:
            cur.append(t)
    parts.append(cur)
    return parts


class Stmt:
    def __init__(self, toks, semi):
        self.toks = toks
        self.semi = semi

    def __repr__(self):
        return "<%s%s>" % (J(self.toks), ";" if self.semi else "")


BLOCK_KW = {"if", "while", "for", "match", "loop", "{", "unsafe"}


def split_stmts(toks):
    """statements of a block body (without the outer braces)"""
    stmts = []
    i = 0
    n = len(toks)
    while i < n:
        if toks[i] == ";":
            i += 1
            continue
        start = i
        if toks[i] in BLOCK_KW:
            # block-like expression statement: ends at the closing brace of its (last) block
            while True:
                depth = 0
                while i < n and not (toks[i] == "{" and depth == 0):
                    if toks[i] in ("(", "["):
                        depth += 1
                    elif toks[i] in (")", "]"):
                        depth -= 1
                    i += 1
                if i >= n:
                    raise ValueError("block statement without block")
                i = match_close(toks, i) + 1
                if i < n and toks[i] == "else":
                    i += 1
                    continue
                break
            if i < n and toks[i] in (".", "?"):
                # method call / ? on the block value: an ordinary expression statement
                depth = 0
                while i < n and not (toks[i] == ";" and depth == 0):
                    if toks[i] in OPEN:
                        depth += 1
                    elif toks[i] in CLOSE:
                        depth -= 1
                    i += 1
            if i < n and toks[i] == ";":
                stmts.append(Stmt(toks[start:i], True))
                i += 1
            else:
                stmts.append(Stmt(toks[start:i], i < n))  # not last -> behaves like a statement
        else:
            depth = 0
            while i < n and not (toks[i] == ";" and depth == 0):
                if toks[i] in OPEN:
                    depth += 1
                elif toks[i] in CLOSE:
                    depth -= 1
                i += 1
            stmts.append(Stmt(toks[start:i], i < n))
            i += 1
    return stmts


def parse_let(toks):
    """let [mut] NAME [: TYPE] = EXPR  ->  (name, mut, type tokens, expr tokens) or None"""
    if not toks or toks[0] != "let":
        return None
    i = 1
    mut = False
    if i < len(toks) and toks[i] == "mut":
        mut = True
        i += 1
    if i >= len(toks) or not IDENT.match(toks[i]):
        return None
    name = toks[i]
    i += 1
    ty = []
    if i < len(toks) and toks[i] == ":":
        i += 1
        depth = 0
        while i < len(toks) and not (toks[i] == "=" and depth == 0):
            if toks[i] in OPEN:
                depth += 1
            elif toks[i] in CLOSE:
                depth -= 1
            ty.append(toks[i])
            i += 1
    if i >= len(toks) or toks[i] != "=":
        return None
    return name, mut, ty, toks[i + 1:]


def parse_match(toks):
    """match SCRUT { arms }  ->  (scrutinee tokens, [(pattern tokens, expr tokens, is_block)])"""
    if not toks or toks[0] != "match":
        return None
    depth = 0
    i = 1
    while i < len(toks) and not (toks[i] == "{" and depth == 0):
        if toks[i] in ("(", "["):
            depth += 1
        elif toks[i] in (")", "]"):
            depth -= 1
        i += 1
    if i >= len(toks):
        return None
    j = match_close(toks, i)
    if j != len(toks) - 1:
        return None
    scrut = toks[1:i]
    body = toks[i + 1:j]
    arms = []
    k = 0
    while k < len(body):
        depth = 0
        s = k
        while k < len(body) and not (body[k] == "=>" and depth == 0):
            if body[k] in OPEN:
                depth += 1
            elif body[k] in CLOSE:
                depth -= 1
            k += 1
        if k >= len(body):
            return None
        pat = body[s:k]
        k += 1
        if k < len(body) and body[k] == "{":
            e = match_close(body, k)
            # a block arm ends at its brace unless an operator continues the expression
            if e + 1 >= len(body) or body[e + 1] == "," or IDENT.match(body[e + 1]) or body[e + 1] in ("(", "["):
                arms.append((pat, body[k + 1:e], True))
                k = e + 1
                if k < len(body) and body[k] == ",":
                    k += 1
                continue
        depth = 0
        s = k
        while k < len(body) and not (body[k] == "," and depth == 0):
            if body[k] in OPEN:
                depth += 1
            elif body[k] in CLOSE:
                depth -= 1
            k += 1
        arms.append((pat, body[s:k], False))
        k += 1
    return scrut, arms


def parse_struct_lit(toks):
    """S { f, g: expr, .. }  ->  (S, [(field, expr tokens)]) or None"""
    if len(toks) < 3 or not IDENT.match(toks[0]) or toks[1] != "{" or match_close(toks, 1) != len(toks) - 1:
        return None
    fields = []
    for part in split_top(toks[2:-1], ","):
        if not part:
            continue
        if len(part) == 1 and IDENT.match(part[0]):
            fields.append((part[0], [part[0]]))
        elif len(part) >= 3 and IDENT.match(part[0]) and part[1] == ":":
            fields.append((part[0], part[2:]))
        else:
            return None
    return toks[0], fields


# ---------------------------------------------------------------- source database

class FnDef:
    def __init__(self, name, params, ret, body, rel):
        self.name = name
        self.params = params      # token list between the parentheses
        self.ret = ret            # token list after '->'
        self.body = body          # token list between the braces
        self.rel = rel


def paren_end(s, i):
    """s[i] == '(' -> index after the matching ')'"""
    depth = 0
    k = i
    while k < len(s):
        if s[k] in "([{":
            depth += 1
        elif s[k] in ")]}":
            depth -= 1
            if depth == 0:
                return k + 1
        k += 1
    return len(s)


class Macro:
    def __init__(self, name):
        self.name = name
        self.arms = []   # (param names, body text)


def parse_macros(text, macros):
    """collect the macro_rules! definitions of text into macros; return text without them"""
    out = []
    pos = 0
    for m in re.finditer(r"\bmacro_rules!\s*(\w+)\s*\{", text):
        if m.start() < pos:
            continue
        end = balanced(text, m.end() - 1)
        blk = text[m.end(): end - 1]
        mac = Macro(m.group(1))
        k = 0
        while True:
            a = blk.find("(", k)
            if a < 0:
                break
            b = paren_end(blk, a)
            matcher = blk[a + 1: b - 1]
            am = re.match(r"\s*=>\s*\{", blk[b:])
            if not am:
                break
            c = b + am.end() - 1
            d = balanced(blk, c)
            body = blk[c + 1: d - 1]
            params = re.findall(r"\$(\w+)\s*:\s*\w+", matcher)
            rest = re.sub(r"\$\w+\s*:\s*\w+", "", matcher)
            if re.sub(r"[\s,]", "", rest) == "":
                mac.arms.append((params, body))
            k = d
        macros[mac.name] = mac
        out.append(text[pos: m.start()])
        pos = end
    out.append(text[pos:])
    return "".join(out)


def split_args(s):
    parts = []
    cur = []
    depth = 0
    for c in s:
        if c in "([{":
            depth += 1
        elif c in ")]}":
            depth -= 1
        if c == "," and depth == 0:
            parts.append("".join(cur).strip())
            cur = []
        else:
            cur.append(c)
    last = "".join(cur).strip()
    if last:
        parts.append(last)
    return parts


def expand_macros(text, macros, invocations=None, depth=0):
    """expand the invocations NAME!(args) of the simple macros; records (name, args)"""
    if depth > 6:
        return text
    out = []
    pos = 0
    changed = False
    for m in re.finditer(r"\b(\w+)!\s*\(", text):
        if m.start() < pos or m.group(1) not in macros:
            continue
        end = paren_end(text, m.end() - 1)
        args = split_args(text[m.end(): end - 1])
        if invocations is not None:
            invocations.append((m.group(1), args))
        arm = None
        for params, body in macros[m.group(1)].arms:
            if len(params) == len(args):
                arm = (params, body)
                break
        if arm is None:
            continue
        params, body = arm
        sub = dict(zip(params, args))
        exp = re.sub(r"\$(\w+)", lambda mm: sub.get(mm.group(1), mm.group(0)), body)
        e2 = end
        sm = re.match(r"\s*;", text[end:])
        if sm:
            e2 = end + sm.end()
        out.append(text[pos: m.start()])
        out.append(" " + exp + " ")
        pos = e2
        changed = True
    out.append(text[pos:])
    res = "".join(out)
    return expand_macros(res, macros, invocations, depth + 1) if changed else res


def rs_files(sub):
    res = []
    root = os.path.join(gt.SRC, sub)
    for dp, dns, fns in os.walk(root):
        dns.sort()
        for fn in sorted(fns):
            if fn.endswith(".rs") and fn != "tests.rs":
                res.append(os.path.relpath(os.path.join(dp, fn), gt.SRC))
    return res


class SourceDB:
    """all functions of a subtree (macro instances expanded)"""

    def __init__(self, sub, extra_macro_files=("macros.rs",)):
        self.fns = {}
        self.invocations = []     # (file, macro name, args) in file order, after expansion
        self.text = {}
        macros = {}
        raw = {}
        files = rs_files(sub)
        for rel in list(extra_macro_files) + files:
            try:
                txt = strip_attrs(clean(rel))
            except Exception as e:  # unreadable file: nothing can be derived from it
                warn("cannot read %s: %s" % (rel, e))
                continue
            raw[rel] = parse_macros(txt, macros)
        self.macros = macros
        for rel in files:
            if rel not in raw:
                continue
            inv = []
            txt = expand_macros(raw[rel], macros, inv)
            self.text[rel] = txt
            for name, args in inv:
                self.invocations.append((rel, name, args))
            for m in re.finditer(r"\bfn\s+(\w+)\s*(?:<[^>(]*>)?\s*\(", txt):
                pe = paren_end(txt, m.end() - 1)
                hm = re.match(r"[^{;]*\{", txt[pe:])
                if not hm:
                    continue
                b0 = pe + hm.end() - 1
                b1 = balanced(txt, b0)
                head = txt[pe: b0]
                ret = tokenize(head.split("->", 1)[1]) if "->" in head else []
                fd = FnDef(m.group(1), tokenize(txt[m.end(): pe - 1]), ret, tokenize(txt[b0 + 1: b1 - 1]), rel)
                if fd.params and fd.params[-1] == ",":
                    fd.params.pop()
                self.fns.setdefault(m.group(1), []).append(fd)

    def get(self, name):
        """the unique definition of a function, else None"""
        ds = self.fns.get(name, [])
        if len(ds) == 1:
            return ds[0]
        if len(ds) > 1:
            warn("function %s is defined %d times (%s)" % (name, len(ds), ", ".join(d.rel for d in ds)))
        return None


# ---------------------------------------------------------------- decode side

PRIM_READ = {"u8": "FU8", "u16": "FU16", "u32": "FU32", "u64": "FU64", "domain_name": "FName",
             "string": "FStr", "vec": "FRest", "ipv4_addr": "FIp4", "ipv6_addr": "FIp6"}
STR_NEWTYPES = {"PSDNAddress": "FStrPsdn", "ISDNAddress": "FStrIsdn", "Tag": "FTag"}
STRING_FAMILY = {"FStr", "FStrPsdn", "FStrIsdn", "FStrGpos", "FTag"}
K_STRSA = "!StrSa"      # string + SA::try_from: only meaningful inside the optional block
K_STRS0 = "!Strs0"      # while !is_finished string: before the non-empty check
DNSKEY_FLAG_FIELDS = {"zone_key_flag": "ZONE_KEY_FLAG", "secure_entry_point_flag": "SECURE_ENTRY_POINT_FLAG"}
HEADER_FIELDS = ("domain_name", "ttl")


class Slot:
    def __init__(self, kind):
        self.kind = kind
        self.name = None
        self.flagfields = {}
        self.array = None    # (array variable id, index)
        self.err = None


class Ctx:
    """everything the analysis of one side needs"""

    def __init__(self):
        self.dec = SourceDB("decode")
        self.enc = SourceDB("encode")
        self.rr = SourceDB("rr")
        try:
            self.enums = gt.parse_enums()
        except (Exception, SystemExit) as e:  # parse_enums raises SystemExit on odd entries
            warn("cannot parse the enums: %s" % e)
            self.enums = {}
        self.errors = self.decode_errors()
        self.enum_readers = None

    def decode_errors(self):
        try:
            s = strip_attrs(clean("decode/error.rs"))
            m = re.search(r"\benum\s+DecodeError\s*\{", s)
            body = s[m.end(): balanced(s, m.end() - 1) - 1]
            names = set()
            for part in split_args(body):
                vm = re.match(r"^(\w+)", part.strip())
                if vm:
                    names.add(vm.group(1))
            return names
        except Exception as e:
            warn("cannot parse DecodeError: %s" % e)
            return None

    def err_ok(self, e):
        if self.errors is not None and e not in self.errors:
            warn("DecodeError::%s is not a variant of DecodeError" % e)
            return False
        return True


class DecWalker:
    def __init__(self, ctx, depth=0):
        self.ctx = ctx
        self.depth = depth
        self.slots = []
        self.vars = {}
        self.classrule = None
        self.classvar = None
        self.result = None      # ('struct', name, fields) | ('var', value) | ('enum', kind) | None
        self.extra = []         # entries appended at the end (fields that could not be traced)
        self.arrays = 0

    # -- helpers
    def new_slot(self, kind):
        s = Slot(kind)
        self.slots.append(s)
        return s

    def slot_of(self, name):
        v = self.vars.get(name)
        return v[1] if v and v[0] == "slot" else None

    def is_last(self, s, what):
        """a check that can fail must come before the next read, else the error precedence differs
        from the one of the field kinds (which check immediately after the read)"""
        if self.slots and self.slots[-1] is s:
            return True
        warn("decode: %s is separated from its read by other reads" % what)
        return False

    def unknown_stmt(self, toks, why="not understood"):
        warn("decode: statement %s: `%s`" % (why, J(toks)[:120]))
        for t in toks:
            v = self.vars.get(t)
            if v and v[0] in ("slot", "len", "flagbit"):
                v[1].kind = UNKNOWN
            elif v and v[0] == "array":
                for s in v[3]:
                    s.kind = UNKNOWN
        s = self.new_slot(UNKNOWN)
        s.name = "?"

    def helper_kind(self, name):
        """field kind of a reader helper `fn name(&mut self) -> DecodeResult<T>`"""
        if self.depth > 3:
            return UNKNOWN
        fd = self.ctx.dec.get(name)
        if fd is None:
            warn("decode: helper %s not found (or ambiguous)" % name)
            return UNKNOWN
        if not (M("& mut self", fd.params) or M("& $lt mut self", [t.replace("'", "L") for t in fd.params])):
            warn("decode: helper %s takes parameters" % name)
            return UNKNOWN
        w = DecWalker(self.ctx, self.depth + 1)
        try:
            w.walk(split_stmts(fd.body), helper=True)
        except Exception as e:
            warn("decode: helper %s: %s" % (name, e))
            return UNKNOWN
        if len(w.slots) != 1 or w.classrule is not None or w.extra or w.result is None:
            warn("decode: helper %s is not a single read" % name)
            return UNKNOWN
        if w.result[0] == "enum":
            kind = w.result[1]
            em = re.match(r"FEnum\d+ En(\w+) ", kind)
            if em and fd.ret and not M("DecodeResult < %s >" % em.group(1), fd.ret):
                warn("decode: helper %s: return type does not match the enum" % name)
                return UNKNOWN
            return kind
        if w.result[0] == "var" and w.result[1] and w.result[1][0] == "slot" and w.result[1][1] is w.slots[0]:
            k = w.slots[0].kind
            return UNKNOWN if k.startswith("!") else k
        warn("decode: helper %s: result is not the value read" % name)
        return UNKNOWN

    # -- statements
    def walk(self, stmts, helper=False):
        for idx, st in enumerate(stmts):
            last = idx == len(stmts) - 1
            if last and not st.semi:
                self.tail(st.toks, helper)
                return
            self.stmt(st.toks)
        # no tail expression: the function does not return a value we understand
        self.result = None

    def stmt(self, toks):
        if toks and toks[0] == "let":
            pl = parse_let(toks)
            if pl is None:
                return self.unknown_stmt(toks)
            return self.let(toks, *pl)
        m = M("while ! self . is_finished ( ) ? { $v . push ( self . string ( ) ? ) ; }", toks)
        if m:
            v = self.vars.get(m.group("v"))
            if v and v[0] == "vecnew":
                s = self.new_slot(K_STRS0)
                self.vars[m.group("v")] = ("slot", s)
                return
            return self.unknown_stmt(toks)
        m = M("if ! ( $lit_a ..= $lit_b ) . contains ( & $l ) { return Err ( DecodeError :: $e ) ; }", toks)
        if m:
            v = self.vars.get(m.group("l"))
            if v and v[0] == "len":
                ok = (v[1].kind == "FStr" and intlit(m.group("lit_a")) == 1 and intlit(m.group("lit_b")) == 256
                      and m.group("e") == "GPOS" and self.ctx.err_ok("GPOS") and self.is_last(v[1], "the GPOS length check"))
                if not ok:
                    warn("decode: length check differs from the GPOS shape: `%s`" % J(toks))
                v[1].kind = "FStrGpos" if ok else UNKNOWN
                return
            return self.unknown_stmt(toks)
        m = M("if $f & DNSKEY_ZERO_MASK != 0 { return Err ( DecodeError :: $e ( $f ) ) ; }", toks)
        if m:
            s = self.slot_of(m.group("f"))
            if s is not None:
                ok = (s.kind == "FU16" and m.group("e") == "DNSKEYZeroFlags" and self.ctx.err_ok(m.group("e"))
                      and self.is_last(s, "the DNSKEY zero-flags check"))
                s.kind = "FDnskeyFlags" if ok else UNKNOWN
                return
            return self.unknown_stmt(toks)
        m = M("if $p != $lit_n { return Err ( DecodeError :: $e ( $p ) ) ; }", toks)
        if m:
            s = self.slot_of(m.group("p"))
            if s is not None:
                ok = s.kind == "FU8" and self.ctx.err_ok(m.group("e")) and self.is_last(s, "the constant check")
                s.kind = "FConst8 %d E%s" % (intlit(m.group("lit_n")), m.group("e")) if ok else UNKNOWN
                s.err = m.group("e")
                return
            return self.unknown_stmt(toks)
        m = M("$a [ $lit_i ] = self . u8 ( ) ?", toks)
        if m:
            v = self.vars.get(m.group("a"))
            i = intlit(m.group("lit_i"))
            if v and v[0] == "array" and i < v[1] and i not in v[2]:
                s = self.new_slot("FU8")
                s.array = i
                v[2][i] = s
                v[3].append(s)
                return
            return self.unknown_stmt(toks)
        cm = self.class_match_stmt(toks)
        if cm:
            return
        return self.unknown_stmt(toks)

    def class_match_stmt(self, toks):
        """match header.get_class()? { Class::IN => {} c => return Err(DecodeError::X(c)) }  as a statement"""
        pm = parse_match(toks) if toks and toks[0] == "match" else None
        if not pm or not M("header . get_class ( ) ?", pm[0]) or len(pm[1]) != 2:
            return False
        (p1, e1, b1), (p2, e2, _) = pm[1]
        m2 = M("return Err ( DecodeError :: $e ( $c ) )", e2)
        if not (M("Class :: IN", p1) and b1 and not e1 and m2 and len(p2) == 1 and p2[0] == m2.group("c")):
            return False
        if self.slots or self.classrule is not None or not self.ctx.err_ok(m2.group("e")):
            return False
        self.classrule = "CKIn E%s" % m2.group("e")
        return True

    def let(self, toks, name, mut, ty, expr):
        if M("header . get_class ( ) ?", expr):
            if self.slots or self.classrule is not None:
                return self.unknown_stmt(toks, "get_class after the first read")
            self.classrule = "CKAny"
            self.classvar = name
            self.vars[name] = ("class",)
            return
        m = M("self . $p ( ) ?", expr)
        if m:
            p = m.group("p")
            if p in PRIM_READ:
                if self.ctx.dec.get(p) is None:
                    return self.unknown_stmt(toks, "primitive reader not found")
                kind = PRIM_READ[p]
            else:
                kind = self.helper_kind(p)
            self.vars[name] = ("slot", self.new_slot(kind))
            return
        m = M("$T :: try_from ( $w ) ?", expr)
        if m:
            s = self.slot_of(m.group("w"))
            if s is not None:
                T = m.group("T")
                if not self.is_last(s, "%s::try_from" % T):
                    s.kind = UNKNOWN
                elif s.kind == "FStr" and T in STR_NEWTYPES:
                    s.kind = STR_NEWTYPES[T]
                elif s.kind == "FStr" and T == "SA":
                    s.kind = K_STRSA
                else:
                    warn("decode: %s::try_from on a %s value" % (T, s.kind))
                    s.kind = UNKNOWN
                self.vars.pop(m.group("w"), None)
                self.vars[name] = ("slot", s)
                return
            return self.unknown_stmt(toks)
        m = M("$w . len ( )", expr)
        if m and self.slot_of(m.group("w")) is not None:
            self.vars[name] = ("len", self.slot_of(m.group("w")))
            return
        if M("Vec :: new ( )", expr) and mut:
            self.vars[name] = ("vecnew",)
            return
        m = M("$w . try_into ( ) . map_err ( | _ | DecodeError :: $e ) ?", expr)
        if m:
            s = self.slot_of(m.group("w"))
            if s is not None:
                ok = (s.kind == K_STRS0 and m.group("e") == "TXTEmpty" and self.ctx.err_ok("TXTEmpty")
                      and self.is_last(s, "the non-empty check"))
                s.kind = "FStrs1" if ok else UNKNOWN
                self.vars.pop(m.group("w"), None)
                self.vars[name] = ("slot", s)
                return
            return self.unknown_stmt(toks)
        for pat in ("from_utf8 ( $w . as_ref ( ) ) ? . to_owned ( )", "from_utf8 ( $w . as_ref ( ) ) ? . to_string ( )",
                    "from_utf8 ( & $w ) ? . to_owned ( )", "from_utf8 ( & $w ) ? . to_string ( )",
                    "String :: from_utf8 ( $w ) ?"):
            m = M(pat, expr)
            if m:
                s = self.slot_of(m.group("w"))
                if s is None:
                    return self.unknown_stmt(toks)
                s.kind = "FRestUtf8" if s.kind == "FRest" and self.is_last(s, "from_utf8") else UNKNOWN
                self.vars[name] = ("slot", s)
                return
        m = M("( $f & $C ) == $C", expr)
        if m and self.slot_of(m.group("f")) is not None:
            self.vars[name] = ("flagbit", self.slot_of(m.group("f")), m.group("C"))
            return
        m = M("[ 0 ; $lit_n ]", expr)
        if m and mut and M("[ u8 ; $lit_k ]", ty) and intlit(M("[ u8 ; $lit_k ]", ty).group("lit_k")) == intlit(m.group("lit_n")):
            self.vars[name] = ("array", intlit(m.group("lit_n")), {}, [])
            return
        if expr[:8] == tokenize("if self.is_finished()? {") and len(expr) > 8:
            return self.let_optional(toks, name, expr)
        sl = parse_struct_lit(expr) if len(expr) > 2 and expr[1] == "{" else None
        if sl:
            self.vars[name] = self.make_struct(sl)
            return
        return self.unknown_stmt(toks)

    def make_struct(self, sl):
        """struct literal -> ('struct', name, [(field, expr tokens, value of the expression now)])"""
        return ("struct", sl[0], [(f, e, self.vars.get(e[0]) if len(e) == 1 else None) for f, e in sl[1]])

    def let_optional(self, toks, name, expr):
        """if self.is_finished()? { None } else { let v = self.string()?; let v = SA::try_from(v)?; Some(v) }"""
        try:
            i = 7
            j = match_close(expr, i)
            then = expr[i + 1: j]
            if expr[j + 1] != "else" or expr[j + 2] != "{" or match_close(expr, j + 2) != len(expr) - 1:
                raise ValueError("shape")
            els = expr[j + 3: -1]
            if then != ["None"]:
                raise ValueError("then-branch is not None")
            w = DecWalker(self.ctx, self.depth + 1)
            w.walk(split_stmts(els), helper=True)
            ok = (len(w.slots) == 1 and w.result and w.result[0] == "some" and w.result[1]
                  and w.result[1][0] == "slot" and w.result[1][1] is w.slots[0] and w.classrule is None)
            if ok and w.slots[0].kind == K_STRSA:
                self.vars[name] = ("slot", self.new_slot("FOptStrSa"))
                return
            raise ValueError("else-branch is not `string + SA::try_from`")
        except Exception as e:
            warn("decode: optional block not understood (%s): `%s`" % (e, J(toks)[:100]))
            self.vars[name] = ("slot", self.new_slot(UNKNOWN))

    def tail(self, toks, helper):
        m = M("Ok ( $x )", toks)
        if m:
            v = self.vars.get(m.group("x"))
            if v and v[0] == "struct" and not helper:
                self.result = v
            elif helper:
                self.result = ("var", v)
            else:
                self.result = None
            return
        m = M("Some ( $x )", toks)
        if m and helper:
            self.result = ("some", self.vars.get(m.group("x")))
            return
        if len(toks) > 4 and toks[0] == "Ok" and toks[1] == "(" and match_close(toks, 1) == len(toks) - 1 and not helper:
            sl = parse_struct_lit(toks[2:-1])
            if sl:
                self.result = self.make_struct(sl)
                return
        m = M("self . $p ( )", toks)
        if m and helper and m.group("p") in PRIM_READ and not self.slots:
            s = self.new_slot(PRIM_READ[m.group("p")])
            self.result = ("var", ("slot", s))
            return
        pm = parse_match(toks) if toks and toks[0] == "match" else None
        if pm:
            scrut, arms = pm
            if M("header . get_class ( ) ?", scrut) and not helper:
                return self.tail_class_match(toks, arms)
            m = M("$X :: try_from ( $b )", scrut)
            if m and helper and len(arms) == 2:
                return self.tail_enum(toks, m.group("X"), m.group("b"), arms)
        self.unknown_stmt(toks, "(result expression) not understood")
        self.result = None

    def tail_class_match(self, toks, arms):
        if len(arms) == 2 and not self.slots and self.classrule is None:
            (p1, e1, b1), (p2, e2, _) = arms
            m2 = M("Err ( DecodeError :: $e ( $c ) )", e2)
            if M("Class :: IN", p1) and b1 and m2 and len(p2) == 1 and p2[0] == m2.group("c") and self.ctx.err_ok(m2.group("e")):
                self.classrule = "CKIn E%s" % m2.group("e")
                self.walk(split_stmts(e1))
                return
        self.unknown_stmt(toks, "(class match) not understood")
        self.result = None

    def tail_enum(self, toks, X, b, arms):
        s = self.slot_of(b)
        (p1, e1, _), (p2, e2, _) = arms
        m1 = M("Ok ( $v )", p1)
        m1e = M("Ok ( $v )", e1)
        m2 = M("Err ( $e )", p2)
        m2e = M("Err ( DecodeError :: $Y ( $e ) )", e2)
        width = {"FU8": 8, "FU16": 16}.get(s.kind if s else None)
        ok = (s is not None and width and m1 and m1e and m1.group("v") == m1e.group("v") and m2 and m2e
              and m2.group("e") == m2e.group("e") and self.ctx.err_ok(m2e.group("Y")))
        if ok and X in self.ctx.enums and (8 if self.ctx.enums[X][0] == "u8" else 16) != width:
            warn("decode: enum %s read with the wrong width" % X)
            ok = False
        if ok:
            self.result = ("enum", "FEnum%d En%s E%s" % (width, X, m2e.group("Y")))
        else:
            self.unknown_stmt(toks, "(enum conversion) not understood")
            self.result = None

    # -- result
    def finish(self):
        """-> (class rule, [(name, kind)])"""
        if self.result is None or self.result[0] != "struct":
            warn("decode: the result is not a struct literal")
            self.extra.append(UNKNOWN_ENTRY)
            fields = []
        else:
            fields = self.result[2]
        names = [f for f, _, _ in fields]
        for f, e, v in fields:
            if f in HEADER_FIELDS:
                if not M("header . %s" % f, e):
                    warn("decode: field %s is not taken from the header" % f)
                    self.extra.append(UNKNOWN_ENTRY)
                continue
            if f == "class":
                if not (v and v[0] == "class"):
                    warn("decode: field class is not the result of get_class")
                    self.extra.append(UNKNOWN_ENTRY)
                continue
            if v is None:
                warn("decode: value of field %s cannot be traced" % f)
                self.extra.append((f, UNKNOWN))
            elif v[0] == "slot":
                if v[1].name is not None:
                    v[1].kind = UNKNOWN
                else:
                    v[1].name = f
            elif v[0] == "array":
                if len(v[2]) != v[1]:
                    warn("decode: array %s is not completely read" % f)
                    self.extra.append((f, UNKNOWN))
                for s in v[3]:
                    s.name = "%s_%d" % (f, s.array)
            elif v[0] == "flagbit":
                if DNSKEY_FLAG_FIELDS.get(f) == v[2]:
                    v[1].flagfields[f] = v[2]
                else:
                    warn("decode: flag field %s derived from %s" % (f, v[2]))
                    v[1].kind = UNKNOWN
                    v[1].flagfields[f] = None
            else:
                warn("decode: value of field %s cannot be traced" % f)
                self.extra.append((f, UNKNOWN))
        if fields:
            for h in HEADER_FIELDS:
                if h not in names:
                    warn("decode: header field %s is missing in the result" % h)
                    self.extra.append(UNKNOWN_ENTRY)
        if self.classrule == "CKAny" and "class" not in names and fields:
            warn("decode: class is read but not stored")
            self.extra.append(UNKNOWN_ENTRY)
        if self.classrule is None:
            if "class" in names:
                self.extra.append(UNKNOWN_ENTRY)
            self.classrule = "CKNone"
        out = []
        for s in self.slots:
            kind = s.kind
            name = s.name
            if kind == "FDnskeyFlags" or s.flagfields:
                if kind != "FDnskeyFlags" or set(s.flagfields) != set(DNSKEY_FLAG_FIELDS) or name is not None:
                    warn("decode: DNSKEY flags shape not understood")
                    kind = UNKNOWN
                name = "flags"
            elif kind.startswith("FConst8 ") and name is None:
                # the value is checked and dropped; it is named after the error (DNSKEYProtocol -> protocol)
                name = self.const_name(s.err)
            if kind.startswith("!"):
                kind = UNKNOWN
            if name is None:
                warn("decode: a value that is read does not reach the result")
                name, kind = "?", UNKNOWN
            out.append((name, kind))
        return self.classrule, out + self.extra

    def const_name(self, err):
        sname = self.result[1] if self.result and self.result[0] == "struct" else ""
        if err and sname and err.startswith(sname) and len(err) > len(sname):
            return err[len(sname):].lower()
        return (err or "?").lower()


def analyse_reader(ctx, fname):
    fd = ctx.dec.get(fname)
    if fd is None:
        warn("decode: reader %s not found" % fname)
        return "CKNone", [UNKNOWN_ENTRY]
    if not M("& mut self , header : Header", fd.params):
        warn("decode: reader %s has an unexpected signature" % fname)
        return "CKNone", [UNKNOWN_ENTRY]
    w = DecWalker(ctx)
    w.walk(split_stmts(fd.body))
    return w.finish()


# ---------------------------------------------------------------- encode side

PRIM_WRITE_VAL = {"u8": "FU8", "u16": "FU16", "u32": "FU32", "u64": "FU64"}


class EncHelper:
    def __init__(self, cls, ty):
        self.cls = cls     # 'string' | 'enum8' | 'enum16'
        self.ty = ty       # Rust type of the parameter


def enc_helper(ctx, name):
    """classify a writer helper `fn name(&mut self, p: &T)`: writes p as string / as u8 / as u16"""
    fd = ctx.enc.get(name)
    if fd is None:
        return None
    m = M("& mut self , $p : & $T", fd.params) or M("& mut self , $p : $T", fd.params)
    if not m:
        return None
    p, T = m.group("p"), m.group("T")
    st = split_stmts(fd.body)
    if len(st) != 1:
        return None
    b = [t if t != p else "$p" for t in st[0].toks]
    s = J(b)
    if s in ("self . string ( $p )", "self . string ( $p . as_ref ( ) )", "self . string ( & $p )", "self . string ( $p ) ?"):
        return EncHelper("string", T)
    for w in ("8", "16"):
        if s in ("self . u%s ( * $p as u%s )" % (w, w), "self . u%s ( $p as u%s )" % (w, w)):
            return EncHelper("enum" + w, T)
    return None


def enum_reader_tag(ctx, T):
    """the DecodeError of the (unique) decode helper converting an integer to the enum T"""
    if ctx.enum_readers is None:
        ctx.enum_readers = {}
        for name, defs in ctx.dec.fns.items():
            for fd in defs:
                if M("DecodeResult < $T >", fd.ret) and J(fd.body).count("try_from") == 1 and M("& mut self", fd.params):
                    w = DecWalker(ctx, 1)
                    QUIET[0] += 1
                    try:
                        w.walk(split_stmts(fd.body), helper=True)
                    except Exception:
                        continue
                    finally:
                        QUIET[0] -= 1
                    if w.result and w.result[0] == "enum" and len(w.slots) == 1:
                        em = re.match(r"FEnum(\d+) En(\w+) E(\w+)$", w.result[1])
                        ctx.enum_readers.setdefault(em.group(2), set()).add(w.result[1])
    ks = ctx.enum_readers.get(T, set())
    return next(iter(ks)) if len(ks) == 1 else None


def get_flags_ok(ctx):
    fd = ctx.rr.get("get_flags")
    if fd is None or not M("& self", fd.params):
        return False
    return bool(M("let mut $f : u16 = 0 ; if self . zone_key_flag { $f |= ZONE_KEY_FLAG ; } "
                  "if self . secure_entry_point_flag { $f |= SECURE_ENTRY_POINT_FLAG ; } $f", fd.body))


def analyse_writer(ctx, fname, variant, dec_fields):
    """-> (encclass, [(name, kind)]); dec_fields: the decode-side entries of the same type"""
    fd = ctx.enc.get(fname)
    if fd is None:
        warn("encode: writer %s not found" % fname)
        return "ECField", [UNKNOWN_ENTRY]
    m = M("& mut self , $p : & $T", fd.params)
    if not m:
        warn("encode: writer %s has an unexpected signature" % fname)
        return "ECField", [UNKNOWN_ENTRY]
    p = m.group("p")
    # rename the record parameter to a fixed name so that the patterns do not depend on it
    body = ["$R" if t == p and (i == 0 or fd.body[i - 1] != ".") else t for i, t in enumerate(fd.body)]
    stmts = split_stmts(body)
    dec = dict(dec_fields or [])
    out = []
    encclass = "ECField"

    def bad(toks, why="not understood"):
        warn("encode: %s: statement %s: `%s`" % (fname, why, J(toks).replace("$R", p)[:120]))
        out.append(UNKNOWN_ENTRY)

    def PM(pat, toks):
        return P_R(pat).fullmatch(J(toks))

    # frame
    if len(stmts) < 6:
        warn("encode: writer %s: frame not found" % fname)
        return "ECField", [UNKNOWN_ENTRY]
    frame_ok = bool(PM("self . domain_name ( & @ . domain_name ) ?", stmts[0].toks))
    frame_ok &= bool(M("self . rr_type ( & Type :: %s )" % variant, stmts[1].toks))
    if PM("self . rr_class ( & @ . class )", stmts[2].toks):
        encclass = "ECField"
    elif M("self . rr_class ( & Class :: IN )", stmts[2].toks):
        encclass = "ECIn"
    else:
        frame_ok = False
    frame_ok &= bool(PM("self . u32 ( @ . ttl )", stmts[3].toks))
    lm = M("let $l = self . create_length_index ( )", stmts[4].toks)
    frame_ok &= bool(lm) and all(s.semi for s in stmts[:5])
    tm = M("self . set_length_index ( $l )", stmts[-1].toks)
    frame_ok &= bool(tm) and bool(lm) and tm.group("l") == lm.group("l") and not stmts[-1].semi
    if not frame_ok:
        warn("encode: writer %s: the record frame (owner, TYPE, CLASS, TTL, length) is not the expected one" % fname)
        return encclass, [UNKNOWN_ENTRY]

    def refine_string(f, ty):
        k = dec.get(f)
        if ty in STR_NEWTYPES:
            return STR_NEWTYPES[ty]
        if k in STRING_FAMILY and ty is None:
            return k
        warn("encode: %s: string field %s: its domain cannot be determined (decode side: %s)" % (fname, f, k))
        return UNKNOWN

    for st in stmts[5:-1]:
        t = st.toks
        m = PM("self . $w ( @ . $f )", t)
        if m and m.group("w") in PRIM_WRITE_VAL and st.semi:
            out.append((m.group("f"), PRIM_WRITE_VAL[m.group("w")]))
            continue
        m = PM("self . u8 ( @ . $f [ $lit_i ] )", t)
        if m and st.semi:
            out.append(("%s_%d" % (m.group("f"), intlit(m.group("lit_i"))), "FU8"))
            continue
        m = PM("self . domain_name ( & @ . $f ) ?", t)
        if m and st.semi:
            out.append((m.group("f"), "FName"))
            continue
        m = PM("self . ipv4_addr ( & @ . $f )", t)
        if m and st.semi:
            out.append((m.group("f"), "FIp4"))
            continue
        m = PM("self . ipv6_addr ( & @ . $f )", t)
        if m and st.semi:
            out.append((m.group("f"), "FIp6"))
            continue
        m = PM("self . vec ( & @ . $f )", t) or PM("self . bytes . extend_from_slice ( & @ . $f )", t)
        if m and st.semi:
            out.append((m.group("f"), "FRest"))
            continue
        m = PM("self . vec ( @ . $f . as_bytes ( ) )", t)
        if m and st.semi:
            out.append((m.group("f"), "FRestUtf8"))
            continue
        m = PM("self . string ( & @ . $f ) ?", t)
        if m and st.semi:
            out.append((m.group("f"), refine_string(m.group("f"), None)))
            continue
        m = PM("self . u16 ( @ . get_flags ( ) )", t)
        if m and st.semi:
            out.append(("flags", "FDnskeyFlags" if get_flags_ok(ctx) else UNKNOWN))
            continue
        m = M("self . u8 ( $lit_n )", t)
        if m and st.semi:
            n = intlit(m.group("lit_n"))
            cands = [(nm, k) for nm, k in (dec_fields or []) if k.startswith("FConst8 %d " % n)]
            if len(cands) == 1:
                out.append(cands[0])
            else:
                warn("encode: %s: constant octet %d has no counterpart on the decode side" % (fname, n))
                out.append(UNKNOWN_ENTRY)
            continue
        m = (PM("self . $h ( & @ . $f ) ?", t) or PM("self . $h ( & @ . $f )", t) or PM("self . $h ( @ . $f )", t))
        if m and st.semi:
            h = enc_helper(ctx, m.group("h"))
            f = m.group("f")
            if h is None:
                bad(t, "uses a helper that is not understood")
            elif h.cls == "string":
                out.append((f, refine_string(f, h.ty)))
            else:
                k = enum_reader_tag(ctx, h.ty)
                if k and k.startswith("FEnum%s " % h.cls[4:]):
                    out.append((f, k))
                else:
                    warn("encode: %s: enum field %s: no (unique) decode helper for %s" % (fname, f, h.ty))
                    out.append((f, UNKNOWN))
            continue
        m = PM("if let Some ( $v ) = & @ . $f { self . $h ( $v ) ? ; }", t)
        if m:
            f = m.group("f")
            h = m.group("h")
            if h == "string":
                k = "FOptStrSa" if dec.get(f) == "FOptStrSa" else UNKNOWN
            else:
                eh = enc_helper(ctx, h)
                k = "FOptStrSa" if eh and eh.cls == "string" and eh.ty == "SA" else UNKNOWN
            if k == UNKNOWN:
                warn("encode: %s: optional field %s not understood" % (fname, f))
            out.append((f, k))
            continue
        m = (PM("for $s in @ . $f . iter ( ) { self . string ( $s ) ? ; }", t)
             or PM("for $s in & @ . $f { self . string ( $s ) ? ; }", t))
        if m:
            f = m.group("f")
            if dec.get(f) == "FStrs1":
                out.append((f, "FStrs1"))
            else:
                warn("encode: %s: string list %s: non-emptiness unknown (decode side: %s)" % (fname, f, dec.get(f)))
                out.append((f, UNKNOWN))
            continue
        bad(t)
    return encclass, out


def P_R(pat):
    """pattern in which '@' stands for the record parameter"""
    key = "@" + pat
    if key not in _PCACHE:
        rx = P(pat.replace("@", "RECORDPARAM")).pattern.replace("RECORDPARAM", re.escape("$R"))
        _PCACHE[key] = re.compile(rx)
    return _PCACHE[key]


# ---------------------------------------------------------------- dispatch

SPECIAL_BY_NAME = {"rr_opt": ("OPT", "SpOpt"), "rr_apl": ("APL", "SpApl"), "rr_svcb": ("SVCB", "SpSvcb"),
                   "rr_https": ("HTTPS", "SpHttps")}
SERVICE_BINDING = {"SVCB": ("SpSvcb", "false"), "HTTPS": ("SpHttps", "true")}


def type_codes(ctx):
    if "Type" not in ctx.enums:
        warn("enum Type not found")
        return {}
    return dict(ctx.enums["Type"][2])


def decode_dispatch(ctx):
    """[(variant, reader function, extra args)] in the order of the match in Decoder::rr"""
    body = fn_body(strip_attrs(clean("decode/rr/enums.rs")), "rr")
    if body is None:
        warn("decode: fn rr not found")
        return []
    toks = tokenize(body)
    res = []
    for i, t in enumerate(toks):
        if t == "match" and toks[i + 1: i + 3] == ["type_", "{"]:
            j = match_close(toks, i + 2)
            pm = parse_match(toks[i: j + 1])
            for pat, expr, _ in (pm[1] if pm else []):
                mp = M("Type :: $V", pat)
                if not mp:
                    continue
                me = (M("RR :: $W ( $r . $fn ( header ) ? )", expr)
                      or M("RR :: $W ( $r . $fn ( header , $arg ) ? )", expr))
                if me and me.group("W") == mp.group("V"):
                    res.append((mp.group("V"), me.group("fn"), me.groupdict().get("arg")))
                else:
                    warn("decode: dispatch arm for %s not understood" % mp.group("V"))
                    res.append((mp.group("V"), None, None))
            return res
    warn("decode: `match type_` not found in fn rr")
    return res


def encode_dispatch(ctx):
    body = fn_body(strip_attrs(clean("encode/rr/enums.rs")), "rr")
    if body is None:
        warn("encode: fn rr not found")
        return []
    toks = tokenize(body)
    res = []
    for i, t in enumerate(toks):
        if t == "match" and toks[i + 1: i + 3] == ["rr", "{"]:
            j = match_close(toks, i + 2)
            pm = parse_match(toks[i: j + 1])
            for pat, expr, _ in (pm[1] if pm else []):
                mp = M("RR :: $V ( $b )", pat)
                if not mp:
                    continue
                me = M("self . $fn ( $b )", expr)
                if me and me.group("b") == mp.group("b"):
                    res.append((mp.group("V"), me.group("fn")))
                else:
                    warn("encode: dispatch arm for %s not understood" % mp.group("V"))
                    res.append((mp.group("V"), None))
            return res
    warn("encode: `match rr` not found in fn rr")
    return res


def special_of(variant, fn, arg=None, decode=False):
    if fn in SPECIAL_BY_NAME:
        v, sp = SPECIAL_BY_NAME[fn]
        if v != variant or arg is not None:
            warn("dispatch: %s is used for Type::%s" % (fn, variant))
            return "?"
        return sp
    if fn == "rr_service_binding" and variant in SERVICE_BINDING:
        sp, flag = SERVICE_BINDING[variant]
        if decode and arg != flag:
            return "?"
        return sp
    if fn == "rr_service_binding":
        return "?"
    return None


def struct_encode_types(ctx, codes, writers):
    """TYPE codes of the structs X with impl_encode!(..X, rr_x) in encode/rr, rr_x being X's writer"""
    res = set()
    for rel, name, args in ctx.enc.invocations:
        if name != "impl_encode" or not rel.startswith(os.path.join("encode", "rr")) or len(args) != 2:
            continue
        variant = args[0].replace(" ", "").split("::")[-1]
        if variant not in codes:
            continue   # RR itself etc.
        if writers.get(variant) != args[1]:
            warn("encode: impl_encode!(%s, %s) does not use the writer of the dispatch (%s)" % (variant, args[1], writers.get(variant)))
            continue
        res.add(codes[variant])
    return sorted(res)


def build():
    """-> (dec entries, enc entries, struct_encode_types); entries: (code, ('fields', class, [(n,k)]) | ('special', s))"""
    del WARNINGS[:]
    ctx = Ctx()
    codes = type_codes(ctx)
    dec_plain, dec_special, dec_fields = [], [], {}
    for variant, fn, arg in decode_dispatch(ctx):
        if variant not in codes:
            warn("decode: Type::%s has no code" % variant)
            continue
        code = codes[variant]
        sp = special_of(variant, fn, arg, decode=True) if fn else None
        if sp and sp != "?":
            dec_special.append((code, ("special", sp)))
            continue
        if fn is None or sp == "?" or arg is not None:
            dec_plain.append((code, ("fields", "CKNone", [UNKNOWN_ENTRY])))
            continue
        try:
            cr, fields = analyse_reader(ctx, fn)
        except Exception as e:  # never crash on unexpected source
            warn("decode: %s: %s: %s" % (fn, type(e).__name__, e))
            cr, fields = "CKNone", [UNKNOWN_ENTRY]
        dec_fields[variant] = fields
        dec_plain.append((code, ("fields", cr, fields)))
    enc_plain, enc_special, writers = [], [], {}
    for variant, fn in encode_dispatch(ctx):
        if variant not in codes:
            warn("encode: RR::%s has no code" % variant)
            continue
        code = codes[variant]
        writers[variant] = fn
        sp = special_of(variant, fn) if fn else None
        if sp and sp != "?":
            enc_special.append((code, ("special", sp)))
            continue
        if fn is None or sp == "?":
            enc_plain.append((code, ("fields", "ECField", [UNKNOWN_ENTRY])))
            continue
        try:
            ec, fields = analyse_writer(ctx, fn, variant, dec_fields.get(variant))
        except Exception as e:
            warn("encode: %s: %s: %s" % (fn, type(e).__name__, e))
            ec, fields = "ECField", [UNKNOWN_ENTRY]
        enc_plain.append((code, ("fields", ec, fields)))
    try:
        sets = struct_encode_types(ctx, codes, writers)
    except Exception as e:
        warn("struct_encode_types: %s" % e)
        sets = []
    return dec_plain + dec_special, enc_plain + enc_special, sets


# ---------------------------------------------------------------- output

def fmt_fields(fields):
    return "[" + "; ".join('("%s", %s)' % (n, k) for n, k in fields) + "]"


def fmt_entry(code, e, decode):
    if e[0] == "special":
        return "(%d, %s %s)" % (code, "RdSpecial" if decode else "WrSpecial", e[1])
    if decode:
        return "(%d, RdFields (%s) %s)" % (code, e[1], fmt_fields(e[2]))
    return "(%d, WrFields %s %s)" % (code, e[1], fmt_fields(e[2]))


def generate():
    try:
        dec, enc, sets = build()
    except Exception as e:  # last resort: an empty table breaks every proof that uses it
        warn("fatal: %s: %s" % (type(e).__name__, e))
        dec, enc, sets = [], [], []
    o = ["(* GENERATED by tools/gen_formats.py from /repo/src — do not edit *)",
         "From DNS Require Import Model.Fmt.",
         "Local Open Scope N_scope. Local Open Scope string_scope.",
         "",
         "Definition dec_dispatch : list (N * reader) :=",
         "  [" + "".join("\n   " + fmt_entry(c, e, True) + (";" if i < len(dec) - 1 else "") for i, (c, e) in enumerate(dec)) + "].",
         "",
         "Definition enc_dispatch : list (N * writer) :=",
         "  [" + "".join("\n   " + fmt_entry(c, e, False) + (";" if i < len(enc) - 1 else "") for i, (c, e) in enumerate(enc)) + "].",
         "",
         "Definition struct_encode_types : list N := [" + "; ".join(str(c) for c in sets) + "]."]
    return "\n".join(o) + "\n"


if __name__ == "__main__":
    sys.stdout.write(generate())
