#!/bin/bash
# usage: run_mutant.sh <seeded-id> [check args...]   applies seeded/<id>/patch.diff to /repo, runs the check, reverts
id=$1; shift
prop=$(python3 -c "import json;print(json.load(open('/verif/seeded/$id/meta.json'))['property'])")
git -C /repo apply /verif/seeded/$id/patch.diff || exit 9
( cd /verif && timeout 1500 python3 tools/check.py ${CHECKPROP:-$prop} "$@" 2>&1 | tail -4 )
git -C /repo checkout -- .
