#!/bin/bash
# usage: confirm_seed.sh <dir containing patch.diff seeded_demo.rs meta.json> <new-id>
# confirms in a fresh scratch worktree: demo passes on the clean tree, fails with the change, and the
# existing suite passes with the change; then stores the change as /verif/seeded/<new-id>/
src=$1; id=$2; wt=/tmp/confirm-$id
git -C /repo worktree remove --force $wt 2>/dev/null; rm -rf $wt
git -C /repo worktree add -q --detach $wt HEAD || exit 2
cd $wt
cp $src/seeded_demo.rs tests/seeded_demo.rs
r1=$(CARGO_NET_OFFLINE=true cargo test --offline --test seeded_demo 2>&1 | grep -E "^test result" | tail -1)
git apply $src/patch.diff || { echo "patch does not apply"; exit 3; }
r2=$(CARGO_NET_OFFLINE=true cargo test --offline --test seeded_demo 2>&1 | grep -E "^test result" | tail -1)
rm tests/seeded_demo.rs
r3=$(CARGO_NET_OFFLINE=true cargo test --offline 2>&1 | grep -E "^test result|error(\[|:)" | sort | uniq -c | tr '\n' ';')
echo "clean+demo: $r1"; echo "changed+demo: $r2"; echo "changed suite: $r3"
ok=1
echo "$r1" | grep -q "ok\." || ok=0
echo "$r2" | grep -q "FAILED" || ok=0
echo "$r3" | grep -q "FAILED\|error" && ok=0
cd /verif
if [ $ok = 1 ]; then
  mkdir -p seeded/$id; cp $src/patch.diff $src/seeded_demo.rs seeded/$id/
  python3 - "$src/meta.json" "seeded/$id/meta.json" "$r1" "$r2" "$r3" <<'PY'
import json,sys
m=json.load(open(sys.argv[1]))
m.setdefault("ran",[])
m["confirmed"]={"clean_tree_demo":sys.argv[3],"changed_tree_demo":sys.argv[4],"changed_tree_existing_suite":sys.argv[5]}
json.dump(m,open(sys.argv[2],"w"),indent=1)
PY
  echo "CONFIRMED -> seeded/$id"
else
  echo "NOT CONFIRMED"
fi
git -C /repo worktree remove --force $wt
