#!/usr/bin/env python3
"""Reusable case streams (docs/PROTOCOL.md) built on the generators of gen_cases.py."""
import os
import sys

sys.path.insert(0, os.path.dirname(os.path.abspath(__file__)))
import gen_cases as G   # noqa: E402

_corpus = None


def corpus():
    global _corpus
    if _corpus is None:
        _corpus = G.corpus_vectors()
    return _corpus


def d(entry, wire):
    return "D %s %s" % (entry, G.hexs(wire))


def corpus_d(entries=("Dns",)):
    out = []
    for v in corpus():
        for e in entries:
            out.append(d(e, v))
    return out


def valid_messages(rng, n, maxrec=4, types=None, modes=("plain", "lib", "rand"), case=True, perm=True):
    """n random abstract messages with one rendering each: [(msg, wire, renderer)]"""
    res = []
    for i in range(n):
        m = G.rnd_dns(rng, maxrec=maxrec, types=types)
        lay = G.Layout(rng, mode=rng.choice(modes), case=case and rng.random() < 0.5,
                       addr=rng.choice(["min", "full", "rand"]), perm=perm and rng.random() < 0.5)
        wire, rn = G.render_dns(m, lay)
        res.append((m, wire, rn))
    return res


def structured_d(rng, n, **kw):
    return [d("Dns", w) for _, w, _ in valid_messages(rng, n, **kw)]


def near_miss_d(rng, n, per=6, **kw):
    out = []
    for m, w, rn in valid_messages(rng, n, **kw):
        for x in G.near_miss(rng, w, rn, per):
            out.append(d("Dns", x))
    return out


def byte_level_d(rng, n, k=4, **kw):
    out = []
    for m, w, rn in valid_messages(rng, n, **kw):
        for x in G.byte_level(rng, w, k):
            out.append(d("Dns", x))
    return out


def element_cases(rng, n):
    """stand-alone elements rendered at offset 0: RR, Question, DomainName, Flags"""
    out = []
    for _ in range(n):
        names = []
        lay = G.Layout(rng, mode=rng.choice(["plain", "lib", "rand"]), case=rng.random() < 0.3,
                       addr=rng.choice(["min", "full", "rand"]), perm=rng.random() < 0.5)
        rn = G.Renderer(lay)
        k = rng.random()
        if k < 0.6:
            rn.rr(G.rnd_rr(rng, names))
            out.append(d("RR", bytes(rn.buf)))
        elif k < 0.8:
            rn.question(('Q', G.pick_name(rng, names), rng.choice(G.QTYPES), rng.choice(G.QCLASSES)))
            out.append(d("Question", bytes(rn.buf)))
        else:
            rn.name(G.rnd_name(rng))
            out.append(d("DomainName", bytes(rn.buf)))
    return out


def value_e(rng, n, maxrec=4, types=None):
    """E Dns cases over random API-constructible (valid) values"""
    return ["E Dns " + G.canon(G.rnd_dns(rng, maxrec=maxrec, types=types)) for _ in range(n)]


def value_e_rr(rng, n, types=None):
    out = []
    for _ in range(n):
        names = []
        rr = G.rnd_rr(rng, names, rng.choice(types) if types else None)
        out.append("E RR " + G.canon(rr))
    return out
