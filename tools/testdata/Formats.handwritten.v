(* TEMPORARY hand-written; to be produced by tools/gen_formats.py *)
From DNS Require Import Model.Fmt.
Local Open Scope N_scope. Local Open Scope string_scope.

Definition dec_dispatch : list (N * reader) :=
  [
   (1, RdFields (CKIn EAClass) [("ipv4_addr", FIp4)]);
   (2, RdFields (CKAny) [("ns_d_name", FName)]);
   (3, RdFields (CKAny) [("mad_name", FName)]);
   (4, RdFields (CKAny) [("mad_name", FName)]);
   (5, RdFields (CKAny) [("c_name", FName)]);
   (6, RdFields (CKAny) [("m_name", FName); ("r_name", FName); ("serial", FU32); ("refresh", FU32); ("retry", FU32); ("expire", FU32); ("min_ttl", FU32)]);
   (7, RdFields (CKAny) [("mad_name", FName)]);
   (8, RdFields (CKAny) [("mgm_name", FName)]);
   (9, RdFields (CKAny) [("new_name", FName)]);
   (10, RdFields (CKAny) [("data", FRest)]);
   (11, RdFields (CKIn EWKSClass) [("ipv4_addr", FIp4); ("protocol", FU8); ("bit_map", FRest)]);
   (12, RdFields (CKAny) [("ptr_d_name", FName)]);
   (13, RdFields (CKAny) [("cpu", FStr); ("os", FStr)]);
   (14, RdFields (CKAny) [("r_mail_bx", FName); ("e_mail_bx", FName)]);
   (15, RdFields (CKAny) [("preference", FU16); ("exchange", FName)]);
   (16, RdFields (CKAny) [("strings", FStrs1)]);
   (17, RdFields (CKAny) [("mbox_dname", FName); ("txt_dname", FName)]);
   (18, RdFields (CKAny) [("subtype", FEnum16 EnAFSDBSubtype EAFSDBSubtype); ("hostname", FName)]);
   (19, RdFields (CKAny) [("psdn_address", FStrPsdn)]);
   (20, RdFields (CKAny) [("isdn_address", FStrIsdn); ("sa", FOptStrSa)]);
   (21, RdFields (CKAny) [("preference", FU16); ("intermediate_host", FName)]);
   (22, RdFields (CKAny) [("data", FRest)]);
   (27, RdFields (CKAny) [("longitude", FStrGpos); ("latitude", FStrGpos); ("altitude", FStrGpos)]);
   (29, RdFields (CKAny) [("version", FU8); ("size", FU8); ("horiz_pre", FU8); ("vert_pre", FU8); ("latitube", FU32); ("longitube", FU32); ("altitube", FU32)]);
   (26, RdFields (CKAny) [("preference", FU16); ("map822", FName); ("mapx400", FName)]);
   (36, RdFields (CKAny) [("preference", FU16); ("exchanger", FName)]);
   (33, RdFields (CKAny) [("priority", FU16); ("weight", FU16); ("port", FU16); ("target", FName)]);
   (28, RdFields (CKIn EAAAAClass) [("ipv6_addr", FIp6)]);
   (44, RdFields (CKAny) [("algorithm", FEnum8 EnSSHFPAlgorithm ESSHFPAlgorithm); ("type_", FEnum8 EnSSHFPType ESSHFPType); ("fp", FRest)]);
   (39, RdFields (CKAny) [("target", FName)]);
   (104, RdFields (CKAny) [("preference", FU16); ("node_id", FU64)]);
   (105, RdFields (CKAny) [("preference", FU16); ("locator_32", FU32)]);
   (106, RdFields (CKAny) [("preference", FU16); ("locator_64", FU64)]);
   (107, RdFields (CKAny) [("preference", FU16); ("fqdn", FName)]);
   (108, RdFields (CKAny) [("eui_48_0", FU8); ("eui_48_1", FU8); ("eui_48_2", FU8); ("eui_48_3", FU8); ("eui_48_4", FU8); ("eui_48_5", FU8)]);
   (109, RdFields (CKAny) [("eui_64_0", FU8); ("eui_64_1", FU8); ("eui_64_2", FU8); ("eui_64_3", FU8); ("eui_64_4", FU8); ("eui_64_5", FU8); ("eui_64_6", FU8); ("eui_64_7", FU8)]);
   (256, RdFields (CKAny) [("priority", FU16); ("weight", FU16); ("uri", FRestUtf8)]);
   (31, RdFields (CKAny) [("data", FRest)]);
   (32, RdFields (CKAny) [("data", FRest)]);
   (48, RdFields (CKAny) [("flags", FDnskeyFlags); ("protocol", FConst8 3 EDNSKEYProtocol); ("algorithm_type", FEnum8 EnAlgorithmType EAlgorithmType); ("public_key", FRest)]);
   (43, RdFields (CKAny) [("key_tag", FU16); ("algorithm_type", FEnum8 EnAlgorithmType EAlgorithmType); ("digest_type", FEnum8 EnDigestType EDigestType); ("digest", FRest)]);
   (257, RdFields (CKAny) [("flags", FU8); ("tag", FTag); ("value", FRest)]);
   (41, RdSpecial SpOpt);
   (42, RdSpecial SpApl);
   (64, RdSpecial SpSvcb);
   (65, RdSpecial SpHttps)].

Definition enc_dispatch : list (N * writer) :=
  [
   (1, WrFields ECIn [("ipv4_addr", FIp4)]);
   (2, WrFields ECField [("ns_d_name", FName)]);
   (3, WrFields ECField [("mad_name", FName)]);
   (4, WrFields ECField [("mad_name", FName)]);
   (5, WrFields ECField [("c_name", FName)]);
   (6, WrFields ECField [("m_name", FName); ("r_name", FName); ("serial", FU32); ("refresh", FU32); ("retry", FU32); ("expire", FU32); ("min_ttl", FU32)]);
   (7, WrFields ECField [("mad_name", FName)]);
   (8, WrFields ECField [("mgm_name", FName)]);
   (9, WrFields ECField [("new_name", FName)]);
   (10, WrFields ECField [("data", FRest)]);
   (11, WrFields ECIn [("ipv4_addr", FIp4); ("protocol", FU8); ("bit_map", FRest)]);
   (12, WrFields ECField [("ptr_d_name", FName)]);
   (13, WrFields ECField [("cpu", FStr); ("os", FStr)]);
   (14, WrFields ECField [("r_mail_bx", FName); ("e_mail_bx", FName)]);
   (15, WrFields ECField [("preference", FU16); ("exchange", FName)]);
   (16, WrFields ECField [("strings", FStrs1)]);
   (17, WrFields ECField [("mbox_dname", FName); ("txt_dname", FName)]);
   (18, WrFields ECField [("subtype", FEnum16 EnAFSDBSubtype EAFSDBSubtype); ("hostname", FName)]);
   (19, WrFields ECField [("psdn_address", FStrPsdn)]);
   (20, WrFields ECField [("isdn_address", FStrIsdn); ("sa", FOptStrSa)]);
   (21, WrFields ECField [("preference", FU16); ("intermediate_host", FName)]);
   (22, WrFields ECField [("data", FRest)]);
   (27, WrFields ECField [("longitude", FStrGpos); ("latitude", FStrGpos); ("altitude", FStrGpos)]);
   (29, WrFields ECField [("version", FU8); ("size", FU8); ("horiz_pre", FU8); ("vert_pre", FU8); ("latitube", FU32); ("longitube", FU32); ("altitube", FU32)]);
   (26, WrFields ECField [("preference", FU16); ("map822", FName); ("mapx400", FName)]);
   (36, WrFields ECField [("preference", FU16); ("exchanger", FName)]);
   (33, WrFields ECField [("priority", FU16); ("weight", FU16); ("port", FU16); ("target", FName)]);
   (28, WrFields ECIn [("ipv6_addr", FIp6)]);
   (44, WrFields ECField [("algorithm", FEnum8 EnSSHFPAlgorithm ESSHFPAlgorithm); ("type_", FEnum8 EnSSHFPType ESSHFPType); ("fp", FRest)]);
   (39, WrFields ECField [("target", FName)]);
   (104, WrFields ECField [("preference", FU16); ("node_id", FU64)]);
   (105, WrFields ECField [("preference", FU16); ("locator_32", FU32)]);
   (106, WrFields ECField [("preference", FU16); ("locator_64", FU64)]);
   (107, WrFields ECField [("preference", FU16); ("fqdn", FName)]);
   (108, WrFields ECField [("eui_48_0", FU8); ("eui_48_1", FU8); ("eui_48_2", FU8); ("eui_48_3", FU8); ("eui_48_4", FU8); ("eui_48_5", FU8)]);
   (109, WrFields ECField [("eui_64_0", FU8); ("eui_64_1", FU8); ("eui_64_2", FU8); ("eui_64_3", FU8); ("eui_64_4", FU8); ("eui_64_5", FU8); ("eui_64_6", FU8); ("eui_64_7", FU8)]);
   (256, WrFields ECField [("priority", FU16); ("weight", FU16); ("uri", FRestUtf8)]);
   (31, WrFields ECField [("data", FRest)]);
   (32, WrFields ECField [("data", FRest)]);
   (48, WrFields ECField [("flags", FDnskeyFlags); ("protocol", FConst8 3 EDNSKEYProtocol); ("algorithm_type", FEnum8 EnAlgorithmType EAlgorithmType); ("public_key", FRest)]);
   (43, WrFields ECField [("key_tag", FU16); ("algorithm_type", FEnum8 EnAlgorithmType EAlgorithmType); ("digest_type", FEnum8 EnDigestType EDigestType); ("digest", FRest)]);
   (257, WrFields ECField [("flags", FU8); ("tag", FTag); ("value", FRest)]);
   (41, WrSpecial SpOpt);
   (42, WrSpecial SpApl);
   (64, WrSpecial SpSvcb);
   (65, WrSpecial SpHttps)].

Definition struct_encode_types : list N := [1; 2; 3; 4; 5; 6; 7; 8; 9; 10; 11; 12; 13; 14; 15; 16; 31; 32; 33; 22; 256; 44; 36; 39; 29; 17; 18; 19; 20; 21; 27; 26; 28].
