#!/bin/bash
# run every claimed check in the thorough tier (inside a `vp run --with-repo` snapshot, or in place)
cd "$(dirname "$0")/.."
if [ -n "$VP_RUN_REPO" ]; then
  export VERIF_REPO="$VP_RUN_REPO"
  sed -i "s#path = \"/repo\"#path = \"$VP_RUN_REPO\"#" harness/Cargo.toml
fi
python3 tools/check.py --setup | tail -2
rc=0
for p in ${@:-$(python3 -c "import json;print(' '.join(c['property_id'] for c in json.load(open('MANIFEST.json'))['checks']))")}; do
  timeout 7200 python3 tools/check.py $p --tier thorough 2>&1 | grep -v "^KNOWN-FINDING" | tail -2 | cut -c1-300 || rc=1
done
exit $rc
