#!/usr/bin/env python3
import sys, os, random, shutil
sys.path.insert(0, os.path.dirname(os.path.abspath(__file__)))
import common as C, streams as S, props_codec as PC
rng = random.Random(int(sys.argv[1]) if len(sys.argv) > 1 else 1)
n = int(sys.argv[2]) if len(sys.argv) > 2 else 300
cases = S.corpus_d(("Dns","RR","Question","DomainName")) + S.structured_d(rng, n) + S.near_miss_d(rng, n // 4) + S.byte_level_d(rng, n // 2) + S.element_cases(rng, n) + PC.guard_cases() + PC.overaccept_cases(rng)
cases = ["W" + c[1:] for c in cases]
wd = os.path.join(C.WORK, "try")
impl = C.run_sharded(C.HARNESS_BIN, cases, "impl", wd, 600)
model = C.run_sharded(C.DRIVER_BIN, cases, "model", wd, 600)
bad = 0; acc = 0
for c, i, m in zip(cases, impl, model):
    acc += i.startswith("OK")
    if i != m:
        bad += 1
        if bad <= 6:
            print("CASE", c[:600]); print(" impl", i[:600]); print(" spec", m[:600])
print(len(cases), "cases", acc, "accepted", bad, "mismatches")
shutil.rmtree(wd, ignore_errors=True)
