#!/usr/bin/env python3
"""C11: header flag bits and code points."""
import os
import re
import common as C
from propbase import Prop, strip_cost


# =================================================================================== C11

def parse_iana():
    """the hand-written registry oracle coq/Spec/Iana.v -> {enum: {name: value}}"""
    txt = C.strip_coq_comments(open(os.path.join(C.COQ, "Spec", "Iana.v"), encoding="utf-8").read())
    res = {}
    for m in re.finditer(r"Definition\s+iana_(\w+)\s*:[^=]*:=\s*\[(.*?)\]\s*\.", txt, re.S):
        res[m.group(1)] = {n: int(v) for n, v in re.findall(r'\("(\w+)",\s*(\d+)\)', m.group(2))}
    # iana_QType := iana_Type without OPT ++ iana_qtype_only  (written that way in Spec/Iana.v)
    q = {n: v for n, v in res["Type"].items() if n != "OPT"}
    q.update(res.pop("qtype_only"))
    res["QType"] = q
    return res


ENUMS = ["Opcode", "RCode", "Class", "Type", "QType", "QClass", "EDNSOptionCode", "AlgorithmType",
         "DigestType", "SSHFPAlgorithm", "SSHFPType", "AFSDBSubtype", "AddressFamilyNumber"]


class C11(Prop):
    pid = "C11"

    def __init__(self):
        self.iana = parse_iana()

    def streams(self, tier, rng):
        s = [("enum-tables", ["T " + e for e in ENUMS]),
             ("flag-words", ["D Flags %04x" % w for w in range(65536)])]
        for e in ("Type", "Class", "QType", "QClass"):
            s.append(("code-" + e, ["D %s %04x" % (e, v) for v in range(65536)]))
        s.append(("code-encode", ["E %s %d" % (e, v) for e in ("Type", "Class", "QType", "QClass")
                                  for v in sorted(self.iana[e].values())]))
        # the same code points where they occur in practice: the CLASS of a record (an NS record, any class allowed), the
        # QTYPE and QCLASS of a question, every value -- the record / question readers have their own copy of the conversion
        s.append(("class-in-record", ["D RR 000002%04x00000005000100" % v for v in range(65536)]))
        s.append(("qclass-in-question", ["D Question 000001%04x" % v for v in range(65536)]))
        s.append(("qtype-in-question", ["D Question 00%04x0001" % v for v in range(65536)]))
        s.append(("type-in-record", ["D RR 00%04x000100000005000100" % v for v in range(65536)]))
        return s

    def view(self, case, line):
        return strip_cost(line)

    def nontrivial(self, case, line):
        return True

    def oracle(self, case, line):
        if line.startswith("PANIC"):
            return "implementation panicked: " + line[:200]
        w = case.split(" ")
        if w[0] == "T":
            tbl = self.iana[w[1]]
            if line.startswith("BAD"):
                return "try_from/as not inverse: " + line
            pairs = [p.split("=") for p in line.split(",") if p]
            got = {n: int(v) for v, n in pairs}
            if len(got) != len(pairs) or len({v for v, _ in pairs}) != len(pairs):
                return "mapping is not a bijection"
            if got != tbl:
                diff = sorted(set(got.items()) ^ set(tbl.items()))
                return "%s differs from the IANA registry at %s" % (w[1], diff[:6])
            return None
        if w[0] == "D" and w[1] == "Flags":
            word = int(w[2], 16)
            opcode = (word >> 11) & 15
            rcode = word & 15
            z = (word >> 6) & 1
            ops = set(self.iana["Opcode"].values())
            rcs = set(v for v in self.iana["RCode"].values())
            if opcode not in ops:
                exp = "ERR Opcode %d" % opcode
            elif z:
                exp = "ERR ZNotZeroes 64"
            elif rcode not in rcs:
                exp = "ERR RCode %d" % rcode
            else:
                b = lambda i: (word >> i) & 1
                exp = "OK (F %d %d %d %d %d %d %d %d %d) acc=- reenc=%04x d2=same" % (
                    b(15), opcode, b(10), b(9), b(8), b(7), b(5), b(4), rcode, word)
            if strip_cost(line) != exp:
                return "flag word %04x: expected `%s`, implementation `%s`" % (word, exp, strip_cost(line)[:200])
            return None
        if w[0] == "D" and w[1] in ("RR", "Question"):
            b = bytes.fromhex(w[2])
            out = strip_cost(line)
            if w[1] == "Question":
                qt, qc = int.from_bytes(b[1:3], "big"), int.from_bytes(b[3:5], "big")
                if qt not in self.iana["QType"].values():
                    exp = "ERR QType %d" % qt
                elif qc not in self.iana["QClass"].values():
                    exp = "ERR QClass %d" % qc
                else:
                    exp = "OK (Q (N) %d %d)" % (qt, qc)
                if not out.startswith(exp):
                    return "question with QTYPE %d QCLASS %d: expected `%s`, implementation `%s`" % (qt, qc, exp, out[:160])
                return None
            t, c = int.from_bytes(b[1:3], "big"), int.from_bytes(b[3:5], "big")
            if t == 2:
                # an NS record (root target): every registered class is accepted, every other one is an error carrying it
                exp = "OK (RR 2 (N) %d 5 (G (N)))" % c if c in self.iana["Class"].values() else "ERR Class %d" % c
                if not out.startswith(exp):
                    return "record with CLASS %d: expected `%s`, implementation `%s`" % (c, exp, out[:160])
                return None
            if t not in self.iana["Type"].values():
                if out != "ERR Type %d" % t:
                    return "record with unsupported TYPE %d: expected `ERR Type %d`, implementation `%s`" % (t, t, out[:160])
            elif out.startswith("OK ") and not out.startswith("OK (RR %d " % t):
                return "record with TYPE %d decoded as another type: %s" % (t, out[:160])
            return None
        if w[0] == "D":
            v = int(w[2], 16)
            if v in self.iana[w[1]].values():
                exp = "OK %d acc=- reenc=%04x d2=same" % (v, v)
            else:
                exp = "ERR %s %d" % (w[1], v)
            if strip_cost(line) != exp:
                return "%s code %d: expected `%s`, implementation `%s`" % (w[1], v, exp, strip_cost(line)[:200])
            return None
        if w[0] == "E":
            exp = "OK %04x" % int(w[2])
            if line != exp:
                return "encode of %s %s: expected `%s`, implementation `%s`" % (w[1], w[2], exp, line[:100])
        return None

    def rule(self):
        return ("complete enumeration: all 65,536 flag words, all 65,536 values of Type/Class/QType/QClass through "
                "their decode entry points, all 256/65,536 values of the 13 enums through TryFrom/as (one T case "
                "per enum); every case is distinct; non-trivial = every case (the domain is enumerated, not sampled)")

    def exhaustive(self, tier):
        return True

    def assumptions(self):
        return ["Spec/Iana.v is a faithful copy of the IANA registries for the mnemonics the library supports",
                "Display names are not compared with the registry mnemonics (variant identifiers are)"]


