#!/usr/bin/env python3
"""C12 (validated value types, call histories) and C13 (name text form / equality / hash / limits)."""
import itertools

from propbase import Prop, TRUSTED_COMMON
import refdec as R


def hx(b):
    return "x" + bytes(b).hex()


def unhx(t):
    return bytes.fromhex(t[1:])


# ------------------------------------------------------------------ independent predicates (oracle side)

def addr_bits_ok(fam, octets, prefix):
    size = 4 if fam == 1 else 16
    if len(octets) != size or prefix > 8 * size:
        return False
    v = int.from_bytes(octets, "big")
    return v & ((1 << (8 * size - prefix)) - 1) == 0


def split_items(line):
    return [it.split(";", 1) for it in line.split(" | ")]


def state_ok(ty, st):
    """the documented constraint of the type, evaluated on the printed state"""
    if st == "none":
        return True
    if ty == "ECS":
        t = R.parse_canon(st)
        fam, src, scope, a = t[1]
        return fam in (1, 2) and addr_bits_ok(fam, bytes.fromhex(a[1]), max(src, scope))
    if ty == "API":
        t = R.parse_canon(st)
        fam, prefix, neg, a = t[1]
        return fam in (1, 2) and neg in (0, 1) and addr_bits_ok(fam, bytes.fromhex(a[1]), prefix)
    if ty == "COOKIE":
        t = R.parse_canon(st)
        c, s = t[1]
        if len(c[1]) != 16:
            return False
        return s[1] == [] or 8 <= len(s[1][0][1]) // 2 <= 32
    if ty == "LABEL":
        return 1 <= len(unhx(st)) <= 63
    if ty == "NAME":
        txt, ln = st.rsplit(" len=", 1)
        t = R.parse_canon(txt)
        labs = [bytes.fromhex(i[1]) for i in t[1]]
        wire = 1 + sum(len(l) + 1 for l in labs)
        return all(1 <= len(l) <= 63 for l in labs) and wire <= 255 and int(ln) == (1 if not labs else wire - 1)
    if ty == "TXT":
        return len(R.parse_canon(st)[1]) >= 1
    if ty == "TAG":
        b = unhx(st)
        return len(b) >= 1 and all(chr(c) in "abcdefghijklmnopqrstuvwxyz0123456789" for c in b)
    if ty in ("PSDN", "ISDNA"):
        return all(48 <= c <= 57 for c in unhx(st))
    if ty == "SA":
        return all(chr(c) in "0123456789abcdefABCDEF" for c in unhx(st))
    return True


PREFIXES = [0, 1, 7, 8, 9, 31, 32, 33, 127, 128, 129, 255]


def addr_pool(fam):
    size = 4 if fam == 1 else 16
    pool = [bytes(size), bytes([255] * size)]
    for bit in (0, 7, 8, 8 * size - 9, 8 * size - 8, 8 * size - 1):
        v = 1 << (8 * size - 1 - bit)
        pool.append(v.to_bytes(size, "big"))
    for p in (1, 8, 9, 8 * size - 1):
        v = ((1 << p) - 1) << (8 * size - p)
        pool.append(v.to_bytes(size, "big"))
    return pool


class C12(Prop):
    pid = "C12"

    def ops(self, ty, rng, full):
        if ty == "ECS":
            o = []
            for fam in (1, 2):
                for a in (addr_pool(fam) if full else addr_pool(fam)[:6]):
                    for p in ((0, 0), (8, 0), (24, 25), (32, 0), (33, 0), (128, 1), (129, 0), (1, 255), (7, 9)):
                        o.append("(new %d %d %d %s)" % (p[0], p[1], fam, hx(a)))
                    o.append("(set_addr %d %s)" % (fam, hx(a)))
            for p in PREFIXES:
                o.append("(set_src %d)" % p)
                o.append("(set_scope %d)" % p)
            return o
        if ty == "API":
            o = []
            for fam in (1, 2):
                for a in (addr_pool(fam) if full else addr_pool(fam)[:6]):
                    for p in (0, 1, 8, 9, 32, 33, 128, 129):
                        o.append("(new %d %d %d %s)" % (p, p & 1, fam, hx(a)))
                    o.append("(set_addr %d %s)" % (fam, hx(a)))
            for p in PREFIXES:
                o.append("(set_prefix %d)" % p)
            o += ["(set_neg 0)", "(set_neg 1)"]
            return o
        if ty == "COOKIE":
            o = []
            cl = bytes(range(1, 9))
            for n in (None, 0, 7, 8, 9, 31, 32, 33, 64):
                s = "(O)" if n is None else "(O %s)" % hx(bytes([0xAB] * n))
                o.append("(new %s %s)" % (hx(cl), s))
                o.append("(set_server %s)" % s)
            o.append("(set_client %s)" % hx(bytes([255] * 8)))
            return o
        if ty == "LABEL":
            return ["(%s %s)" % (f, hx(b)) for f in ("try_from", "from_str")
                    for b in (b"", b"a", b"A" * 63, b"a" * 64, "é".encode() * 31 + b"a", "é".encode() * 32, b"a.b", b"\x00")]
        if ty == "NAME":
            big = b".".join([b"a" * 63] * 3)
            o = ["(default)"]
            for k in (59, 60, 61, 62, 63):
                o.append("(from_str %s)" % hx(big + b"." + b"b" * k))
            for s in (b".", b"", b"a", b"a.", b"a..b", b"A.b.C.", b"a" * 64):
                o.append("(from_str %s)" % hx(s))
            for l in (b"", b"x", b"y" * 63, b"z" * 64, b"q" * 61, b"q" * 62, b"q" * 60):
                o.append("(append %s)" % hx(l))
            # the limits count octets, not characters: labels of 2- and 4-octet characters
            e2, e4 = "\u00e9".encode(), "\U0001f600".encode()
            for l in (e2 * 31, e2 * 30 + b"a", e4 * 15, e4 * 15 + b"abc"):
                o.append("(append %s)" % hx(l))
            bigm = b".".join([e2 * 31] * 4)                      # 4 x 63 = 252 wire octets (+ root)
            for tail in (b"", b".b", b".bb", b".bbb", b"." + e2, b"." + e4 * 10):
                o.append("(from_str %s)" % hx(bigm + tail))
            lm = bytes([62]) + e2 * 31
            for w in (lm * 4 + b"\x00", lm * 4 + b"\x01b\x00", lm * 4 + b"\x02bb\x00", lm * 4 + b"\x02" + e2 + b"\x00", lm * 6 + b"\x00"):
                o.append("(decode %s)" % hx(w))
            for w in (b"\x00", b"\x01a\x00", b"\xc0\x00", b"\x01a\xc0\x00", b"\x3f" + b"a" * 63 + b"\x00", b"\x40" + b"a" * 64 + b"\x00",
                      (b"\x3f" + b"a" * 63) * 3 + b"\x3d" + b"b" * 61 + b"\x00", (b"\x3f" + b"a" * 63) * 3 + b"\x3e" + b"b" * 62 + b"\x00"):
                o.append("(decode %s)" % hx(w))
            return o
        if ty == "TXT":
            return ["(try_from (L))", "(try_from (L x))", "(try_from (L x61 x))", "(try_from (L %s))" % hx(b"a" * 300)]
        uni = ["iss\u00fce".encode(), "ISSU\u00c9".encode(), "tag\u0663".encode(), "\uff11\uff12".encode(), "x\u00b2".encode(),
               "\u01c5".encode(), "\uff41\uff26".encode(), "\u06f1".encode(), "1\u0969".encode()]
        if ty == "TAG":
            return ["(try_from %s)" % hx(b) for b in [b"", b"issue", b"ISSUE", b"Issue9", b"is-sue", "é".encode(), b"a" * 300, b"a b"] + uni]
        if ty in ("PSDN", "ISDNA"):
            return ["(try_from %s)" % hx(b) for b in [b"", b"0", b"0123456789", b"12a", b"1 2", "١".encode(), b"+1"] + uni]
        if ty == "SA":
            return ["(try_from %s)" % hx(b) for b in [b"", b"0", b"09afAF", b"g", b"0x", "é".encode()] + uni]
        raise AssertionError(ty)

    TYPES = ["ECS", "API", "COOKIE", "LABEL", "NAME", "TXT", "TAG", "PSDN", "ISDNA", "SA"]

    def streams(self, tier, rng):
        out = []
        for ty in self.TYPES:
            ops = self.ops(ty, rng, tier == "thorough")
            cs = []
            # exhaustive short histories over the boundary operation set (capped), then random long ones
            depth = 2 if len(ops) > 40 else (3 if len(ops) > 12 else 4)
            budget = 6000 if tier == "quick" else 60000
            allh = itertools.product(ops, repeat=depth)
            total = len(ops) ** depth
            if total <= budget:
                for h in allh:
                    cs.append("H %s %s" % (ty, " ".join(h)))
            else:
                for _ in range(budget):
                    cs.append("H %s %s" % (ty, " ".join(rng.choice(ops) for _ in range(depth))))
            for _ in range(300 if tier == "quick" else 3000):
                k = rng.choice([4, 8, 16, 64])
                cs.append("H %s %s" % (ty, " ".join(rng.choice(ops) for _ in range(k))))
            out.append(("histories-" + ty, cs))
        return out

    def outcome(self, case, line):
        return "rejected-call" if "err " in line else "all-ok"

    def nontrivial(self, case, line):
        return "err " in line and "ok;" in line

    def oracle(self, case, line):
        if "PANIC" in line:
            return "implementation panicked: " + line[:300]
        ty = case.split(" ")[1]
        prev = "none"
        for res, st in split_items(line):
            if not state_ok(ty, st):
                return "%s holds an invalid value after a call: %s" % (ty, st[:200])
            if res.startswith("err") and st != prev:
                return "a failing call changed the value: %s -> %s" % (prev[:150], st[:150])
            prev = st
        return None

    def rule(self):
        return ("H cases: histories of public constructor/setter/append/decode calls on one value; exhaustive histories "
                "of length 2-4 over boundary-argument operation sets where that fits the budget, random otherwise, plus "
                "random histories of up to 64 calls; non-trivial = the history contains both an accepted and a rejected call; "
                "distinct by case text")

    def assumptions(self):
        return ["the public API surface of the ten value types is the set of operations listed in docs/PROTOCOL.md (H cases)"]


# =================================================================================== C13

def expect_parse(s):
    """independent reading of the documented text form: labels separated by '.', optional trailing dot,
    "." alone is the root; labels 1..=63 octets; at most 255 wire octets"""
    if s == b".":
        return []
    body = s[:-1] if s.endswith(b".") else s
    labs = body.split(b".")
    if any(not (1 <= len(l) <= 63) for l in labs):
        return None
    if 1 + sum(len(l) + 1 for l in labs) > 255:
        return None
    return labs


def c_name(labs):
    return "(N" + "".join(" " + hx(l) for l in labs) + ")"


SPECIAL = ["K", "k", "K", "İ", "i̇", "ß", "ẞ", "é", "É", "ǅ", "😀", "\u0000", "A", "a", "Z", "z", "0", "-", "@", "`", "[", "{"]


class C13(Prop):
    pid = "C13"

    def rnd_label_text(self, rng, n):
        s = ""
        while len(s.encode()) < n:
            s += rng.choice(SPECIAL) if rng.random() < 0.3 else rng.choice("abcXYZ019-_")
        b = s.encode()
        while len(b) > n:
            s = s[:-1]
            b = s.encode()
        if len(b) < n:
            b += b"a" * (n - len(b))
        return b

    def streams(self, tier, rng):
        n = 1 if tier == "quick" else 10
        parse = []
        for k in list(range(0, 71)):
            for _ in range(3 * n):
                parse.append("X parse " + hx(self.rnd_label_text(rng, k)))
                parse.append("X parse " + hx(self.rnd_label_text(rng, k) + b".org."))
        for s in (b".", b"", b"..", b"a.", b".a", b"a..b", b"a.b.c", b"A.B.", b" ", b"a.b.", "é.".encode(),
                  # white space is an ordinary octet of a label: never trimmed, never a separator
                  b" a.b.", b"a .b.", b"a. b.", b"a.b .", b" .b.", b"\ta.b", b"a\n.b", b"a.b\r\n", b"\xc2\xa0a.b", b" a", b"a ",
                  b"  ", b" " * 63 + b".a", b" " * 64 + b".a", b" " + b"a" * 63, b"a" * 63 + b" "):
            parse.append("X parse " + hx(s))
        # names around the 253..=257 wire-octet boundary
        for total in range(250, 260):
            for _ in range(4 * n):
                labs = []
                left = total - 1
                while left > 0:
                    k = min(left - 1, rng.choice([63, 63, 30, 1, 7]))
                    if k <= 0:
                        break
                    labs.append(self.rnd_label_text(rng, k))
                    left -= k + 1
                parse.append("X parse " + hx(b".".join(labs) + (b"." if rng.random() < 0.5 else b"")))
        eq = []
        pool = [b" a", b"a ", b"\ta", b"a", b"A", b"abc", b"ABC", b"aBc", b"abd", "K".encode(), b"k", b"K", "İ".encode(), "i̇".encode(), b"i",
                "é".encode(), "É".encode(), "ß".encode(), "ẞ".encode(), b"ss", b"@", b"`", b"[", b"{", b"a.b", b"a\x00"]
        for a in pool:
            for b in pool:
                eq.append("X eq (N %s) (N %s)" % (hx(a), hx(b)))
                eq.append("X eq (N %s x6f7267) (N %s x4f5247)" % (hx(a), hx(b)))
        for _ in range(400 * n):
            k = rng.choice([1, 2, 3, 5])
            la = [self.rnd_label_text(rng, rng.choice([1, 2, 5, 63])) for _ in range(k)]
            lb = [bytes((c ^ 0x20) if (65 <= c <= 90 or 97 <= c <= 122) and rng.random() < 0.5 else c for c in l) for l in la]
            if rng.random() < 0.3:
                i = rng.randrange(k)
                lb[i] = self.rnd_label_text(rng, len(lb[i]))
            if rng.random() < 0.1:
                lb = lb[:-1] or [b"x"]
            if max(1 + sum(len(l) + 1 for l in x) for x in (la, lb)) <= 255:
                eq.append("X eq %s %s" % (c_name(la), c_name(lb)))
        rt = ["X rt (N)"]
        for _ in range(500 * n):
            k = rng.choice([1, 2, 3, 4])
            labs = []
            for _ in range(k):
                l = self.rnd_label_text(rng, rng.choice([1, 2, 5, 40, 63]))
                if rng.random() < 0.1:
                    l2 = l[:len(l) // 2] + b"." + l[len(l) // 2 + 1:]
                    l = l2 if R.is_utf8(l2) else b"a.b"
                labs.append(l)
            if 1 + sum(len(l) + 1 for l in labs) <= 255:
                rt.append("X rt " + c_name(labs))
        # the encoder may substitute a name only by an equal one (labels equal up to ASCII case): messages whose names
        # print alike but split their labels differently, or differ only in case
        import props_codec as PC
        import gen_cases as G
        enc = []
        tpool = [[b"a.b", b"example", b"org"], [b"a", b"b", b"example", b"org"], [b"a", b"b.example", b"org"], [b"A.B", b"EXAMPLE", b"org"],
                 [b"a.b.example.org"], [b"ab", b"example", b"org"], [b"example", b"org"], [b"EXAMPLE", b"ORG"], [b"b", b"example", b"org"],
                 ["é".encode(), b"org"], ["É".encode(), b"org"], [b"k", b"org"], ["K".encode(), b"org"], [b"K", b"org"]]
        for i in range(len(tpool)):
            for j in range(len(tpool)):
                enc.append("E Dns " + G.canon(PC.name_seq_msg([tpool[i], tpool[j], tpool[i]])))
        # wire decoding enforces the same limits as text parsing and appending: every label length octet 0..=70 (and the
        # reserved 0x40..0xbf range) in first / middle / last position and behind a pointer, names of 250..=259 wire octets
        import streams as S
        wire = []
        lab = lambda k: bytes([k]) + bytes(97 + (i % 26) for i in range(k))
        for k in list(range(0, 71)) + [100, 127, 128, 191]:
            body = bytes([k & 0xFF]) + bytes(97 + (i % 26) for i in range(k))
            wire.append(S.d("DomainName", body + b"\x00"))
            wire.append(S.d("DomainName", lab(3) + body + b"\x00"))
            wire.append(S.d("DomainName", body + lab(3) + b"\x00"))
            wire.append(S.d("DomainName", body))                                  # no terminating octet
            # the label behind a pointer: name at 0 = pointer to offset 2, where the label sits
            wire.append(S.d("DomainName", b"\xc0\x02" + body + b"\x00"))
            wire.append(S.d("DomainName", lab(1) + b"\xc0\x04" + body + b"\x00"))
        for total in range(250, 260):
            for first in (63, 62, 1, 2, 33):
                labs, left = [], total - 1
                k = first
                while left > 1:
                    k = min(left - 1, k)
                    labs.append(lab(k))
                    left -= k + 1
                    k = 63
                if left == 1:
                    continue
                wire.append(S.d("DomainName", b"".join(labs) + b"\x00"))
                # the same name, its tail reached through a pointer
                tail = b"".join(labs[1:]) + b"\x00"
                wire.append(S.d("DomainName", labs[0] + bytes([0xC0, len(labs[0]) + 2]) + tail))
        return [("parse", parse), ("eq-hash", eq), ("text-roundtrip", rt), ("compression-targets", enc), ("wire-limits", wire)]

    def nontrivial(self, case, line):
        return True

    def view(self, case, line):
        if case.startswith("D "):
            import props_codec as PC
            dd = PC.parse_d(line)
            return dd["status"] if dd["status"] != "OK" else "OK " + dd["canon"]
        return line

    def oracle(self, case, line):
        if line.startswith("PANIC"):
            return "implementation panicked: " + line[:200]
        if case.startswith("D "):
            import props_codec as PC
            dd = PC.parse_d(line)
            e, wbytes = PC.case_wire(case)
            r = R.ref_decode(e, wbytes)
            if dd["status"] == "OK" and r[0] != "OK":
                return "wire name accepted although it breaks the limits (labels 1..=63 octets, name <= 255 octets): %s" % r[1]
            if dd["status"] == "ERR" and r[0] == "OK":
                return "wire name within the limits rejected: %s" % dd["err"]
            if dd["status"] == "OK" and r[1] != dd["canon"]:
                return "decoded name differs from the wire: library %s reference %s" % (dd["canon"][:200], r[1][:200])
            return None
        w = case.split(" ", 2)
        if w[0] == "E":
            import props_codec as PC
            return PC.encode_oracle(case, line, expect_ok=True)
        if w[1] == "parse":
            s = unhx(w[2])
            e = expect_parse(s)
            if e is None:
                return None if line.startswith("ERR ") else "text %r must be rejected (label 1..=63, name <= 255): %s" % (s[:80], line[:200])
            wire = 1 + sum(len(l) + 1 for l in e)
            disp = b"." if not e else b"".join(l + b"." for l in e)
            exp = "OK %s len=%d disp=%s" % (c_name(e), len(disp), hx(disp))
            assert len(disp) == (1 if not e else wire - 1)
            return None if line == exp else "text %r: expected `%s`, implementation `%s`" % (s[:80], exp[:200], line[:200])
        if w[1] == "eq":
            t = R.parse_canon("(P " + w[2] + ")")
            a = [bytes.fromhex(i[1]) for i in t[1][0][1]]
            b = [bytes.fromhex(i[1]) for i in t[1][1][1]]
            lower = lambda l: bytes(c + 32 if 65 <= c <= 90 else c for c in l)
            e = len(a) == len(b) and all(lower(x) == lower(y) for x, y in zip(a, b))
            if line.startswith("BUILD-ERR"):
                return None
            got_eq = "eq=1" in line
            if got_eq != e:
                return "names %s / %s: == is %s but ASCII-case-insensitive label equality is %s" % (a, b, got_eq, e)
            if e and "hash_eq=1" not in line:
                return "equal names hash differently: %s / %s" % (a, b)
            return None
        if w[1] == "rt":
            t = R.parse_canon(w[2])
            labs = [bytes.fromhex(i[1]) for i in t[1]]
            disp = b"." if not labs else b"".join(l + b"." for l in labs)
            if any(b"." in l for l in labs):
                exp_prefix = "disp=%s len=%d " % (hx(disp), len(disp))
                return None if line.startswith(exp_prefix) else "Display/len mismatch: " + line[:200]
            exp = "disp=%s len=%d back=OK %s" % (hx(disp), len(disp), c_name(labs))
            return None if line == exp else "text round trip: expected `%s`, implementation `%s`" % (exp[:200], line[:200])
        return None

    def rule(self):
        return ("X cases: parse of label strings of 0..=70 octets over an alphabet with upper/lower ASCII, digits, NUL, '.', "
                "multi-byte UTF-8 incl. U+212A, U+0130, U+1E9E; names of 250..=259 wire octets; equality/hash pairs (full "
                "cross product of a special-label pool, random case-flipped pairs); Display->parse round trips; D DomainName "
                "cases for every label length octet 0..=70 (+100, 127, 128, 191) in first/middle/last position and behind a "
                "pointer, and wire names of 250..=259 octets plain and through a pointer, judged by the reference decoder in "
                "both directions; every case non-trivial; distinct by text")

    def assumptions(self):
        return ["the hasher is std's DefaultHasher with fixed keys in the harness; the theorem quantifies over every hasher (function of the fed octets)",
                "Unicode case mapping plays no role after fix F4 (ASCII folding only)"]
