#!/usr/bin/env python3
"""Acceptance tests of tools/gen_formats.py.   Run:  python3 tools/test_gen_formats.py

(a) identity    : on the unmodified source the generated tables equal, AS DATA, the hand-written
                  coq/Gen/Formats.v (entry order of dec_dispatch / enc_dispatch included;
                  struct_encode_types is compared as a set: the hand-written list is in readdir
                  order of the author's file system, the generator sorts numerically).
(b) robustness  : harmless edits of a copy of the source (layout, comments, function order,
                  local names, path qualification) leave the output text unchanged.
(c) sensitivity : semantic edits change exactly the affected entries (to the new truth or to
                  FUnknown), never silently the old table.
(d) syntax      : if coqc is available, the generated file compiles against the real Model/Fmt.v
                  (with a stub for the Base library that Fmt.v imports).

Every mutated copy lives in a temporary directory under the project root and is run through
`VERIF_REPO=<dir> python3 tools/gen_formats.py`, i.e. through the real command line.
"""
import os
import re
import shutil
import subprocess
import sys
import tempfile

TOOLS = os.path.dirname(os.path.abspath(__file__))
ROOT = os.path.dirname(TOOLS)
# the hand-written table: tools/testdata keeps a copy, because `python3 tools/gen_tables.py`
# overwrites coq/Gen/Formats.v with the generated text (after which the comparison would be void)
HAND = os.path.join(TOOLS, "testdata", "Formats.handwritten.v")
if not os.path.exists(HAND):
    HAND = os.path.join(ROOT, "coq", "Gen", "Formats.v")
REPO = os.environ.get("VERIF_REPO", "/repo")
PRISTINE = os.path.join(ROOT, "src_copy") if os.path.isdir(os.path.join(ROOT, "src_copy")) else os.path.join(REPO, "src")

# ---------------------------------------------------------------- a reader for Formats.v

CTOK = re.compile(r'\(\*.*?\*\)|"[^"]*"|\d+|[A-Za-z_][\w\']*(?:\.[A-Za-z_][\w\']*)*|:=|[()\[\];,.:*]', re.S)


def coq_tokens(text):
    return [t for t in CTOK.findall(text) if not t.startswith("(*")]


def parse_term(toks, i):
    """term := atom+ ; atom := ident | number | string | ( term {, term} ) | [ {term ;} ]
    -> (value, next index); an application is a tuple, a pair/tuple is ('tuple', ...), a list a list"""
    atoms = []
    while i < len(toks):
        t = toks[i]
        if t == "(":
            items = []
            i += 1
            while True:
                v, i = parse_term(toks, i)
                items.append(v)
                if toks[i] == ",":
                    i += 1
                    continue
                if toks[i] != ")":
                    raise ValueError("expected ) at %d: %r" % (i, toks[i - 3:i + 3]))
                i += 1
                break
            atoms.append(items[0] if len(items) == 1 else ("tuple",) + tuple(items))
        elif t == "[":
            items = []
            i += 1
            if toks[i] == "]":
                i += 1
            else:
                while True:
                    v, i = parse_term(toks, i)
                    items.append(v)
                    if toks[i] == ";":
                        i += 1
                        continue
                    if toks[i] != "]":
                        raise ValueError("expected ] at %d: %r" % (i, toks[i - 3:i + 3]))
                    i += 1
                    break
            atoms.append(items)
        elif t in (")", "]", ";", ",", ".", ":="):
            break
        else:
            atoms.append(int(t) if t.isdigit() else t)
            i += 1
    if not atoms:
        raise ValueError("empty term at %d" % i)
    return (atoms[0] if len(atoms) == 1 else tuple(atoms)), i


def parse_formats(text):
    """-> {'dec': [(type, kind, class, [(name, fieldkind)])], 'enc': [...], 'set': [codes], 'prelude': [...]}
    kind is 'fields' or 'special' (then class is the special and the field list is empty)"""
    toks = coq_tokens(text)
    res = {}
    prelude = []
    i = 0
    while i < len(toks):
        if toks[i] == "Definition":
            name = toks[i + 1]
            j = toks.index(":=", i)
            val, k = parse_term(toks, j + 1)
            if toks[k] != ".":
                raise ValueError("definition %s does not end with '.'" % name)
            res[name] = (tuple(toks[i + 2:j]), val)
            i = k + 1
        else:
            j = toks.index(".", i)
            prelude.append(" ".join(toks[i:j]))
            i = j + 1
    out = {"prelude": prelude}
    for key, defn, fields_c, special_c in (("dec", "dec_dispatch", "RdFields", "RdSpecial"),
                                           ("enc", "enc_dispatch", "WrFields", "WrSpecial")):
        ty, val = res[defn]
        out[key + "_type"] = " ".join(ty)
        rows = []
        for e in val:
            assert e[0] == "tuple" and len(e) == 3, e
            code, body = e[1], e[2]
            if body[0] == fields_c:
                assert len(body) == 3 and isinstance(body[2], list), body
                fl = []
                for f in body[2]:
                    assert f[0] == "tuple" and len(f) == 3 and f[1].startswith('"'), f
                    fl.append((f[1].strip('"'), f[2]))
                rows.append((code, "fields", body[1], fl))
            elif body[0] == special_c:
                rows.append((code, "special", body[1], []))
            else:
                raise ValueError("unexpected entry %r" % (body,))
        out[key] = rows
    out["set_type"] = " ".join(res["struct_encode_types"][0])
    out["set"] = list(res["struct_encode_types"][1])
    return out


# ---------------------------------------------------------------- running the generator

def run_generator(repo=None):
    env = dict(os.environ)
    if repo is not None:
        env["VERIF_REPO"] = repo
    p = subprocess.run([sys.executable, os.path.join(TOOLS, "gen_formats.py")], env=env,
                       stdout=subprocess.PIPE, stderr=subprocess.PIPE, universal_newlines=True)
    if p.returncode != 0:
        raise AssertionError("generator failed (%d):\n%s" % (p.returncode, p.stderr))
    return p.stdout, p.stderr


def sub1(old, new):
    """edit: replace exactly one occurrence"""
    def f(text):
        assert text.count(old) == 1, "expected exactly one occurrence of %r, found %d" % (old, text.count(old))
        return text.replace(old, new)
    return f


def sub_all(old, new):
    def f(text):
        assert text.count(old) >= 1, "no occurrence of %r" % old
        return text.replace(old, new)
    return f


def collapse_ws(text):
    return re.sub(r"\s+", " ", text) + "\n"


def one_token_per_line(text):
    return re.sub(r"([;{}(),])", r"\n\1\n", text)


def fn_span(text, name):
    """span of `[pub(..)] fn name ... { ... }` including the leading indentation"""
    m = re.search(r"[ \t]*(?:#\[inline\]\s*)?(?:pub(?:\([^)]*\))?\s+)?fn\s+" + name + r"\b", text)
    assert m, "fn %s not found" % name
    i = text.index("{", m.end())
    depth = 0
    k = i
    while True:
        if text[k] == "{":
            depth += 1
        elif text[k] == "}":
            depth -= 1
            if depth == 0:
                break
        k += 1
    return m.start(), k + 1


def swap_fns(a, b):
    def f(text):
        sa, ea = fn_span(text, a)
        sb, eb = fn_span(text, b)
        assert ea <= sb
        return text[:sa] + text[sb:eb] + text[ea:sb] + text[sa:ea] + text[eb:]
    return f


def in_fn(name, edit):
    """apply an edit to the text of one function only"""
    def f(text):
        s, e = fn_span(text, name)
        return text[:s] + edit(text[s:e]) + text[e:]
    return f


class Mutant:
    def __init__(self, edits):
        self.edits = edits

    def __enter__(self):
        self.dir = tempfile.mkdtemp(prefix="tmp_genformats_", dir=ROOT)
        shutil.copytree(PRISTINE, os.path.join(self.dir, "src"))
        for rel, edit in self.edits:
            path = os.path.join(self.dir, "src", rel)
            with open(path, encoding="utf-8") as fh:
                text = fh.read()
            new = edit(text)
            assert new != text, "edit of %s changed nothing" % rel
            with open(path, "w", encoding="utf-8") as fh:
                fh.write(new)
        return self.dir

    def __exit__(self, *a):
        shutil.rmtree(self.dir, ignore_errors=True)


# ---------------------------------------------------------------- the tests

RESULTS = []


def check(name, cond, detail=""):
    RESULTS.append((name, bool(cond), detail))
    print("%s  %s%s" % ("PASS" if cond else "FAIL", name, ("\n      " + detail) if (detail and not cond) else ""))


def as_dict(rows):
    d = {}
    for code, kind, cl, fl in rows:
        assert code not in d, "duplicate type %d" % code
        d[code] = (kind, cl, fl)
    return d


def test_identity(base_text):
    hand = parse_formats(open(HAND, encoding="utf-8").read())
    gen = parse_formats(base_text)
    check("(a) header line", base_text.startswith("(* GENERATED by tools/gen_formats.py from /repo/src — do not edit *)\n"))
    check("(a) prelude (imports, scopes) identical", gen["prelude"] == hand["prelude"], "%r vs %r" % (gen["prelude"], hand["prelude"]))
    check("(a) definition types identical", all(gen[k] == hand[k] for k in ("dec_type", "enc_type", "set_type")))
    for key in ("dec", "enc"):
        dg, dh = as_dict(gen[key]), as_dict(hand[key])
        diffs = ["type %s: source says %r, hand-written table says %r" % (c, dg.get(c), dh.get(c))
                 for c in sorted(set(dg) | set(dh)) if dg.get(c) != dh.get(c)]
        check("(a) %s_dispatch: same data per type (%d types)" % (key, len(dh)), not diffs, "\n      ".join(diffs))
        check("(a) %s_dispatch: same entry order" % key, [r[0] for r in gen[key]] == [r[0] for r in hand[key]])
        check("(a) %s_dispatch: identical as ordered data" % key, gen[key] == hand[key])
    check("(a) struct_encode_types: same set (%d codes; generator sorts numerically)" % len(hand["set"]),
          sorted(gen["set"]) == sorted(hand["set"]) and len(set(gen["set"])) == len(gen["set"]),
          "%r vs %r" % (sorted(gen["set"]), sorted(hand["set"])))
    check("(a) no FUnknown on the unmodified source", "FUnknown" not in base_text)
    return gen


ROBUST = [
    ("reformat: whitespace collapsed (SRV reader+writer, both macro files, rfc_1183)", [
        ("decode/rr/rfc_2782.rs", collapse_ws), ("encode/rr/rfc_2782.rs", collapse_ws),
        ("decode/rr/macros.rs", collapse_ws), ("encode/rr/macros.rs", collapse_ws),
        ("decode/rr/rfc_1183.rs", collapse_ws), ("encode/rr/rfc_1183.rs", collapse_ws)]),
    ("reformat: one token group per line (rfc_4034 reader+writer, dispatch files)", [
        ("decode/rr/rfc_4034.rs", one_token_per_line), ("encode/rr/rfc_4034.rs", one_token_per_line),
        ("decode/rr/enums.rs", one_token_per_line), ("encode/rr/enums.rs", one_token_per_line)]),
    ("comments containing code added", [
        ("decode/rr/rfc_1035.rs", sub1("        let serial = self.u32()?;\n",
                                       "        // let bogus = self.u8()?;\n        let serial = /* self.u16()? */ self.u32()?; // was u64\n"
                                       "        /* let extra = self.domain_name()?;\n           let more = self.vec()?; */\n")),
        ("encode/rr/rfc_1035.rs", sub1("        self.u32(soa.serial);\n", "        // self.u8(soa.bogus);\n        self.u32(soa.serial); /* self.u16(soa.other); */\n")),
        ("decode/rr/macros.rs", sub_all("            let class = header.get_class()?;\n", "            // match header.get_class()? { Class::IN => {} }\n            let class = header.get_class()?;\n"))]),
    ("functions reordered (DNSKEY/DS, enum helpers after their use, SSHFP helpers swapped)", [
        ("decode/rr/rfc_4034.rs", swap_fns("rr_dnskey", "rr_ds")),
        ("decode/rr/rfc_3658.rs", swap_fns("rr_sshfp_algorithm", "rr_sshfp")),
        ("encode/rr/rfc_4034.rs", swap_fns("rr_algorithm_type", "rr_ds")),
        ("encode/rr/rfc_1183.rs", swap_fns("rr_isdn_sa", "rr_isdn"))]),
    ("macro definitions reordered, impl_encode_rr! lines reordered", [
        ("decode/rr/macros.rs", lambda t: t[t.index("macro_rules! impl_decode_rr_vec"):] + "\n" + t[:t.index("macro_rules! impl_decode_rr_vec")]),
        ("encode/rr/rfc_1035.rs", sub1("impl_encode_rr!(A, rr_a);\n\nimpl_encode_rr!(NS, rr_ns);\n", "impl_encode_rr!(NS, rr_ns);\n\nimpl_encode_rr!(A, rr_a);\n"))]),
    ("local variables and parameters renamed", [
        ("decode/rr/rfc_2782.rs", lambda t: sub1("            priority,\n", "            priority: prio,\n")(sub1("let priority = ", "let prio = ")(t))),
        ("decode/rr/rfc_4034.rs", in_fn("rr_dnskey", lambda t: re.sub(r"\bprotocol\b", "proto", re.sub(r"\bflags\b", "fl", t)))),
        ("decode/rr/rfc_4034.rs", in_fn("rr_digest_type", lambda t: re.sub(r"\bbuffer\b", "b", t))),
        ("decode/rr/rfc_1712.rs", lambda t: re.sub(r"\blongitude_len\b", "n1", t)),
        ("decode/rr/rfc_1183.rs", in_fn("rr_isdn", lambda t: t.replace("let sa = self.string()?;\n            let sa = SA::try_from(sa)?;\n            Some(sa)",
                                                                       "let s1 = self.string()?;\n            let s2 = SA::try_from(s1)?;\n            Some(s2)"))),
        ("decode/rr/rfc_1035.rs", in_fn("rr_txt", lambda t: t.replace("let mut strings = Vec::new();", "let mut acc = Vec::new();")
                                        .replace("strings.push(", "acc.push(").replace("let strings = strings.try_into()", "let strings = acc.try_into()"))),
        ("decode/rr/rfc_1035.rs", in_fn("rr_a", lambda t: t.replace("class => Err(DecodeError::AClass(class))", "other => Err(DecodeError::AClass(other))"))),
        ("decode/rr/rfc_7043.rs", in_fn("rr_eui48", lambda t: re.sub(r"\beui_48\b(?!,)", "mac", t).replace("            eui_48,\n", "            eui_48: mac,\n").replace("let mac = EUI48", "let r = EUI48").replace("Ok(mac)", "Ok(r)"))),
        ("encode/rr/rfc_2782.rs", lambda t: re.sub(r"\bsrv\b", "record", t)),
        ("encode/rr/rfc_7553.rs", lambda t: t.replace("uri: &URI", "u: &URI").replace("uri.", "u.").replace("u.as_bytes", "uri.as_bytes")),
        ("encode/rr/rfc_3658.rs", in_fn("rr_sshfp_type", lambda t: t.replace("type_", "t"))),
        ("encode/rr/macros.rs", lambda t: t.replace("i: &crate::rr::$i", "rec: &crate::rr::$i").replace("i.", "rec.")),
        ("decode/rr/enums.rs", lambda t: t.replace("r_data", "rd"))]),
    ("paths qualified / unqualified, Ok(struct literal) directly", [
        ("decode/rr/rfc_1035.rs", in_fn("rr_a", lambda t: t.replace("Class::IN", "crate::rr::Class::IN").replace("DecodeError::AClass", "crate::DecodeError::AClass"))),
        ("decode/rr/rfc_2782.rs", lambda t: t.replace("let srv = SRV {", "Ok(crate::rr::SRV {").replace("        };\n        Ok(srv)\n", "        })\n")),
        ("encode/rr/rfc_2782.rs", sub1("&Type::SRV", "&crate::rr::Type::SRV")),
        ("decode/rr/rfc_7553.rs", lambda t: t.replace("use std::str::from_utf8;\n", "").replace("from_utf8(buffer", "std::str::from_utf8(buffer"))]),
]


def test_robustness(base_text):
    for name, edits in ROBUST:
        with Mutant(edits) as repo:
            out, err = run_generator(repo)
        detail = ""
        if out != base_text:
            g, b = parse_formats(out), parse_formats(base_text)
            detail = "; ".join("%s %s: %r" % (k, r[0], r) for k in ("dec", "enc") for r in g[k] if r not in b[k]) + " | " + err[:400]
        check("(b) " + name, out == base_text, detail)


def entry(cl, *fields):
    return ("fields", cl, list(fields))


NAME, U16, U32 = "FName", "FU16", "FU32"

# (name, edits, expected decode changes {type: entry | 'unknown'}, expected encode changes)
# 'unknown' means: the entry must differ from the old one and contain FUnknown
SENSITIVE = [
    ("MX macro instance: preference/exchange reads swapped (impl_decode_rr_u16_domain_name)",
     [("decode/rr/macros.rs", sub1("            let $p = self.u16()?;\n            let $n = self.domain_name()?;\n",
                                   "            let $n = self.domain_name()?;\n            let $p = self.u16()?;\n"))],
     {15: entry("CKAny", ("exchange", NAME), ("preference", U16)), 21: entry("CKAny", ("intermediate_host", NAME), ("preference", U16)),
      36: entry("CKAny", ("exchanger", NAME), ("preference", U16)), 107: entry("CKAny", ("fqdn", NAME), ("preference", U16))}, {}),
    ("MX only: macro instance replaced by a hand-written reader with swapped reads",
     [("decode/rr/rfc_1035.rs", sub1("    impl_decode_rr_u16_domain_name!(MX, preference, exchange, rr_mx);\n",
                                     "    pub(super) fn rr_mx(&mut self, header: Header) -> DecodeResult<crate::rr::MX> {\n"
                                     "        let class = header.get_class()?;\n        let exchange = self.domain_name()?;\n        let preference = self.u16()?;\n"
                                     "        Ok(crate::rr::MX { domain_name: header.domain_name, ttl: header.ttl, class, preference, exchange })\n    }\n"))],
     {15: entry("CKAny", ("exchange", NAME), ("preference", U16))}, {}),
    ("MX writer macro: writes swapped (impl_encode_rr_u16_domain_name)",
     [("encode/rr/macros.rs", sub1("            self.u16(i.$p);\n            self.domain_name(&i.$n)?;\n", "            self.domain_name(&i.$n)?;\n            self.u16(i.$p);\n"))],
     {}, {15: entry("ECField", ("exchange", NAME), ("preference", U16)), 21: entry("ECField", ("intermediate_host", NAME), ("preference", U16)),
          36: entry("ECField", ("exchanger", NAME), ("preference", U16)), 107: entry("ECField", ("fqdn", NAME), ("preference", U16))}),
    ("rr_srv: priority/weight reads swapped",
     [("decode/rr/rfc_2782.rs", sub1("        let priority = self.u16()?;\n        let weight = self.u16()?;\n", "        let weight = self.u16()?;\n        let priority = self.u16()?;\n"))],
     {33: entry("CKAny", ("weight", U16), ("priority", U16), ("port", U16), ("target", NAME))}, {}),
    ("rr_srv: struct fields crossed (priority: weight, weight: priority)",
     [("decode/rr/rfc_2782.rs", sub1("            priority,\n            weight,\n", "            priority: weight,\n            weight: priority,\n"))],
     {33: entry("CKAny", ("weight", U16), ("priority", U16), ("port", U16), ("target", NAME))}, {}),
    ("rr_px reader: preference u16 -> u32",
     [("decode/rr/rfc_2163.rs", sub1("let preference = self.u16()?;", "let preference = self.u32()?;"))],
     {26: entry("CKAny", ("preference", U32), ("map822", NAME), ("mapx400", NAME))}, {}),
    ("rr_srv writer: port u16 -> u32",
     [("encode/rr/rfc_2782.rs", sub1("self.u16(srv.port);", "self.u32(srv.port);"))],
     {}, {33: entry("ECField", ("priority", U16), ("weight", U16), ("port", U32), ("target", NAME))}),
    ("u16_u64 macro: u64 -> u32 (NID, L64)",
     [("decode/rr/macros.rs", sub1("let $n = self.u64()?;", "let $n = self.u32()?;"))],
     {104: entry("CKAny", ("preference", U16), ("node_id", U32)), 106: entry("CKAny", ("preference", U16), ("locator_64", U32))}, {}),
    ("rr_hinfo reader: get_class replaced by the IN-only match",
     [("decode/rr/rfc_1035.rs", in_fn("rr_hinfo", lambda t: t.replace("        let class = header.get_class()?;\n", "        match header.get_class()? {\n            Class::IN => {\n")
                                      .replace("            class,\n", "").replace("        Ok(hinfo)\n", "        Ok(hinfo)\n            }\n            class => Err(DecodeError::HINFOClass(class)),\n        }\n"))),
      ("decode/error.rs", sub1("    AClass(Class),\n", "    AClass(Class),\n    HINFOClass(Class),\n"))],
     {13: entry(("CKIn", "EHINFOClass"), ("cpu", "FStr"), ("os", "FStr"))}, {}),
    ("rr_srv reader: IN-only check in statement form, class no longer stored",
     [("decode/rr/rfc_2782.rs", lambda t: t.replace("        let class = header.get_class()?;\n", "        match header.get_class()? {\n            crate::rr::Class::IN => {}\n            c => return Err(crate::DecodeError::AClass(c)),\n        }\n").replace("            class,\n", ""))],
     {33: entry(("CKIn", "EAClass"), ("priority", U16), ("weight", U16), ("port", U16), ("target", NAME))}, {}),
    ("rr_hinfo writer: class field replaced by literal Class::IN",
     [("encode/rr/rfc_1035.rs", sub1("self.rr_class(&hinfo.class);", "self.rr_class(&Class::IN);"))],
     {}, {13: entry("ECIn", ("cpu", "FStr"), ("os", "FStr"))}),
    ("rr_a reader: class no longer checked (get_class dropped, fields read directly)",
     [("decode/rr/rfc_1035.rs", in_fn("rr_a", lambda t: t.replace("        match header.get_class()? {\n            Class::IN => {\n", "")
                                      .replace("                Ok(a)\n            }\n            class => Err(DecodeError::AClass(class)),\n        }\n", "                Ok(a)\n")))],
     {1: entry("CKNone", ("ipv4_addr", "FIp4"))}, {}),
    ("rr_isdn reader: SA::try_from removed",
     [("decode/rr/rfc_1183.rs", sub1("            let sa = SA::try_from(sa)?;\n", ""))],
     {20: entry("CKAny", ("isdn_address", "FStrIsdn"), ("sa", "FUnknown"))}, {}),
    ("rr_x25 reader: PSDNAddress::try_from removed (field becomes a plain string)",
     [("decode/rr/rfc_1183.rs", sub1("        let psdn_address = PSDNAddress::try_from(psdn_address)?;\n", ""))],
     {19: entry("CKAny", ("psdn_address", "FStr"))}, {}),
    ("rr_srv reader: read of port deleted",
     [("decode/rr/rfc_2782.rs", sub1("        let port = self.u16()?;\n", ""))],
     {33: entry("CKAny", ("priority", U16), ("weight", U16), ("target", NAME), ("port", "FUnknown"))}, {}),
    ("rr_srv reader: read of port deleted together with the struct field",
     [("decode/rr/rfc_2782.rs", lambda t: t.replace("        let port = self.u16()?;\n", "").replace("            port,\n", ""))],
     {33: entry("CKAny", ("priority", U16), ("weight", U16), ("target", NAME))}, {}),
    ("rr_srv writer: write of port deleted",
     [("encode/rr/rfc_2782.rs", sub1("        self.u16(srv.port);\n", ""))],
     {}, {33: entry("ECField", ("priority", U16), ("weight", U16), ("target", NAME))}),
    ("rr_soa reader: an extra, discarded read inserted",
     [("decode/rr/rfc_1035.rs", sub1("        let refresh = self.u32()?;\n", "        let refresh = self.u32()?;\n        let _pad = self.u8()?;\n"))],
     {6: "unknown"}, {}),
    ("rr_soa reader: a statement the translator does not know inserted",
     [("decode/rr/rfc_1035.rs", sub1("        let refresh = self.u32()?;\n", "        let refresh = self.u32()?;\n        self.skip(2)?;\n"))],
     {6: "unknown"}, {}),
    ("rr_soa reader: a value modified after the read",
     [("decode/rr/rfc_1035.rs", sub1("        let refresh = self.u32()?;\n", "        let refresh = self.u32()?;\n        let refresh = refresh.swap_bytes();\n"))],
     {6: "unknown"}, {}),
    ("rr_gpos reader: upper bound 256 -> 255 for latitude",
     [("decode/rr/rfc_1712.rs", sub1("if !(1..=256).contains(&latitude_len)", "if !(1..=255).contains(&latitude_len)"))],
     {27: entry("CKAny", ("longitude", "FStrGpos"), ("latitude", "FUnknown"), ("altitude", "FStrGpos"))}, {27: "unknown"}),
    ("rr_gpos reader: longitude length check moved after the read of latitude (error precedence)",
     [("decode/rr/rfc_1712.rs", lambda t: t.replace("        if !(1..=256).contains(&longitude_len) {\n            return Err(DecodeError::GPOS);\n        }\n", "", 1)
       .replace("        let latitude_len = latitude.len();\n", "        let latitude_len = latitude.len();\n        if !(1..=256).contains(&longitude_len) {\n            return Err(DecodeError::GPOS);\n        }\n"))],
     {27: entry("CKAny", ("longitude", "FUnknown"), ("latitude", "FStrGpos"), ("altitude", "FStrGpos"))}, {27: "unknown"}),
    ("rr_wks reader: a #[cfg(feature)] statement inserted",
     [("decode/rr/rfc_1035.rs", sub1("                let protocol = self.u8()?;\n", "                let protocol = self.u8()?;\n                #[cfg(feature = \"x\")]\n                let protocol = 6;\n"))],
     {11: "unknown"}, {}),
    ("dispatch: Type::MX decoded by the special reader rr_apl",
     [("decode/rr/enums.rs", sub1("RR::MX(r_data.rr_mx(header)?)", "RR::MX(r_data.rr_apl(header)?)"))],
     {15: "unknown"}, {}),
    ("rr_gpos reader: length check of altitude removed",
     [("decode/rr/rfc_1712.rs", sub1("        if !(1..=256).contains(&altitude_len) {\n            return Err(DecodeError::GPOS);\n        }\n", ""))],
     {27: entry("CKAny", ("longitude", "FStrGpos"), ("latitude", "FStrGpos"), ("altitude", "FStr"))},
     {27: entry("ECField", ("longitude", "FStrGpos"), ("latitude", "FStrGpos"), ("altitude", "FStr"))}),
    ("rr_dnskey reader: protocol constant 3 -> 4",
     [("decode/rr/rfc_4034.rs", sub1("if protocol != 3 {", "if protocol != 4 {"))],
     {48: entry("CKAny", ("flags", "FDnskeyFlags"), ("protocol", ("FConst8", 4, "EDNSKEYProtocol")), ("algorithm_type", ("FEnum8", "EnAlgorithmType", "EAlgorithmType")), ("public_key", "FRest"))},
     {48: "unknown"}),
    ("rr_dnskey reader: zero-mask check removed",
     [("decode/rr/rfc_4034.rs", sub1("        if flags & DNSKEY_ZERO_MASK != 0 {\n            return Err(DecodeError::DNSKEYZeroFlags(flags));\n        }\n", ""))],
     {48: "unknown"}, {}),
    ("rr_dnskey reader: flag bits crossed",
     [("decode/rr/rfc_4034.rs", sub1("let zone_key_flag = (flags & ZONE_KEY_FLAG) == ZONE_KEY_FLAG;", "let zone_key_flag = (flags & SECURE_ENTRY_POINT_FLAG) == SECURE_ENTRY_POINT_FLAG;"))],
     {48: "unknown"}, {}),
    ("rr_dnskey writer: constant octet 3 -> 4",
     [("encode/rr/rfc_4034.rs", sub1("self.u8(3);", "self.u8(4);"))],
     {}, {48: "unknown"}),
    ("rr_digest_type helper: reads u16 instead of u8",
     [("decode/rr/rfc_4034.rs", in_fn("rr_digest_type", lambda t: t.replace("self.u8()?", "self.u16()?")))],
     {43: entry("CKAny", ("key_tag", U16), ("algorithm_type", ("FEnum8", "EnAlgorithmType", "EAlgorithmType")), ("digest_type", "FUnknown"), ("digest", "FRest"))},
     {43: entry("ECField", ("key_tag", U16), ("algorithm_type", ("FEnum8", "EnAlgorithmType", "EAlgorithmType")), ("digest_type", "FUnknown"), ("digest", "FRest"))}),
    ("rr_sshfp_type helper: other error constructor",
     [("decode/rr/rfc_3658.rs", sub1("Err(DecodeError::SSHFPType(buffer))", "Err(DecodeError::SSHFPAlgorithm(buffer))"))],
     {44: entry("CKAny", ("algorithm", ("FEnum8", "EnSSHFPAlgorithm", "ESSHFPAlgorithm")), ("type_", ("FEnum8", "EnSSHFPType", "ESSHFPAlgorithm")), ("fp", "FRest"))},
     {44: entry("ECField", ("algorithm", ("FEnum8", "EnSSHFPAlgorithm", "ESSHFPAlgorithm")), ("type_", ("FEnum8", "EnSSHFPType", "ESSHFPAlgorithm")), ("fp", "FRest"))}),
    ("rr_txt reader: non-empty check uses another error",
     [("decode/rr/rfc_1035.rs", sub1("DecodeError::TXTEmpty", "DecodeError::GPOS"))],
     {16: entry("CKAny", ("strings", "FUnknown"))}, {16: entry("ECField", ("strings", "FUnknown"))}),
    ("rr_uri reader: from_utf8 removed (raw bytes stored)",
     [("decode/rr/rfc_7553.rs", lambda t: t.replace("let buffer = self.vec()?;\n", "let uri = self.vec()?;\n").replace("        let uri = from_utf8(buffer.as_ref())?.to_owned();\n", ""))],
     {256: entry("CKAny", ("priority", U16), ("weight", U16), ("uri", "FRest"))}, {}),
    ("rr_eui48 reader: octets 0 and 1 read in the other order",
     [("decode/rr/rfc_7043.rs", sub1("        eui_48[0] = self.u8()?;\n        eui_48[1] = self.u8()?;\n", "        eui_48[1] = self.u8()?;\n        eui_48[0] = self.u8()?;\n"))],
     {108: entry("CKAny", *[("eui_48_%d" % i, "FU8") for i in (1, 0, 2, 3, 4, 5)])}, {}),
    ("rr_eui48 reader: octet 5 not read",
     [("decode/rr/rfc_7043.rs", sub1("        eui_48[5] = self.u8()?;\n", ""))],
     {108: "unknown"}, {}),
    ("rr_caa_tag helper: Tag::try_from removed",
     [("decode/rr/rfc_8659.rs", sub1("        let tag = Tag::try_from(tag)?;\n", ""))],
     {257: entry("CKAny", ("flags", "FU8"), ("tag", "FStr"), ("value", "FRest"))}, {}),
    ("vec macro: vec() -> string() (NULL, NSAP, EID, NIMLOC)",
     [("decode/rr/macros.rs", sub1("let $n = self.vec()?;", "let $n = self.string()?;"))],
     {c: entry("CKAny", ("data", "FStr")) for c in (10, 22, 31, 32)}, {}),
    ("dispatch: Type::KX decoded by rr_rt's sibling rr_lp",
     [("decode/rr/enums.rs", sub1("RR::KX(r_data.rr_kx(header)?)", "RR::KX(r_data.rr_lp(header)?)"))],
     {36: entry("CKAny", ("preference", U16), ("fqdn", NAME))}, {}),
    ("Type enum: code of MX changed to 99",
     [("rr/enums.rs", sub1("        MX = 15,\n", "        MX = 99,\n"))],
     "rekey", "rekey"),
    ("encode: impl_encode_rr!(SRV, rr_srv) removed",
     [("encode/rr/rfc_2782.rs", sub1("impl_encode_rr!(SRV, rr_srv);\n", ""))],
     {}, {}),
    ("encode frame: TTL written before CLASS in rr_hinfo",
     [("encode/rr/rfc_1035.rs", sub1("        self.rr_class(&hinfo.class);\n        self.u32(hinfo.ttl);\n", "        self.u32(hinfo.ttl);\n        self.rr_class(&hinfo.class);\n"))],
     {}, {13: "unknown"}),
]


def test_sensitivity(base):
    bd, be = as_dict(base["dec"]), as_dict(base["enc"])
    for name, edits, exp_dec, exp_enc in SENSITIVE:
        try:
            with Mutant(edits) as repo:
                out, err = run_generator(repo)
            g = parse_formats(out)
            gd, ge = as_dict(g["dec"]), as_dict(g["enc"])
        except Exception as e:
            check("(c) " + name, False, "%s: %s" % (type(e).__name__, e))
            continue
        problems = []
        if exp_dec == "rekey":
            ok = (15 not in gd and 15 not in ge and gd.get(99) == bd[15] and ge.get(99) == be[15]
                  and {k: v for k, v in gd.items() if k != 99} == {k: v for k, v in bd.items() if k != 15}
                  and sorted(g["set"]) == sorted([c for c in base["set"] if c != 15] + [99]))
            check("(c) " + name, ok, "dec 99: %r" % (gd.get(99),))
            continue
        for label, got, old, exp in (("dec", gd, bd, exp_dec), ("enc", ge, be, exp_enc)):
            changed = {c for c in set(got) | set(old) if got.get(c) != old.get(c)}
            if changed != set(exp):
                problems.append("%s: changed types %s, expected %s" % (label, sorted(changed), sorted(exp)))
            for c, want in exp.items():
                if want == "unknown":
                    if got.get(c) == old.get(c) or "FUnknown" not in repr(got.get(c)):
                        problems.append("%s %d: expected a changed entry with FUnknown, got %r" % (label, c, got.get(c)))
                elif got.get(c) != want:
                    problems.append("%s %d: got %r, expected %r" % (label, c, got.get(c), want))
        if name.startswith("encode: impl_encode_rr!(SRV"):
            if sorted(g["set"]) != sorted(c for c in base["set"] if c != 33):
                problems.append("struct_encode_types: %r" % (g["set"],))
        elif sorted(g["set"]) != sorted(base["set"]):
            problems.append("struct_encode_types changed: %r" % (g["set"],))
        if any(w == "unknown" or "FUnknown" in repr(w) for w in list(exp_dec.values()) + list(exp_enc.values())) and "warning" not in err:
            problems.append("FUnknown emitted without a warning on stderr")
        check("(c) " + name, not problems, "\n      ".join(problems))


def test_degrade():
    """unexpected source must never crash the generator"""
    cases = [
        ("garbage in a reader body", [("decode/rr/rfc_2782.rs", in_fn("rr_srv", lambda t: t.replace("let class = header.get_class()?;", "let (a, b) = { [ ( ;")))]),
        ("reader file emptied", [("decode/rr/rfc_2782.rs", lambda t: "\n")]),
        ("dispatch match removed", [("decode/rr/enums.rs", lambda t: t.replace("match type_ {", "match other {"))]),
        ("decode macros file emptied", [("decode/rr/macros.rs", lambda t: "\n")]),
        ("Type enum removed", [("rr/enums.rs", lambda t: t.replace("pub enum Type", "pub enum Typ"))]),
    ]
    for name, edits in cases:
        try:
            with Mutant(edits) as repo:
                out, err = run_generator(repo)
            g = parse_formats(out)
            ok = "warning" in err and ("FUnknown" in out or len(g["dec"]) < 47)
            check("(c') degrade, no crash: " + name, ok, err[:300])
        except Exception as e:
            check("(c') degrade, no crash: " + name, False, "%s: %s" % (type(e).__name__, e))


def test_hook(base_text):
    """gen_tables.main() writes Formats.v through `import gen_formats` (output directory redirected)"""
    d = tempfile.mkdtemp(prefix="tmp_genformats_out_", dir=ROOT)
    try:
        code = "import sys; sys.path.insert(0, %r); import gen_tables as g; g.OUT = %r; g.main(); g.main()" % (TOOLS, d)
        p = subprocess.run([sys.executable, "-c", code], stdout=subprocess.PIPE, stderr=subprocess.PIPE, universal_newlines=True)
        path = os.path.join(d, "Formats.v")
        ok = p.returncode == 0 and os.path.exists(path) and open(path, encoding="utf-8").read() == base_text
        lines = p.stdout.strip().splitlines()
        ok = ok and len(lines) == 2 and "Formats.v" in lines[0] and lines[1].endswith("nothing")
        check("(a) gen_tables.main() writes Gen/Formats.v via gen_formats.generate(), second run changes nothing", ok, p.stdout + p.stderr[-300:])
    finally:
        shutil.rmtree(d, ignore_errors=True)


def test_coqc(base_text):
    coqc = shutil.which("coqc")
    if not coqc:
        print("SKIP  (d) coqc not installed")
        return
    d = tempfile.mkdtemp(prefix="tmp_genformats_coq_", dir=ROOT)
    try:
        for sub in ("Base", "Model", "Gen"):
            os.makedirs(os.path.join(d, sub))
        hand = open(HAND, encoding="utf-8").read()
        tags = sorted(set(re.findall(r"\bE[A-Z]\w*", hand + base_text)) - {"ECField", "ECIn"})
        tags = [t for t in tags if not t.startswith("En")]
        # STUB of the Base library (not part of this copy): just enough for Model/Fmt.v
        open(os.path.join(d, "Base", "Bytes.v"), "w").write(
            "From Coq Require Export NArith List String.\nExport ListNotations.\nDefinition bytes := list N.\n")
        open(os.path.join(d, "Base", "Result.v"), "w").write("Inductive etag := %s.\n" % " | ".join(tags))
        shutil.copy(os.path.join(ROOT, "coq", "Model", "Fmt.v"), os.path.join(d, "Model", "Fmt.v"))
        open(os.path.join(d, "Gen", "Formats.v"), "w", encoding="utf-8").write(base_text)
        open(os.path.join(d, "Gen", "Hand.v"), "w", encoding="utf-8").write(hand)
        open(os.path.join(d, "Gen", "Same.v"), "w").write(
            "From DNS Require Import Model.Fmt Gen.Formats Gen.Hand.\n"
            "Goal Formats.dec_dispatch = Hand.dec_dispatch. Proof. reflexivity. Qed.\n"
            "Goal Formats.enc_dispatch = Hand.enc_dispatch. Proof. reflexivity. Qed.\n")
        for f in ("Base/Bytes.v", "Base/Result.v", "Model/Fmt.v", "Gen/Formats.v", "Gen/Hand.v", "Gen/Same.v"):
            p = subprocess.run([coqc, "-Q", ".", "DNS", f], cwd=d, stdout=subprocess.PIPE, stderr=subprocess.STDOUT, universal_newlines=True)
            if p.returncode != 0:
                check("(d) coqc %s (Base stubbed)" % f, False, p.stdout[-600:])
                return
        check("(d) generated Formats.v compiles against Model/Fmt.v (Base stubbed) and dec/enc_dispatch = hand-written by reflexivity", True)
    finally:
        shutil.rmtree(d, ignore_errors=True)


def main():
    print("pristine source: %s   hand-written table: %s" % (PRISTINE, HAND))
    with Mutant([("lib.rs", lambda t: t + "\n")]) as repo:   # an (essentially) unmodified copy
        copy_text, _ = run_generator(repo)
    base_text, base_err = run_generator(None)
    check("(a) generator runs without warnings on %s/src" % REPO, base_err.strip() == "", base_err[:500])
    check("(a) output for the pristine copy equals output for %s/src" % REPO, copy_text == base_text)
    sys.path.insert(0, TOOLS)
    import gen_formats
    check("(a) generate() returns the text printed by the command line", gen_formats.generate() == base_text)
    test_hook(base_text)
    base = test_identity(base_text)
    test_robustness(base_text)
    test_sensitivity(base)
    test_degrade()
    test_coqc(base_text)
    failed = [r for r in RESULTS if not r[1]]
    print("\n%d checks, %d failed" % (len(RESULTS), len(failed)))
    return 1 if failed else 0


if __name__ == "__main__":
    sys.exit(main())
