#!/usr/bin/env python3
"""regenerate the table of DESIGN.md section 10 from the matrix files in notes/"""
import os, re, subprocess, sys
V = os.path.dirname(os.path.dirname(os.path.abspath(__file__)))
t = subprocess.run([sys.executable, os.path.join(V, "tools", "mutant_table.py"), "--full", os.path.join(V, "notes", "matrix-final.json"),
                    "--own", os.path.join(V, "notes", "matrix-own.json"), os.path.join(V, "notes", "matrix-late-own.json")],
                   stdout=subprocess.PIPE, check=True).stdout.decode().rstrip()
p = os.path.join(V, "DESIGN.md")
s = open(p).read()
s = re.sub(r"<!-- TABLE-BEGIN -->.*?<!-- TABLE-END -->", lambda m: "<!-- TABLE-BEGIN -->\n" + t + "\n<!-- TABLE-END -->", s, flags=re.S)
n = re.search(r"(\d+) seeded changes", t).group(1)
s = re.sub(r"waves, \d+ changes", "waves, %s changes" % n, s)
s = re.sub(r"of the \d+ changes,", "of the %s changes," % n, s)
open(p, "w").write(s)
print(n, "changes in the table")
