#!/usr/bin/env python3
"""Regenerates MANIFEST.json from the table below (keeps it valid and consistent)."""
import json
import os

VERIF = os.path.dirname(os.path.dirname(os.path.abspath(__file__)))
ALL = ["C%02d" % i for i in range(1, 19)]

NOTE_COMMON = ("Trusted: Coq 8.16.1 kernel incl. vm_compute (no native_compute); no axioms (every theorem prints "
               "'Closed under the global context'); translator tools/gen_tables.py; hand-written model coq/Model tied to the "
               "code by the differential correspondence (Rust harness vs extracted OCaml model, ExtrOcamlBasic only); "
               "Python generators/oracles.")

CLAIMS = {
    "C11": {
        "text": "Four Coq theorems (Props/C11.v): every generated enum table equals the hand-written IANA registry (bijection, "
                "width), the four code entry points accept exactly the table values and reject others with the code in the "
                "error, all 65,536 flag words decode per the RFC 1035/2535 bit positions (testbit) and re-encode to the same "
                "word. Proved by complete enumeration inside Coq (vm_compute + forallb_forall). Tables/masks are regenerated "
                "from /repo/src on every run; the model is tied to the code by an exhaustive differential run of all 65,536 "
                "values of every entry point.",
        "note": "Spec/Iana.v is the registry copy the tables are compared with. " + NOTE_COMMON,
        "technique": "Coq proof by exhaustive vm_compute enumeration over generated tables + exhaustive differential correspondence",
        "ref": "DESIGN.md section 7 C11",
    },
    "C13": {
        "text": "Fifteen Coq theorems (Props/C13.v) about the model of Label/DomainName: name equality is exactly label-wise "
                "ASCII-case-insensitive equality (stated without the folding function) and an equivalence; equal names feed "
                "identical octets to any hasher; len() is the length of the Display form; parse(Display(n)) = n octet-exact for "
                "every dot-free legal name incl. the root; from_str, append_label and the wire decoder accept exactly labels "
                "of 1..=63 octets and names of <= 255 wire octets. Unbounded (induction over names). Tie: X cases (parse, "
                "eq/hash, round trip) compared model vs implementation, plus an independent Python oracle.",
        "note": "The compression-target clause of C13 is carried by C06. Unicode case mapping is outside the model (ASCII folding after fix F4). " + NOTE_COMMON,
        "technique": "Coq proof (induction over label lists) + differential correspondence on text/equality/hash cases",
        "ref": "DESIGN.md section 7 C13",
    },
}

CLAIMS["C12"] = {
    "text": "Sixteen Coq theorems (Props/C12.v): for ECS, APL item, cookie, label, name, tag, digit strings, non-empty list: a "
            "semantic invariant stated at bit level (prefix within the family size and no address bit beyond it via N.testbit, "
            "server cookie 8..=32, label 1..=63, name <= 255 wire octets, ...) holds after every successful constructor, is "
            "preserved by every public setter/append, hence holds after EVERY finite call history (induction over the op list), "
            "and every failing call leaves the value unchanged; the octet/mask computation of check_ipv4/6_addr is proved "
            "equivalent to the bit-level statement and never indexes out of range; values produced by the decoder satisfy the "
            "invariants too. Tie: H cases (exhaustive short histories over boundary arguments + random long ones) compared state "
            "by state, plus an independent Python evaluation of the constraints.",
    "note": "Address arguments are assumed to be 4/16 octets < 256 (guaranteed by Rust's Ipv4Addr/Ipv6Addr types). " + NOTE_COMMON,
    "technique": "Coq proof (invariant + induction over call histories, bit-level lemma by finite enumeration) + differential correspondence on histories",
    "ref": "DESIGN.md section 7 C12",
}
CLAIMS["C06"] = {
    "text": "Eleven Coq theorems (Props/C06.v) about the model of Encoder::domain_name and the buffer operations around it: a "
            "masked invariant (every index entry and every logged name expands, in EVERY buffer that agrees on the name octets, "
            "to the name written up to ASCII case, in exactly its recorded depth <= 16, through pointers that point backwards, "
            "below 16384, at label starts of earlier written names); preserved by appends, by patches of unmasked length slots "
            "and by the name writer; the name writer never fails for legal names except for the 65,536-octet message limit "
            "(no Compression / MaxRecursion error reachable); lifted to ALL histories of WriteName / WriteRaw / Reserve / Patch "
            "operations by induction (unbounded); the pinned pre-fix compress() is refuted on 18 nested names. The reference "
            "expansion Spec/Names.v is independent of the decoder model. Tie: E Dns cases (exhaustive short name sequences, nesting "
            "1..64, placements around 0x3FFF/0x4000, long sequences) byte-exact vs the model; reference re-expansion of the "
            "implementation's bytes.",
    "note": "The statement over the whole enc_dns (every record writer is an instance of the history language) is proved for "
            "enc_question and the primitives; the remaining writers are covered by the byte-exact correspondence. " + NOTE_COMMON,
    "technique": "Coq proof (state invariant over encoder histories, induction) + byte-exact differential correspondence + reference expansion oracle",
    "ref": "DESIGN.md section 7 C06",
}
CLAIMS["C07"] = {
    "text": "Eighteen Coq theorems (Props/C07.v) about the model of the decoder. Names: for EVERY message, window, offset and "
            "pointer graph Decoder::domain_name terminates within its fixed fuel (never out of fuel, never a panic), examines at "
            "most 544 octets (289 when it accepts), returns only names of <= 255 wire octets with labels of 1..=63 octets, follows "
            "at most 17 pairwise distinct pointer targets; a name whose reference pointer chain is cyclic or needs more than 17 "
            "hops is always an error; an accepted name is exactly the reference expansion (Spec/Names.v). Whole message: "
            "C07_work_linear - the octet counter at the end of dec_Dns b is <= 290 * len b + 544 for every octet string (weight 1 "
            "in the innermost windows, 289 inside RDATA, 290 at message level, by a compositional cost predicate over all readers "
            "and all 46 record types); constants for the other entry points. Tie: D cases over all pointer graphs of <= 5 nodes, "
            "chains 1..64, fans, mazes, names made over-long only through pointers, with the hook's octet counter compared EXACTLY "
            "with the model's cost and a budget that turns a loop into a PANIC line; oracle cost <= 290*len+544.",
    "note": "'Work' is the number of octets examined by Decoder::read/bytes (hook counter); wall-clock time and allocation (Vec::with_capacity(count)) are not modelled. " + NOTE_COMMON,
    "technique": "Coq proof (termination measure, compositional cost predicate, simulation against a reference expansion, periodicity of cyclic chains) + exact cost correspondence",
    "ref": "DESIGN.md section 7 C07",
}

CLAIMS["C01"] = {
    "text": "Three Coq theorems (Props/C01.v): for every octet string b (octets < 256, length < 2^62) each of the nine decode entry "
            "points of the model returns DOk or DErr - never DPanic (every slice index, copy_from_slice, try_into().unwrap(), "
            "offset addition and shift of the Rust code is a checked operation of the model and is shown to be in range: read "
            "bounds, the 4/16-octet size guards, the cookie length classification, prefix/8 < size) and never DFuel (every loop "
            "terminates: 320 steps per name, one octet of progress per iteration of every while-loop, counted section loops); "
            "also for the readers as methods on any well-formed decoder state (sub-windows, non-zero offsets). Proved "
            "compositionally over the decoder monad, for all 46 record types through the generated format tables. Tie: all "
            "strings of length <= 2 on all nine entry points (exhaustive), guard inputs, structured/near-miss/byte-level streams "
            "up to 65,538 octets, panic status compared with the model; every accepted value is cloned, compared, formatted, "
            "queried and re-encoded by the harness under catch_unwind (debug build, overflow checks).",
    "note": "Clone/PartialEq/Display/Debug, process aborts, stack overflow and allocation are runtime behaviour outside the model: exercised by the harness, not proved. Re-encode totality is C08_no_panic. " + NOTE_COMMON,
    "technique": "Coq proof (compositional safety predicate over the decoder monad, fuel/progress arguments) + exhaustive short-input and structured differential correspondence",
    "ref": "DESIGN.md section 7 C01",
}
CLAIMS["C08"] = {
    "text": "Fifty-two Coq theorems (Props/C08.v). C08_ok_means_decodable: for every API-constructible value (api_ok: exactly what "
            "Rust's types guarantee - integer widths, valid labels and names, enum members, UTF-8 strings of ANY length, the "
            "validated types' invariants, sections of any length) outside the four known-finding classes KF4-KF7, if encode "
            "returns Ok then both the library's decoder model and the independent reference decoder read the output back as that "
            "value; C08_unrepresentable_is_not_ok: a value violating a wire constraint never encodes to Ok; each known class is "
            "shown necessary by a machine-checked witness (C08_known_refuted_*). With NO well-formedness hypothesis on the value: enc_Dns/enc_RR/enc_Question/"
            "enc_Flags/enc_DomainName never panic for any value (length-slot subtraction, prefix loop shown in range); Ok output has "
            "<= 65,535 octets; the four count fields equal the section lengths and are <= 65,535; every RDLENGTH, option length, "
            "SvcParam length and APL address length equals the octets it covers (exact slot lemma) or the call fails with Length; a "
            "character string > 255 octets, a section > 65,535 entries, an ECH list > 65,535, a pointer offset > 16383 each give "
            "the corresponding error; the message is header ++ question blocks ++ record blocks of the stated shape; typed values "
            "never hit the ill-typed branch (writer/reader tables agree, by vm_compute over the generated tables); output octets "
            "< 256. Tie: E cases beyond every limit, byte-exact vs the model; the implementation's output is re-read by the Python "
            "reference decoder, failures attributed to KF4-KF7 only by the class predicates.",
    "note": "Known findings KF4-KF7 (known_findings.json) are excluded by known_class, each with a refutation witness; api_ok is the model's rendering of 'constructible through the public API'. " + NOTE_COMMON,
    "technique": "Coq proof (buffer-extension predicate, length-slot combinator, table agreement by vm_compute) + byte-exact differential correspondence + reference-decoder oracle with known-finding classes",
    "ref": "DESIGN.md section 7 C08",
}
CLAIMS["C14"] = {
    "text": "Twenty-two Coq theorems (Props/C14.v): the only place where per-instance hash seeds could leak is the iteration of the "
            "local HashMap in merge_domain_name_index; with the iteration order made a parameter perm (any permutation), the local "
            "table always has pairwise distinct keys (suffixes of one name), permuting it yields a lookup-equivalent index, every "
            "encoder primitive and writer respects lookup-equivalence, hence enc_Dns m = the encoder run with ANY iteration order, "
            "for all messages (and any two orders agree); the decoder's visited set is used only through membership and size "
            "(rec_loop invariant under permutation). Gallina functions are deterministic, the correspondence transfers that. "
            "Tie: R cases - every E/D case repeated on 1, 4 and 16 threads sharing the input through an Arc, fresh RandomState "
            "each call; result set must be the model's singleton and the input unchanged.",
    "note": "Real thread interleavings are sampled by the harness, not enumerated; data-race freedom rests on Rust's Send/Sync rules (no static or interior-mutable state in non-test code: audited by grep in the check). " + NOTE_COMMON,
    "technique": "Coq proof (index lookup-equivalence as a congruence of the encoder monad, permutation invariance) + repeated/concurrent differential runs",
    "ref": "DESIGN.md section 7 C14",
}
CLAIMS["C15"] = {
    "text": "Nine Coq theorems (Props/C15.v): for every TTL word < 2^32 the OPT reader accepts iff the 15 reserved bits are clear and "
            "then returns extended RCODE = bits 31..24, version = bits 23..16, DO = bit 15; the writer is its inverse; a non-root "
            "owner is rejected, the payload size is the CLASS word; cookie accepted iff 8 or 16..=40 octets (client = first 8), "
            "server cookie 8..=32; padding accepted iff all octets zero (any length, zero included), value = length; ECS accepted "
            "iff family 1/2, address octets <= size and no bit beyond max(source,scope) after zero-fill; every valid option and the "
            "whole OPT record emit to octets that decode to the same value from any encoder state. Unbounded. Tie: D RR / E RR "
            "cases (TTL octets 4x256 complete, cookie/padding lengths 0..64, ECS grid, option sequences, length deltas) compared "
            "with the model and judged in both directions by the reference decoder.",
    "note": "The ECS octet count on output (repaired by a627009; residual class KF2) belongs to C17. " + NOTE_COMMON,
    "technique": "Coq proof (bit-level arithmetic on the TTL word, exact value domains, encode/decode round trip) + two-sided reference-decoder oracle",
    "ref": "DESIGN.md section 7 C15",
}
CLAIMS["C16"] = {
    "text": "Twenty-four Coq theorems (Props/C16.v): the BTreeSet model keeps keys strictly increasing and duplicate-free under "
            "insert; the encoder's output for a parameter list is exactly the concatenation of key, length, registered value format "
            "(write trace), so emitted keys are strictly increasing, the mandatory list is emitted sorted (Sorted + Permutation), "
            "ech carries its two-octet length, alias form writes no parameters; each of the nine parameter kinds round-trips "
            "through writer and reader with its value intact (lists of any length), whole parameter lists too; duplicates, wrong "
            "port/hint/flag/ECH/alpn lengths, non-IN class and parameters behind an alias target are rejected with the stated "
            "error. Tie: D RR / E RR cases over all wire orders/duplications of <= 3 parameters, length deltas, priorities, "
            "classes; reference decoder in both directions; key order checked on the emitted bytes.",
    "note": "PRIVATE with a registered key number (known finding KF6) is excluded by param_valid and recorded under C08. Unsorted/duplicated mandatory lists are accepted on input (not judged, DESIGN.md 8.3). " + NOTE_COMMON,
    "technique": "Coq proof (sorted-set model, exact write trace, per-kind round trips, rejection lemmas) + two-sided reference-decoder oracle",
    "ref": "DESIGN.md section 7 C16",
}
CLAIMS["C18"] = {
    "text": "The pinned library violates C18 at all nine RDATA-name call sites (known findings KF1-RP .. KF1-SVCB, not repairable "
            "without a second name writer; the suite pins the compressed SVCB target). Four Coq theorems (Props/C18.v): every name "
            "position of the generated writer tables is classified (eleven RFC 1035 types / eight later types / SVCB+HTTPS; no "
            "position outside the lists); the property is REFUTED by a machine-checked witness per site (a pointer inside the RDATA "
            "name of RP x2, AFSDB, RT, PX x2, KX, SRV, DNAME, LP, SVCB, HTTPS); a literal writer provably emits no pointer. The "
            "check prints one KNOWN-FINDING line per site and reports any pointer inside an RDATA name that is not attributable "
            "to a recorded site, or any disagreement with the model, as a violation.",
    "note": "Decided as 'violated, nine known findings'; the check's role is to keep the findings exact and to flag new ones. " + NOTE_COMMON,
    "technique": "Coq refutation witnesses (vm_compute) + table classification + reference-decoder pointer trace on the implementation's bytes",
    "ref": "DESIGN.md section 7 C18",
}

CLAIMS["C17"] = {
    "text": "Coq theorems of Props/C17.v. Input side: rr_address accepts exactly 0..size address octets and zero-fills; an "
            "APL item / ECS body is accepted iff family is 1/2, octet count <= size and no bit beyond the prefix is set after "
            "zero-fill (bit-level prefix_ok of C12), with family, prefix, negation (bit 7 of the AFDLENGTH octet, 7-bit length) "
            "and address returned unchanged; the exact error for each rejected class; plus the property's grid as theorems by "
            "complete evaluation inside Coq (IPv4: 256 prefixes x 6 octet counts x 67 address patterns x both negation flags; "
            "IPv6: 256 x 18 x 259). Output side (after the repair a627009): the writer emits the address up to its last non-zero "
            "octet but at least the minimum length; for EVERY valid APL item the emitted count is the RFC 3123 count (no trailing "
            "zero octet); for every valid ECS value without a non-zero address octet beyond ceil(source/8) -- in particular "
            "whenever scope <= source -- it is exactly ceil(source/8) (RFC 7871); family, prefixes and negation are preserved and "
            "what is emitted decodes to the same item for every valid value. The remaining class (a non-zero octet beyond "
            "ceil(source/8), needs scope > source) is written in full and exceeds the RFC count: refutation witness, known finding "
            "KF2 (narrowed). Tie: the grid through D RR / E RR cases, two-sided reference decoder verdicts, emitted count compared "
            "with the RFC count and attributed to KF2 only inside that class.",
    "note": "The ECS/APL octet counts were a genuine defect of the pinned tree (repaired: fix commit a627009); what remains open is the narrow ECS class above (KF2). " + NOTE_COMMON,
    "technique": "Coq proof (value-domain iff, exact emitted-count theorems = RFC counts outside a characterised class, refutation witness inside it, finite grid by vm_compute) + two-sided reference-decoder oracle with a known-finding class",
    "ref": "DESIGN.md section 7 C17",
}

CLAIMS["C03"] = {
    "text": "Seven Coq theorems (Props/C03.v): for every octet string, if the model of the library's decoder accepts it (whole "
            "message, RR, question, flags, name) then the INDEPENDENT reference decoder Spec/Wire.v - written from the RFCs in a "
            "different style: pure parsers over absolute offsets, its own RDATA format table, names by reference expansion, header "
            "bits by testbit, prefix validity by mod 2^k, code points from the hand-written IANA registries - accepts it too and "
            "yields the SAME value (every header bit, count, name after expansion, type, class, TTL, every RDATA field, option and "
            "parameter); the generated per-type tables are proved equal to the RFC table; the TTL/class/type accessors agree with "
            "the reference reading of the wire header. Proved by a correspondence relation closed under all reader combinators, "
            "for all 46 record types, EDNS options, APL, SVCB; unbounded. Tie: the implementation is compared DIRECTLY with the "
            "extracted Spec/Wire.v (W cases: library accepts => reference accepts the same value), with the model (D cases: "
            "verdict, value, accessors) and with a third, Python reference decoder (oracle), on repository vectors, structured "
            "messages in every layout, near-miss/byte-level mutations and over-acceptance probes.",
    "note": "Leniencies shared by the reference grammar and the library are not judged (forward pointers, 65,536-octet message, unsorted mandatory list on input; DESIGN.md 8.3). Spec/Wire.v and Spec/Iana.v are the audited reading of the RFCs. " + NOTE_COMMON,
    "technique": "Coq proof (model decoder refines an independent reference decoder: correspondence relation over parser combinators) + three-way differential check (library / model / Coq reference / Python reference)",
    "ref": "DESIGN.md section 7 C03",
}
CLAIMS["C04"] = {
    "text": "Twenty-one Coq theorems (Props/C04.v). C04_render_accepted: Spec/Render.v defines, declaratively and from the RFCs "
            "alone, when an octet string is a legal wire rendering of a message value - every label in any ASCII case, a name cut "
            "at any label boundary by a pointer to an earlier occurrence within 16 hops, prefix addresses with any number of "
            "omitted trailing zero octets (minimal, full, in between), SvcParams in any order, empty variable fields, all 46 "
            "record types, OPT with its options, APL - and for EVERY well-formed message m and EVERY legal rendering b of at most "
            "65,535 octets the reference decoder and the library model accept b and return m (up to ASCII case of labels; "
            "C04_render_accepted_dec). Completeness - whatever the independent reference decoder Spec/Wire.v accepts (whole "
            "message, RR, question, flags, name), the model of the library's decoder accepts with the same value; for names the "
            "exact acceptance condition: accepted iff the reference expansion through at most 17 pointers exists, the labels are "
            "1..=63 octets of UTF-8, the name has <= 255 wire octets and its own octets end inside the window (any backward or "
            "forward pointer, any label case). Together with C03 the library model and the reference accept the same language "
            "with the same meaning. 'Every legal rendering' is tied by the Python reference renderer: random abstract messages "
            "over the whole vocabulary rendered under every layout choice (plain / greedy / random legal pointers <= 16 hops, case "
            "flips, address octet counts minimal..full, SvcParam permutations, zero-length fields, sizes to 65,535) must decode "
            "to exactly that message; W cases compare the implementation directly with the extracted Spec/Wire.v in the "
            "completeness direction.",
    "note": "Spec/Render.v (182 lines) is a specification to audit against the RFCs; forward pointers are not part of it (the property speaks of backward compression). " + NOTE_COMMON,
    "technique": "Coq proof (declarative rendering relation accepted by the reference decoder, which refines to the model decoder; exact name acceptance condition) + reference-renderer differential streams + direct library-vs-Coq-reference comparison",
    "ref": "DESIGN.md section 7 C04",
}

CLAIMS["C09"] = {
    "text": "Twenty-four Coq theorems (Props/C09.v) about the model of the decoder: with_sub n m succeeds only if the window had n "
            "octets, the child ran on exactly that n-octet slice and consumed exactly n (leftover => TooManyBytes, need of more => "
            "NotEnoughBytes inside the child), and the parent continues n octets later; a record advances the cursor by name "
            "extent + 10 + RDLENGTH and its body consumes exactly RDLENGTH; each EDNS option, APL address and SvcParam consumes "
            "exactly its own length field; an accepted message has exactly the announced number of entries per section (the four "
            "16-bit counts) and ends at the last octet; RemainingBytes is returned exactly when the sections parse and octets "
            "remain; window confinement: readers without a name field do not depend on the message outside their window, the "
            "octet counter is write-only, and a record with a literal owner and a name-free type decodes to the same value between "
            "any neighbouring octets (no absorption). Tie: every count / RDLENGTH / option, item, parameter and string length of "
            "valid messages changed by -2..+2, +-255, +-256, 0, max; truncations; suffixes; framing errors compared with payload; "
            "accepted inputs re-framed by the reference decoder.",
    "note": "The general statement 'a reader with name fields depends on the message only through pointer targets' is proved for literal names only; pointer-bearing records are covered by C03 (equality with the reference decoder, whose windows are exact by construction). " + NOTE_COMMON,
    "technique": "Coq proof (exact-window inversion lemmas, section/count theorems, window-confinement by parametricity in the message) + near-miss differential streams + reference framing oracle",
    "ref": "DESIGN.md section 7 C09",
}

CLAIMS["C05"] = {
    "text": "Twenty-seven Coq theorems (Props/C05.v). C05_output_is_legal_rendering: the encoder's output for a well-formed message is one of the legal wire "
            "renderings of that message as defined declaratively from the RFCs in Spec/Render.v (labels in their own case, each "
            "name cut by a backward pointer to an earlier occurrence within 16 hops, addresses cut at zero octets only, SvcParams "
            "in key order, mandatory keys sorted); hence (C04_render_accepted) the independent reference decoder reads it back - "
            "a second route to C05_reference_reads_back. C05_encode_succeeds: every well-formed message value whose uncompressed size "
            "(Spec/USize.v, defined on the value alone) fits in 65,535 octets encodes; C05_encode_fails_only_by_size: otherwise "
            "the only possible failure is Length with an uncompressed size above the limit; the output is never longer than the "
            "uncompressed size. C05_roundtrip: for every well-formed message value (dns_wf: the per-type wire "
            "constraints as a boolean predicate - legal names, UTF-8 strings <= 255, registered code points, widths, the validated "
            "types' invariants, sections <= 65,535) whenever enc_Dns m = Ok b the model decoder reads b back as m up to ASCII case "
            "of labels and the order of mandatory keys; C05_reference_reads_back: so does the INDEPENDENT reference decoder "
            "Spec/Wire.v (via C03); element-level forms for records and names from any encoder state satisfying the name-layer "
            "invariant, for all 46 record types incl. OPT, APL, SVCB/HTTPS. The layout clauses are theorems of C08 (counts, every "
            "RDLENGTH / option / SvcParam / APL length exact, size <= 65,535, pointer offsets <= 16383) and C06 (every pointer "
            "refers backwards to a label start of an earlier written name, <= 16 hops). Unbounded. Tie: E Dns byte-exact vs the "
            "model over random valid values of the whole vocabulary, boundary values, nesting 1..64, placements around 0x3FFF, "
            "16-64 KiB; the implementation's bytes are re-read by the Python reference decoder (value, counts, lengths, pointers).",
    "note": "dns_wf is the boolean predicate of the per-type wire constraints (Proofs/C05.v, RtFields.v); the size hypothesis is sufficient, not necessary (compression may rescue a larger message). " + NOTE_COMMON,
    "technique": "Coq proof (encode/decode round trip through the name-layer invariant, composed with the refinement to an independent reference decoder) + byte-exact differential correspondence + reference-decoder oracle",
    "ref": "DESIGN.md section 7 C05",
}
CLAIMS["C02"] = {
    "text": "Eight Coq theorems (Props/C02.v): C02_encode_succeeds - a decoded message whose uncompressed size fits in 65,535 octets "
            "always encodes (C02_reencode_fails_only_by_size: the only possible failure is Length above that size); C02_decoded_wf - every message the model decoder accepts satisfies the wire constraints "
            "dns_wf (so decoded values are always within the encoder's domain); C02_reencode - if it then encodes, decoding the "
            "result yields the same message field by field (header, every section in order, owner names, TTL, class, every RDATA "
            "field, every EDNS option, every SvcParam value; names up to ASCII case); C02_reencode_reference - the independent "
            "reference decoder agrees. Element forms for RR/question/name. Tie: D Dns cases with re-encode and second decode on "
            "repository vectors, structured messages in every layout, near-miss and byte-level mutations, nesting 1..64 (the "
            "pre-fix compress() failed at 18), 20/60 KiB; oracle: accepted and uncompressed size <= 65,535 => re-encodes and the "
            "second decode is equal field by field.",
    "note": "The mandatory key list is compared as a set (emission sorts it); names up to ASCII case. " + NOTE_COMMON,
    "technique": "Coq proof (decoder output is well-formed; round trip) + differential D cases with re-encode / second decode",
    "ref": "DESIGN.md section 7 C02",
}
CLAIMS["C10"] = {
    "text": "Twenty-four Coq theorems (Props/C10.v). Relocation: C10_question_first - a stand-alone question occupies exactly the "
            "octets it has as the first element of a message (no size hypothesis); C10_rr_first - for a record, the in-message "
            "octets equal the stand-alone octets except at the compression pointers, whose 14-bit targets are shifted by exactly "
            "12 (bufrelP), for messages up to 16384 octets (shown necessary by a witness at the 0x3FFF boundary), with converses "
            "and the generic any-prefix simulation of the whole encoder. Round trips: enc_RR/dec_RR, enc_Question/dec_Question, enc_DomainName/dec_DomainName and "
            "enc_Flags/dec_Flags round-trip for every well-formed value (all 46 record types; Flags exactly); the code entry "
            "points are C11_code_points; 'what an independent decoder expects at offset 0' follows with C03_sound_RR/Question/"
            "DomainName/Flags. Tie: E cases on every stand-alone encode entry point and on the record structs' own encode (33 "
            "structs), the same element as the only element of a message - the bytes must be equal up to the shift of pointer "
            "offsets by 12 (cross-case oracle) - D cases on RR/Question/DomainName with re-encode and second decode; reference "
            "decoder reads every output at offset 0.",
    "note": "The relocation theorems need the in-message output to stay within 16384 octets (beyond it the two runs may legitimately compress differently). " + NOTE_COMMON,
    "technique": "Coq proof (two-run simulation of the encoder under an offset shift; element round trips) + byte-exact differential correspondence + cross-case relocation oracle",
    "ref": "DESIGN.md section 7 C10",
}

REASON_PENDING = "check not built yet (work in progress; see DESIGN.md section 10)"


def main():
    path = os.path.join(VERIF, "MANIFEST.json")
    m = json.load(open(path))
    checks = []
    import re
    for pid in ALL:
        if pid in CLAIMS:
            c = dict(CLAIMS[pid])
            # the number of theorems is counted from Props/<pid>.v, not written by hand
            try:
                src = open(os.path.join(VERIF, "coq", "Props", pid + ".v"), encoding="utf-8").read()
                n = len(re.findall(r"(?m)^Theorem\s", src))
                c["text"] = re.sub(r"^[A-Z][a-z]+(?:-[a-z]+)? Coq theorems", "%d Coq theorems" % n, c["text"])
            except OSError:
                pass
            checks.append({
                "property_id": pid,
                "quick_cmd": "python3 tools/check.py %s --tier quick" % pid,
                "thorough_cmd": "python3 tools/check.py %s --tier thorough" % pid,
                "evidence_file": "evidence/%s.json" % pid,
                "replay_cmd_template": "python3 tools/check.py %s --replay {path}" % pid,
                "engine": "coq-model+correspondence",
                "level_claimed": {"category": "proof", "text": c["text"], "design_ref": c["ref"]},
                "level_note": c["note"],
                "technique": c["technique"],
            })
    m["checks"] = checks
    m["engines"][0]["serves_properties"] = sorted(CLAIMS)
    m["not_applicable"] = [{"property_id": p, "reason": REASON_PENDING} for p in ALL if p not in CLAIMS]
    json.dump(m, open(path, "w"), indent=1)
    print("MANIFEST: claimed", sorted(CLAIMS))


if __name__ == "__main__":
    main()
