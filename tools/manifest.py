#!/usr/bin/env python3
"""Regenerates MANIFEST.json from the table below (keeps it valid and consistent)."""
import json
import os

VERIF = os.path.dirname(os.path.dirname(os.path.abspath(__file__)))
ALL = ["C%02d" % i for i in range(1, 19)]

NOTE_COMMON = ("Trusted: Coq 8.16.1 kernel incl. vm_compute (no native_compute); no axioms (every theorem prints "
               "'Closed under the global context'); translator tools/gen_tables.py; hand-written model coq/Model tied to the "
               "code by the differential correspondence (Rust harness vs extracted OCaml model, ExtrOcamlBasic only); "
               "Python generators/oracles.")

CLAIMS = {
    "C11": {
        "text": "Four Coq theorems (Props/C11.v): every generated enum table equals the hand-written IANA registry (bijection, "
                "width), the four code entry points accept exactly the table values and reject others with the code in the "
                "error, all 65,536 flag words decode per the RFC 1035/2535 bit positions (testbit) and re-encode to the same "
                "word. Proved by complete enumeration inside Coq (vm_compute + forallb_forall). Tables/masks are regenerated "
                "from /repo/src on every run; the model is tied to the code by an exhaustive differential run of all 65,536 "
                "values of every entry point.",
        "note": "Spec/Iana.v is the registry copy the tables are compared with. " + NOTE_COMMON,
        "technique": "Coq proof by exhaustive vm_compute enumeration over generated tables + exhaustive differential correspondence",
        "ref": "DESIGN.md section 7 C11",
    },
    "C13": {
        "text": "Fifteen Coq theorems (Props/C13.v) about the model of Label/DomainName: name equality is exactly label-wise "
                "ASCII-case-insensitive equality (stated without the folding function) and an equivalence; equal names feed "
                "identical octets to any hasher; len() is the length of the Display form; parse(Display(n)) = n octet-exact for "
                "every dot-free legal name incl. the root; from_str, append_label and the wire decoder accept exactly labels "
                "of 1..=63 octets and names of <= 255 wire octets. Unbounded (induction over names). Tie: X cases (parse, "
                "eq/hash, round trip) compared model vs implementation, plus an independent Python oracle.",
        "note": "The compression-target clause of C13 is carried by C06. Unicode case mapping is outside the model (ASCII folding after fix F4). " + NOTE_COMMON,
        "technique": "Coq proof (induction over label lists) + differential correspondence on text/equality/hash cases",
        "ref": "DESIGN.md section 7 C13",
    },
}

CLAIMS["C12"] = {
    "text": "Sixteen Coq theorems (Props/C12.v): for ECS, APL item, cookie, label, name, tag, digit strings, non-empty list: a "
            "semantic invariant stated at bit level (prefix within the family size and no address bit beyond it via N.testbit, "
            "server cookie 8..=32, label 1..=63, name <= 255 wire octets, ...) holds after every successful constructor, is "
            "preserved by every public setter/append, hence holds after EVERY finite call history (induction over the op list), "
            "and every failing call leaves the value unchanged; the octet/mask computation of check_ipv4/6_addr is proved "
            "equivalent to the bit-level statement and never indexes out of range; values produced by the decoder satisfy the "
            "invariants too. Tie: H cases (exhaustive short histories over boundary arguments + random long ones) compared state "
            "by state, plus an independent Python evaluation of the constraints.",
    "note": "Address arguments are assumed to be 4/16 octets < 256 (guaranteed by Rust's Ipv4Addr/Ipv6Addr types). " + NOTE_COMMON,
    "technique": "Coq proof (invariant + induction over call histories, bit-level lemma by finite enumeration) + differential correspondence on histories",
    "ref": "DESIGN.md section 7 C12",
}
CLAIMS["C06"] = {
    "text": "Eleven Coq theorems (Props/C06.v) about the model of Encoder::domain_name and the buffer operations around it: a "
            "masked invariant (every index entry and every logged name expands, in EVERY buffer that agrees on the name octets, "
            "to the name written up to ASCII case, in exactly its recorded depth <= 16, through pointers that point backwards, "
            "below 16384, at label starts of earlier written names); preserved by appends, by patches of unmasked length slots "
            "and by the name writer; the name writer never fails for legal names except for the 65,536-octet message limit "
            "(no Compression / MaxRecursion error reachable); lifted to ALL histories of WriteName / WriteRaw / Reserve / Patch "
            "operations by induction (unbounded); the pinned pre-fix compress() is refuted on 18 nested names. The reference "
            "expansion Spec/Names.v is independent of the decoder model. Tie: E Dns cases (exhaustive short name sequences, nesting "
            "1..64, placements around 0x3FFF/0x4000, long sequences) byte-exact vs the model; reference re-expansion of the "
            "implementation's bytes.",
    "note": "The statement over the whole enc_dns (every record writer is an instance of the history language) is proved for "
            "enc_question and the primitives; the remaining writers are covered by the byte-exact correspondence. " + NOTE_COMMON,
    "technique": "Coq proof (state invariant over encoder histories, induction) + byte-exact differential correspondence + reference expansion oracle",
    "ref": "DESIGN.md section 7 C06",
}
CLAIMS["C07"] = {
    "text": "Twelve Coq theorems (Props/C07.v) about the model of Decoder::domain_name: for EVERY message, window, offset and "
            "pointer graph it terminates within its fixed fuel (never out of fuel, never a panic), examines at most 544 octets "
            "per name, returns only names of <= 255 wire octets with labels of 1..=63 octets, follows at most 17 pairwise "
            "distinct pointer targets; a name whose reference pointer chain is cyclic or needs more than 17 hops is always an "
            "error; an accepted name is exactly the reference expansion (Spec/Names.v) of the octets. Since every name consumes "
            ">= 1 octet of its window the whole-message work is <= 545*len (argument in DESIGN.md; the per-name bound is the "
            "proved part). Tie: D cases over all pointer graphs of <= 5 nodes, chains 1..64, fans, mazes, with the hook's octet "
            "counter compared EXACTLY with the model's cost and a budget that turns a loop into a PANIC line.",
    "note": "Whole-message linear bound: per-name constant proved, the summation over names argued in DESIGN.md and checked by the oracle cost <= 560*len+2048. Wall-clock time and allocation are not modelled. " + NOTE_COMMON,
    "technique": "Coq proof (termination measure, simulation against a reference expansion, periodicity of cyclic chains) + exact cost correspondence",
    "ref": "DESIGN.md section 7 C07",
}

REASON_PENDING = "check not built yet (work in progress; see DESIGN.md section 10)"


def main():
    path = os.path.join(VERIF, "MANIFEST.json")
    m = json.load(open(path))
    checks = []
    for pid in ALL:
        if pid in CLAIMS:
            c = CLAIMS[pid]
            checks.append({
                "property_id": pid,
                "quick_cmd": "python3 tools/check.py %s --tier quick" % pid,
                "thorough_cmd": "python3 tools/check.py %s --tier thorough" % pid,
                "evidence_file": "evidence/%s.json" % pid,
                "replay_cmd_template": "python3 tools/check.py %s --replay {path}" % pid,
                "engine": "coq-model+correspondence",
                "level_claimed": {"category": "proof", "text": c["text"], "design_ref": c["ref"]},
                "level_note": c["note"],
                "technique": c["technique"],
            })
    m["checks"] = checks
    m["engines"][0]["serves_properties"] = sorted(CLAIMS)
    m["not_applicable"] = [{"property_id": p, "reason": REASON_PENDING} for p in ALL if p not in CLAIMS]
    json.dump(m, open(path, "w"), indent=1)
    print("MANIFEST: claimed", sorted(CLAIMS))


if __name__ == "__main__":
    main()
