#!/usr/bin/env python3
"""Regenerates MANIFEST.json from the table below (keeps it valid and consistent)."""
import json
import os

VERIF = os.path.dirname(os.path.dirname(os.path.abspath(__file__)))
ALL = ["C%02d" % i for i in range(1, 19)]

NOTE_COMMON = ("Trusted: Coq 8.16.1 kernel incl. vm_compute (no native_compute); no axioms (every theorem prints "
               "'Closed under the global context'); translator tools/gen_tables.py; hand-written model coq/Model tied to the "
               "code by the differential correspondence (Rust harness vs extracted OCaml model, ExtrOcamlBasic only); "
               "Python generators/oracles.")

CLAIMS = {
    "C11": {
        "text": "Four Coq theorems (Props/C11.v): every generated enum table equals the hand-written IANA registry (bijection, "
                "width), the four code entry points accept exactly the table values and reject others with the code in the "
                "error, all 65,536 flag words decode per the RFC 1035/2535 bit positions (testbit) and re-encode to the same "
                "word. Proved by complete enumeration inside Coq (vm_compute + forallb_forall). Tables/masks are regenerated "
                "from /repo/src on every run; the model is tied to the code by an exhaustive differential run of all 65,536 "
                "values of every entry point.",
        "note": "Spec/Iana.v is the registry copy the tables are compared with. " + NOTE_COMMON,
        "technique": "Coq proof by exhaustive vm_compute enumeration over generated tables + exhaustive differential correspondence",
        "ref": "DESIGN.md section 7 C11",
    },
    "C13": {
        "text": "Fifteen Coq theorems (Props/C13.v) about the model of Label/DomainName: name equality is exactly label-wise "
                "ASCII-case-insensitive equality (stated without the folding function) and an equivalence; equal names feed "
                "identical octets to any hasher; len() is the length of the Display form; parse(Display(n)) = n octet-exact for "
                "every dot-free legal name incl. the root; from_str, append_label and the wire decoder accept exactly labels "
                "of 1..=63 octets and names of <= 255 wire octets. Unbounded (induction over names). Tie: X cases (parse, "
                "eq/hash, round trip) compared model vs implementation, plus an independent Python oracle.",
        "note": "The compression-target clause of C13 is carried by C06. Unicode case mapping is outside the model (ASCII folding after fix F4). " + NOTE_COMMON,
        "technique": "Coq proof (induction over label lists) + differential correspondence on text/equality/hash cases",
        "ref": "DESIGN.md section 7 C13",
    },
}

REASON_PENDING = "check not built yet (work in progress; see DESIGN.md section 10)"


def main():
    path = os.path.join(VERIF, "MANIFEST.json")
    m = json.load(open(path))
    checks = []
    for pid in ALL:
        if pid in CLAIMS:
            c = CLAIMS[pid]
            checks.append({
                "property_id": pid,
                "quick_cmd": "python3 tools/check.py %s --tier quick" % pid,
                "thorough_cmd": "python3 tools/check.py %s --tier thorough" % pid,
                "evidence_file": "evidence/%s.json" % pid,
                "replay_cmd_template": "python3 tools/check.py %s --replay {path}" % pid,
                "engine": "coq-model+correspondence",
                "level_claimed": {"category": "proof", "text": c["text"], "design_ref": c["ref"]},
                "level_note": c["note"],
                "technique": c["technique"],
            })
    m["checks"] = checks
    m["engines"][0]["serves_properties"] = sorted(CLAIMS)
    m["not_applicable"] = [{"property_id": p, "reason": REASON_PENDING} for p in ALL if p not in CLAIMS]
    json.dump(m, open(path, "w"), indent=1)
    print("MANIFEST: claimed", sorted(CLAIMS))


if __name__ == "__main__":
    main()
