#!/bin/bash
# re-run every claimed check (quick) on the unchanged tree, validate MANIFEST and evidence files
cd "$(dirname "$0")/.."
git -C /repo diff --quiet || { echo "/repo has uncommitted changes"; exit 1; }
python3 tools/manifest.py
rc=0
for p in $(python3 -c "import json;print(' '.join(c['property_id'] for c in json.load(open('MANIFEST.json'))['checks']))"); do
  timeout 3000 python3 tools/check.py $p 2>&1 | grep -v "^KNOWN-FINDING" | tail -2 || rc=1
done
python3-vt - <<'PY'
import json,jsonschema,glob,sys
m=json.load(open('/verif/MANIFEST.json'))
jsonschema.validate(m,json.load(open('/root/.vp/MANIFEST.schema.json')))
bad=0
for c in m['checks']:
    f='/verif/'+c['evidence_file']
    try:
        e=json.load(open(f)); jsonschema.validate(e,json.load(open('/root/.vp/EVIDENCE.schema.json')))
        if e.get('violations'): print('VIOLATIONS in',f); bad=1
    except Exception as ex:
        print('BAD',f,str(ex)[:200]); bad=1
ids={c['property_id'] for c in m['checks']}|{n['property_id'] for n in m.get('not_applicable',[])}
print('manifest+evidence ok' if not bad else 'PROBLEMS', len(ids),'properties listed')
sys.exit(bad)
PY
