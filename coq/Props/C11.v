(* C11 — header flag bits and all numeric code points map exactly as registered. *)
From DNS Require Import Model.Dec Model.Enc Spec.Iana Proofs.Enum Proofs.C11.

(* every generated enum table (read from the Rust source on this run) is the IANA registry restricted
   to the supported names: same (name, value) pairs both ways, values and names unique, values within
   the integer width *)
Theorem C11_tables :
  table_ok Opcode_width Opcode_table iana_Opcode = true /\
  table_ok RCode_width RCode_table iana_RCode = true /\
  table_ok Class_width Class_table iana_Class = true /\
  table_ok Type_width Type_table iana_Type = true /\
  table_ok QType_width QType_table iana_QType = true /\
  table_ok QClass_width QClass_table iana_QClass = true /\
  table_ok EDNSOptionCode_width EDNSOptionCode_table iana_EDNSOptionCode = true /\
  table_ok AlgorithmType_width AlgorithmType_table iana_AlgorithmType = true /\
  table_ok DigestType_width DigestType_table iana_DigestType = true /\
  table_ok SSHFPAlgorithm_width SSHFPAlgorithm_table iana_SSHFPAlgorithm = true /\
  table_ok SSHFPType_width SSHFPType_table iana_SSHFPType = true /\
  table_ok AFSDBSubtype_width AFSDBSubtype_table iana_AFSDBSubtype = true /\
  table_ok AddressFamilyNumber_width AddressFamilyNumber_table iana_AddressFamilyNumber = true.
Proof. exact C11_tables_proof. Qed.
Print Assumptions C11_tables.

(* the four code entry points: decode accepts exactly the registered code points, returns the code,
   rejects every other value with an error carrying that value; encode is the inverse *)
Theorem C11_code_points : forall v, v < 65536 ->
  (dec_Type (u16b v) = (if in_table Type_table v then DOk v (code_final 2) else DErr (EType, [v]) 2)) /\
  (dec_Class (u16b v) = (if in_table Class_table v then DOk v (code_final 2) else DErr (EClass, [v]) 2)) /\
  (dec_QType (u16b v) = (if in_table QType_table v then DOk v (code_final 2) else DErr (EQType, [v]) 2)) /\
  (dec_QClass (u16b v) = (if in_table QClass_table v then DOk v (code_final 2) else DErr (EQClass, [v]) 2)) /\
  enc_code v = Ok (u16b v).
Proof. exact C11_code_points_proof. Qed.
Print Assumptions C11_code_points.

(* TryFrom accepts v iff some variant carries v (for every table) *)
Theorem C11_try_from : forall T v, in_table T v = true <-> exists nm, In (nm, v) T.
Proof. exact in_table_iff. Qed.
Print Assumptions C11_try_from.

(* all 65,536 flag words: RFC 1035 / RFC 2535 bit positions written with testbit, independent of the
   library's masks (which the translator read from the source into Gen/Consts.v) *)
Theorem C11_flags : forall w, w < 65536 -> flags_word_spec w.
Proof. exact C11_flags_proof. Qed.
Print Assumptions C11_flags.

(* non-vacuity: a concrete accepted word and a concrete rejected one *)
Example C11_flags_example :
  (exists f s, dec_Flags [129; 128] = DOk f s /\ f_qr f = true /\ f_rd f = true /\ f_ra f = true) /\
  dec_Flags [0; 64] = DErr (EZNotZeroes, [64]) 2.
Proof. split; [do 2 eexists; split; [vm_compute; reflexivity|auto]|vm_compute; reflexivity]. Qed.
