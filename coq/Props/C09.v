(* C09 — record, option and parameter framing is exact. *)
From DNS Require Import Model.Dec Proofs.DecBase Proofs.DecName Proofs.Frame Proofs.FrameMsg Proofs.FrameErr
  Proofs.FrameCost Proofs.FrameWin Proofs.C09.

(* ---- 1. the window primitive: `let mut sub = self.sub(n)?; let a = m(sub)?; sub.finished()?` ---- *)
(* hypothesis on [m]: it keeps the window (true of every computation the model runs in a window,
   C09_children_keep_window).  On success the window had [n] octets, [m] ran on a fresh state whose
   only octets are that slice, ended at offset [n] with nothing left, and the parent continues
   exactly [n] octets further. *)
Theorem C09_with_sub_exact : forall (A : Type) (n : N) (m : DM A) (s : dst) (a : A) (s' : dst),
  (forall (s : dst) (a : A) (s' : dst), dst_wf s -> m s = DOk a s' ->
     dst_wf s' /\ d_len s' = d_len s /\ d_off s <= d_off s') ->
  dst_wf s -> with_sub n m s = DOk a s' ->
  exists (b : bytes) (s1 c : dst),
    read n s = DOk b s1 /\ b = takeN n (d_rest s) /\ lenN b = n /\
    m {| d_rest := b; d_off := 0; d_len := n; d_cost := d_cost s1 |} = DOk a c /\
    d_off c = n /\ d_rest c = [] /\ d_len c = n /\
    d_off s' = d_off s + n /\ d_rest s' = dropN n (d_rest s) /\ d_len s' = d_len s /\ dst_wf s' /\
    d_off s' <= d_len s'.
Proof. exact @with_sub_exact. Qed.
Print Assumptions C09_with_sub_exact.

(* for any child computation at all: the child ended exactly at the end of its window *)
Theorem C09_with_sub_exact_gen : forall (A : Type) (n : N) (m : DM A) (s : dst) (a : A) (s' : dst),
  dst_wf s -> with_sub n m s = DOk a s' ->
  exists (b : bytes) (s1 c : dst),
    read n s = DOk b s1 /\ b = takeN n (d_rest s) /\ lenN b = n /\ d_off s + n <= d_len s /\
    m {| d_rest := b; d_off := 0; d_len := n; d_cost := d_cost s1 |} = DOk a c /\
    d_off c = d_len c /\
    d_off s' = d_off s + n /\ d_rest s' = dropN n (d_rest s) /\ d_len s' = d_len s /\ d_cost s' = d_cost c.
Proof. exact @with_sub_exact_gen. Qed.
Print Assumptions C09_with_sub_exact_gen.

(* the child leaves octets unread: TooManyBytes [n; offset reached] *)
Theorem C09_with_sub_leftover : forall (A : Type) (n : N) (m : DM A) (s : dst) (b : bytes) (s1 : dst) (a : A) (c : dst),
  (forall (s : dst) (a : A) (s' : dst), dst_wf s -> m s = DOk a s' ->
     dst_wf s' /\ d_len s' = d_len s /\ d_off s <= d_off s') ->
  dst_wf s -> read n s = DOk b s1 ->
  m {| d_rest := b; d_off := 0; d_len := n; d_cost := d_cost s1 |} = DOk a c ->
  d_off c < n ->
  with_sub n m s = DErr (ETooManyBytes, [n; d_off c]) (d_cost c).
Proof. exact @with_sub_leftover_n. Qed.
Print Assumptions C09_with_sub_leftover.

(* the child needs more than the window holds: the read fails inside the child, whatever follows
   the window in the parent; the child's error is the error of the whole *)
Theorem C09_read_past_window : forall (k : N) (c : dst),
  d_off c + k < POW64 -> d_len c < d_off c + k ->
  read k c = DErr (ENotEnoughBytes, [d_len c; d_off c + k]) (d_cost c).
Proof. exact read_past_window. Qed.
Print Assumptions C09_read_past_window.
Theorem C09_with_sub_child_err : forall (A : Type) (n : N) (m : DM A) (s : dst) (b : bytes) (s1 : dst) (e : err) (k : N),
  read n s = DOk b s1 ->
  m {| d_rest := b; d_off := 0; d_len := lenN b; d_cost := d_cost s1 |} = DErr e k ->
  with_sub n m s = DErr e k.
Proof. exact @with_sub_child_err. Qed.
Print Assumptions C09_with_sub_child_err.
(* fewer than [n] octets left for the window itself *)
Theorem C09_with_sub_short : forall (A : Type) (n : N) (m : DM A) (s : dst),
  dst_wf s -> n < WFMAX -> d_len s < d_off s + n ->
  with_sub n m s = DErr (ENotEnoughBytes, [d_len s; d_off s + n]) (d_cost s).
Proof. exact @with_sub_short. Qed.
Print Assumptions C09_with_sub_short.

(* the four computations the model runs inside windows keep their window *)
Example C09_edns_option_unfold : rr_edns_option =
  (c <- code EDNSOptionCode_table EEDNSOptionCode u16 ;; len <- u16 ;; with_sub len (edns_option_body c)).
Proof. reflexivity. Qed.
Theorem C09_children_keep_window : forall main : bytes, bytes_ok main -> lenN main < 2 ^ 62 ->
  (forall (t : N) (owner : name) (hclass ttl : N), len_stable (rr_body main t owner hclass ttl)) /\
  (forall c : N, len_stable (edns_option_body c)) /\
  (forall fam : N, len_stable (rr_address fam)) /\
  (forall key : N, len_stable (rr_service_parameter key)).
Proof. exact children_keep_window. Qed.
Print Assumptions C09_children_keep_window.

(* ---- 3. sections: exactly the announced numbers of entries, nothing behind the last record ---- *)
Theorem C09_sections_exact : forall (b : bytes) (m : dns) (s : dst), bytes_ok b -> dec_Dns b = DOk m s ->
  lenN (m_qd m) = be (takeN 2 (dropN 4 b)) /\ lenN (m_an m) = be (takeN 2 (dropN 6 b)) /\
  lenN (m_ns m) = be (takeN 2 (dropN 8 b)) /\ lenN (m_ar m) = be (takeN 2 (dropN 10 b)) /\
  d_off s = lenN b /\ d_rest s = [] /\
  exists (s7 s8 s9 : dst),
    repeat_dm (N.to_nat (be (takeN 2 (dropN 4 b)))) (question_ b) (adv 12 (mk_main b)) = DOk (m_qd m) s7 /\
    repeat_dm (N.to_nat (be (takeN 2 (dropN 6 b)))) (rr_ b) s7 = DOk (m_an m) s8 /\
    repeat_dm (N.to_nat (be (takeN 2 (dropN 8 b)))) (rr_ b) s8 = DOk (m_ns m) s9 /\
    repeat_dm (N.to_nat (be (takeN 2 (dropN 10 b)))) (rr_ b) s9 = DOk (m_ar m) s.
Proof. exact sections_exact. Qed.
Print Assumptions C09_sections_exact.

(* [dns_body]: the header and the four section loops, i.e. [dns_] without its final test *)
Example C09_dns_unfold : forall (main : bytes) (s : dst), dns_ main s =
  if negb (d_off s =? 0) then DErr (EOffset, [d_off s]) (d_cost s)
  else if cmp_apply OP_dns_min (d_len s) DNS_MIN_LENGTH then DErr (ENotEnoughBytes, [d_len s; DNS_MIN_LENGTH]) (d_cost s)
  else if cmp_apply OP_dns_max (d_len s) MAXIMUM_DNS_PACKET_SIZE then DErr (EDnsPacketTooBig, [d_len s]) (d_cost s)
  else (m <- dns_body main ;;
        fin <- is_finished ;;
        if fin then ret m else fun s' => DErr (ERemainingBytes, [d_off s']) (d_cost s')) s.
Proof. exact dns_split. Qed.

(* RemainingBytes is returned exactly when the section loops succeed and octets remain *)
Theorem C09_remaining_bytes_iff : forall (main : bytes) (s : dst) (p : list N) (c : N),
  dns_ main s = DErr (ERemainingBytes, p) c <->
  d_off s = 0 /\ 12 <= d_len s /\ d_len s <= 65536 /\
  exists (m : dns) (s1 : dst), dns_body main s = DOk m s1 /\ d_off s1 < d_len s1 /\ p = [d_off s1] /\ c = d_cost s1.
Proof. exact dns_remaining_iff. Qed.
Print Assumptions C09_remaining_bytes_iff.
Theorem C09_accept_iff : forall (main : bytes) (s : dst) (m : dns) (s1 : dst),
  d_off s = 0 -> 12 <= d_len s -> d_len s <= 65536 -> dns_body main s = DOk m s1 -> d_off s1 <= d_len s1 ->
  (dns_ main s = DErr (ERemainingBytes, [d_off s1]) (d_cost s1) <-> d_off s1 < d_len s1) /\
  (dns_ main s = DOk m s1 <-> d_off s1 = d_len s1).
Proof. exact dns_accept_iff. Qed.
Print Assumptions C09_accept_iff.

(* ---- 4. a record: owner name, 10 fixed octets, then exactly RDLENGTH octets of RDATA ---- *)
Theorem C09_record_exact : forall (main : bytes) (s : dst) (r : rr) (s' : dst),
  bytes_ok main -> lenN main < 2 ^ 62 -> dst_wf s -> rr_ main s = DOk r s' ->
  exists (owner : name) (s0 : dst) (type_ hclass ttl rdlen : N) (rdata : bytes) (k : N) (c : dst),
    domain_name main s = DOk owner s0 /\
    type_ = be (takeN 2 (d_rest s0)) /\ in_table Type_table type_ = true /\ hclass = be (takeN 2 (dropN 2 (d_rest s0))) /\
    ttl = be (takeN 4 (dropN 4 (d_rest s0))) /\ rdlen = be (takeN 2 (dropN 8 (d_rest s0))) /\
    rdata = takeN rdlen (dropN 10 (d_rest s0)) /\ lenN rdata = rdlen /\
    rr_body main type_ owner hclass ttl {| d_rest := rdata; d_off := 0; d_len := rdlen; d_cost := k |} = DOk r c /\
    d_off c = rdlen /\ d_rest c = [] /\ d_len c = rdlen /\
    d_off s' = d_off s0 + 10 + rdlen /\ d_rest s' = dropN (10 + rdlen) (d_rest s0) /\
    d_len s' = d_len s /\ dst_wf s' /\ d_off s' <= d_len s'.
Proof. exact rr_exact62. Qed.
Print Assumptions C09_record_exact.
Theorem C09_record_advance : forall (main : bytes) (s : dst) (r : rr) (s' : dst),
  bytes_ok main -> lenN main < 2 ^ 62 -> dst_wf s -> rr_ main s = DOk r s' ->
  exists (owner : name) (s0 : dst),
    domain_name main s = DOk owner s0 /\
    d_off s' = d_off s0 + 10 + be (takeN 2 (dropN 8 (d_rest s0))) /\
    d_rest s' = dropN (d_off s' - d_off s) (d_rest s) /\ d_off s < d_off s' /\ d_off s' <= d_len s.
Proof. exact rr_advance62. Qed.
Print Assumptions C09_record_advance.

(* ---- 5. nested windows ---- *)
Theorem C09_edns_option_exact : forall (s : dst) (o : ednsopt) (s' : dst),
  dst_wf s -> rr_edns_option s = DOk o s' ->
  exists (code len : N) (data : bytes) (k : N) (c : dst),
    code = be (takeN 2 (d_rest s)) /\ len = be (takeN 2 (dropN 2 (d_rest s))) /\
    data = takeN len (dropN 4 (d_rest s)) /\ lenN data = len /\
    edns_option_body code {| d_rest := data; d_off := 0; d_len := len; d_cost := k |} = DOk o c /\
    d_off c = len /\ d_rest c = [] /\
    d_off s' = d_off s + 4 + len /\ d_rest s' = dropN (4 + len) (d_rest s) /\ d_len s' = d_len s.
Proof. exact edns_option_exact. Qed.
Print Assumptions C09_edns_option_exact.
Theorem C09_apl_item_exact : forall (s : dst) (i : apitem) (s' : dst),
  dst_wf s -> rr_apl_apitem s = DOk i s' ->
  exists (fam prefix buffer alen : N) (data : bytes) (k : N) (a : addr) (c : dst),
    fam = be (takeN 2 (d_rest s)) /\ takeN 1 (dropN 2 (d_rest s)) = [prefix] /\
    takeN 1 (dropN 3 (d_rest s)) = [buffer] /\ alen = N.land buffer ADDRESS_LENGTH_MASK /\
    data = takeN alen (dropN 4 (d_rest s)) /\ lenN data = alen /\
    rr_address fam {| d_rest := data; d_off := 0; d_len := alen; d_cost := k |} = DOk a c /\
    d_off c = alen /\ d_rest c = [] /\
    d_off s' = d_off s + 4 + alen /\ d_rest s' = dropN (4 + alen) (d_rest s) /\ d_len s' = d_len s.
Proof. exact apl_item_exact. Qed.
Print Assumptions C09_apl_item_exact.
Theorem C09_svc_param_exact : forall (f : nat) (acc : list svcparam) (s : dst) (l : list svcparam) (s' : dst),
  dst_wf s -> d_off s < d_len s -> svc_params (S f) acc s = DOk l s' ->
  exists (key len : N) (data : bytes) (k : N) (p : svcparam) (c s3 : dst) (acc' : list svcparam),
    key = be (takeN 2 (d_rest s)) /\ len = be (takeN 2 (dropN 2 (d_rest s))) /\
    data = takeN len (dropN 4 (d_rest s)) /\ lenN data = len /\
    rr_service_parameter key {| d_rest := data; d_off := 0; d_len := len; d_cost := k |} = DOk p c /\
    d_off c = len /\ d_rest c = [] /\
    d_off s3 = d_off s + 4 + len /\ d_rest s3 = dropN (4 + len) (d_rest s) /\ d_len s3 = d_len s /\ dst_wf s3 /\
    set_insert p acc = (acc', true) /\ svc_params f acc' s3 = DOk l s'.
Proof. exact svc_param_exact. Qed.
Print Assumptions C09_svc_param_exact.
(* the option / item / parameter loops stop exactly at the end of their window *)
Theorem C09_loops_end :
  (forall (A : Type) (item : DM A) (fuel : nat) (acc : list A) (s : dst) (l : list A) (s' : dst),
     many fuel item acc s = DOk l s' -> d_off s' = d_len s') /\
  (forall (fuel : nat) (acc : list svcparam) (s : dst) (l : list svcparam) (s' : dst),
     svc_params fuel acc s = DOk l s' -> d_off s' = d_len s').
Proof. exact loops_end. Qed.
Print Assumptions C09_loops_end.

(* ---- 2. window confinement ---- *)
(* [reads_only_window m]: forall main1 main2 s, m main1 s = m main2 s — the outermost buffer (the only
   way out of the window: compression pointers) is not consulted *)
Theorem C09_field_window : forall k : fk, k <> FName -> reads_only_window (fun main => read_field main k).
Proof. exact read_field_window. Qed.
Print Assumptions C09_field_window.
Theorem C09_option_item_param_window :
  reads_only_window (fun _ => rr_edns_option) /\ reads_only_window (fun _ => rr_apl_apitem) /\
  (forall key : N, reads_only_window (fun _ => rr_service_parameter key)).
Proof. exact (conj edns_option_window (conj apl_item_window service_parameter_window)). Qed.
Print Assumptions C09_option_item_param_window.
(* [nameless_type t]: the format of TYPE t has no name field and is not SVCB/HTTPS *)
Example C09_nameless_types :
  filter nameless_type (map fst dec_dispatch) =
    [1; 10; 11; 13; 16; 19; 20; 22; 27; 29; 28; 44; 104; 105; 106; 108; 109; 256; 31; 32; 48; 43; 257; 41; 42] /\
  filter (fun t => negb (nameless_type t)) (map fst dec_dispatch) =
    [2; 3; 4; 5; 6; 7; 8; 9; 12; 14; 15; 17; 18; 21; 26; 36; 33; 39; 107; 64; 65].
Proof. vm_compute. split; reflexivity. Qed.
Theorem C09_body_window : forall (t : N) (owner : name) (hclass ttl : N), nameless_type t = true ->
  reads_only_window (fun main => rr_body main t owner hclass ttl).
Proof. exact rr_body_window. Qed.
Print Assumptions C09_body_window.
(* the value read through a window depends on the [n] octets of the slice only ([cshift m]: the
   octet counter is write-only for [m]; true of every RDATA reader, C09_cost_write_only) *)
Theorem C09_with_sub_window : forall (A : Type) (n : N) (m : DM A) (s1 s2 : dst) (a : A) (s1' : dst),
  cshift m -> dst_wf s1 -> dst_wf s2 -> with_sub n m s1 = DOk a s1' ->
  takeN n (d_rest s1) = takeN n (d_rest s2) -> d_off s2 + n <= d_len s2 ->
  exists s2' : dst, with_sub n m s2 = DOk a s2' /\ d_off s2' = d_off s2 + n /\ d_rest s2' = dropN n (d_rest s2).
Proof. exact @with_sub_window. Qed.
Print Assumptions C09_with_sub_window.
Theorem C09_cost_write_only : forall (main : bytes) (t : N) (owner : name) (hclass ttl : N) (d : N) (s : dst),
  rr_body main t owner hclass ttl
    {| d_rest := d_rest s; d_off := d_off s; d_len := d_len s; d_cost := d_cost s + d |} =
  match rr_body main t owner hclass ttl s with
  | DOk a s' => DOk a {| d_rest := d_rest s'; d_off := d_off s'; d_len := d_len s'; d_cost := d_cost s' + d |}
  | DErr e c => DErr e (c + d)
  | DPanic x => DPanic x
  | DFuel => DFuel
  end.
Proof. exact cshift_rr_body. Qed.
Print Assumptions C09_cost_write_only.
(* a name written without a pointer ([domain_name_g] returns the pointer targets followed: none)
   is determined by its own [k] octets *)
Theorem C09_name_literal : forall (main1 : bytes) (s1 : dst) (n : name) (s1' : dst),
  domain_name_g main1 s1 = DOk (n, []) s1' ->
  exists k : N, s1' = adv k s1 /\
    forall (main2 : bytes) (s2 : dst), dst_wf s2 -> d_off s2 + k <= d_len s2 ->
      takeN k (d_rest s1) = takeN k (d_rest s2) -> domain_name main2 s2 = DOk n (adv k s2).
Proof. exact domain_name_literal. Qed.
Print Assumptions C09_name_literal.
Example C09_name_g_erase : forall (main : bytes) (s : dst), domain_name main s = dres_map fst (domain_name_g main s).
Proof. exact domain_name_erase. Qed.

(* no absorption: a record with a literal owner and without a name field in its RDATA, found as the
   octets [rec] behind [pre1] and in front of [post1], is decoded to the same value behind any
   [pre2] and in front of any [post2], in any outermost buffer: neighbouring octets never enter a
   field *)
Theorem C09_no_absorption : forall (main1 main2 pre1 pre2 rec post1 post2 : bytes) (c1 c2 : N) (r : rr) (s1' : dst)
  (owner : name) (s1a : dst),
  bytes_ok main1 -> lenN main1 < 2 ^ 62 ->
  bytes_ok (rec ++ post1) -> bytes_ok (rec ++ post2) ->
  lenN (pre1 ++ rec ++ post1) < 2 ^ 62 -> lenN (pre2 ++ rec ++ post2) < 2 ^ 62 ->
  rr_ main1 {| d_rest := rec ++ post1; d_off := lenN pre1; d_len := lenN (pre1 ++ rec ++ post1); d_cost := c1 |} = DOk r s1' ->
  d_off s1' = lenN pre1 + lenN rec ->
  domain_name_g main1 {| d_rest := rec ++ post1; d_off := lenN pre1; d_len := lenN (pre1 ++ rec ++ post1); d_cost := c1 |}
    = DOk (owner, []) s1a ->
  nameless_type (r_type r) = true ->
  exists s2' : dst,
    rr_ main2 {| d_rest := rec ++ post2; d_off := lenN pre2; d_len := lenN (pre2 ++ rec ++ post2); d_cost := c2 |} = DOk r s2' /\
    d_off s2' = lenN pre2 + lenN rec /\ d_rest s2' = post2.
Proof. exact rr_no_absorption_msg62. Qed.
Print Assumptions C09_no_absorption.
(* the same between any two decoder states that agree on the octets of the record *)
Theorem C09_no_absorption_states : forall (main1 main2 : bytes) (s1 s2 : dst) (r : rr) (s1' : dst) (owner : name) (s1a : dst),
  bytes_ok main1 -> lenN main1 < 2 ^ 62 -> dst_wf s1 -> dst_wf s2 ->
  rr_ main1 s1 = DOk r s1' ->
  domain_name_g main1 s1 = DOk (owner, []) s1a ->
  nameless_type (r_type r) = true ->
  takeN (d_off s1' - d_off s1) (d_rest s1) = takeN (d_off s1' - d_off s1) (d_rest s2) ->
  d_off s2 + (d_off s1' - d_off s1) <= d_len s2 ->
  exists s2' : dst, rr_ main2 s2 = DOk r s2' /\
    d_off s2' = d_off s2 + (d_off s1' - d_off s1) /\ d_rest s2' = dropN (d_off s1' - d_off s1) (d_rest s2) /\
    d_len s2' = d_len s2.
Proof. exact rr_no_absorption62. Qed.
Print Assumptions C09_no_absorption_states.

(* ---- non-vacuity ---- *)
Definition ex_hdr (an : N) : bytes := [0;1;1;0; 0;0; 0;an; 0;0; 0;0].
(* a.  IN A  ttl 60  RDLENGTH [rdlen]  192.0.2.1 *)
Definition ex_a (rdlen : N) : bytes := [1;97;0; 0;1; 0;1; 0;0;0;60; 0;rdlen; 192;0;2;1].
Definition ex_flags : flags :=
  {| f_qr := false; f_opcode := 0; f_aa := false; f_tc := false; f_rd := true;
     f_ra := false; f_ad := false; f_cd := false; f_rcode := 0 |}.
Definition ex_rr_a : rr :=
  {| r_type := 1; r_name := [[97]]; r_class := 1; r_ttl := 60; r_data := RFields [VN 3221225985] |}.

Example C09_ex_valid : dec_Dns (ex_hdr 1 ++ ex_a 4) =
  DOk {| m_id := 1; m_flags := ex_flags; m_qd := []; m_an := [ex_rr_a]; m_ns := []; m_ar := [] |}
      {| d_rest := []; d_off := 29; d_len := 29; d_cost := 33 |}.
Proof. vm_compute. reflexivity. Qed.
(* RDLENGTH + 1: the window does not fit into the message *)
Example C09_ex_rdlength_plus1 : dec_Dns (ex_hdr 1 ++ ex_a 5) = DErr (ENotEnoughBytes, [29; 30]) 25.
Proof. vm_compute. reflexivity. Qed.
(* RDLENGTH + 1 with an octet following: the A reader consumes 4 of the 5 octets of its window *)
Example C09_ex_rdlength_plus1_more : dec_Dns (ex_hdr 1 ++ ex_a 5 ++ [7]) = DErr (ETooManyBytes, [5; 4]) 34.
Proof. vm_compute. reflexivity. Qed.
(* RDLENGTH - 1: the address needs 4 octets, the window has 3: the fourth octet is there, behind the
   window, and is not read *)
Example C09_ex_rdlength_minus1 : dec_Dns (ex_hdr 1 ++ ex_a 3) = DErr (ENotEnoughBytes, [3; 4]) 28.
Proof. vm_compute. reflexivity. Qed.
(* the same with a neighbouring record behind: a TXT string of 3 octets in a window of 3 would have
   to absorb the first octet of the next record *)
Example C09_ex_no_absorption :
  dec_Dns (ex_hdr 2 ++ [0; 0;16; 0;1; 0;0;0;0; 0;3; 3;65;66] ++ ex_a 4) = DErr (ENotEnoughBytes, [3; 4]) 27.
Proof. vm_compute. reflexivity. Qed.
Example C09_ex_two_records :
  dec_Dns (ex_hdr 2 ++ [0; 0;16; 0;1; 0;0;0;0; 0;4; 3;65;66;67] ++ ex_a 4) =
  DOk {| m_id := 1; m_flags := ex_flags; m_qd := [];
         m_an := [{| r_type := 16; r_name := []; r_class := 1; r_ttl := 0; r_data := RFields [VStrs [[65; 66; 67]]] |};
                  ex_rr_a];
         m_ns := []; m_ar := [] |}
      {| d_rest := []; d_off := 44; d_len := 44; d_cost := 52 |}.
Proof. vm_compute. reflexivity. Qed.
(* a trailing octet *)
Example C09_ex_trailing : dec_Dns (ex_hdr 1 ++ ex_a 4 ++ [7]) = DErr (ERemainingBytes, [29]) 33.
Proof. vm_compute. reflexivity. Qed.
(* answer count + 1 / - 1 *)
Example C09_ex_count_plus1 : dec_Dns (ex_hdr 2 ++ ex_a 4) = DErr (ENotEnoughBytes, [29; 30]) 33.
Proof. vm_compute. reflexivity. Qed.
Example C09_ex_count_minus1 : dec_Dns (ex_hdr 0 ++ ex_a 4) = DErr (ERemainingBytes, [12]) 12.
Proof. vm_compute. reflexivity. Qed.
(* EDNS option length: exact, one more, one less (OPT with a PADDING option of 4 octets) *)
Example C09_ex_option_exact : dec_RR [0;0;41;4;208;0;0;0;0;0;8; 0;12;0;4; 0;0;0;0] =
  DOk {| r_type := 41; r_name := []; r_class := 0; r_ttl := 0; r_data := ROpt 1232 0 0 false [OPadding 4] |}
      {| d_rest := []; d_off := 19; d_len := 19; d_cost := 31 |}.
Proof. vm_compute. reflexivity. Qed.
Example C09_ex_option_plus1 : dec_RR [0;0;41;4;208;0;0;0;0;0;8; 0;12;0;5; 0;0;0;0] = DErr (ENotEnoughBytes, [8; 9]) 23.
Proof. vm_compute. reflexivity. Qed.
Example C09_ex_option_minus1 : dec_RR [0;0;41;4;208;0;0;0;0;0;8; 0;12;0;3; 0;0;0;0] = DErr (ENotEnoughBytes, [8; 9]) 29.
Proof. vm_compute. reflexivity. Qed.
(* the record [ex_a 4] at offset 12 of one message and at offset 3 between other octets: same value *)
Example C09_ex_same_record_elsewhere :
  rr_ [] {| d_rest := ex_a 4 ++ [9;9]; d_off := 3; d_len := 22; d_cost := 0 |} =
  DOk ex_rr_a {| d_rest := [9;9]; d_off := 20; d_len := 22; d_cost := 21 |}.
Proof. vm_compute. reflexivity. Qed.
