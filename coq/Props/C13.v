(* C13 — domain-name text form, equality, hashing and limits are coherent. *)
From DNS Require Import Model.Values Model.Dec Model.Enc Spec.Names Proofs.C13 Proofs.NameLayer Proofs.C13enc.

(* the vocabulary of the statements below, spelled out *)
Theorem C13_defs :
  (forall a b : N, ascii_ci_eq a b <->
     a = b \/ (65 <= a /\ a <= 90 /\ b = a + 32) \/ (65 <= b /\ b <= 90 /\ a = b + 32)) /\
  (forall l : label, label_limits l <-> 1 <= lenN l /\ lenN l <= 63) /\
  (forall n : name, name_limits n <-> Forall label_limits n /\ wire_len n <= 255).
Proof.
  split; [|split]; intros; unfold ascii_ci_eq, label_limits, name_limits; apply iff_refl.
Qed.
Print Assumptions C13_defs.

(* == on names (PartialEq) holds exactly when the names have the same labels up to ASCII case *)
Theorem C13_eq_iff : forall a b : name,
  name_eqb a b = true <-> Forall2 (Forall2 ascii_ci_eq) a b.
Proof. exact name_eqb_iff. Qed.
Print Assumptions C13_eq_iff.

(* it is an equivalence relation (Eq is implemented, so this is a promise of the crate) *)
Theorem C13_eq_equiv :
  (forall a : name, name_eqb a a = true) /\
  (forall a b : name, name_eqb a b = true -> name_eqb b a = true) /\
  (forall a b c : name, name_eqb a b = true -> name_eqb b c = true -> name_eqb a c = true).
Proof. exact name_eqb_equiv. Qed.
Print Assumptions C13_eq_equiv.

(* equal names feed the hasher the same octets ... *)
Theorem C13_hash : forall a b : name, name_eqb a b = true -> hash_feed a = hash_feed b.
Proof. exact hash_feed_eq. Qed.
Print Assumptions C13_hash.

(* ... hence hash equally under every hasher *)
Theorem C13_hash_any_hasher : forall (H : list N -> N) (a b : name),
  name_eqb a b = true -> H (hash_feed a) = H (hash_feed b).
Proof. exact hash_any_hasher. Qed.
Print Assumptions C13_hash_any_hasher.

(* len() is the length of the printed form, for every name *)
Theorem C13_display_len : forall n : name, name_len n = lenN (name_display n).
Proof. exact display_len. Qed.
Print Assumptions C13_display_len.

(* parsing what Display printed gives back the same name, octet for octet, for every valid name
   whose labels contain no dot; the root included *)
Theorem C13_text_roundtrip : forall n : name,
  Forall (fun l => label_limits l /\ ~ In DOT l) n -> wire_len n <= 255 ->
  name_from_str (name_display n) = Ok n.
Proof. exact text_roundtrip. Qed.
Print Assumptions C13_text_roundtrip.

Theorem C13_text_roundtrip_root : name_from_str (name_display []) = Ok [].
Proof. exact text_roundtrip_root. Qed.
Print Assumptions C13_text_roundtrip_root.

(* Label construction accepts exactly 1..=63 octets *)
Theorem C13_limits_label : forall l : label, check_label l = Ok tt <-> label_limits l.
Proof. exact check_label_iff. Qed.
Print Assumptions C13_limits_label.

(* text parsing returns only names within the limits, and fails only with the three limit errors *)
Theorem C13_limits_from_str : forall (s : bytes) (n : name),
  name_from_str s = Ok n -> name_limits n.
Proof. exact from_str_sound. Qed.
Print Assumptions C13_limits_from_str.

Theorem C13_from_str_errors : forall s : bytes,
  match name_from_str s with
  | Ok _ => True
  | Err (ELabelEmpty, _) | Err (ELabelLength, _) | Err (EDomainNameLength, _) => True
  | _ => False
  end.
Proof. exact from_str_errors. Qed.
Print Assumptions C13_from_str_errors.

(* appending a valid label to a valid name succeeds exactly when the result is within 255 wire
   octets, the result is then a valid name, otherwise the error is DomainNameLength *)
Theorem C13_limits_append : forall (n : name) (l : label),
  name_limits n -> check_label l = Ok tt ->
  (append_label n l = Ok (n ++ [l]) <-> wire_len (n ++ [l]) <= 255) /\
  (wire_len (n ++ [l]) <= 255 -> name_limits (n ++ [l])) /\
  (255 < wire_len (n ++ [l]) ->
     append_label n l = Err (EDomainNameLength, [wire_len (n ++ [l]) - 1])).
Proof. exact append_label_limits. Qed.
Print Assumptions C13_limits_append.

(* the same, as the complete input/output behaviour of append_label (no hypotheses) *)
Theorem C13_append_spec : forall (n : name) (l : label),
  append_label n l =
    if wire_len (n ++ [l]) <=? 255 then Ok (n ++ [l])
    else Err (EDomainNameLength, [wire_len (n ++ [l]) - 1]).
Proof. exact append_label_spec. Qed.
Print Assumptions C13_append_spec.

(* every name within the limits is constructible: appending its labels to the root succeeds *)
Theorem C13_limits_complete : forall n : name, name_limits n -> append_all [] n = Ok n.
Proof. exact append_all_complete. Qed.
Print Assumptions C13_limits_complete.

(* wire decoding (Decoder::domain_name, compression included) returns only names within the limits *)
Theorem C13_limits_decode : forall (main : bytes) (s : dst) (n : name) (s' : dst),
  domain_name main s = DOk n s' -> name_limits n.
Proof. exact domain_name_limits. Qed.
Print Assumptions C13_limits_decode.

(* ---- non-vacuity ---- *)
Definition s_AbC : bytes := [65; 98; 67].
Definition s_aBc : bytes := [97; 66; 99].
Definition s_de : bytes := [100; 101].
Definition s_DE : bytes := [68; 69].
Definition s_example : bytes := [101; 120; 97; 109; 112; 108; 101].
Definition s_org : bytes := [111; 114; 103].

(* the encoder treats equal names as interchangeable compression targets and never changes a name's
   octets other than ASCII case: whatever the name writer emits for n (literal labels and/or a pointer
   to an earlier name) expands, in every buffer that agrees on the name octets, to labels that are
   pairwise ASCII-case-insensitively equal to those of n *)
Theorem C13_compress_case_only : forall s mask (n : name),
  InvM s mask -> name_ok n -> lenN (e_buf s) + name_wire_len n <= 65536 ->
  exists s' w,
    enc_domain_name n s = EOk tt s' /\ e_buf s' = e_buf s ++ w /\
    forall b', agree (mask ++ repeat true (length w)) (e_buf s') b' ->
      exists x, expand 16 b' (lenN (e_buf s)) = Some x /\
                Forall2 (Forall2 ascii_ci_eq) n (x_name x).
Proof. exact compress_case_only_proof. Qed.
Print Assumptions C13_compress_case_only.

Example C13_ex_eq : name_eqb [s_AbC; s_de] [s_aBc; s_DE] = true.
Proof. vm_compute. reflexivity. Qed.
Example C13_ex_hash : hash_feed [s_AbC; s_de] = hash_feed [s_aBc; s_DE].
Proof. vm_compute. reflexivity. Qed.
Example C13_ex_hash_value : hash_feed [s_AbC; s_de] = [2; 97; 98; 99; 255; 100; 101; 255].
Proof. vm_compute. reflexivity. Qed.
Example C13_ex_neq : name_eqb [s_AbC; s_de] [s_AbC; [100; 102]] = false.
Proof. vm_compute. reflexivity. Qed.
Example C13_ex_neq_len : name_eqb [s_AbC; s_de] [s_AbC] = false.
Proof. vm_compute. reflexivity. Qed.
(* '@' (64) and '`' (96), '[' (91) and '{' (123) differ by 32 but are not letters *)
Example C13_ex_neq_nonletter : name_eqb [[64; 91]] [[96; 123]] = false.
Proof. vm_compute. reflexivity. Qed.
(* the UTF-8 octets of A-umlaut / a-umlaut (C3 84 / C3 A4) are not folded *)
Example C13_ex_neq_nonascii : name_eqb [[195; 132]] [[195; 164]] = false.
Proof. vm_compute. reflexivity. Qed.

Example C13_ex_root : name_from_str [DOT] = Ok [].
Proof. vm_compute. reflexivity. Qed.
Example C13_ex_display : name_display [s_example; s_org] = s_example ++ [DOT] ++ s_org ++ [DOT].
Proof. vm_compute. reflexivity. Qed.
Example C13_ex_roundtrip : name_from_str (name_display [s_example; s_org]) = Ok [s_example; s_org].
Proof. vm_compute. reflexivity. Qed.
Example C13_ex_relative : name_from_str (s_example ++ [DOT] ++ s_org) = Ok [s_example; s_org].
Proof. vm_compute. reflexivity. Qed.
Example C13_ex_len : name_len [s_example; s_org] = 12 /\ name_len [] = 1.
Proof. vm_compute. split; reflexivity. Qed.
Example C13_ex_empty : name_from_str [] = Err (ELabelEmpty, []).
Proof. vm_compute. reflexivity. Qed.
Example C13_ex_double_dot : name_from_str [97; DOT; DOT; 98] = Err (ELabelEmpty, []).
Proof. vm_compute. reflexivity. Qed.
(* the dot-free hypothesis of the round trip is necessary: the one-label name "a.b" prints as
   "a.b." and parses back as two labels *)
Example C13_ex_dot_label :
  check_label [97; DOT; 98] = Ok tt /\
  name_from_str (name_display [[97; DOT; 98]]) = Ok [[97]; [98]].
Proof. vm_compute. split; reflexivity. Qed.

Definition lab (k : nat) : label := repeat 97 k.
Example C13_ex_label_63 : check_label (lab 63) = Ok tt.
Proof. vm_compute. reflexivity. Qed.
Example C13_ex_label_64 : check_label (lab 64) = Err (ELabelLength, [64]).
Proof. vm_compute. reflexivity. Qed.
Example C13_ex_label_0 : check_label [] = Err (ELabelEmpty, []).
Proof. vm_compute. reflexivity. Qed.

(* three labels of 63 octets: 193 wire octets; a fourth label of 61 octets gives exactly 255 and is
   accepted, one of 62 octets gives 256 and is rejected *)
Definition n193 : name := [lab 63; lab 63; lab 63].
Example C13_ex_wire_193 : wire_len n193 = 193 /\ wire_len (n193 ++ [lab 61]) = 255
                          /\ wire_len (n193 ++ [lab 62]) = 256.
Proof. vm_compute. repeat split; reflexivity. Qed.
Example C13_ex_append_255 : append_label n193 (lab 61) = Ok (n193 ++ [lab 61]).
Proof. vm_compute. reflexivity. Qed.
Example C13_ex_append_256 : append_label n193 (lab 62) = Err (EDomainNameLength, [255]).
Proof. vm_compute. reflexivity. Qed.
Example C13_ex_from_str_255 :
  name_from_str (name_display (n193 ++ [lab 61])) = Ok (n193 ++ [lab 61]).
Proof. vm_compute. reflexivity. Qed.
Example C13_ex_from_str_256 :
  name_from_str (name_display (n193 ++ [lab 62])) = Err (EDomainNameLength, [255]).
Proof. vm_compute. reflexivity. Qed.
(* the wire decoder at the same boundary: 3x63 + 61 accepted, 3x63 + 62 rejected *)
Definition wire (n : name) : bytes := concat (map (fun l => lenN l :: l) n) ++ [0].
Example C13_ex_decode_255 :
  match dec_DomainName (wire (n193 ++ [lab 61])) with
  | DOk n _ => n = n193 ++ [lab 61]
  | _ => False
  end.
Proof. vm_compute. reflexivity. Qed.
Example C13_ex_decode_256 :
  match dec_DomainName (wire (n193 ++ [lab 62])) with
  | DErr (EDomainNameLength, [255]) _ => True
  | _ => False
  end.
Proof. vm_compute. exact I. Qed.
