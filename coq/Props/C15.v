(* C15 — the EDNS OPT pseudo-record and its options map exactly to RFC 6891 / 7830 / 7871 / 7873. *)
From DNS Require Import Model.Values Model.Dec Model.Enc Proofs.DecBase Proofs.C12
  Proofs.OptBase Proofs.OptTtl Proofs.OptDec Proofs.OptRt Proofs.C15 Proofs.OptRecord.
Local Open Scope N_scope.

(* RFC 6891 6.1.3: the TTL word is  EXTENDED-RCODE(8) | VERSION(8) | DO(1) | Z(15).  The decoder
   accepts a 32-bit word exactly when the fifteen Z bits are clear, and then returns these three fields;
   every other word is refused with OPTZero.  The encoder builds exactly this word; decode after encode
   and encode after decode are the identity. *)
Theorem C15_opt_ttl :
  (forall ttl s, ttl < 4294967296 ->
     N.land ttl 32767 = ttl mod 32768 /\
     (ttl mod 32768 = 0 ->
        rr_opt_ttl ttl s = DOk (ttl / 16777216, ttl / 65536 mod 256, N.testbit ttl 15) s) /\
     (ttl mod 32768 <> 0 ->
        exists v, v <> 0 /\ v < 256 /\ rr_opt_ttl ttl s = DErr (EOPTZero, [v]) (d_cost s)) /\
     ((exists r s', rr_opt_ttl ttl s = DOk r s') <-> ttl mod 32768 = 0)) /\
  (forall ext ver dnssec, ext < 256 -> ver < 256 ->
     enc_opt_ttl ext ver dnssec = ext * 16777216 + ver * 65536 + (if dnssec then 32768 else 0) /\
     enc_opt_ttl ext ver dnssec < 4294967296 /\
     forall s, rr_opt_ttl (enc_opt_ttl ext ver dnssec) s = DOk (ext, ver, dnssec) s) /\
  (forall ttl, ttl < 4294967296 -> ttl mod 32768 = 0 ->
     ttl / 16777216 < 256 /\ ttl / 65536 mod 256 < 256 /\
     enc_opt_ttl (ttl / 16777216) (ttl / 65536 mod 256) (N.testbit ttl 15) = ttl).
Proof. exact opt_ttl_spec. Qed.
Print Assumptions C15_opt_ttl.

(* RFC 6891 6.1.2: the owner must be the root; the CLASS word is the requestor's payload size,
   unchanged; the record carries no class and no TTL of its own; the three fields come from the TTL *)
Theorem C15_opt_owner_payload :
  (forall (l : label) (n : name) (hclass ttl : N) (s : dst),
     rr_opt (l :: n) hclass ttl s = DErr (EOPTDomainName, []) (d_cost s)) /\
  (forall (owner : name) (hclass ttl : N) (s : dst) (d : rdata) (s' : dst),
     rr_opt owner hclass ttl s = DOk d s' ->
     owner = [] /\
     exists ext ver dnssec opts s1,
       rr_opt_ttl ttl s = DOk (ext, ver, dnssec) s1 /\ d = ROpt hclass ext ver dnssec opts) /\
  (forall (main : bytes) (owner : name) (hclass ttl : N) (s : dst) (r : rr) (s' : dst),
     rr_body main 41 owner hclass ttl s = DOk r s' ->
     owner = [] /\ r_type r = 41 /\ r_name r = [] /\ r_class r = 0 /\ r_ttl r = 0 /\
     rr_get_ttl r = None /\ rr_get_class r = None /\
     exists ext ver dnssec opts s1,
       rr_opt_ttl ttl s = DOk (ext, ver, dnssec) s1 /\ r_data r = ROpt hclass ext ver dnssec opts).
Proof. exact opt_owner_payload_proof. Qed.
Print Assumptions C15_opt_owner_payload.

(* RFC 7873: on an option body of n octets the cookie reader succeeds exactly for n = 8 (client cookie
   only) and 16 <= n <= 40 (client cookie + server cookie of 8..=32 octets); every other length is
   CookieLength(n); no input makes it panic.  Cookie::new accepts exactly 8..=32 server octets.
   [drained s]: cursor at the end of the window. *)
Theorem C15_cookie_accept :
  (forall s : dst, d_off s <= d_len s ->
     let v := d_rest s in
     let n := lenN v in
     (dst_wf s -> n = d_len s - d_off s) /\
     (n = 8 ->
        rr_edns_cookie s = DOk {| c_client := takeN 8 v; c_server := None |} (drained s)) /\
     (16 <= n <= 40 ->
        rr_edns_cookie s = DOk {| c_client := takeN 8 v; c_server := Some (dropN 8 v) |} (drained s) /\
        lenN (takeN 8 v) = 8 /\ lenN (dropN 8 v) = n - 8 /\ takeN 8 v ++ dropN 8 v = v) /\
     (n <> 8 -> ~ 16 <= n <= 40 ->
        rr_edns_cookie s = DErr (ECookieLength, [n]) (d_cost (drained s)))) /\
  (forall s : dst, (forall x, rr_edns_cookie s <> DPanic x) /\ rr_edns_cookie s <> DFuel) /\
  (forall c sv : bytes,
     (8 <= lenN sv <= 32 -> cookie_new c (Some sv) = Ok {| c_client := c; c_server := Some sv |}) /\
     (~ 8 <= lenN sv <= 32 -> cookie_new c (Some sv) = Err (EServerCookieLength, [lenN sv]))) /\
  (forall c : bytes, cookie_new c None = Ok {| c_client := c; c_server := None |}).
Proof. exact cookie_accept_proof. Qed.
Print Assumptions C15_cookie_accept.

(* RFC 7830: a padding body of any length below 2^16 (an option length is a 16-bit word), zero
   included, is accepted exactly when every octet is zero, and the value is the length; otherwise
   PaddingZero(first non-zero octet) *)
Theorem C15_padding_accept :
  forall s : dst, d_off s <= d_len s ->
    let p := d_rest s in
    let n := lenN p in
    (n < 65536 -> Forall (fun b => b = 0) p -> rr_edns_padding s = DOk n (drained s)) /\
    (n < 65536 -> forall k b tl, p = zeros k ++ b :: tl -> b <> 0 ->
       rr_edns_padding s = DErr (EPaddingZero, [b]) (d_cost (drained s))) /\
    (65536 <= n -> rr_edns_padding s = DErr (EPaddingLength, [n]) (d_cost (drained s))) /\
    (n < 65536 -> forall v s', rr_edns_padding s = DOk v s' <->
       (Forall (fun b => b = 0) p /\ v = n /\ s' = drained s)) /\
    (Forall (fun b => b = 0) p \/ exists k b tl, p = zeros k ++ b :: tl /\ b <> 0).
Proof. exact padding_accept_proof. Qed.
Print Assumptions C15_padding_accept.

(* RFC 7871: FAMILY(16) SOURCE(8) SCOPE(8) ADDRESS.  Accepted exactly when the family is 1 or 2, the
   address has at most 4 / 16 octets, and the address zero-filled to that size has no bit set at or
   beyond max(source, scope) (prefix_ok, Proofs/C12.v); the result carries the zero-filled address *)
Theorem C15_ecs_accept :
  forall (s : dst) (fh fl src scope : N) (al : bytes),
    dst_wf s -> d_rest s = fh :: fl :: src :: scope :: al ->
    let fam := fh * 256 + fl in
    let a := zero_fill fam al in
    let p := N.max src scope in
    (fam <> 1 -> fam <> 2 -> rr_edns_ecs s = DErr (EEcsAddressNumber, [fam]) (d_cost s + 2)) /\
    (fam = 1 -> 4 < lenN al ->
       rr_edns_ecs s = DErr (EEcsTooBigIpv4Address, [lenN al]) (d_cost (drained s))) /\
    (fam = 2 -> 16 < lenN al ->
       rr_edns_ecs s = DErr (EEcsTooBigIpv6Address, [lenN al]) (d_cost (drained s))) /\
    (fam = 1 \/ fam = 2 -> lenN al <= fam_size fam -> prefix_ok a p ->
       rr_edns_ecs s = DOk {| e_src := src; e_scope := scope; e_addr := a |} (drained s)) /\
    (fam = 1 \/ fam = 2 -> lenN al <= fam_size fam -> ~ prefix_ok a p ->
       exists e, rr_edns_ecs s = DErr e (d_cost (drained s))).
Proof. exact ecs_accept. Qed.
Print Assumptions C15_ecs_accept.

(* the wire form of an option: OPTION-CODE(16) OPTION-LENGTH(16) OPTION-DATA *)
Theorem C15_wire_form :
  (forall e : ecs,
     opt_wire (OEcs e) =
     let body := u16b (a_fam (e_addr e)) ++ u8b (e_src e) ++ u8b (e_scope e) ++
                 takeN (N.max (addr_significant (a_oct (e_addr e))) ((e_src e + 7) / 8)) (a_oct (e_addr e)) in
     u16b 8 ++ u16b (lenN body) ++ body) /\
  (forall c : cookie,
     opt_wire (OCookie c) =
     let body := c_client c ++ match c_server c with Some sv => sv | None => [] end in
     u16b 10 ++ u16b (lenN body) ++ body) /\
  (forall n : N, n < 65536 -> opt_wire (OPadding n) = u16b 12 ++ u16b n ++ zeros (N.to_nat n)) /\
  (forall o : ednsopt, opt_valid o -> lenN (opt_wire o) < 65540 /\ bytes_ok (opt_wire o)).
Proof. exact opt_wire_form. Qed.
Print Assumptions C15_wire_form.

(* every option value the Rust types can hold (opt_valid: ecs_inv with u8 prefixes; 8-octet client
   cookie and no or 8..=32 server octets; u16 padding size) is written as its wire form from ANY
   encoder state, leaving the compression index and the name log alone; and that wire form, followed
   by anything, decodes to the same option with the cursor advanced by exactly its length *)
Theorem C15_emit_roundtrip :
  forall o : ednsopt, opt_valid o ->
    (forall st : est,
       enc_edns_option o st =
       EOk tt {| e_buf := e_buf st ++ opt_wire o; e_idx := e_idx st; e_names := e_names st |}) /\
    (forall (s : dst) (rest : bytes), dst_wf s -> d_rest s = opt_wire o ++ rest ->
       rr_edns_option s =
       DOk o {| d_rest := rest; d_off := d_off s + lenN (opt_wire o); d_len := d_len s;
                d_cost := d_cost s + lenN (opt_wire o) + (lenN (opt_wire o) - 4) |}) /\
    (forall (rest : bytes) (k c : N), bytes_ok rest -> k + lenN (opt_wire o) + lenN rest < WFMAX ->
       rr_edns_option {| d_rest := opt_wire o ++ rest; d_off := k;
                         d_len := k + lenN (opt_wire o) + lenN rest; d_cost := c |} =
       DOk o {| d_rest := rest; d_off := k + lenN (opt_wire o);
                d_len := k + lenN (opt_wire o) + lenN rest;
                d_cost := c + lenN (opt_wire o) + (lenN (opt_wire o) - 4) |}).
Proof. exact emit_roundtrip_proof. Qed.
Print Assumptions C15_emit_roundtrip.

(* the OPT RDATA: RDLENGTH slot + options on the way out; TTL word + option loop on the way in *)
Theorem C15_opt_record_roundtrip :
  forall (hclass ext ver : N) (dnssec : bool) (opts : list ednsopt),
    ext < 256 -> ver < 256 -> Forall opt_valid opts -> lenN (opts_wire opts) < 65536 ->
    (forall st : est,
       (li <-- create_length_index ;; _ <-- emap enc_edns_option opts ;; set_length_index li) st =
       EOk tt {| e_buf := e_buf st ++ u16b (lenN (opts_wire opts)) ++ opts_wire opts;
                 e_idx := e_idx st; e_names := e_names st |}) /\
    (forall k : N, exists c,
       rr_opt [] hclass (enc_opt_ttl ext ver dnssec)
              {| d_rest := opts_wire opts; d_off := 0; d_len := lenN (opts_wire opts); d_cost := k |} =
       DOk (ROpt hclass ext ver dnssec opts)
           {| d_rest := []; d_off := lenN (opts_wire opts); d_len := lenN (opts_wire opts); d_cost := c |}).
Proof. exact opt_record_roundtrip_proof. Qed.
Print Assumptions C15_opt_record_roundtrip.

(* the whole pseudo-record through Encoder::rr / Decoder::rr: root owner (one zero octet), TYPE 41,
   CLASS = payload size, TTL = RFC 6891 word, RDLENGTH, options.  The writer ignores the name, class
   and ttl members of the value (an OPT record has none); the reader returns them as root, 0, 0. *)
Theorem C15_opt_rr_roundtrip :
  forall (payload ext ver : N) (dnssec : bool) (opts : list ednsopt),
    payload < 65536 -> ext < 256 -> ver < 256 -> Forall opt_valid opts -> lenN (opts_wire opts) < 65536 ->
    let w := [0] ++ u16b 41 ++ u16b payload ++
             u32b (ext * 16777216 + ver * 65536 + (if dnssec then 32768 else 0)) ++
             u16b (lenN (opts_wire opts)) ++ opts_wire opts in
    let r := {| r_type := 41; r_name := []; r_class := 0; r_ttl := 0;
                r_data := ROpt payload ext ver dnssec opts |} in
    (forall (nm : name) (cl t : N) (st : est),
       enc_rr {| r_type := 41; r_name := nm; r_class := cl; r_ttl := t;
                 r_data := ROpt payload ext ver dnssec opts |} st =
       EOk tt {| e_buf := e_buf st ++ w; e_idx := e_idx st;
                 e_names := (lenN (e_buf st), []) :: e_names st |}) /\
    (forall (main : bytes) (s : dst) (rest : bytes), dst_wf s -> d_rest s = w ++ rest ->
       exists c, rr_ main s =
                 DOk r {| d_rest := rest; d_off := d_off s + lenN w; d_len := d_len s; d_cost := c |}).
Proof. exact opt_rr_roundtrip_proof. Qed.
Print Assumptions C15_opt_rr_roundtrip.

(* ---- non-vacuity ---- *)

(* a 40-octet cookie is accepted (8 + 32), 41 octets are refused; 8 accepted, 15 refused *)
Example C15_cookie_example :
  rr_edns_cookie (mk_main (repeat 7 40)) =
    DOk {| c_client := repeat 7 8; c_server := Some (repeat 7 32) |}
        {| d_rest := []; d_off := 40; d_len := 40; d_cost := 40 |} /\
  rr_edns_cookie (mk_main (repeat 7 41)) = DErr (ECookieLength, [41]) 41 /\
  rr_edns_cookie (mk_main (repeat 7 8)) =
    DOk {| c_client := repeat 7 8; c_server := None |} {| d_rest := []; d_off := 8; d_len := 8; d_cost := 8 |} /\
  rr_edns_cookie (mk_main (repeat 7 15)) = DErr (ECookieLength, [15]) 15.
Proof. vm_compute. repeat split. Qed.

(* Padding(0): four octets out, the same option back *)
Example C15_padding_zero_example :
  enc_edns_option (OPadding 0) e_init = EOk tt {| e_buf := [0; 12; 0; 0]; e_idx := []; e_names := [] |} /\
  rr_edns_option (mk_main [0; 12; 0; 0]) =
    DOk (OPadding 0) {| d_rest := []; d_off := 4; d_len := 4; d_cost := 4 |} /\
  rr_edns_option (mk_main [0; 12; 0; 2; 0; 1]) = DErr (EPaddingZero, [1]) 8.
Proof. vm_compute. repeat split. Qed.

(* Known finding KF2, repaired for this case: 192.0.2.0/24 is written with the THREE address octets that
   hold the 24 prefix bits (RFC 7871 section 6); the four-octet form still decodes to the same value.
   What remains of KF2 (see C17): an address with a non-zero octet beyond ceil(source/8) — possible only
   with scope > source — is written up to that octet: 10.1.0.0 source 8 scope 24 with two octets. *)
Example C15_known_ecs_octet_count :
  let e := {| e_src := 24; e_scope := 0; e_addr := {| a_fam := 1; a_oct := [192; 0; 2; 0] |} |} in
  let e2 := {| e_src := 8; e_scope := 24; e_addr := {| a_fam := 1; a_oct := [10; 1; 0; 0] |} |} in
  enc_edns_option (OEcs e) e_init =
    EOk tt {| e_buf := [0; 8; 0; 7; 0; 1; 24; 0; 192; 0; 2]; e_idx := []; e_names := [] |} /\
  rr_edns_option (mk_main [0; 8; 0; 7; 0; 1; 24; 0; 192; 0; 2]) =
    DOk (OEcs e) {| d_rest := []; d_off := 11; d_len := 11; d_cost := 18 |} /\
  rr_edns_option (mk_main [0; 8; 0; 8; 0; 1; 24; 0; 192; 0; 2; 0]) =
    DOk (OEcs e) {| d_rest := []; d_off := 12; d_len := 12; d_cost := 20 |} /\
  enc_edns_option (OEcs e2) e_init =
    EOk tt {| e_buf := [0; 8; 0; 6; 0; 1; 8; 24; 10; 1]; e_idx := []; e_names := [] |} /\
  rr_edns_option (mk_main [0; 8; 0; 6; 0; 1; 8; 24; 10; 1]) =
    DOk (OEcs e2) {| d_rest := []; d_off := 10; d_len := 10; d_cost := 16 |}.
Proof. vm_compute. repeat split. Qed.

(* TTL word 0x00008000: DO set; 0x00000001: a reserved bit, refused *)
Example C15_ttl_example :
  rr_opt_ttl 32768 (mk_main []) = DOk (0, 0, true) (mk_main []) /\
  rr_opt_ttl 1 (mk_main []) = DErr (EOPTZero, [1]) 0 /\
  rr_opt_ttl 16384 (mk_main []) = DErr (EOPTZero, [64]) 0 /\
  enc_opt_ttl 1 0 true = 16809984.
Proof. vm_compute. repeat split. Qed.

(* a whole OPT record through the public entry points *)
Example C15_record_example :
  let r := {| r_type := 41; r_name := []; r_class := 0; r_ttl := 0;
              r_data := ROpt 1232 0 0 true
                [OCookie {| c_client := [1; 2; 3; 4; 5; 6; 7; 8]; c_server := None |}; OPadding 3;
                 OEcs {| e_src := 24; e_scope := 0; e_addr := {| a_fam := 1; a_oct := [192; 0; 2; 0] |} |}] |} in
  enc_RR r = Ok [0; 0; 41; 4; 208; 0; 0; 128; 0; 0; 30; 0; 10; 0; 8; 1; 2; 3; 4; 5; 6; 7; 8;
                 0; 12; 0; 3; 0; 0; 0; 0; 8; 0; 7; 0; 1; 24; 0; 192; 0; 2] /\
  (exists s, dec_RR [0; 0; 41; 4; 208; 0; 0; 128; 0; 0; 30; 0; 10; 0; 8; 1; 2; 3; 4; 5; 6; 7; 8;
                     0; 12; 0; 3; 0; 0; 0; 0; 8; 0; 7; 0; 1; 24; 0; 192; 0; 2] = DOk r s) /\
  (* a non-root owner is refused *)
  dec_RR [1; 97; 0; 0; 41; 4; 208; 0; 0; 0; 0; 0; 0] = DErr (EOPTDomainName, []) 13.
Proof.
  cbv zeta. split; [vm_compute; reflexivity|]. split; [eexists; vm_compute; reflexivity|].
  vm_compute. reflexivity.
Qed.
