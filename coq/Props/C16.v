(* C16 — SVCB/HTTPS records follow the RFC 9460 wire rules. *)
From Coq Require Import Sorted Permutation.
From DNS Require Import Model.Dec Model.Enc Proofs.DecBase Proofs.NameLoop Proofs.SvcbSet Proofs.SvcbEnc
                        Proofs.SvcbDec Proofs.SvcbRound Proofs.SvcbReject Proofs.C16.
Local Open Scope N_scope.

(* Vocabulary (Proofs/SvcbSet.v, SvcbEnc.v, SvcbDec.v, SvcbRound.v):
   keys_sorted ps    StronglySorted (fun a b => param_key a < param_key b) ps: strictly increasing keys
   set_of l          the set built from [] by inserting the elements of l with set_insert
   value_bytes p     the registered wire format of the value of p (mandatory: the SORTED key list)
   param_wire p      u16b (param_key p) ++ u16b (lenN (value_bytes p)) ++ value_bytes p
   param_err p       Some error exactly when the value of p does not fit: an alpn id above 255 octets
                     (String), an ech list above 65535 octets or a value above 65535 octets (Length)
   params_err ps     the param_err of the first parameter of ps that has one
   param_fits p      alpn ids <= 255 octets, ech <= 65535 octets, lenN (value_bytes p) <= 65535
   with_buf s b      the encoder state s with its buffer replaced by b
   param_valid p     the values of the Rust types within the format limits: mandatory keys, port,
                     private number are 16-bit (private number 7..65534), IPv4 hints 32-bit, IPv6
                     hints 16 octets < 256, alpn ids valid UTF-8 of at most 255 octets, ech <= 65535
   norm p            p with a mandatory key list sorted (what the wire carries)
   wst s             a consistent decoder state: lenN (d_rest s) + d_off s = d_len s, d_len s < 2^62
   mkst r o l c      the decoder state with rest r, offset o, window length l, cost counter c
   win b c           the fresh child window over b that with_sub opens: mkst b 0 (lenN b) c
   sub_run m         what with_sub runs in the child window: a <- m ;; _ <- finished ;; ret a
   reads m w r a     from every wst state whose rest is w ++ r, m returns a and leaves exactly r:
                     m s = DOk a (mkst r (d_off s + lenN w) (d_len s) c) for some counter c *)

(* ================= 1. the parameter set is strictly sorted by key ================= *)
Theorem C16_set_insert_sorted : forall (p : svcparam) (s : list svcparam),
  keys_sorted s -> keys_sorted (fst (set_insert p s)).
Proof. exact C16_set_insert_sorted_proof. Qed.
Print Assumptions C16_set_insert_sorted.

Theorem C16_set_insert_duplicate : forall (p : svcparam) (s : list svcparam),
  keys_sorted s ->
  (snd (set_insert p s) = false <-> exists q, In q s /\ param_key q = param_key p) /\
  (snd (set_insert p s) = false -> fst (set_insert p s) = s) /\
  (snd (set_insert p s) = true -> Permutation (p :: s) (fst (set_insert p s))).
Proof. exact C16_set_insert_duplicate_proof. Qed.
Print Assumptions C16_set_insert_duplicate.

Theorem C16_set_built_sorted : forall l : list svcparam,
  keys_sorted (set_of l) /\
  StronglySorted N.lt (map param_key (set_of l)) /\
  NoDup (map param_key (set_of l)).
Proof. exact C16_set_built_sorted_proof. Qed.
Print Assumptions C16_set_built_sorted.

(* every record the decoder returns carries a strictly sorted set, empty in alias form *)
Theorem C16_decoded_sorted : forall (main : bytes) (hclass : N) (s : dst) (prio : N) (t : name)
                                    (ps : list svcparam) (s' : dst),
  rr_service_binding main hclass s = DOk (RSvcb prio t ps) s' ->
  keys_sorted ps /\ (prio = 0 -> ps = []).
Proof. exact C16_decoded_sorted_proof. Qed.
Print Assumptions C16_decoded_sorted.

(* ================= 2. emission ================= *)
(* the write trace of the parameter loop, from ANY encoder state *)
Theorem C16_emit_trace : forall (ps : list svcparam) (s : est),
  emap enc_service_parameter ps s =
  match params_err ps with
  | Some e => EErr e
  | None => EOk tt (with_buf s (e_buf s ++ concat (map param_wire ps)))
  end.
Proof. exact C16_emit_trace_proof. Qed.
Print Assumptions C16_emit_trace.

Theorem C16_emit_param_trace : forall (p : svcparam) (s : est),
  enc_service_parameter p s =
  match param_err p with
  | Some e => EErr e
  | None => EOk tt (with_buf s (e_buf s ++ param_wire p))
  end.
Proof. exact C16_emit_param_trace_proof. Qed.
Print Assumptions C16_emit_param_trace.

(* it fails exactly when a value is too long, with Length or String naming the length; it never
   panics *)
Theorem C16_emit_fails_iff : forall (ps : list svcparam) (s : est),
  ((exists s', emap enc_service_parameter ps s = EOk tt s') <-> Forall param_fits ps) /\
  (forall e, emap enc_service_parameter ps s = EErr e ->
     exists p, In p ps /\ ~ param_fits p /\
       ((e = (XLength, [lenN (value_bytes p)]) /\ 65535 < lenN (value_bytes p)) \/
        (exists cl, p = PEch cl /\ e = (XLength, [lenN cl]) /\ 65535 < lenN cl) \/
        (exists ids b, p = PAlpn ids /\ In b ids /\ e = (XString, [lenN b]) /\ 255 < lenN b))) /\
  (forall x, emap enc_service_parameter ps s <> EPanic x) /\
  emap enc_service_parameter ps s <> EIllTyped.
Proof. exact C16_emit_fails_iff_proof. Qed.
Print Assumptions C16_emit_fails_iff.

(* the emitted keys are strictly increasing, hence without duplicates *)
Theorem C16_emit_sorted : forall (ps : list svcparam) (s s' : est),
  keys_sorted ps -> emap enc_service_parameter ps s = EOk tt s' ->
  e_buf s' = e_buf s ++ concat (map param_wire ps) /\
  (forall p, In p ps -> param_wire p = u16b (param_key p) ++ u16b (lenN (value_bytes p)) ++ value_bytes p) /\
  StronglySorted N.lt (map param_key ps) /\ NoDup (map param_key ps).
Proof. exact C16_emit_sorted_proof. Qed.
Print Assumptions C16_emit_sorted.

Theorem C16_emit_mandatory_sorted : forall l : list N,
  value_bytes (PMandatory l) = concat (map u16b (sort_keys l)) /\
  Sorted N.le (sort_keys l) /\ Permutation l (sort_keys l).
Proof. exact C16_emit_mandatory_sorted_proof. Qed.
Print Assumptions C16_emit_mandatory_sorted.

Theorem C16_emit_ech_prefixed : forall (cl : bytes) (s s' : est),
  enc_service_parameter (PEch cl) s = EOk tt s' ->
  e_buf s' = e_buf s ++ u16b 5 ++ u16b (2 + lenN cl) ++ u16b (lenN cl) ++ cl /\ lenN cl <= 65533.
Proof. exact C16_emit_ech_prefixed_proof. Qed.
Print Assumptions C16_emit_ech_prefixed.

(* alias form: after the target name nothing is written, whatever the parameter set holds *)
Theorem C16_emit_alias_no_params : forall (r : rr) (target : name) (params : list svcparam),
  r_type r = 64 \/ r_type r = 65 -> r_data r = RSvcb 0 target params ->
  enc_rr r =
  (_ <-- enc_domain_name (r_name r) ;;
   _ <-- eu16 (r_type r) ;;
   _ <-- eu16 CLASS_IN ;;
   _ <-- eu32 (r_ttl r) ;;
   li <-- create_length_index ;;
   _ <-- eu16 0 ;;
   _ <-- enc_domain_name target ;;
   _ <-- eret tt ;;
   set_length_index li).
Proof. exact C16_emit_alias_no_params_proof. Qed.
Print Assumptions C16_emit_alias_no_params.

(* ================= 3. every kind is read from its registered format, value intact ================= *)
Theorem C16_param_roundtrip : forall p : svcparam, param_valid p ->
  reads (rr_service_parameter (param_key p)) (value_bytes p) [] (norm p).
Proof. exact C16_param_roundtrip_proof. Qed.
Print Assumptions C16_param_roundtrip.

Theorem C16_param_wire_roundtrip : forall (p : svcparam) (r : bytes),
  param_valid p -> lenN (value_bytes p) <= 65535 ->
  reads (key <- u16 ;; len <- u16 ;; with_sub len (rr_service_parameter key)) (param_wire p) r (norm p).
Proof. exact C16_param_wire_roundtrip_proof. Qed.
Print Assumptions C16_param_wire_roundtrip.

(* the emitted octets of a strictly sorted list decode to the same list, with the fuel the record
   reader computes (one more than the octets that remain); WFMAX = 2^62 *)
Theorem C16_list_roundtrip : forall (ps : list svcparam) (es es' : est),
  keys_sorted ps -> Forall param_valid ps ->
  emap enc_service_parameter ps es = EOk tt es' ->
  exists w : bytes,
    e_buf es' = e_buf es ++ w /\
    (lenN w < WFMAX -> forall c : N, exists c' : N,
       (fuel <- loop_fuel ;; svc_params fuel []) (win w c) =
       DOk (map norm ps) (mkst [] (lenN w) (lenN w) c')).
Proof. exact C16_list_roundtrip_proof. Qed.
Print Assumptions C16_list_roundtrip.

Theorem C16_norm_stable : forall p : svcparam,
  norm (norm p) = norm p /\ param_wire (norm p) = param_wire p /\ param_key (norm p) = param_key p.
Proof. exact C16_norm_stable_proof. Qed.
Print Assumptions C16_norm_stable.

(* KF6 (known finding): the PRIVATE variant accepts a registered number; such a value is
   written under that number and read back as the registered kind *)
Example C16_known_private_registered_key :
  let p := PPrivate 3 [1; 187] in
  param_wire p = [0; 3; 0; 2; 1; 187] /\
  param_reader (win (param_wire p) 0) = DOk (PPort 443) (mkst [] 6 6 8) /\
  PPort 443 <> norm p.
Proof. exact private_registered_counterexample. Qed.
Print Assumptions C16_known_private_registered_key.

(* ================= 4. rejections ================= *)
Theorem C16_reject_duplicate :
  forall (f : nat) (acc : list svcparam) (s s1 s2 s3 : dst) (key len : N) (p : svcparam),
  keys_sorted acc ->
  is_finished s = DOk false s -> u16 s = DOk key s1 -> u16 s1 = DOk len s2 ->
  with_sub len (rr_service_parameter key) s2 = DOk p s3 ->
  (exists q, In q acc /\ param_key q = key) ->
  svc_params (S f) acc s = DErr (ESVCBDuplicateKey, [key]) (d_cost s3).
Proof. exact C16_reject_duplicate_proof. Qed.
Print Assumptions C16_reject_duplicate.

Theorem C16_reject_duplicate_wire :
  forall (ps : list svcparam) (p : svcparam) (r : bytes) (fuel : nat) (s : dst),
  Forall param_ok ps -> keys_sorted ps -> param_ok p ->
  (exists q, In q ps /\ param_key q = param_key p) ->
  wst s -> d_rest s = concat (map param_wire (ps ++ [p])) ++ r -> (length ps < fuel)%nat ->
  exists c : N, svc_params fuel [] s = DErr (ESVCBDuplicateKey, [param_key p]) c.
Proof. exact C16_reject_duplicate_wire_proof. Qed.
Print Assumptions C16_reject_duplicate_wire.

Theorem C16_reject_port_length : forall (n : N) (s : dst),
  wst s -> n <= lenN (d_rest s) -> n <> 2 ->
  exists e c, with_sub n (rr_service_parameter 3) s = DErr e c /\
    ((n < 2 /\ e = (ENotEnoughBytes, [n; 2])) \/ (2 < n /\ e = (ETooManyBytes, [n; 2]))).
Proof. exact C16_reject_port_length_proof. Qed.
Print Assumptions C16_reject_port_length.

Theorem C16_reject_hint_length : forall (n : N) (s : dst),
  wst s -> n <= lenN (d_rest s) ->
  (n mod 4 <> 0 -> exists e c, with_sub n (rr_service_parameter 4) s = DErr e c /\ fst e = ENotEnoughBytes) /\
  (n mod 16 <> 0 -> exists e c, with_sub n (rr_service_parameter 6) s = DErr e c /\ fst e = ENotEnoughBytes) /\
  (n mod 2 <> 0 -> exists e c, with_sub n (rr_service_parameter 0) s = DErr e c /\ fst e = ENotEnoughBytes).
Proof. exact C16_reject_hint_length_proof. Qed.
Print Assumptions C16_reject_hint_length.

Theorem C16_reject_flag_value : forall (n : N) (s : dst),
  wst s -> n <= lenN (d_rest s) -> n <> 0 ->
  (exists c, with_sub n (rr_service_parameter 2) s = DErr (ETooManyBytes, [n; 0]) c) /\
  (exists c, with_sub n (rr_service_parameter 65535) s = DErr (ETooManyBytes, [n; 0]) c).
Proof. exact C16_reject_flag_value_proof. Qed.
Print Assumptions C16_reject_flag_value.

Theorem C16_reject_ech_length : forall (b : bytes) (c : N),
  lenN b < WFMAX ->
  (lenN b < 2 -> sub_run (rr_service_parameter 5) (win b c) = DErr (ENotEnoughBytes, [lenN b; 2]) c) /\
  (2 <= lenN b -> be (takeN 2 b) <> lenN b - 2 ->
     exists c', sub_run (rr_service_parameter 5) (win b c) =
                DErr (EECHLengthMismatch, [be (takeN 2 b); lenN b - 2]) c').
Proof. exact C16_reject_ech_length_proof. Qed.
Print Assumptions C16_reject_ech_length.

(* alpn_wire ids = concat (map (fun b => lenN b :: b) ids) *)
Theorem C16_reject_alpn_overrun : forall (ids : list bytes) (l : N) (rest : bytes) (c : N),
  Forall (fun b : bytes => utf8_valid b = true /\ lenN b <= 255) ids ->
  lenN rest < l -> l < 256 -> lenN (alpn_wire ids ++ l :: rest) < WFMAX ->
  exists c', sub_run (rr_service_parameter 1) (win (alpn_wire ids ++ l :: rest) c) =
             DErr (ENotEnoughBytes, [lenN (alpn_wire ids ++ l :: rest); lenN (alpn_wire ids) + 1 + l]) c'.
Proof. exact C16_reject_alpn_overrun_proof. Qed.
Print Assumptions C16_reject_alpn_overrun.

Theorem C16_reject_class : forall (main : bytes) (c : N) (s : dst), c <> 1 ->
  (in_table Class_table c = true -> rr_service_binding main c s = DErr (ESVCBClass, [c]) (d_cost s)) /\
  (in_table Class_table c = false -> rr_service_binding main c s = DErr (EClass, [c]) (d_cost s)).
Proof. exact C16_reject_class_proof. Qed.
Print Assumptions C16_reject_class.

(* priority 0, a target name, and at least one more octet in the record *)
Theorem C16_reject_alias_trailing : forall (main : bytes) (s s1 s2 : dst) (t : name),
  u16 s = DOk 0 s1 -> domain_name main s1 = DOk t s2 -> d_off s2 < d_len s2 ->
  sub_run (rr_service_binding main CLASS_IN) s = DErr (ETooManyBytes, [d_len s2; d_off s2]) (d_cost s2).
Proof. exact C16_reject_alias_trailing_proof. Qed.
Print Assumptions C16_reject_alias_trailing.

(* ================= examples ================= *)
Definition ex_params : list svcparam :=
  set_of [PPort 443; PAlpn [[104; 50]; [104; 51]]; PMandatory [4; 1]].

(* inserted as port, alpn, mandatory; held and written as keys 0, 1, 3; mandatory value 00 01 00 04 *)
Example C16_ex_set : ex_params = [PMandatory [4; 1]; PAlpn [[104; 50]; [104; 51]]; PPort 443].
Proof. vm_compute. reflexivity. Qed.

Example C16_ex_emit :
  erun (emap enc_service_parameter ex_params) =
  Ok [0; 0; 0; 4; 0; 1; 0; 4;   0; 1; 0; 6; 2; 104; 50; 2; 104; 51;   0; 3; 0; 2; 1; 187].
Proof. vm_compute. reflexivity. Qed.

Definition ex_rr : rr :=
  {| r_type := 65; r_name := [[97]]; r_class := 1; r_ttl := 300; r_data := RSvcb 1 [] ex_params |}.

Example C16_ex_record :
  enc_RR ex_rr =
  Ok [1; 97; 0;  0; 65;  0; 1;  0; 0; 1; 44;  0; 27;  0; 1;  0;
      0; 0; 0; 4; 0; 1; 0; 4;   0; 1; 0; 6; 2; 104; 50; 2; 104; 51;   0; 3; 0; 2; 1; 187].
Proof. vm_compute. reflexivity. Qed.

Example C16_ex_record_decodes :
  exists s, dec_RR [1; 97; 0;  0; 65;  0; 1;  0; 0; 1; 44;  0; 27;  0; 1;  0;
                    0; 0; 0; 4; 0; 1; 0; 4;   0; 1; 0; 6; 2; 104; 50; 2; 104; 51;   0; 3; 0; 2; 1; 187] =
    DOk {| r_type := 65; r_name := [[97]]; r_class := 1; r_ttl := 300;
           r_data := RSvcb 1 [] [PMandatory [1; 4]; PAlpn [[104; 50]; [104; 51]]; PPort 443] |} s.
Proof. eexists. vm_compute. reflexivity. Qed.

(* port twice *)
Example C16_ex_duplicate_port :
  dec_RR [1; 97; 0;  0; 65;  0; 1;  0; 0; 1; 44;  0; 15;  0; 1;  0;
          0; 3; 0; 2; 1; 187;   0; 3; 0; 2; 0; 80] = DErr (ESVCBDuplicateKey, [3]) 47.
Proof. vm_compute. reflexivity. Qed.

(* alias form: the parameter set is not written; parameters behind an alias target are refused *)
Example C16_ex_alias :
  enc_RR {| r_type := 64; r_name := [[97]]; r_class := 1; r_ttl := 300; r_data := RSvcb 0 [[98]] ex_params |} =
  Ok [1; 97; 0;  0; 64;  0; 1;  0; 0; 1; 44;  0; 5;  0; 0;  1; 98; 0].
Proof. vm_compute. reflexivity. Qed.

Example C16_ex_alias_trailing :
  dec_RR [1; 97; 0;  0; 64;  0; 1;  0; 0; 1; 44;  0; 7;  0; 0;  1; 98; 0;  0; 2; 0; 0] =
  DErr (ETooManyBytes, [7; 5]) 25.
Proof. vm_compute. reflexivity. Qed.
