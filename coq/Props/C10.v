(* C10 — Stand-alone element codecs behave like their in-message counterparts: each public
   encode/decode pair of an element round-trips on its own (same lemmas as C05, from the empty
   encoder state and the whole-buffer window). *)
From DNS Require Import Model.Dec Model.Enc Proofs.EncLimits Proofs.RelocBuf Proofs.Reloc Proofs.RelocRec Proofs.RelocTop.
From DNS Require Import Model.Dec Model.Enc Proofs.RtPrim Proofs.RtFields Proofs.RtRecord Proofs.RtMsg Proofs.C05.
Local Open Scope N_scope.

(* Vocabulary: see Props/C05.v (rr_wf, question_wf, name_wf, flags_wf; rr_eqv, question_eqv, name_eqv). *)

Theorem C10_roundtrip_RR : forall (r : rr) (b : bytes),
  rr_wf r = true -> enc_RR r = Ok b -> exists r' s, dec_RR b = DOk r' s /\ rr_eqv r' r.
Proof. exact C10_roundtrip_RR_proof. Qed.
Print Assumptions C10_roundtrip_RR.

Theorem C10_roundtrip_Question : forall (q : question) (b : bytes),
  question_wf q = true -> enc_Question q = Ok b ->
  exists q' s, dec_Question b = DOk q' s /\ question_eqv q' q.
Proof. exact C10_roundtrip_Question_proof. Qed.
Print Assumptions C10_roundtrip_Question.

Theorem C10_roundtrip_DomainName : forall (n : name) (b : bytes),
  name_wf n = true -> enc_DomainName n = Ok b ->
  exists n' s, dec_DomainName b = DOk n' s /\ name_eqv n' n.
Proof. exact C10_roundtrip_DomainName_proof. Qed.
Print Assumptions C10_roundtrip_DomainName.

Theorem C10_roundtrip_Flags : forall (f : flags) (b : bytes),
  flags_wf f = true -> enc_Flags f = Ok b -> exists s, dec_Flags b = DOk f s.
Proof. exact C10_roundtrip_Flags_proof. Qed.
Print Assumptions C10_roundtrip_Flags.

(* ---- non-vacuity ---- *)
Definition L_www : label := [119;119;119].
Definition L_org : label := [111;114;103].

Example C10_example_RR :
  let r := {| r_type := 15; r_name := [L_www; L_org]; r_class := 1; r_ttl := 60;
              r_data := RFields [VN 10; VName [L_org]] |} in
  rr_wf r = true /\
  enc_RR r = Ok [3;119;119;119;3;111;114;103;0; 0;15; 0;1; 0;0;0;60; 0;4; 0;10; 192;4] /\
  exists s, dec_RR [3;119;119;119;3;111;114;103;0; 0;15; 0;1; 0;0;0;60; 0;4; 0;10; 192;4] = DOk r s.
Proof. cbv zeta. split; [vm_compute; reflexivity|]. split; [vm_compute; reflexivity|]. eexists. vm_compute. reflexivity. Qed.

Example C10_example_Question :
  let q := {| q_name := [L_www; L_org]; q_type := 1; q_class := 1 |} in
  question_wf q = true /\
  exists b s, enc_Question q = Ok b /\ dec_Question b = DOk q s.
Proof. cbv zeta. split; [vm_compute; reflexivity|]. do 2 eexists. split; [vm_compute; reflexivity|]. vm_compute. reflexivity. Qed.

(* ------------------------------------------------------------------------------------------
   relocation: a stand-alone element occupies the same octets as the first element of a message, up to the shift of pointer offsets *)
(* C10, second clause — the octets a stand-alone element encode produces are exactly what the element
   occupies when it is the first element of a message, up to the shift of the pointer offsets. *)


(* Vocabulary:
   hdr m                 the 12 header octets of message m (Proofs/EncLimits.v)
   nthN i l              checked N-indexed access (Some octet / None when out of range)
   free P i              position i is not one of the two octets of a pointer that starts at a position
                         listed in P:  forall j, In j P -> i <> j /\ i <> j + 1
   phi q, plo q          the two octets of u16b (0xC000 + q):  [phi q; plo q] = u16b (49152 + q)
   ptr_pair d off a b i  exists q, q + d <= 16383 /\ a[i], a[i+1] = phi q, plo q /\
                         b[i+off], b[i+off+1] = phi (q+d), plo (q+d)
   bufrelP d P a b       lenN a = lenN b /\ (forall i, free P i -> nthN i a = nthN i b) /\
                         (forall i, In i P -> ptr_pair d 0 a b i)
                         "a and b are the same octets, except that each compression pointer of a, at the
                          positions P, points d octets further in b"
   bufrelPb              the boolean checker of bufrelP (sound: C10_bufrelPb_sound)
   simL d lo L V m1 m2   the same with the positions L protected (inside the buffer, holding no pointer);
                         sim = simL with L = []
   sim d lo Vu m m       the simulation (Proofs/Reloc.v): from two encoder states related by
                         reloc d lo P (buffers related as above from position lo on, index offsets of the
                         second = those of the first + d, all <= 16383) either both runs of m succeed in
                         related states, or a run that succeeds where the other does not (or both, in
                         unrelated states) has written past octet 16384 (counted in the longer buffer) *)

(* ---- questions: the SAME octets (a single name never holds a pointer) ---- *)
Theorem C10_question_first : forall (m : dns) (q : question) (b : bytes),
  m_qd m = [q] -> m_an m = [] -> m_ns m = [] -> m_ar m = [] ->
  enc_Dns m = Ok b -> lenN b <= 16384 -> exists w, enc_Question q = Ok w /\ b = hdr m ++ w.
Proof. exact question_first. Qed.
Print Assumptions C10_question_first.

(* the size hypothesis is not needed for questions *)
Theorem C10_question_first_unbounded : forall (m : dns) (q : question) (b : bytes),
  m_qd m = [q] -> m_an m = [] -> m_ns m = [] -> m_ar m = [] ->
  enc_Dns m = Ok b -> exists w, enc_Question q = Ok w /\ b = hdr m ++ w.
Proof. exact question_first_unbounded. Qed.
Print Assumptions C10_question_first_unbounded.

(* ... and any elements may follow the first question *)
Theorem C10_question_first_general : forall (m : dns) (q : question) (qs : list question) (b : bytes),
  m_qd m = q :: qs -> enc_Dns m = Ok b ->
  exists w rest, enc_Question q = Ok w /\ b = hdr m ++ w ++ rest.
Proof. exact question_first_general. Qed.
Print Assumptions C10_question_first_general.

Theorem C10_question_first_converse : forall (m : dns) (q : question) (w : bytes),
  m_qd m = [q] -> m_an m = [] -> m_ns m = [] -> m_ar m = [] ->
  enc_Question q = Ok w -> lenN w + 12 <= 16384 -> enc_Dns m = Ok (hdr m ++ w).
Proof. exact question_first_converse. Qed.
Print Assumptions C10_question_first_converse.

(* ---- records: the same octets up to the pointer shift ---- *)
Theorem C10_rr_first : forall (m : dns) (r : rr) (b : bytes),
  m_qd m = [] -> m_an m = [r] -> m_ns m = [] -> m_ar m = [] ->
  enc_Dns m = Ok b -> lenN b <= 16384 ->
  exists w P, enc_RR r = Ok w /\ bufrelP 12 P w (dropN 12 b) /\ takeN 12 b = hdr m /\
    (forall i, In i P -> exists h, nthN i w = Some h /\ 192 <= h).
Proof. exact rr_first. Qed.
Print Assumptions C10_rr_first.

Theorem C10_rr_first_converse : forall (m : dns) (r : rr) (w : bytes),
  m_qd m = [] -> m_an m = [r] -> m_ns m = [] -> m_ar m = [] ->
  enc_RR r = Ok w -> lenN w + 12 <= 16384 ->
  exists b P, enc_Dns m = Ok b /\ bufrelP 12 P w (dropN 12 b) /\ takeN 12 b = hdr m.
Proof. exact rr_first_converse. Qed.
Print Assumptions C10_rr_first_converse.

(* more records may follow the first one *)
Theorem C10_rr_first_general : forall (m : dns) (r : rr) (rs : list rr) (b : bytes),
  m_qd m = [] -> m_an m = r :: rs -> enc_Dns m = Ok b -> lenN b <= 16384 ->
  exists w w' rest P, enc_RR r = Ok w /\ b = hdr m ++ w' ++ rest /\ bufrelP 12 P w w'.
Proof. exact rr_first_general. Qed.
Print Assumptions C10_rr_first_general.

(* any two prefixes whose lengths differ by d, not only 0 and 12; the final indexes are related too *)
Theorem C10_reloc_any_prefix : forall (d : N) (r : rr) (s t t' : est),
  e_idx s = [] -> e_idx t = [] -> lenN (e_buf t) = lenN (e_buf s) + d ->
  enc_rr r t = EOk tt t' -> lenN (e_buf t') <= 16384 ->
  exists s' w1 w2 P, enc_rr r s = EOk tt s' /\
    e_buf s' = e_buf s ++ w1 /\ e_buf t' = e_buf t ++ w2 /\ bufrelP d P w1 w2 /\
    e_idx t' = map (shift_entry d) (e_idx s').
Proof. exact reloc_any_prefix_fwd. Qed.
Print Assumptions C10_reloc_any_prefix.

Theorem C10_reloc_any_prefix_converse : forall (d : N) (r : rr) (s t s' : est),
  e_idx s = [] -> e_idx t = [] -> lenN (e_buf t) = lenN (e_buf s) + d ->
  enc_rr r s = EOk tt s' -> lenN (e_buf s') + d <= 16384 ->
  exists t' w1 w2 P, enc_rr r t = EOk tt t' /\
    e_buf s' = e_buf s ++ w1 /\ e_buf t' = e_buf t ++ w2 /\ bufrelP d P w1 w2 /\
    e_idx t' = map (shift_entry d) (e_idx s').
Proof. exact reloc_any_prefix_bwd. Qed.
Print Assumptions C10_reloc_any_prefix_converse.

(* ---- what bufrelP says ---- *)
Theorem C10_no_pointer_equal : forall (d : N) (a b : bytes), bufrelP d [] a b -> a = b.
Proof. exact bufrelP_nil. Qed.
Print Assumptions C10_no_pointer_equal.

Theorem C10_pointer_fields : forall (d : N) (P : list N) (a b : bytes) (i : N), bufrelP d P a b -> In i P ->
  exists q, q + d <= 16383 /\
    takeN 2 (dropN i a) = u16b (49152 + q) /\ takeN 2 (dropN i b) = u16b (49152 + (q + d)).
Proof. exact bufrelP_slices. Qed.
Print Assumptions C10_pointer_fields.

Theorem C10_bufrelPb_sound : forall (d : N) (P : list N) (a b : bytes), bufrelPb d P a b = true -> bufrelP d P a b.
Proof. exact bufrelPb_sound. Qed.
Print Assumptions C10_bufrelPb_sound.

(* ---- the simulation itself: primitives that read offsets, then the three writers ---- *)
(* Voff d a b  :=  b = a + d   (an offset read in the message is the stand-alone offset + d) *)
Theorem C10_sim_get_offset : forall (d lo : N), sim d lo (Voff d) get_offset get_offset.
Proof. exact sim_get_offset. Qed.
Print Assumptions C10_sim_get_offset.

Theorem C10_sim_elabel : forall (d lo : N) (l : label), sim d lo (Voff d) (elabel l) (elabel l).
Proof. exact sim_elabel. Qed.
Print Assumptions C10_sim_elabel.

(* both runs find the same suffix (at offsets q and q + d) and answer the same depth *)
Theorem C10_sim_compress : forall (d lo : N) (n : name), sim d lo (@eq (option N)) (compress n) (compress n).
Proof. exact sim_compress. Qed.
Print Assumptions C10_sim_compress.

(* a 16-bit length slot created at li stand-alone is created at li + d in the message, and closed there *)
Theorem C10_sim_length_slot : forall (d lo : N) (A' B' : Type) (L : list N) (W : A' -> B' -> Prop)
    (f : N -> EM A') (g : N -> EM B'),
  (forall li, simL d lo (li :: li + 1 :: L) W (f li) (g (li + d))) ->
  simL d lo L W (ebind create_length_index f) (ebind create_length_index g).
Proof. exact simL_create. Qed.
Print Assumptions C10_sim_length_slot.

Theorem C10_sim_set_length_index : forall (d lo : N) (L : list N) (li : N), In li L -> In (li + 1) L ->
  simL d lo L Vu (set_length_index li) (set_length_index (li + d)).
Proof. exact simL_set_length_index. Qed.
Print Assumptions C10_sim_set_length_index.

Theorem C10_sim_domain_name : forall (d lo : N) (n : name), sim d lo Vu (enc_domain_name n) (enc_domain_name n).
Proof. exact sim_enc_domain_name. Qed.
Print Assumptions C10_sim_domain_name.

Theorem C10_sim_question : forall (d lo : N) (q : question), sim d lo Vu (enc_question q) (enc_question q).
Proof. exact sim_enc_question. Qed.
Print Assumptions C10_sim_question.

Theorem C10_sim_rr : forall (d lo : N) (r : rr), sim d lo Vu (enc_rr r) (enc_rr r).
Proof. exact sim_enc_rr. Qed.
Print Assumptions C10_sim_rr.

(* ---- non-vacuity ---- *)
Definition L_www_relocation : label := [119;119;119].
Definition L_org_relocation : label := [111;114;103].
Definition L_ns : label := [110;115].
Definition L_adm : label := [97;100;109].
Definition fl : flags := {| f_qr := true; f_opcode := 0; f_aa := true; f_tc := false; f_rd := true;
                            f_ra := true; f_ad := false; f_cd := false; f_rcode := 0 |}.
Definition msg1 (r : rr) : dns := {| m_id := 4660; m_flags := fl; m_qd := []; m_an := [r]; m_ns := []; m_ar := [] |}.

(* MX www.org -> org: the exchange name is a pointer to offset 4 stand-alone, to offset 16 in the message *)
Definition mx : rr := {| r_type := 15; r_name := [L_www_relocation; L_org_relocation]; r_class := 1; r_ttl := 60;
                         r_data := RFields [VN 10; VName [L_org_relocation]] |}.
Example C10_example_mx :
  enc_RR mx = Ok [3;119;119;119;3;111;114;103;0; 0;15; 0;1; 0;0;0;60; 0;4; 0;10; 192;4] /\
  enc_Dns (msg1 mx) = Ok ([18;52; 133;128; 0;0; 0;1; 0;0; 0;0] ++
                      [3;119;119;119;3;111;114;103;0; 0;15; 0;1; 0;0;0;60; 0;4; 0;10; 192;16]) /\
  bufrelP 12 [21] [3;119;119;119;3;111;114;103;0; 0;15; 0;1; 0;0;0;60; 0;4; 0;10; 192;4]
                  [3;119;119;119;3;111;114;103;0; 0;15; 0;1; 0;0;0;60; 0;4; 0;10; 192;16].
Proof.
  split; [vm_compute; reflexivity|]. split; [vm_compute; reflexivity|].
  apply bufrelPb_sound. vm_compute. reflexivity.
Qed.

(* SOA org: two RDATA names, two pointers (to the owner at 0 -> 12, to "ns.org" at 15 -> 27) *)
Definition soa : rr := {| r_type := 6; r_name := [L_org_relocation]; r_class := 1; r_ttl := 3600;
  r_data := RFields [VName [L_ns; L_org_relocation]; VName [L_adm; L_ns; L_org_relocation]; VN 1; VN 2; VN 3; VN 4; VN 5] |}.
Example C10_example_soa :
  exists w b, enc_RR soa = Ok w /\ enc_Dns (msg1 soa) = Ok b /\
    takeN 8 (dropN 18 w) = [192;0; 3;97;100;109; 192;15] /\
    takeN 8 (dropN 30 b) = [192;12; 3;97;100;109; 192;27] /\
    bufrelP 12 [18; 24] w (dropN 12 b) /\ ~ bufrelP 12 [] w (dropN 12 b).
Proof.
  eexists. eexists. split; [vm_compute; reflexivity|]. split; [vm_compute; reflexivity|].
  split; [vm_compute; reflexivity|]. split; [vm_compute; reflexivity|].
  split; [apply bufrelPb_sound; vm_compute; reflexivity|].
  intros H. apply bufrelP_nil in H. vm_compute in H. discriminate.
Qed.

(* a question occupies the same octets *)
Example C10_example_question :
  let q := {| q_name := [L_www_relocation; L_org_relocation]; q_type := 1; q_class := 1 |} in
  let m := {| m_id := 7; m_flags := fl; m_qd := [q]; m_an := []; m_ns := []; m_ar := [] |} in
  exists w, enc_Question q = Ok w /\ enc_Dns m = Ok (hdr m ++ w).
Proof. cbv zeta. eexists. split; vm_compute; reflexivity. Qed.

(* The size hypothesis of C10_rr_first cannot be dropped.  The owner name below puts its last label
   "org" at offset 16380 stand-alone (recorded in the compression table: <= 16383) and at offset 16392
   in the message (not recorded): the MX exchange "org" is a 2-octet pointer stand-alone and 5 literal
   octets in the message. *)
Definition L_a255 : label := repeat 97 255.
Definition L_a251 : label := repeat 97 251.
Definition mx_far : rr := {| r_type := 15; r_name := repeat L_a255 63 ++ [L_a251; L_org_relocation]; r_class := 1; r_ttl := 60;
                             r_data := RFields [VN 10; VName [L_org_relocation]] |}.
Example C10_size_hypothesis_needed :
  exists w b, enc_RR mx_far = Ok w /\ enc_Dns (msg1 mx_far) = Ok b /\
    lenN w = 16399 /\ lenN b = 12 + 16402 /\
    dropN 16395 w = [0;10; 255;252] /\ dropN (12 + 16395) b = [0;10; 3;111;114;103;0].
Proof.
  eexists. eexists. split; [vm_compute; reflexivity|]. split; [vm_compute; reflexivity|].
  split; [vm_compute; reflexivity|]. split; [vm_compute; reflexivity|].
  split; vm_compute; reflexivity.
Qed.
