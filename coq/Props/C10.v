(* C10 — Stand-alone element codecs behave like their in-message counterparts: each public
   encode/decode pair of an element round-trips on its own (same lemmas as C05, from the empty
   encoder state and the whole-buffer window). *)
From DNS Require Import Model.Dec Model.Enc Proofs.RtPrim Proofs.RtFields Proofs.RtRecord Proofs.RtMsg Proofs.C05.
Local Open Scope N_scope.

(* Vocabulary: see Props/C05.v (rr_wf, question_wf, name_wf, flags_wf; rr_eqv, question_eqv, name_eqv). *)

Theorem C10_roundtrip_RR : forall (r : rr) (b : bytes),
  rr_wf r = true -> enc_RR r = Ok b -> exists r' s, dec_RR b = DOk r' s /\ rr_eqv r' r.
Proof. exact C10_roundtrip_RR_proof. Qed.
Print Assumptions C10_roundtrip_RR.

Theorem C10_roundtrip_Question : forall (q : question) (b : bytes),
  question_wf q = true -> enc_Question q = Ok b ->
  exists q' s, dec_Question b = DOk q' s /\ question_eqv q' q.
Proof. exact C10_roundtrip_Question_proof. Qed.
Print Assumptions C10_roundtrip_Question.

Theorem C10_roundtrip_DomainName : forall (n : name) (b : bytes),
  name_wf n = true -> enc_DomainName n = Ok b ->
  exists n' s, dec_DomainName b = DOk n' s /\ name_eqv n' n.
Proof. exact C10_roundtrip_DomainName_proof. Qed.
Print Assumptions C10_roundtrip_DomainName.

Theorem C10_roundtrip_Flags : forall (f : flags) (b : bytes),
  flags_wf f = true -> enc_Flags f = Ok b -> exists s, dec_Flags b = DOk f s.
Proof. exact C10_roundtrip_Flags_proof. Qed.
Print Assumptions C10_roundtrip_Flags.

(* ---- non-vacuity ---- *)
Definition L_www : label := [119;119;119].
Definition L_org : label := [111;114;103].

Example C10_example_RR :
  let r := {| r_type := 15; r_name := [L_www; L_org]; r_class := 1; r_ttl := 60;
              r_data := RFields [VN 10; VName [L_org]] |} in
  rr_wf r = true /\
  enc_RR r = Ok [3;119;119;119;3;111;114;103;0; 0;15; 0;1; 0;0;0;60; 0;4; 0;10; 192;4] /\
  exists s, dec_RR [3;119;119;119;3;111;114;103;0; 0;15; 0;1; 0;0;0;60; 0;4; 0;10; 192;4] = DOk r s.
Proof. cbv zeta. split; [vm_compute; reflexivity|]. split; [vm_compute; reflexivity|]. eexists. vm_compute. reflexivity. Qed.

Example C10_example_Question :
  let q := {| q_name := [L_www; L_org]; q_type := 1; q_class := 1 |} in
  question_wf q = true /\
  exists b s, enc_Question q = Ok b /\ dec_Question b = DOk q s.
Proof. cbv zeta. split; [vm_compute; reflexivity|]. do 2 eexists. split; [vm_compute; reflexivity|]. vm_compute. reflexivity. Qed.
