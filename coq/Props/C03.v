(* C03 — an accepted message means exactly what the RFCs say: whatever the decoder model (Model/Dec.v, tied to
   the Rust source by the translator and the correspondence harness) accepts, the independent reference decoder
   (Spec/Wire.v, written from the RFCs: absolute offsets, hand-written format table, Spec.Names.expand,
   N.testbit, mod 2^k, hand-written IANA registries) accepts too, with the same value. *)
From DNS Require Import Model.Dec Spec.Wire Proofs.CorrMsg Proofs.CorrTop.
Local Open Scope N_scope.

Theorem C03_sound_Dns : forall b m s, bytes_ok b -> dec_Dns b = DOk m s -> spec_Dns b = Some m.
Proof. exact sound_Dns. Qed.
Print Assumptions C03_sound_Dns.

(* the stand-alone decoders: the hypothesis on the length is the model's 2^62 well-formedness bound
   (for messages it follows from the 65,536 size gate) *)
Theorem C03_sound_RR : forall b r s, bytes_ok b -> lenN b < 2 ^ 62 -> dec_RR b = DOk r s -> spec_RR b = Some r.
Proof. exact sound_RR. Qed.
Print Assumptions C03_sound_RR.

Theorem C03_sound_Question : forall b q s, bytes_ok b -> lenN b < 2 ^ 62 ->
  dec_Question b = DOk q s -> spec_Question b = Some q.
Proof. exact sound_Question. Qed.
Print Assumptions C03_sound_Question.

Theorem C03_sound_Flags : forall b f s, bytes_ok b -> lenN b < 2 ^ 62 ->
  dec_Flags b = DOk f s -> spec_Flags b = Some f.
Proof. exact sound_Flags. Qed.
Print Assumptions C03_sound_Flags.

Theorem C03_sound_DomainName : forall b n s, bytes_ok b -> lenN b < 2 ^ 62 ->
  dec_DomainName b = DOk n s -> spec_DomainName b = Some n.
Proof. exact sound_DomainName. Qed.
Print Assumptions C03_sound_DomainName.

(* both decoders accept the same inputs with the same values *)
Theorem C03_iff_Dns : forall b, bytes_ok b -> forall m, (exists s, dec_Dns b = DOk m s) <-> spec_Dns b = Some m.
Proof. exact dec_spec_iff_Dns. Qed.
Print Assumptions C03_iff_Dns.

(* get_ttl / get_class agree with the reference's reading of the wire header: owner, TYPE, CLASS, TTL at the
   start of the record; OPT (41) has neither, every other type reports the header's TTL and CLASS *)
Theorem C03_accessors : forall b r s, bytes_ok b -> lenN b < 2 ^ 62 -> dec_RR b = DOk r s ->
  spec_RR b = Some r /\
  exists owner t cls ttl a1, rr_header b 0 (lenN b) = Some ((owner, t, cls, ttl), a1) /\ r_type r = t /\
    (t = 41 -> rr_get_ttl r = None /\ rr_get_class r = None) /\
    (t <> 41 -> rr_get_ttl r = Some ttl /\ rr_get_class r = Some cls /\ r_name r = owner).
Proof. exact accessors. Qed.
Print Assumptions C03_accessors.

(* non-vacuity: a response with a compressed owner name (pointer to offset 12) and an OPT record carrying a
   cookie option (DO bit set, payload size 4096) is accepted by both with the same value *)
Definition ex_msg : bytes :=
  [18; 52; 1; 0; 0; 1; 0; 1; 0; 0; 0; 1;
   1; 97; 2; 98; 99; 0; 0; 1; 0; 1;
   192; 12; 0; 1; 0; 1; 0; 0; 0; 60; 0; 4; 1; 2; 3; 4;
   0; 0; 41; 16; 0; 0; 0; 128; 0; 0; 12; 0; 10; 0; 8; 1; 2; 3; 4; 5; 6; 7; 8].

Example C03_example_accept :
  exists m s, dec_Dns ex_msg = DOk m s /\ spec_Dns ex_msg = Some m /\
    map r_name (m_an m) = [[[97]; [98; 99]]] /\
    map r_data (m_ar m) = [ROpt 4096 0 0 true [OCookie {| c_client := [1; 2; 3; 4; 5; 6; 7; 8]; c_server := None |}]].
Proof.
  eexists. eexists. split; [vm_compute; reflexivity|]. split; [vm_compute; reflexivity|].
  split; vm_compute; reflexivity.
Qed.

(* one octet too many, and a reserved Z bit: rejected by both *)
Example C03_example_reject :
  (exists e c, dec_Dns (ex_msg ++ [0]) = DErr e c) /\ spec_Dns (ex_msg ++ [0]) = None /\
  (exists e c, dec_Flags [0; 64] = DErr e c) /\ spec_Flags [0; 64] = None.
Proof.
  split; [do 2 eexists; vm_compute; reflexivity|]. split; [vm_compute; reflexivity|].
  split; [do 2 eexists; vm_compute; reflexivity|vm_compute; reflexivity].
Qed.
