(* C17 — address-prefix items (APL, ECS) use the RFC forms in both directions.
   Input side: every RFC 3123 / RFC 7871 form is accepted (0..size address octets, missing octets
   zero), everything else is rejected with the documented error, nothing panics.
   Output side: family, prefix lengths and negation are preserved, and the address now follows the
   RFCs: it is written up to its last non-zero octet ("significant" octets) but with at least a minimum
   length.  APL (minimum 0): never a trailing zero octet — the RFC 3123 count for EVERY valid item
   (known finding KF3 is repaired).  ECS (minimum ceil(source/8)): exactly the ceil(source/8) octets of
   RFC 7871 whenever no non-zero address octet lies beyond them.  The only remaining deviation (known
   finding KF2, narrowed) are ECS values whose address has a non-zero octet beyond ceil(source/8) —
   possible only with scope > source — which are written in full so that no set bit is lost.
   The emitted count is characterised exactly and the round trip holds. *)
From DNS Require Import Proofs.EncTotal Model.Values Model.Dec Model.Enc Proofs.DecBase Proofs.C12
  Proofs.C17Dec Proofs.C17Enc Proofs.C17 Proofs.C17Rt Proofs.C17Ref Proofs.C17Grid.

(* the vocabulary of the statements below, spelled out *)
Theorem C17_defs :
  (forall fam : N, fam_size fam = if fam =? 1 then 4 else 16) /\
  (forall a : addr, addr_size a = fam_size (a_fam a)) /\
  (forall fam : N, fam_err fam = if fam =? 1 then EEcsTooBigIpv4Address else EEcsTooBigIpv6Address) /\
  (forall fam : N, prefix_err fam = if fam =? 1 then EIpv4Prefix else EIpv6Prefix) /\
  (forall fam : N, mask_err fam = if fam =? 1 then EIpv4Mask else EIpv6Mask) /\
  (forall (fam : N) (a : bytes), fam = 1 \/ fam = 2 ->
     zfill fam a = {| a_fam := fam; a_oct := a ++ zeros (N.to_nat (fam_size fam - lenN a)) |}) /\
  (forall neg : bool, negbit neg = if neg then 128 else 0) /\
  (forall oct : bytes, addr_significant oct = rfc3123_count oct) /\
  (forall src pfx : N, ecs_minimum_length src pfx = (src + 7) / 8) /\
  (forall e : ecs, ecs_known_class e <-> (e_src e + 7) / 8 < addr_significant (a_oct (e_addr e))) /\
  (forall s : dst, vec_end s = {| d_rest := []; d_off := d_len s; d_len := d_len s;
                                  d_cost := d_cost s + (d_len s - d_off s) |}) /\
  (forall (a : addr) (p : N), prefix_ok a p <->
     p <= 8 * addr_size a /\ forall i, p <= i < 8 * addr_size a -> addr_bit (a_oct a) i = false) /\
  (forall src : N, rfc7871_count src = (src + 7) / 8) /\
  (forall e : ecs, ecs_body e =
     u16b (a_fam (e_addr e)) ++ [e_src e mod 256] ++ [e_scope e mod 256] ++
     takeN (N.max (addr_significant (a_oct (e_addr e))) ((e_src e + 7) / 8)) (a_oct (e_addr e))) /\
  (* the number of address octets, read off the encoder's output *)
  (forall i : apitem, apl_emitted i =
     match enc_apitem i e_init with EOk _ st => Some (lenN (e_buf st) - 4) | _ => None end) /\
  (forall e : ecs, ecs_emitted e =
     match enc_ecs e e_init with EOk _ st => Some (lenN (e_buf st) - 8) | _ => None end).
Proof.
  split; [reflexivity|]. split; [reflexivity|]. split; [reflexivity|]. split; [reflexivity|].
  split; [reflexivity|].
  split; [intros fam a H; unfold zfill; rewrite (fam_tag_id fam H); reflexivity|].
  split; [reflexivity|]. split; [exact significant_rfc3123|]. split; [exact ecs_minimum_length_eq|].
  split; [intros e; apply iff_refl|]. split; [reflexivity|].
  split; [intros a p; apply iff_refl|]. split; [reflexivity|]. split; [reflexivity|].
  split; reflexivity.
Qed.
Print Assumptions C17_defs.

(* ---- input side ---- *)

(* Decoder::rr_address on a window holding exactly k address octets: accepted iff k <= size, the result
   is the address zero-filled to the family size and the whole window is consumed; k > size is
   EcsTooBigIpv4Address / EcsTooBigIpv6Address (k); never a panic *)
Theorem C17_accept_all_forms : forall (fam : N) (s : dst), fam = 1 \/ fam = 2 -> d_off s <= d_len s ->
  (lenN (d_rest s) <= fam_size fam ->
     rr_address fam s =
       DOk {| a_fam := fam; a_oct := d_rest s ++ zeros (N.to_nat (fam_size fam - lenN (d_rest s))) |}
           (vec_end s)) /\
  (fam_size fam < lenN (d_rest s) ->
     rr_address fam s = DErr (fam_err fam, [lenN (d_rest s)]) (d_cost s + (d_len s - d_off s))) /\
  ((exists a s', rr_address fam s = DOk a s') <-> lenN (d_rest s) <= fam_size fam) /\
  (forall x, rr_address fam s <> DPanic x) /\
  rr_address fam s <> DFuel.
Proof. exact accept_address. Qed.
Print Assumptions C17_accept_all_forms.

(* Decoder::rr_apl_apitem on  family(2) prefix(1) N|AFDLENGTH(1) AFDPART(k) rest:
   accepted iff the family is 1 or 2, k <= size, and the zero-filled address has no bit at or beyond
   the prefix (which includes prefix <= 8*size); the result keeps family, prefix, negation and the
   zero-filled address, and the cursor advances by 4 + k *)
Theorem C17_accept_apl_item : forall (s : dst) (fh fl p : N) (neg : bool) (a rest : bytes),
  dst_wf s -> lenN a < 128 ->
  d_rest s = fh :: fl :: p :: (negbit neg + lenN a) :: a ++ rest ->
  let fam := fh * 256 + fl in
  let accepted := (fam = 1 \/ fam = 2) /\ lenN a <= fam_size fam /\ prefix_ok (zfill fam a) p in
  (accepted ->
     rr_apl_apitem s =
       DOk {| i_prefix := p; i_neg := neg;
              i_addr := {| a_fam := fam; a_oct := a ++ zeros (N.to_nat (fam_size fam - lenN a)) |} |}
           {| d_rest := rest; d_off := d_off s + (4 + lenN a); d_len := d_len s;
              d_cost := d_cost s + (4 + 2 * lenN a) |}) /\
  ((exists i s', rr_apl_apitem s = DOk i s') <-> accepted) /\
  (~ accepted -> exists e c, rr_apl_apitem s = DErr e c) /\
  (forall x, rr_apl_apitem s <> DPanic x) /\
  rr_apl_apitem s <> DFuel.
Proof. exact accept_apitem. Qed.
Print Assumptions C17_accept_apl_item.

(* ... and which error: unknown family; too many address octets; prefix beyond the family size; an
   address bit beyond the prefix *)
Theorem C17_reject_apl_item : forall (s : dst) (fh fl p : N) (neg : bool) (a rest : bytes),
  dst_wf s -> lenN a < 128 ->
  d_rest s = fh :: fl :: p :: (negbit neg + lenN a) :: a ++ rest ->
  let fam := fh * 256 + fl in
  let c_end := d_cost s + (4 + 2 * lenN a) in
  (fam <> 1 -> fam <> 2 -> rr_apl_apitem s = DErr (EEcsAddressNumber, [fam]) (d_cost s + 2)) /\
  (fam = 1 \/ fam = 2 -> fam_size fam < lenN a -> rr_apl_apitem s = DErr (fam_err fam, [lenN a]) c_end) /\
  (fam = 1 \/ fam = 2 -> lenN a <= fam_size fam -> 8 * fam_size fam < p ->
     rr_apl_apitem s = DErr (prefix_err fam, [p]) c_end) /\
  (fam = 1 \/ fam = 2 -> lenN a <= fam_size fam -> p <= 8 * fam_size fam -> ~ prefix_ok (zfill fam a) p ->
     rr_apl_apitem s = DErr (mask_err fam, [p]) c_end).
Proof. exact reject_apitem. Qed.
Print Assumptions C17_reject_apl_item.

(* Decoder::rr_edns_ecs on the option body  family(2) source(1) scope(1) ADDRESS(k):
   same rule, the prefix being max(source, scope) *)
Theorem C17_accept_ecs : forall (s : dst) (fh fl src scope : N) (a : bytes),
  dst_wf s -> d_rest s = fh :: fl :: src :: scope :: a ->
  let fam := fh * 256 + fl in
  let accepted := (fam = 1 \/ fam = 2) /\ lenN a <= fam_size fam /\ prefix_ok (zfill fam a) (N.max src scope) in
  (accepted ->
     rr_edns_ecs s =
       DOk {| e_src := src; e_scope := scope;
              e_addr := {| a_fam := fam; a_oct := a ++ zeros (N.to_nat (fam_size fam - lenN a)) |} |}
           {| d_rest := []; d_off := d_off s + (4 + lenN a); d_len := d_len s;
              d_cost := d_cost s + (4 + lenN a) |}) /\
  ((exists e s', rr_edns_ecs s = DOk e s') <-> accepted) /\
  (~ accepted -> exists e c, rr_edns_ecs s = DErr e c) /\
  (forall x, rr_edns_ecs s <> DPanic x) /\
  rr_edns_ecs s <> DFuel.
Proof. exact accept_ecs. Qed.
Print Assumptions C17_accept_ecs.

(* ---- output side: the emitted octets ---- *)

(* addr_significant (the encoder's search for the last non-zero octet) is "index of the last non-zero
   octet + 1", 0 for the all-zero address: every octet from there on is zero, the one before is not *)
Theorem C17_significant_def : forall l : bytes,
  addr_significant l <= lenN l /\
  forallb (N.eqb 0) (dropN (addr_significant l) l) = true /\
  (addr_significant l = 0 \/ exists x, nthN (addr_significant l - 1) l = Some x /\ x <> 0).
Proof. exact significant_def. Qed.
Print Assumptions C17_significant_def.

(* Encoder::rr_address_with_length appends exactly max(significant, minimum) octets, no panic *)
Theorem C17_emit_address : forall (a : addr) (m : N) (st : est), addr_wf a -> m <= addr_size a ->
  let cnt := N.max (addr_significant (a_oct a)) m in
  rr_address_with_length a m st =
    EOk tt {| e_buf := e_buf st ++ takeN cnt (a_oct a); e_idx := e_idx st; e_names := e_names st |} /\
  lenN (takeN cnt (a_oct a)) = cnt.
Proof. exact emit_address. Qed.
Print Assumptions C17_emit_address.

(* Encoder::rr_apl_apitem from any encoder state: family, prefix, N|count, count address octets with
   count = significant octets; never APLAddressLength for a valid item; compression index and name log
   untouched; the count never exceeds the octets that hold the prefix bits *)
Theorem C17_emit_apl : forall (i : apitem) (st : est), apitem_inv i ->
  let cnt := addr_significant (a_oct (i_addr i)) in
  enc_apitem i st =
    EOk tt {| e_buf := e_buf st ++ u16b (a_fam (i_addr i)) ++ [i_prefix i mod 256]
                        ++ [(if i_neg i then 128 else 0) + cnt] ++ takeN cnt (a_oct (i_addr i));
              e_idx := e_idx st; e_names := e_names st |} /\
  lenN (takeN cnt (a_oct (i_addr i))) = cnt /\
  i_prefix i mod 256 = i_prefix i /\ cnt < 128 /\ cnt <= (i_prefix i + 7) / 8.
Proof. exact emit_apitem. Qed.
Print Assumptions C17_emit_apl.

(* APL: the emitted count IS the RFC 3123 count, for every valid item (KF3 repaired) ... *)
Theorem C17_emit_rfc_apl : forall i : apitem, apitem_inv i ->
  apl_emitted i = Some (rfc3123_count (a_oct (i_addr i))).
Proof. exact emit_rfc_apl. Qed.
Print Assumptions C17_emit_rfc_apl.

(* ... in words: the last emitted address octet, if any, is not zero *)
Theorem C17_emit_apl_no_trailing_zero : forall i : apitem, apitem_inv i ->
  let w := takeN (addr_significant (a_oct (i_addr i))) (a_oct (i_addr i)) in
  w = [] \/ exists x, nthN (lenN w - 1) w = Some x /\ x <> 0.
Proof. exact emit_apl_no_trailing_zero. Qed.
Print Assumptions C17_emit_apl_no_trailing_zero.

(* Encoder::rr_edns_ecs: code 8, length 4 + count, family, source, scope, count address octets with
   count = max(significant octets, ceil(source/8)) *)
Theorem C17_emit_ecs : forall (e : ecs) (st : est), ecs_inv e ->
  let cnt := N.max (addr_significant (a_oct (e_addr e))) ((e_src e + 7) / 8) in
  enc_ecs e st =
    EOk tt {| e_buf := e_buf st ++ u16b 8 ++ u16b (4 + cnt) ++ u16b (a_fam (e_addr e))
                        ++ [e_src e mod 256] ++ [e_scope e mod 256] ++ takeN cnt (a_oct (e_addr e));
              e_idx := e_idx st; e_names := e_names st |} /\
  lenN (takeN cnt (a_oct (e_addr e))) = cnt /\
  e_src e mod 256 = e_src e /\ e_scope e mod 256 = e_scope e.
Proof. exact emit_ecs. Qed.
Print Assumptions C17_emit_ecs.

(* ECS: the emitted count IS the RFC 7871 count ceil(source/8) outside the known class (a non-zero
   address octet beyond ceil(source/8)) *)
Theorem C17_emit_rfc_ecs : forall e : ecs, ecs_inv e -> ~ ecs_known_class e ->
  ecs_emitted e = Some (rfc7871_count (e_src e)).
Proof. exact emit_rfc_ecs. Qed.
Print Assumptions C17_emit_rfc_ecs.

(* with scope <= source the class is empty: no bit at or beyond the source prefix is set *)
Theorem C17_emit_rfc_ecs_scope_le : forall e : ecs, ecs_inv e -> e_scope e <= e_src e ->
  ecs_emitted e = Some (rfc7871_count (e_src e)).
Proof. exact emit_rfc_ecs_scope_le. Qed.
Print Assumptions C17_emit_rfc_ecs_scope_le.

Theorem C17_known_class_needs_scope : forall e : ecs, ecs_inv e -> ecs_known_class e -> e_src e < e_scope e.
Proof. exact known_class_needs_scope. Qed.
Print Assumptions C17_known_class_needs_scope.

(* KNOWN FINDING KF2 (narrowed): 10.1.0.0 with source 8, scope 24 is a valid value of the class; it is
   written with two address octets where RFC 7871 mandates ceil(8/8) = 1; hence the RFC 7871 rule does
   not hold of ALL valid values *)
Theorem C17_emit_rfc_ecs_known_refuted :
  ecs_inv w_ecs_scope /\ ecs_known_class w_ecs_scope /\
  ecs_emitted w_ecs_scope = Some 2 /\ rfc7871_count 8 = 1 /\
  ~ (forall e, ecs_inv e -> ecs_emitted e = Some (rfc7871_count (e_src e))).
Proof. exact emit_rfc_ecs_known_refuted. Qed.
Print Assumptions C17_emit_rfc_ecs_known_refuted.

(* the witness, spelled out *)
Example C17_witnesses :
  w_ecs_scope = {| e_src := 8; e_scope := 24; e_addr := {| a_fam := 1; a_oct := [10; 1; 0; 0] |} |} /\
  enc_ecs w_ecs_scope e_init =
    EOk tt {| e_buf := [0; 8; 0; 6; 0; 1; 8; 24; 10; 1]; e_idx := []; e_names := [] |}.
Proof. vm_compute. split; reflexivity. Qed.

(* ---- round trip: the octets cut off are zero, so decoding the output returns the value itself ---- *)
Theorem C17_emit_roundtrip : forall (i : apitem) (st : est), apitem_inv i ->
  exists w : bytes,
    enc_apitem i st = EOk tt {| e_buf := e_buf st ++ w; e_idx := e_idx st; e_names := e_names st |} /\
    forall (s : dst) (rest : bytes), dst_wf s -> d_rest s = w ++ rest ->
      exists s', rr_apl_apitem s = DOk i s' /\ d_rest s' = rest /\ d_off s' = d_off s + lenN w /\
                 d_len s' = d_len s.
Proof. exact emit_roundtrip. Qed.
Print Assumptions C17_emit_roundtrip.

Theorem C17_emit_roundtrip_ecs : forall (e : ecs) (st : est), ecs_inv e ->
  let cnt := N.max (addr_significant (a_oct (e_addr e))) ((e_src e + 7) / 8) in
  enc_ecs e st = EOk tt {| e_buf := e_buf st ++ u16b 8 ++ u16b (4 + cnt) ++ ecs_body e;
                           e_idx := e_idx st; e_names := e_names st |} /\
  lenN (ecs_body e) = 4 + cnt /\
  forall s : dst, dst_wf s -> d_rest s = ecs_body e ->
    rr_edns_ecs s = DOk e {| d_rest := []; d_off := d_off s + (4 + cnt); d_len := d_len s;
                             d_cost := d_cost s + (4 + cnt) |}.
Proof. exact emit_roundtrip_ecs_wire. Qed.
Print Assumptions C17_emit_roundtrip_ecs.

(* ---- complete finite grids (by computation) ---- *)

(* IPv4: ALL prefix octets 0..=255 x address-octet counts 0..=5 x both negation flags x 67 address
   patterns (zero, all ones, the 32 single-bit addresses, the 33 prefix masks /0../32), each cut to the
   first k octets: the decoder's verdict and value equal the reference "k <= 4, p <= 32, no bit at
   position >= p of the zero-filled address"; Ok or Err only; an accepted item consumes 4 + k octets *)
Theorem C17_grid_ipv4 : forall (p k : N) (neg : bool) (pat : bytes),
  p < 256 -> k <= 5 -> In pat patterns4 ->
  let r := rr_apl_apitem (mk_main (grid_input 1 p k neg pat)) in
  verdict r = grid_expect 1 p k neg pat /\ clean r = true /\ consumed r (4 + k) = true.
Proof. exact grid_ipv4. Qed.
Print Assumptions C17_grid_ipv4.

(* IPv6: ALL prefix octets 0..=255 x counts 0..=17 x 259 patterns (zero, all ones, 128 single-bit
   addresses, 129 prefix masks); negation flag clear *)
Theorem C17_grid_ipv6 : forall (p k : N) (pat : bytes),
  p < 256 -> k <= 17 -> In pat patterns6 ->
  let r := rr_apl_apitem (mk_main (grid_input 2 p k false pat)) in
  verdict r = grid_expect 2 p k false pat /\ clean r = true /\ consumed r (4 + k) = true.
Proof. exact grid_ipv6. Qed.
Print Assumptions C17_grid_ipv6.

(* the grid vocabulary, and the reference verdict is the bit-level property of C12 *)
Theorem C17_grid_defs :
  (forall (fam p k : N) (neg : bool) (pat : bytes),
     grid_input fam p k neg pat = [0; fam; p; negbit neg + k] ++ takeN k (pat ++ [0])) /\
  (forall (fam p k : N) (neg : bool) (pat : bytes),
     let filled := takeN k (pat ++ [0]) ++ zeros (N.to_nat (fam_size fam - k)) in
     grid_expect fam p k neg pat =
       if ref_ok (fam_size fam) p k filled
       then Some {| i_prefix := p; i_neg := neg; i_addr := {| a_fam := fam; a_oct := filled |} |}
       else None) /\
  (forall r : dres apitem, verdict r = match r with DOk i _ => Some i | _ => None end) /\
  (forall r : dres apitem, clean r = match r with DOk _ _ | DErr _ _ => true | _ => false end) /\
  (forall (a : addr) (p k : N), addr_wf a ->
     (ref_ok (addr_size a) p k (a_oct a) = true <-> k <= addr_size a /\ prefix_ok a p)) /\
  (forall (size p k : N) (oct : bytes), size < k -> ref_ok size p k oct = false) /\
  length patterns4 = 67%nat /\ length patterns6 = 259%nat.
Proof.
  split; [reflexivity|]. split; [reflexivity|]. split; [reflexivity|]. split; [reflexivity|].
  split; [exact ref_ok_prefix_ok|]. split; [exact ref_ok_too_long|].
  split; [exact (proj1 grid_sizes)|exact (proj1 (proj2 grid_sizes))].
Qed.
Print Assumptions C17_grid_defs.

(* ---- examples ---- *)

(* an APL item with no address octets and prefix 0 (RFC 3123: 0.0.0.0/0) is accepted *)
Example C17_ex_empty_address :
  rr_apl_apitem (mk_main [0; 1; 0; 0]) =
    DOk {| i_prefix := 0; i_neg := false; i_addr := {| a_fam := 1; a_oct := [0; 0; 0; 0] |} |}
        {| d_rest := []; d_off := 4; d_len := 4; d_cost := 4 |}.
Proof. vm_compute. reflexivity. Qed.

(* !192.0.2.0/24 in its shortest form (three octets), followed by another octet *)
Example C17_ex_short_form :
  rr_apl_apitem (mk_main [0; 1; 24; 131; 192; 0; 2; 77]) =
    DOk {| i_prefix := 24; i_neg := true; i_addr := {| a_fam := 1; a_oct := [192; 0; 2; 0] |} |}
        {| d_rest := [77]; d_off := 7; d_len := 8; d_cost := 10 |}.
Proof. vm_compute. reflexivity. Qed.

(* five address octets for IPv4 are rejected *)
Example C17_ex_too_long :
  rr_apl_apitem (mk_main [0; 1; 32; 5; 1; 2; 3; 4; 5]) = DErr (EEcsTooBigIpv4Address, [5]) 14.
Proof. vm_compute. reflexivity. Qed.

(* 192.0.2.1/24: a bit beyond the prefix *)
Example C17_ex_mask :
  rr_apl_apitem (mk_main [0; 1; 24; 4; 192; 0; 2; 1]) = DErr (EIpv4Mask, [24]) 12.
Proof. vm_compute. reflexivity. Qed.

(* prefix 33 for IPv4; family 3 *)
Example C17_ex_prefix_family :
  rr_apl_apitem (mk_main [0; 1; 33; 0]) = DErr (EIpv4Prefix, [33]) 4 /\
  rr_apl_apitem (mk_main [0; 3; 0; 0]) = DErr (EEcsAddressNumber, [3]) 2.
Proof. vm_compute. split; reflexivity. Qed.

(* ECS 192.0.2.0/24 with three (RFC form) and with four address octets: same value *)
Example C17_ex_ecs :
  rr_edns_ecs (mk_main [0; 1; 24; 0; 192; 0; 2]) =
    DOk {| e_src := 24; e_scope := 0; e_addr := {| a_fam := 1; a_oct := [192; 0; 2; 0] |} |}
        {| d_rest := []; d_off := 7; d_len := 7; d_cost := 7 |} /\
  rr_edns_ecs (mk_main [0; 1; 24; 0; 192; 0; 2; 0]) =
    DOk {| e_src := 24; e_scope := 0; e_addr := {| a_fam := 1; a_oct := [192; 0; 2; 0] |} |}
        {| d_rest := []; d_off := 8; d_len := 8; d_cost := 8 |}.
Proof. vm_compute. split; reflexivity. Qed.

(* output: !192.0.2.0/24 is written with THREE address octets (RFC 3123), 10.0.0.0/24 with one,
   0.0.0.0/0 with none *)
Example C17_ex_emit :
  enc_apitem {| i_prefix := 24; i_neg := true; i_addr := {| a_fam := 1; a_oct := [192; 0; 2; 0] |} |} e_init =
    EOk tt {| e_buf := [0; 1; 24; 131; 192; 0; 2]; e_idx := []; e_names := [] |} /\
  enc_apitem {| i_prefix := 24; i_neg := false; i_addr := {| a_fam := 1; a_oct := [10; 0; 0; 0] |} |} e_init =
    EOk tt {| e_buf := [0; 1; 24; 1; 10]; e_idx := []; e_names := [] |} /\
  enc_apitem {| i_prefix := 0; i_neg := false; i_addr := {| a_fam := 1; a_oct := [0; 0; 0; 0] |} |} e_init =
    EOk tt {| e_buf := [0; 1; 0; 0]; e_idx := []; e_names := [] |}.
Proof. vm_compute. split; [|split]; reflexivity. Qed.

(* ECS: 10.0.0.0 source 24 scope 0 is written with the three octets of RFC 7871 (the minimum length,
   although only one octet is significant); source 0 with none *)
Example C17_ex_emit_ecs :
  enc_ecs {| e_src := 24; e_scope := 0; e_addr := {| a_fam := 1; a_oct := [10; 0; 0; 0] |} |} e_init =
    EOk tt {| e_buf := [0; 8; 0; 7; 0; 1; 24; 0; 10; 0; 0]; e_idx := []; e_names := [] |} /\
  enc_ecs {| e_src := 0; e_scope := 0; e_addr := {| a_fam := 1; a_oct := [0; 0; 0; 0] |} |} e_init =
    EOk tt {| e_buf := [0; 8; 0; 4; 0; 1; 0; 0]; e_idx := []; e_names := [] |}.
Proof. vm_compute. split; reflexivity. Qed.
