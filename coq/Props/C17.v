(* C17 — address-prefix items (APL, ECS) use the RFC forms in both directions.
   Input side: every RFC 3123 / RFC 7871 form is accepted (0..size address octets, missing octets
   zero), everything else is rejected with the documented error, nothing panics.
   Output side: family, prefix lengths and negation are preserved; the address is cut to
   min(prefix/8 + 1, size) octets — NOT the RFC counts (known findings KF2 for ECS, KF3 for APL);
   the emitted count is characterised exactly, the round trip holds, the RFC counts are refuted. *)
From DNS Require Import Model.Values Model.Dec Model.Enc Proofs.DecBase Proofs.C12
  Proofs.C17Dec Proofs.C17Enc Proofs.C17 Proofs.C17Rt Proofs.C17Ref Proofs.C17Grid.

(* the vocabulary of the statements below, spelled out *)
Theorem C17_defs :
  (forall fam : N, fam_size fam = if fam =? 1 then 4 else 16) /\
  (forall a : addr, addr_size a = fam_size (a_fam a)) /\
  (forall fam : N, fam_err fam = if fam =? 1 then EEcsTooBigIpv4Address else EEcsTooBigIpv6Address) /\
  (forall fam : N, prefix_err fam = if fam =? 1 then EIpv4Prefix else EIpv6Prefix) /\
  (forall fam : N, mask_err fam = if fam =? 1 then EIpv4Mask else EIpv6Mask) /\
  (forall (fam : N) (a : bytes), fam = 1 \/ fam = 2 ->
     zfill fam a = {| a_fam := fam; a_oct := a ++ zeros (N.to_nat (fam_size fam - lenN a)) |}) /\
  (forall neg : bool, negbit neg = if neg then 128 else 0) /\
  (forall p size : N, emit_count p size = N.min (p / 8 + 1) size) /\
  (forall s : dst, vec_end s = {| d_rest := []; d_off := d_len s; d_len := d_len s;
                                  d_cost := d_cost s + (d_len s - d_off s) |}) /\
  (forall (a : addr) (p : N), prefix_ok a p <->
     p <= 8 * addr_size a /\ forall i, p <= i < 8 * addr_size a -> addr_bit (a_oct a) i = false) /\
  (forall src : N, rfc7871_count src = (src + 7) / 8).
Proof.
  split; [reflexivity|]. split; [reflexivity|]. split; [reflexivity|]. split; [reflexivity|].
  split; [reflexivity|].
  split; [intros fam a H; unfold zfill; rewrite (fam_tag_id fam H); reflexivity|].
  split; [reflexivity|]. split; [reflexivity|]. split; [reflexivity|].
  split; [intros a p; apply iff_refl|reflexivity].
Qed.
Print Assumptions C17_defs.

(* ---- input side ---- *)

(* Decoder::rr_address on a window holding exactly k address octets: accepted iff k <= size, the result
   is the address zero-filled to the family size and the whole window is consumed; k > size is
   EcsTooBigIpv4Address / EcsTooBigIpv6Address (k); never a panic *)
Theorem C17_accept_all_forms : forall (fam : N) (s : dst), fam = 1 \/ fam = 2 -> d_off s <= d_len s ->
  (lenN (d_rest s) <= fam_size fam ->
     rr_address fam s =
       DOk {| a_fam := fam; a_oct := d_rest s ++ zeros (N.to_nat (fam_size fam - lenN (d_rest s))) |}
           (vec_end s)) /\
  (fam_size fam < lenN (d_rest s) ->
     rr_address fam s = DErr (fam_err fam, [lenN (d_rest s)]) (d_cost s + (d_len s - d_off s))) /\
  ((exists a s', rr_address fam s = DOk a s') <-> lenN (d_rest s) <= fam_size fam) /\
  (forall x, rr_address fam s <> DPanic x) /\
  rr_address fam s <> DFuel.
Proof. exact accept_address. Qed.
Print Assumptions C17_accept_all_forms.

(* Decoder::rr_apl_apitem on  family(2) prefix(1) N|AFDLENGTH(1) AFDPART(k) rest:
   accepted iff the family is 1 or 2, k <= size, and the zero-filled address has no bit at or beyond
   the prefix (which includes prefix <= 8*size); the result keeps family, prefix, negation and the
   zero-filled address, and the cursor advances by 4 + k *)
Theorem C17_accept_apl_item : forall (s : dst) (fh fl p : N) (neg : bool) (a rest : bytes),
  dst_wf s -> lenN a < 128 ->
  d_rest s = fh :: fl :: p :: (negbit neg + lenN a) :: a ++ rest ->
  let fam := fh * 256 + fl in
  let accepted := (fam = 1 \/ fam = 2) /\ lenN a <= fam_size fam /\ prefix_ok (zfill fam a) p in
  (accepted ->
     rr_apl_apitem s =
       DOk {| i_prefix := p; i_neg := neg;
              i_addr := {| a_fam := fam; a_oct := a ++ zeros (N.to_nat (fam_size fam - lenN a)) |} |}
           {| d_rest := rest; d_off := d_off s + (4 + lenN a); d_len := d_len s;
              d_cost := d_cost s + (4 + 2 * lenN a) |}) /\
  ((exists i s', rr_apl_apitem s = DOk i s') <-> accepted) /\
  (~ accepted -> exists e c, rr_apl_apitem s = DErr e c) /\
  (forall x, rr_apl_apitem s <> DPanic x) /\
  rr_apl_apitem s <> DFuel.
Proof. exact accept_apitem. Qed.
Print Assumptions C17_accept_apl_item.

(* ... and which error: unknown family; too many address octets; prefix beyond the family size; an
   address bit beyond the prefix *)
Theorem C17_reject_apl_item : forall (s : dst) (fh fl p : N) (neg : bool) (a rest : bytes),
  dst_wf s -> lenN a < 128 ->
  d_rest s = fh :: fl :: p :: (negbit neg + lenN a) :: a ++ rest ->
  let fam := fh * 256 + fl in
  let c_end := d_cost s + (4 + 2 * lenN a) in
  (fam <> 1 -> fam <> 2 -> rr_apl_apitem s = DErr (EEcsAddressNumber, [fam]) (d_cost s + 2)) /\
  (fam = 1 \/ fam = 2 -> fam_size fam < lenN a -> rr_apl_apitem s = DErr (fam_err fam, [lenN a]) c_end) /\
  (fam = 1 \/ fam = 2 -> lenN a <= fam_size fam -> 8 * fam_size fam < p ->
     rr_apl_apitem s = DErr (prefix_err fam, [p]) c_end) /\
  (fam = 1 \/ fam = 2 -> lenN a <= fam_size fam -> p <= 8 * fam_size fam -> ~ prefix_ok (zfill fam a) p ->
     rr_apl_apitem s = DErr (mask_err fam, [p]) c_end).
Proof. exact reject_apitem. Qed.
Print Assumptions C17_reject_apl_item.

(* Decoder::rr_edns_ecs on the option body  family(2) source(1) scope(1) ADDRESS(k):
   same rule, the prefix being max(source, scope) *)
Theorem C17_accept_ecs : forall (s : dst) (fh fl src scope : N) (a : bytes),
  dst_wf s -> d_rest s = fh :: fl :: src :: scope :: a ->
  let fam := fh * 256 + fl in
  let accepted := (fam = 1 \/ fam = 2) /\ lenN a <= fam_size fam /\ prefix_ok (zfill fam a) (N.max src scope) in
  (accepted ->
     rr_edns_ecs s =
       DOk {| e_src := src; e_scope := scope;
              e_addr := {| a_fam := fam; a_oct := a ++ zeros (N.to_nat (fam_size fam - lenN a)) |} |}
           {| d_rest := []; d_off := d_off s + (4 + lenN a); d_len := d_len s;
              d_cost := d_cost s + (4 + lenN a) |}) /\
  ((exists e s', rr_edns_ecs s = DOk e s') <-> accepted) /\
  (~ accepted -> exists e c, rr_edns_ecs s = DErr e c) /\
  (forall x, rr_edns_ecs s <> DPanic x) /\
  rr_edns_ecs s <> DFuel.
Proof. exact accept_ecs. Qed.
Print Assumptions C17_accept_ecs.

(* ---- output side: the emitted octet count (KF2, KF3: min(p/8 + 1, size), not the RFC count) ---- *)

(* the loops of Encoder::rr_address_ipv4 / rr_address_ipv6: exactly min(p/8+1, size) octets, no panic *)
Theorem C17_emit_count : forall (oct : bytes) (p : N),
  (lenN oct = 4 ->
     addr_prefix_loop OP_enc_prefix4 ENC_PREFIX_STEP4 oct p = Ok (takeN (N.min (p / 8 + 1) 4) oct)) /\
  (lenN oct = 16 ->
     addr_prefix_loop OP_enc_prefix6 ENC_PREFIX_STEP6 oct p = Ok (takeN (N.min (p / 8 + 1) 16) oct)).
Proof. exact emit_count_loop. Qed.
Print Assumptions C17_emit_count.

(* Encoder::rr_address_with_prefix appends exactly those octets *)
Theorem C17_emit_count_address : forall (a : addr) (p : N) (st : est), addr_wf a ->
  let cnt := N.min (p / 8 + 1) (addr_size a) in
  rr_address_with_prefix a p st =
    EOk tt {| e_buf := e_buf st ++ takeN cnt (a_oct a); e_idx := e_idx st; e_names := e_names st |} /\
  lenN (takeN cnt (a_oct a)) = cnt.
Proof. exact emit_count_address. Qed.
Print Assumptions C17_emit_count_address.

(* Encoder::rr_apl_apitem from any encoder state: family, prefix, N|count, count address octets;
   never APLAddressLength for a valid item; compression index and name log untouched *)
Theorem C17_emit_count_apl : forall (i : apitem) (st : est), apitem_inv i ->
  let cnt := N.min (i_prefix i / 8 + 1) (addr_size (i_addr i)) in
  enc_apitem i st =
    EOk tt {| e_buf := e_buf st ++ u16b (a_fam (i_addr i)) ++ [i_prefix i mod 256]
                        ++ [(if i_neg i then 128 else 0) + cnt] ++ takeN cnt (a_oct (i_addr i));
              e_idx := e_idx st; e_names := e_names st |} /\
  lenN (takeN cnt (a_oct (i_addr i))) = cnt /\
  i_prefix i mod 256 = i_prefix i /\ cnt < 128.
Proof. exact emit_count_apitem. Qed.
Print Assumptions C17_emit_count_apl.

(* Encoder::rr_edns_ecs: code 8, length 4 + count, family, source, scope, count address octets with
   count = min(max(source, scope)/8 + 1, size) *)
Theorem C17_emit_count_ecs : forall (e : ecs) (st : est), ecs_inv e ->
  let cnt := N.min (N.max (e_src e) (e_scope e) / 8 + 1) (addr_size (e_addr e)) in
  enc_ecs e st =
    EOk tt {| e_buf := e_buf st ++ u16b 8 ++ u16b (4 + cnt) ++ u16b (a_fam (e_addr e))
                        ++ [e_src e mod 256] ++ [e_scope e mod 256] ++ takeN cnt (a_oct (e_addr e));
              e_idx := e_idx st; e_names := e_names st |} /\
  lenN (takeN cnt (a_oct (e_addr e))) = cnt /\
  e_src e mod 256 = e_src e /\ e_scope e mod 256 = e_scope e.
Proof. exact emit_count_ecs. Qed.
Print Assumptions C17_emit_count_ecs.

(* ---- round trip: the octets cut off are zero, so decoding the output returns the value itself ---- *)
Theorem C17_emit_roundtrip : forall (i : apitem) (st : est), apitem_inv i ->
  exists w : bytes,
    enc_apitem i st = EOk tt {| e_buf := e_buf st ++ w; e_idx := e_idx st; e_names := e_names st |} /\
    forall (s : dst) (rest : bytes), dst_wf s -> d_rest s = w ++ rest ->
      exists s', rr_apl_apitem s = DOk i s' /\ d_rest s' = rest /\ d_off s' = d_off s + lenN w /\
                 d_len s' = d_len s.
Proof. exact emit_roundtrip. Qed.
Print Assumptions C17_emit_roundtrip.

Theorem C17_emit_roundtrip_ecs : forall (e : ecs) (st : est), ecs_inv e ->
  let cnt := emit_count (ecs_prefix e) (addr_size (e_addr e)) in
  enc_ecs e st = EOk tt {| e_buf := e_buf st ++ u16b 8 ++ u16b (4 + cnt) ++ ecs_body e;
                           e_idx := e_idx st; e_names := e_names st |} /\
  lenN (ecs_body e) = 4 + cnt /\
  forall s : dst, dst_wf s -> d_rest s = ecs_body e ->
    rr_edns_ecs s = DOk e {| d_rest := []; d_off := d_off s + (4 + cnt); d_len := d_len s;
                             d_cost := d_cost s + (4 + cnt) |}.
Proof. exact emit_roundtrip_ecs_wire. Qed.
Print Assumptions C17_emit_roundtrip_ecs.

(* ---- the RFC counts are refuted ---- *)

(* rfc3123_count is "index of the last non-zero octet + 1" *)
Theorem C17_rfc3123_count_def : forall l : bytes,
  rfc3123_count l <= lenN l /\
  forallb (N.eqb 0) (dropN (rfc3123_count l) l) = true /\
  (rfc3123_count l = 0 \/ exists x, nthN (rfc3123_count l - 1) l = Some x /\ x <> 0).
Proof. exact rfc3123_count_spec. Qed.
Print Assumptions C17_rfc3123_count_def.

Theorem C17_emit_rfc_refuted :
  (apitem_inv w_apl24 /\
   enc_apitem w_apl24 e_init = EOk tt {| e_buf := [0; 1; 24; 4; 10; 0; 0; 0]; e_idx := []; e_names := [] |} /\
   apl_emitted w_apl24 = Some 4 /\ rfc3123_count (a_oct (i_addr w_apl24)) = 1) /\
  (apitem_inv w_apl0 /\
   enc_apitem w_apl0 e_init = EOk tt {| e_buf := [0; 1; 0; 1; 0]; e_idx := []; e_names := [] |} /\
   apl_emitted w_apl0 = Some 1 /\ rfc3123_count (a_oct (i_addr w_apl0)) = 0) /\
  (ecs_inv w_ecs24 /\
   enc_ecs w_ecs24 e_init =
     EOk tt {| e_buf := [0; 8; 0; 8; 0; 1; 24; 0; 10; 0; 0; 0]; e_idx := []; e_names := [] |} /\
   ecs_emitted w_ecs24 = Some 4 /\ rfc7871_count (e_src w_ecs24) = 3) /\
  (ecs_inv w_ecs0 /\
   enc_ecs w_ecs0 e_init = EOk tt {| e_buf := [0; 8; 0; 5; 0; 1; 0; 0; 0]; e_idx := []; e_names := [] |} /\
   ecs_emitted w_ecs0 = Some 1 /\ rfc7871_count (e_src w_ecs0) = 0) /\
  (ecs_inv w_ecs_scope /\ ecs_emitted w_ecs_scope = Some 4 /\ rfc7871_count (e_src w_ecs_scope) = 1) /\
  ~ (forall i, apitem_inv i -> apl_emitted i = Some (rfc3123_count (a_oct (i_addr i)))) /\
  ~ (forall e, ecs_inv e -> ecs_emitted e = Some (rfc7871_count (e_src e))).
Proof. exact emit_rfc_refuted. Qed.
Print Assumptions C17_emit_rfc_refuted.

(* the witnesses, spelled out *)
Example C17_witnesses :
  w_apl24 = {| i_prefix := 24; i_neg := false; i_addr := {| a_fam := 1; a_oct := [10; 0; 0; 0] |} |} /\
  w_apl0 = {| i_prefix := 0; i_neg := false; i_addr := {| a_fam := 1; a_oct := [0; 0; 0; 0] |} |} /\
  w_ecs24 = {| e_src := 24; e_scope := 0; e_addr := {| a_fam := 1; a_oct := [10; 0; 0; 0] |} |} /\
  w_ecs0 = {| e_src := 0; e_scope := 0; e_addr := {| a_fam := 1; a_oct := [0; 0; 0; 0] |} |} /\
  w_ecs_scope = {| e_src := 8; e_scope := 24; e_addr := {| a_fam := 1; a_oct := [10; 0; 0; 0] |} |}.
Proof. split; [|split; [|split; [|split]]]; reflexivity. Qed.

(* ECS in general (scope <= source <= 8*size): the emitted count is the RFC 7871 count or one more,
   and it IS the RFC count exactly when the source prefix is not a multiple of 8 or is the full size *)
Theorem C17_emit_rfc_ecs_general : forall src scope size : N, scope <= src -> src <= 8 * size ->
  (rfc7871_count src <= emit_count (N.max src scope) size <= rfc7871_count src + 1) /\
  (emit_count (N.max src scope) size = rfc7871_count src <-> src mod 8 <> 0 \/ src = 8 * size).
Proof. exact ecs_count_vs_rfc. Qed.
Print Assumptions C17_emit_rfc_ecs_general.

(* APL in general: never fewer octets than RFC 3123 mandates (no non-zero octet is cut off) *)
Theorem C17_emit_rfc_apl_general : forall i : apitem, apitem_inv i ->
  rfc3123_count (a_oct (i_addr i)) <= emit_count (i_prefix i) (addr_size (i_addr i)).
Proof. exact apl_count_ge_rfc. Qed.
Print Assumptions C17_emit_rfc_apl_general.

(* ---- complete finite grids (by computation) ---- *)

(* IPv4: ALL prefix octets 0..=255 x address-octet counts 0..=5 x both negation flags x 67 address
   patterns (zero, all ones, the 32 single-bit addresses, the 33 prefix masks /0../32), each cut to the
   first k octets: the decoder's verdict and value equal the reference "k <= 4, p <= 32, no bit at
   position >= p of the zero-filled address"; Ok or Err only; an accepted item consumes 4 + k octets *)
Theorem C17_grid_ipv4 : forall (p k : N) (neg : bool) (pat : bytes),
  p < 256 -> k <= 5 -> In pat patterns4 ->
  let r := rr_apl_apitem (mk_main (grid_input 1 p k neg pat)) in
  verdict r = grid_expect 1 p k neg pat /\ clean r = true /\ consumed r (4 + k) = true.
Proof. exact grid_ipv4. Qed.
Print Assumptions C17_grid_ipv4.

(* IPv6: ALL prefix octets 0..=255 x counts 0..=17 x 259 patterns (zero, all ones, 128 single-bit
   addresses, 129 prefix masks); negation flag clear *)
Theorem C17_grid_ipv6 : forall (p k : N) (pat : bytes),
  p < 256 -> k <= 17 -> In pat patterns6 ->
  let r := rr_apl_apitem (mk_main (grid_input 2 p k false pat)) in
  verdict r = grid_expect 2 p k false pat /\ clean r = true /\ consumed r (4 + k) = true.
Proof. exact grid_ipv6. Qed.
Print Assumptions C17_grid_ipv6.

(* the grid vocabulary, and the reference verdict is the bit-level property of C12 *)
Theorem C17_grid_defs :
  (forall (fam p k : N) (neg : bool) (pat : bytes),
     grid_input fam p k neg pat = [0; fam; p; negbit neg + k] ++ takeN k (pat ++ [0])) /\
  (forall (fam p k : N) (neg : bool) (pat : bytes),
     let filled := takeN k (pat ++ [0]) ++ zeros (N.to_nat (fam_size fam - k)) in
     grid_expect fam p k neg pat =
       if ref_ok (fam_size fam) p k filled
       then Some {| i_prefix := p; i_neg := neg; i_addr := {| a_fam := fam; a_oct := filled |} |}
       else None) /\
  (forall r : dres apitem, verdict r = match r with DOk i _ => Some i | _ => None end) /\
  (forall r : dres apitem, clean r = match r with DOk _ _ | DErr _ _ => true | _ => false end) /\
  (forall (a : addr) (p k : N), addr_wf a ->
     (ref_ok (addr_size a) p k (a_oct a) = true <-> k <= addr_size a /\ prefix_ok a p)) /\
  (forall (size p k : N) (oct : bytes), size < k -> ref_ok size p k oct = false) /\
  length patterns4 = 67%nat /\ length patterns6 = 259%nat.
Proof.
  split; [reflexivity|]. split; [reflexivity|]. split; [reflexivity|]. split; [reflexivity|].
  split; [exact ref_ok_prefix_ok|]. split; [exact ref_ok_too_long|].
  split; [exact (proj1 grid_sizes)|exact (proj1 (proj2 grid_sizes))].
Qed.
Print Assumptions C17_grid_defs.

(* ---- examples ---- *)

(* an APL item with no address octets and prefix 0 (RFC 3123: 0.0.0.0/0) is accepted *)
Example C17_ex_empty_address :
  rr_apl_apitem (mk_main [0; 1; 0; 0]) =
    DOk {| i_prefix := 0; i_neg := false; i_addr := {| a_fam := 1; a_oct := [0; 0; 0; 0] |} |}
        {| d_rest := []; d_off := 4; d_len := 4; d_cost := 4 |}.
Proof. vm_compute. reflexivity. Qed.

(* !192.0.2.0/24 in its shortest form (three octets), followed by another octet *)
Example C17_ex_short_form :
  rr_apl_apitem (mk_main [0; 1; 24; 131; 192; 0; 2; 77]) =
    DOk {| i_prefix := 24; i_neg := true; i_addr := {| a_fam := 1; a_oct := [192; 0; 2; 0] |} |}
        {| d_rest := [77]; d_off := 7; d_len := 8; d_cost := 10 |}.
Proof. vm_compute. reflexivity. Qed.

(* five address octets for IPv4 are rejected *)
Example C17_ex_too_long :
  rr_apl_apitem (mk_main [0; 1; 32; 5; 1; 2; 3; 4; 5]) = DErr (EEcsTooBigIpv4Address, [5]) 14.
Proof. vm_compute. reflexivity. Qed.

(* 192.0.2.1/24: a bit beyond the prefix *)
Example C17_ex_mask :
  rr_apl_apitem (mk_main [0; 1; 24; 4; 192; 0; 2; 1]) = DErr (EIpv4Mask, [24]) 12.
Proof. vm_compute. reflexivity. Qed.

(* prefix 33 for IPv4; family 3 *)
Example C17_ex_prefix_family :
  rr_apl_apitem (mk_main [0; 1; 33; 0]) = DErr (EIpv4Prefix, [33]) 4 /\
  rr_apl_apitem (mk_main [0; 3; 0; 0]) = DErr (EEcsAddressNumber, [3]) 2.
Proof. vm_compute. split; reflexivity. Qed.

(* ECS 192.0.2.0/24 with three (RFC form) and with four address octets: same value *)
Example C17_ex_ecs :
  rr_edns_ecs (mk_main [0; 1; 24; 0; 192; 0; 2]) =
    DOk {| e_src := 24; e_scope := 0; e_addr := {| a_fam := 1; a_oct := [192; 0; 2; 0] |} |}
        {| d_rest := []; d_off := 7; d_len := 7; d_cost := 7 |} /\
  rr_edns_ecs (mk_main [0; 1; 24; 0; 192; 0; 2; 0]) =
    DOk {| e_src := 24; e_scope := 0; e_addr := {| a_fam := 1; a_oct := [192; 0; 2; 0] |} |}
        {| d_rest := []; d_off := 8; d_len := 8; d_cost := 8 |}.
Proof. vm_compute. split; reflexivity. Qed.

(* output: !192.0.2.0/24 is written with FOUR address octets (RFC 3123: three);
   192.0.8.0/21 with three (here min(21/8 + 1, 4) = 3 happens to be the RFC count) *)
Example C17_ex_emit :
  enc_apitem {| i_prefix := 24; i_neg := true; i_addr := {| a_fam := 1; a_oct := [192; 0; 2; 0] |} |} e_init =
    EOk tt {| e_buf := [0; 1; 24; 132; 192; 0; 2; 0]; e_idx := []; e_names := [] |} /\
  enc_apitem {| i_prefix := 21; i_neg := false; i_addr := {| a_fam := 1; a_oct := [192; 0; 8; 0] |} |} e_init =
    EOk tt {| e_buf := [0; 1; 21; 3; 192; 0; 8]; e_idx := []; e_names := [] |}.
Proof. vm_compute. split; reflexivity. Qed.
