(* C08 — Encode reports an error instead of emitting an out-of-range message. *)
From DNS Require Import Model.Dec Model.Enc Spec.Wire
  Proofs.RtFields Proofs.RtRecord Proofs.RtMsg Proofs.C05 Proofs.OkApi Proofs.OkInv Proofs.OkDecodable.
From DNS Require Import Model.Dec Model.Enc Proofs.ListN Proofs.EncTotal Proofs.EncLimits
                        Proofs.EncStructure Proofs.EncTyped Proofs.EncBytes.
Local Open Scope N_scope.

(* Vocabulary:
   Panic x / OutOfFuel       outcomes of the entry points (erun maps the model's EIllTyped, "a field
                             value whose shape does not fit its field kind", to OutOfFuel)
   ext m                     from EVERY state, m does not panic and on success only appends octets
   nopanic m                 the same with a (trivial) state invariant e_ok and buffer monotonicity
   rr_typed r                r_type is in the encoder table, the RDATA constructor is the one the writer
                             expects, a field record has one value per value-carrying field of the
                             DECODE table, in order, with the constructor the field kind demands
   hdr m                     the 12 header octets: id, two flag octets, the four counts as u16b (lenN _)
   sput s b                  the state s with b appended to the buffer
   rr_shape / tlv_shape      name ++ type ++ class ++ ttl ++ u16b (lenN rd) ++ rd  with lenN rd <= 65535;
                             u16b code ++ u16b (lenN v) ++ v  with lenN v <= 65535
   dns_bytes_ok m            every octet of every raw byte string in m (labels, strings, byte vectors,
                             address octets, cookies, SvcParam data) is < 256 *)

(* ---- 1. no panic: ALL values, no well-formedness hypothesis ---- *)
Theorem C08_no_panic : forall (m : dns) (x : site), enc_Dns m <> Panic x.
Proof. exact enc_Dns_no_panic. Qed.
Print Assumptions C08_no_panic.

Theorem C08_no_panic_RR : forall (r : rr) (x : site), enc_RR r <> Panic x.
Proof. exact enc_RR_no_panic. Qed.
Print Assumptions C08_no_panic_RR.

Theorem C08_no_panic_Question : forall (q : question) (x : site), enc_Question q <> Panic x.
Proof. exact enc_Question_no_panic. Qed.
Print Assumptions C08_no_panic_Question.

Theorem C08_no_panic_Flags : forall (f : flags) (x : site), enc_Flags f <> Panic x.
Proof. exact enc_Flags_no_panic. Qed.
Print Assumptions C08_no_panic_Flags.

Theorem C08_no_panic_DomainName : forall (n : name) (x : site), enc_DomainName n <> Panic x.
Proof. exact enc_DomainName_no_panic. Qed.
Print Assumptions C08_no_panic_DomainName.

(* from every encoder state, not only the empty one: no panic, the buffer only grows *)
Theorem C08_no_panic_any_state : forall (m : dns) (s : est), e_ok s ->
  match enc_dns m s with
  | EPanic _ => False
  | EOk _ s' => e_ok s' /\ lenN (e_buf s) <= lenN (e_buf s')
  | _ => True
  end.
Proof. exact enc_dns_nopanic. Qed.
Print Assumptions C08_no_panic_any_state.

Theorem C08_no_panic_rr_any_state : forall (r : rr) (s : est),
  match enc_rr r s with
  | EOk _ s' => exists w, e_buf s' = e_buf s ++ w /\ True
  | EPanic _ => False
  | _ => True
  end.
Proof. exact ext_enc_rr. Qed.
Print Assumptions C08_no_panic_rr_any_state.

(* the address writer of ECS and APL (the octets up to the last non-zero one, at least `minimum`; it
   replaced the prefix loop and its `prefix_length -= 8`) has no arithmetic that can fail: from every
   state it is a plain append of some octets *)
Theorem C08_prefix_loop_safe : forall (a : addr) (m : N),
  exists b : bytes, forall s : est, rr_address_with_length a m s = put b s.
Proof. exact rr_address_with_length_put. Qed.
Print Assumptions C08_prefix_loop_safe.

(* ---- 2. EIllTyped is unreachable for typed records ---- *)
Theorem C08_typed_no_illtyped : forall m : dns,
  Forall (fun r => rr_typed r = true) (m_an m) /\
  Forall (fun r => rr_typed r = true) (m_ns m) /\
  Forall (fun r => rr_typed r = true) (m_ar m) ->
  enc_Dns m <> OutOfFuel.
Proof. exact enc_Dns_typed. Qed.
Print Assumptions C08_typed_no_illtyped.

Theorem C08_typed_no_illtyped_RR : forall r : rr, rr_typed r = true -> enc_RR r <> OutOfFuel.
Proof. exact enc_RR_typed. Qed.
Print Assumptions C08_typed_no_illtyped_RR.

Theorem C08_typed_no_illtyped_Question : forall q : question, enc_Question q <> OutOfFuel.
Proof. exact enc_Question_typed. Qed.
Print Assumptions C08_typed_no_illtyped_Question.

Theorem C08_typed_no_illtyped_DomainName : forall n : name, enc_DomainName n <> OutOfFuel.
Proof. exact enc_DomainName_typed. Qed.
Print Assumptions C08_typed_no_illtyped_DomainName.

(* the table check: every field the encoder writes is a constant or is found by name among the
   decoder's value-carrying fields with the same value class *)
Theorem C08_tables_agree : forallb writer_ok enc_dispatch = true.
Proof. exact enc_table_typed. Qed.
Print Assumptions C08_tables_agree.

(* ---- 3. size and counts ---- *)
Theorem C08_size_limit : forall (m : dns) (b : bytes), enc_Dns m = Ok b -> lenN b <= 65535.
Proof. exact enc_Dns_size. Qed.
Print Assumptions C08_size_limit.

Theorem C08_counts_exact : forall (m : dns) (b : bytes), enc_Dns m = Ok b ->
  lenN (m_qd m) <= 65535 /\ lenN (m_an m) <= 65535 /\ lenN (m_ns m) <= 65535 /\ lenN (m_ar m) <= 65535 /\
  takeN 8 (dropN 4 b) =
    u16b (lenN (m_qd m)) ++ u16b (lenN (m_an m)) ++ u16b (lenN (m_ns m)) ++ u16b (lenN (m_ar m)).
Proof. exact enc_Dns_counts. Qed.
Print Assumptions C08_counts_exact.

(* the whole header is written first and never patched *)
Theorem C08_header_exact : forall (m : dns) (b : bytes), enc_Dns m = Ok b ->
  lenN (m_qd m) <= 65535 /\ lenN (m_an m) <= 65535 /\ lenN (m_ns m) <= 65535 /\ lenN (m_ar m) <= 65535 /\
  exists w, b = hdr m ++ w.
Proof. exact enc_Dns_header. Qed.
Print Assumptions C08_header_exact.

Theorem C08_count_field_injective : forall a b : N, a <= 65535 -> b <= 65535 -> u16b a = u16b b -> a = b.
Proof. exact u16b_inj. Qed.
Print Assumptions C08_count_field_injective.

(* ---- 4. unrepresentable values are errors ---- *)
(* (a) character strings *)
Theorem C08_oversize_is_error_string : forall s : bytes, 255 < lenN s ->
  forall st, estring s st = EErr (XString, [lenN s]).
Proof. exact estring_oversize. Qed.
Print Assumptions C08_oversize_is_error_string.

Theorem C08_string_exact : forall s : bytes, lenN s <= 255 ->
  forall st, estring s st = EOk tt (sput st (lenN s :: s)).
Proof. exact estring_ok. Qed.
Print Assumptions C08_string_exact.

Theorem C08_oversize_is_error_string_list : forall l : list bytes,
  Exists (fun s : bytes => 255 < lenN s) l ->
  forall st, exists k, emap estring l st = EErr (XString, [k]) /\ 255 < k.
Proof. exact emap_estring_oversize. Qed.
Print Assumptions C08_oversize_is_error_string_list.

(* (b) sections *)
Theorem C08_oversize_is_error_qd : forall m : dns, 65535 < lenN (m_qd m) ->
  enc_Dns m = Err (XLength, [lenN (m_qd m)]).
Proof. exact section_oversize_qd. Qed.
Print Assumptions C08_oversize_is_error_qd.

Theorem C08_oversize_is_error_an : forall m : dns, lenN (m_qd m) <= 65535 -> 65535 < lenN (m_an m) ->
  enc_Dns m = Err (XLength, [lenN (m_an m)]).
Proof. exact section_oversize_an. Qed.
Print Assumptions C08_oversize_is_error_an.

Theorem C08_oversize_is_error_ns : forall m : dns, lenN (m_qd m) <= 65535 -> lenN (m_an m) <= 65535 ->
  65535 < lenN (m_ns m) -> enc_Dns m = Err (XLength, [lenN (m_ns m)]).
Proof. exact section_oversize_ns. Qed.
Print Assumptions C08_oversize_is_error_ns.

Theorem C08_oversize_is_error_ar : forall m : dns, lenN (m_qd m) <= 65535 -> lenN (m_an m) <= 65535 ->
  lenN (m_ns m) <= 65535 -> 65535 < lenN (m_ar m) -> enc_Dns m = Err (XLength, [lenN (m_ar m)]).
Proof. exact section_oversize_ar. Qed.
Print Assumptions C08_oversize_is_error_ar.

Theorem C08_oversize_is_error_section : forall m : dns,
  65535 < lenN (m_qd m) \/ 65535 < lenN (m_an m) \/ 65535 < lenN (m_ns m) \/ 65535 < lenN (m_ar m) ->
  exists k, enc_Dns m = Err (XLength, [k]) /\ 65535 < k.
Proof. exact section_oversize_any. Qed.
Print Assumptions C08_oversize_is_error_section.

(* (c) 16-bit length slots: the slot receives exactly the number of octets appended since it was
   created, or the encoder fails with XLength *)
Theorem C08_length_slot : forall (body : EM unit) (s s1 : est) (w : bytes),
  body (sput s [0; 0]) = EOk tt s1 -> e_buf s1 = e_buf s ++ [0; 0] ++ w ->
  (li <-- create_length_index ;; _ <-- body ;; set_length_index li) s =
  if lenN w <? POW16
  then EOk tt {| e_buf := e_buf s ++ u16b (lenN w) ++ w; e_idx := e_idx s1; e_names := e_names s1 |}
  else EErr (XLength, [lenN w]).
Proof. exact length_slot_spec. Qed.
Print Assumptions C08_length_slot.

Theorem C08_oversize_is_error_length : forall (body : EM unit) (s s1 : est) (w : bytes),
  body (sput s [0; 0]) = EOk tt s1 -> e_buf s1 = e_buf s ++ [0; 0] ++ w -> 65535 < lenN w ->
  (li <-- create_length_index ;; _ <-- body ;; set_length_index li) s = EErr (XLength, [lenN w]).
Proof. exact length_slot_overflow. Qed.
Print Assumptions C08_oversize_is_error_length.

Theorem C08_rdlength_exact : forall (r : rr) (s s' : est), enc_rr r s = EOk tt s' ->
  exists nm cls ttl rd,
    e_buf s' = e_buf s ++ nm ++ u16b (r_type r) ++ u16b cls ++ u32b ttl ++ u16b (lenN rd) ++ rd /\
    lenN rd <= 65535.
Proof. exact enc_rr_rdlength. Qed.
Print Assumptions C08_rdlength_exact.

(* the whole message: header, one block per question, one block per record; every record block is
   name ++ type ++ class ++ ttl ++ u16b (lenN rd) ++ rd with lenN rd <= 65535 *)
Theorem C08_message_structure : forall (m : dns) (b : bytes), enc_Dns m = Ok b ->
  exists wq wan wns war,
    b = hdr m ++ concat wq ++ concat wan ++ concat wns ++ concat war /\
    Forall2 (fun q w => exists nm, w = nm ++ u16b (q_type q) ++ u16b (q_class q)) (m_qd m) wq /\
    Forall2 (fun r w => rr_shape (r_type r) w) (m_an m) wan /\
    Forall2 (fun r w => rr_shape (r_type r) w) (m_ns m) wns /\
    Forall2 (fun r w => rr_shape (r_type r) w) (m_ar m) war.
Proof. exact enc_Dns_structure. Qed.
Print Assumptions C08_message_structure.

Theorem C08_option_length_exact : forall (o : ednsopt) (s : est),
  match enc_edns_option o s with
  | EOk _ s' => exists w, e_buf s' = e_buf s ++ w /\
                          exists v, w = u16b (opt_code o) ++ u16b (lenN v) ++ v /\ lenN v <= 65535
  | EPanic _ => False
  | _ => True
  end.
Proof. exact enc_edns_option_framed. Qed.
Print Assumptions C08_option_length_exact.

Theorem C08_svcparam_length_exact : forall (p : svcparam) (s : est),
  match enc_service_parameter p s with
  | EOk _ s' => exists w, e_buf s' = e_buf s ++ w /\
                          exists v, w = u16b (param_key p) ++ u16b (lenN v) ++ v /\ lenN v <= 65535
  | EPanic _ => False
  | _ => True
  end.
Proof. exact enc_service_parameter_framed. Qed.
Print Assumptions C08_svcparam_length_exact.

Theorem C08_apl_length_exact : forall (i : apitem) (s s' : est), enc_apitem i s = EOk tt s' ->
  exists b, e_buf s' = e_buf s ++ u16b (a_fam (i_addr i)) ++ u8b (i_prefix i) ++
                       u8b (if i_neg i then N.lor (lenN b) 128 else lenN b) ++ b /\ lenN b < 128.
Proof. exact enc_apitem_exact. Qed.
Print Assumptions C08_apl_length_exact.

(* (d) ECH *)
Theorem C08_oversize_is_error_ech : forall (cl : bytes) (s : est), 65535 < lenN cl ->
  enc_service_parameter (PEch cl) s = EErr (XLength, [lenN cl]).
Proof. exact ech_oversize. Qed.
Print Assumptions C08_oversize_is_error_ech.

(* pointer offsets: at most 16383, otherwise XCompression *)
Theorem C08_pointer_offset : forall (n : name) (s : est) (r : N) (s' : est),
  compress n s = EOk (Some r) s' ->
  exists i, i <= 16383 /\ e_buf s' = e_buf s ++ u16b (N.lor ENC_COMPRESSION_BITS i) /\
            exists h l, u16b (N.lor ENC_COMPRESSION_BITS i) = [h; l] /\ 192 <= h /\ (h - 192) * 256 + l = i.
Proof. exact compress_pointer. Qed.
Print Assumptions C08_pointer_offset.

Theorem C08_oversize_is_error_pointer : forall (n : name) (s : est) (i r : N),
  idx_lookup n (e_idx s) = Some (i, r) -> 16383 < i -> compress n s = EErr (XCompression, [i]).
Proof. exact compress_offset_error. Qed.
Print Assumptions C08_oversize_is_error_pointer.

(* ---- 5. the output is a sequence of octets ---- *)
Theorem C08_output_bytes : forall (m : dns) (b : bytes), dns_bytes_ok m -> enc_Dns m = Ok b -> bytes_ok b.
Proof. exact enc_Dns_bytes_ok. Qed.
Print Assumptions C08_output_bytes.

Theorem C08_output_bytes_RR : forall (r : rr) (b : bytes), rr_bytes_ok r -> enc_RR r = Ok b -> bytes_ok b.
Proof. exact enc_RR_bytes_ok. Qed.
Print Assumptions C08_output_bytes_RR.

(* ---- examples ---- *)
Definition ex_flags (rd cd : bool) (rcode : N) : flags :=
  {| f_qr := false; f_opcode := 0; f_aa := false; f_tc := false; f_rd := rd;
     f_ra := false; f_ad := false; f_cd := cd; f_rcode := rcode |}.

(* HINFO with a 256-octet cpu string *)
Example C08_hinfo_oversize_string :
  enc_RR {| r_type := 13; r_name := []; r_class := 1; r_ttl := 0;
            r_data := RFields [VBytes (zeros (N.to_nat 256)); VBytes []] |} = Err (XString, [256]).
Proof. vm_compute. reflexivity. Qed.

(* a section count of 65536 *)
Example C08_count_65536 : erun (enc_count (zeros (N.to_nat 65536))) = Err (XLength, [65536]).
Proof. vm_compute. reflexivity. Qed.

(* query for "a." with one compressed A answer *)
Example C08_small_message :
  enc_Dns {| m_id := 4660; m_flags := ex_flags true false 0;
             m_qd := [{| q_name := [[97]]; q_type := 1; q_class := 1 |}];
             m_an := [{| r_type := 1; r_name := [[97]]; r_class := 1; r_ttl := 60;
                         r_data := RFields [VN 167772161] |}];
             m_ns := []; m_ar := [] |}
  = Ok [18; 52; 1; 0; 0; 1; 0; 1; 0; 0; 0; 0; 1; 97; 0; 0; 1; 0; 1;
        192; 12; 0; 1; 0; 1; 0; 0; 0; 60; 0; 4; 10; 0; 0; 1].
Proof. vm_compute. reflexivity. Qed.

(* typing is decidable and not vacuous; an ill-shaped record is what EIllTyped stands for *)
Example C08_typed_example :
  rr_typed {| r_type := 48; r_name := []; r_class := 1; r_ttl := 0;
              r_data := RFields [VN 256; VN 8; VBytes [1; 2]] |} = true /\
  rr_typed {| r_type := 13; r_name := []; r_class := 1; r_ttl := 0; r_data := RFields [VBytes []] |} = false /\
  enc_RR {| r_type := 13; r_name := []; r_class := 1; r_ttl := 0; r_data := RFields [VBytes []] |} = OutOfFuel.
Proof. vm_compute. split; [reflexivity|]. split; reflexivity. Qed.

(* KNOWN FINDING KF4: RCode BADVERS (16) does not fit the 4-bit header field; the encoder does not
   mask it and sets bit 4 of the second flag octet, which is the CD flag *)
Example C08_known_rcode_overflow :
  enc_Flags (ex_flags false false 16) = Ok [0; 16] /\
  enc_Flags (ex_flags false false 16) = enc_Flags (ex_flags false true 0).
Proof. vm_compute. split; reflexivity. Qed.

(* NOTE (scope): the theorems above assume nothing about names.  A label of 64..255 octets is not
   constructible through the public API (Label::try_from rejects it; see name_ok in C06); the
   encoder itself would emit it with a length octet >= 64.  Labels above 255 octets are XString. *)
Example C08_note_unvalidated_label :
  (exists rest, enc_DomainName [zeros (N.to_nat 64)] = Ok (64 :: rest)) /\
  enc_DomainName [zeros (N.to_nat 256)] = Err (XString, [256]).
Proof. split; [eexists; vm_compute; reflexivity|vm_compute; reflexivity]. Qed.

(* ------------------------------------------------------------------------------------------
   okdec: for API-constructible values outside the known-finding classes, Ok means decodable to the same value *)
(* C08, last clause — "A value that cannot be represented (oversized string, RDATA, option, section or
   message) yields an error, never a message that decodes to something else or not at all."

   Read as: whenever the encoder answers Ok for a value that the Rust types allow (api_ok) and that is
   not in one of the four known defect classes (known_class = KF4 \/ KF5 \/ KF6 \/ KF7), the output
   decodes — by the library's decoder AND by the independent reference decoder — to that value (up to
   what name compression may change).  So every other outcome for such a value is an error.

   Vocabulary (Proofs/OkApi.v; each clause there names the Rust type that provides it):
     api_ok m        id: u16; Opcode / RCode members of their enums (RCode may be 16..23); every question:
                     DomainName, QType, QClass; every record api_rr; sections of ANY length
     api_rr r        by dispatch entry:
                     field records: owner DomainName, TYPE of the variant, ttl u32, Class (class 1 where the
                       struct has no class field), one value per struct field of the Rust type of that field
                       (api_fv: integer widths, DomainName, String = valid UTF-8 of ANY length, Vec<u8>,
                       Ipv4Addr/Ipv6Addr, enum members, PSDNAddress/ISDNAddress digits, SA hex digits,
                       Tag non-empty lower-case alphanumeric, NonEmptyVec<String>, DNSKEY flag bits;
                       GPOS coordinates: just Strings)
                     OPT: u16/u8/u8/bool, options: ECS accepted by check_prefix (ECS::new + setters, C12),
                       Cookie [u8;8] + Option<8..=32 octets> (Cookie::new), Padding(u16); canonical unused fields
                     APL: items accepted by check_prefix (APItem::new), prefix u8
                     SVCB/HTTPS: priority u16, target DomainName, parameters of their Rust types (alpn ids
                       Strings of ANY length, ech Vec<u8> of ANY length, PRIVATE number ANY u16) forming a
                       set with strictly increasing keys (BTreeSet with key-only Ord); NO relation between
                       priority and parameters
     known_class m   kf4 m: 16 <= rcode
                     kf5_rr r: type 27 and one of the three coordinate strings is empty
                     kf6_rr r: a PRIVATE parameter whose number is one of 0..=6, 65535
                     kf7_rr r: priority 0 with a non-empty parameter set
     dns_wf, dns_eqv, spec_Dns: as in Props/C05.v *)


(* ---- 1. the heart: what api_ok does not give and known_class does not exclude, the encoder enforced ---- *)
Theorem C08_ok_means_wf : forall (m : dns) (b : bytes),
  api_ok m = true -> known_class m = false -> enc_Dns m = Ok b -> dns_wf m = true.
Proof. exact ok_means_wf. Qed.
Print Assumptions C08_ok_means_wf.

(* ---- 2. Ok means decodable, to the same value, by both decoders ---- *)
Theorem C08_ok_means_decodable : forall (m : dns) (b : bytes),
  api_ok m = true -> known_class m = false -> enc_Dns m = Ok b ->
  (exists m' s, dec_Dns b = DOk m' s /\ dns_eqv m' m) /\
  (exists m', spec_Dns b = Some m' /\ dns_eqv m' m).
Proof. exact ok_means_decodable. Qed.
Print Assumptions C08_ok_means_decodable.

(* the same, contrapositive: an unrepresentable value is never Ok *)
Theorem C08_unrepresentable_is_not_ok : forall m : dns,
  api_ok m = true -> known_class m = false -> dns_wf m = false -> forall b, enc_Dns m <> Ok b.
Proof. exact unrepresentable_is_not_ok. Qed.
Print Assumptions C08_unrepresentable_is_not_ok.

(* ---- 3. element level: one record written from ANY encoder state ---- *)
Theorem C08_ok_means_wf_rr : forall (r : rr) (s s' : est),
  api_rr r = true -> known_rr r = false -> enc_rr r s = EOk tt s' -> rr_wf r = true.
Proof. exact rr_enforced. Qed.
Print Assumptions C08_ok_means_wf_rr.

(* error propagation: a loop that succeeded ran every element successfully *)
Theorem C08_emap_ok_inv : forall (A : Type) (f : A -> EM unit) (l : list A) (s s' : est),
  emap f l s = EOk tt s' -> Forall (fun x => exists s1 s2 : est, f x s1 = EOk tt s2) l.
Proof. exact @emap_ok_inv. Qed.
Print Assumptions C08_emap_ok_inv.

Theorem C08_ebind_ok_inv : forall (A B : Type) (m : EM A) (f : A -> EM B) (s : est) (b : B) (s' : est),
  ebind m f s = EOk b s' -> exists (a : A) (s1 : est), m s = EOk a s1 /\ f a s1 = EOk b s'.
Proof. exact @ebind_ok_inv. Qed.
Print Assumptions C08_ebind_ok_inv.

(* one field value: typed, written, not an empty GPOS string ==> what the decoder demands *)
Theorem C08_ok_means_wf_field : forall (k : fk) (v : fv) (s s' : est),
  api_fv k v = true -> gpos_fv k v = true -> write_field k (Some v) s = EOk tt s' -> fv_wf k v = true.
Proof. exact fv_enforced. Qed.
Print Assumptions C08_ok_means_wf_field.

(* ---- 4. the exclusions are necessary: one typed witness per known class ---- *)
(* KF4: RCode BADVERS is written into the CD bit; the output decodes to ANOTHER value (cd set, NoError) *)
Example C08_known_refuted_kf4 :
  api_ok w_kf4 = true /\ known_class w_kf4 = true /\
  enc_Dns w_kf4 = Ok [0; 1; 128; 16; 0; 0; 0; 0; 0; 0; 0; 0] /\
  (exists s, dec_Dns [0; 1; 128; 16; 0; 0; 0; 0; 0; 0; 0; 0] =
             DOk {| m_id := 1;
                    m_flags := {| f_qr := true; f_opcode := 0; f_aa := false; f_tc := false; f_rd := false;
                                  f_ra := false; f_ad := false; f_cd := true; f_rcode := 0 |};
                    m_qd := []; m_an := []; m_ns := []; m_ar := [] |} s) /\
  ~ dns_eqv {| m_id := 1;
               m_flags := {| f_qr := true; f_opcode := 0; f_aa := false; f_tc := false; f_rd := false;
                             f_ra := false; f_ad := false; f_cd := true; f_rcode := 0 |};
               m_qd := []; m_an := []; m_ns := []; m_ar := [] |} w_kf4.
Proof. exact known_refuted_kf4. Qed.
Print Assumptions C08_known_refuted_kf4.

(* KF5: GPOS with an empty longitude: Ok, and the output does not decode at all *)
Example C08_known_refuted_kf5 :
  api_ok w_kf5 = true /\ known_class w_kf5 = true /\
  enc_Dns w_kf5 = Ok [0; 1; 128; 0; 0; 0; 0; 1; 0; 0; 0; 0; 1; 97; 0; 0; 27; 0; 1; 0;
                      0; 0; 0; 0; 5; 0; 1; 49; 1; 50] /\
  dec_Dns [0; 1; 128; 0; 0; 0; 0; 1; 0; 0; 0; 0; 1; 97; 0; 0; 27; 0; 1; 0;
           0; 0; 0; 0; 5; 0; 1; 49; 1; 50] = DErr (EGPOS, []) 31.
Proof. exact known_refuted_kf5. Qed.
Print Assumptions C08_known_refuted_kf5.

(* KF6: PRIVATE { number: 3, [1, 187] } decodes to PORT { 443 } *)
Example C08_known_refuted_kf6 :
  api_ok w_kf6 = true /\ known_class w_kf6 = true /\
  enc_Dns w_kf6 = Ok [0; 1; 128; 0; 0; 0; 0; 1; 0; 0; 0; 0; 1; 97; 0; 0; 64; 0; 1; 0;
                      0; 0; 0; 0; 9; 0; 1; 0; 0; 3; 0; 2; 1; 187] /\
  (exists s, dec_Dns [0; 1; 128; 0; 0; 0; 0; 1; 0; 0; 0; 0; 1; 97; 0; 0; 64; 0; 1; 0;
                      0; 0; 0; 0; 9; 0; 1; 0; 0; 3; 0; 2; 1; 187] =
             DOk (w_msg 0 [w_svcb (RSvcb 1 [] [PPort 443])]) s) /\
  ~ dns_eqv (w_msg 0 [w_svcb (RSvcb 1 [] [PPort 443])]) w_kf6.
Proof. exact known_refuted_kf6. Qed.
Print Assumptions C08_known_refuted_kf6.

(* KF6: PRIVATE { number: 3, [1] } does not decode at all *)
Example C08_known_refuted_kf6b :
  api_ok w_kf6b = true /\ known_class w_kf6b = true /\
  enc_Dns w_kf6b = Ok [0; 1; 128; 0; 0; 0; 0; 1; 0; 0; 0; 0; 1; 97; 0; 0; 64; 0; 1; 0;
                       0; 0; 0; 0; 8; 0; 1; 0; 0; 3; 0; 1; 1] /\
  dec_Dns [0; 1; 128; 0; 0; 0; 0; 1; 0; 0; 0; 0; 1; 97; 0; 0; 64; 0; 1; 0;
           0; 0; 0; 0; 8; 0; 1; 0; 0; 3; 0; 1; 1] = DErr (ENotEnoughBytes, [1; 2]) 41.
Proof. exact known_refuted_kf6b. Qed.
Print Assumptions C08_known_refuted_kf6b.

(* KF7: alias form with PORT { 443 }: the parameter is dropped, the output decodes to the record without it *)
Example C08_known_refuted_kf7 :
  api_ok w_kf7 = true /\ known_class w_kf7 = true /\
  enc_Dns w_kf7 = Ok [0; 1; 128; 0; 0; 0; 0; 1; 0; 0; 0; 0; 1; 97; 0; 0; 64; 0; 1; 0;
                      0; 0; 0; 0; 5; 0; 0; 1; 98; 0] /\
  (exists s, dec_Dns [0; 1; 128; 0; 0; 0; 0; 1; 0; 0; 0; 0; 1; 97; 0; 0; 64; 0; 1; 0;
                      0; 0; 0; 0; 5; 0; 0; 1; 98; 0] =
             DOk (w_msg 0 [w_svcb (RSvcb 0 [[98]] [])]) s) /\
  ~ dns_eqv (w_msg 0 [w_svcb (RSvcb 0 [[98]] [])]) w_kf7.
Proof. exact known_refuted_kf7. Qed.
Print Assumptions C08_known_refuted_kf7.

(* every witness is in exactly ONE class *)
Example C08_known_witnesses_separate :
  (kf4 w_kf4 = true /\ existsb known_rr (m_an w_kf4) = false) /\
  (kf4 w_kf5 = false /\ forallb (fun r => kf5_rr r && negb (kf6_rr r) && negb (kf7_rr r)) (m_an w_kf5) = true) /\
  (kf4 w_kf6 = false /\ forallb (fun r => negb (kf5_rr r) && kf6_rr r && negb (kf7_rr r)) (m_an w_kf6) = true) /\
  (kf4 w_kf7 = false /\ forallb (fun r => negb (kf5_rr r) && negb (kf6_rr r) && kf7_rr r) (m_an w_kf7) = true).
Proof. exact known_witnesses_separate. Qed.
Print Assumptions C08_known_witnesses_separate.

(* ---- 5. not vacuous: a typed 256-octet string is an error; a typed ordinary value encodes ---- *)
Example C08_oversize_typed_is_error :
  api_ok w_long = true /\ known_class w_long = false /\ dns_wf w_long = false /\
  enc_Dns w_long = Err (XString, [256]).
Proof. exact oversize_typed_is_error. Qed.
Print Assumptions C08_oversize_typed_is_error.

Example C08_typed_good_encodes :
  api_ok w_good = true /\ known_class w_good = false /\ exists b, enc_Dns w_good = Ok b.
Proof. exact typed_good_encodes. Qed.
Print Assumptions C08_typed_good_encodes.
