(* C12 — validated value types can never hold an invalid value. *)
From DNS Require Import Model.Values Model.Dec Proofs.C12.

(* The prefix check (check_ipv4_addr / check_ipv6_addr) is exactly "prefix within the address size and
   no address bit at or beyond it", bit i counted from the most significant bit of octet 0; and the
   check cannot panic (index, shift, split_at) nor run out of fuel. *)
Theorem C12_prefix_check_is_bits : forall bits e1 e2 octets p,
  lenN octets * 8 = bits -> Forall (fun o => o < 256) octets ->
  (check_addr_bits bits e1 e2 octets p = Ok tt <->
     p <= bits /\
     forall i, p <= i < bits -> N.testbit (nth (N.to_nat (i / 8)) octets 0) (7 - i mod 8) = false) /\
  (forall s, check_addr_bits bits e1 e2 octets p <> Panic s) /\
  check_addr_bits bits e1 e2 octets p <> OutOfFuel.
Proof. exact check_addr_bits_spec. Qed.
Print Assumptions C12_prefix_check_is_bits.

(* Address::check_prefix on a Rust Address (Ipv4: 4 octets, Ipv6: 16 octets) *)
Theorem C12_check_prefix : forall a p, addr_wf a ->
  (check_prefix a p = Ok tt <-> prefix_ok a p) /\
  (forall s, check_prefix a p <> Panic s) /\
  check_prefix a p <> OutOfFuel.
Proof. exact check_prefix_spec. Qed.
Print Assumptions C12_check_prefix.

(* every successful constructor establishes the invariant *)
Theorem C12_constructors :
  (forall src scope a e, addr_wf a -> ecs_new src scope a = Ok e -> ecs_inv e) /\
  (forall p neg a i, addr_wf a -> apitem_new p neg a = Ok i -> apitem_inv i) /\
  (forall client o c, cookie_new client o = Ok c -> cookie_inv c) /\
  (forall s n, name_from_str s = Ok n -> name_inv n) /\
  name_inv [].
Proof. exact constructors_proof. Qed.
Print Assumptions C12_constructors.

(* every public call preserves the invariant *)
Theorem C12_steps :
  (forall s o, ecs_op_wf o -> opt_inv ecs_inv s -> opt_inv ecs_inv (fst (ecs_step s o))) /\
  (forall s o, apitem_op_wf o -> opt_inv apitem_inv s -> opt_inv apitem_inv (fst (apitem_step s o))) /\
  (forall s o, opt_inv cookie_inv s -> opt_inv cookie_inv (fst (cookie_step s o))) /\
  (forall s o, opt_inv name_inv s -> opt_inv name_inv (fst (name_step s o))).
Proof. exact steps_proof. Qed.
Print Assumptions C12_steps.

(* all finite sequences of public API calls (new / set_source_prefix_length / set_scope_prefix_length /
   set_address), starting from "no value yet"; address arguments are Rust Address values *)
Theorem C12_ecs_history : forall ops,
  Forall ecs_op_wf ops -> opt_inv ecs_inv (run ecs_step ops None).
Proof. exact ecs_history. Qed.
Print Assumptions C12_ecs_history.

(* new / set_prefix / set_address / assignment to the public field negation *)
Theorem C12_apitem_history : forall ops,
  Forall apitem_op_wf ops -> opt_inv apitem_inv (run apitem_step ops None).
Proof. exact apitem_history. Qed.
Print Assumptions C12_apitem_history.

(* new / set_server_cookie / assignment to the public field client_cookie *)
Theorem C12_cookie_history : forall ops, opt_inv cookie_inv (run cookie_step ops None).
Proof. exact cookie_history. Qed.
Print Assumptions C12_cookie_history.

(* Label::try_from / from_str accept exactly 1..=63 octets and cannot panic *)
Theorem C12_label : forall l,
  (check_label l = Ok tt <-> label_inv l) /\
  (kind (check_label l) = KOk \/ kind (check_label l) = KErr).
Proof. exact label_proof. Qed.
Print Assumptions C12_label.

(* default / from_str / (Label::try_from ; append_label) *)
Theorem C12_name_history : forall ops, opt_inv name_inv (run name_step ops None).
Proof. exact name_history. Qed.
Print Assumptions C12_name_history.

(* the same from any valid state (e.g. a decoded value) *)
Theorem C12_history_from :
  (forall s ops, opt_inv ecs_inv s -> Forall ecs_op_wf ops -> opt_inv ecs_inv (run ecs_step ops s)) /\
  (forall s ops, opt_inv apitem_inv s -> Forall apitem_op_wf ops -> opt_inv apitem_inv (run apitem_step ops s)) /\
  (forall s ops, opt_inv cookie_inv s -> opt_inv cookie_inv (run cookie_step ops s)) /\
  (forall s ops, opt_inv name_inv s -> opt_inv name_inv (run name_step ops s)).
Proof. exact history_from_proof. Qed.
Print Assumptions C12_history_from.

(* immutable validated strings and NonEmptyVec: the only way in is try_from *)
Theorem C12_strings :
  (forall s t, tag_try_from s = Ok t -> tag_inv t) /\
  (forall s t, psdn_try_from s = Ok t -> digits_inv t) /\
  (forall s t, isdn_try_from s = Ok t -> digits_inv t) /\
  (forall s t, sa_try_from s = Ok t -> sa_inv t) /\
  (forall (A : Type) (l t : list A), nonempty_try_from l = Ok t -> nonempty_inv t).
Proof. exact strings_proof. Qed.
Print Assumptions C12_strings.

(* ... and every valid value is accepted unchanged: the checks are not stricter than documented *)
Theorem C12_strings_complete :
  (forall t, tag_inv t -> tag_try_from t = Ok t) /\
  (forall t, digits_inv t -> psdn_try_from t = Ok t) /\
  (forall t, digits_inv t -> isdn_try_from t = Ok t) /\
  (forall t, sa_inv t -> sa_try_from t = Ok t) /\
  (forall (A : Type) (l : list A), nonempty_inv l -> nonempty_try_from l = Ok l).
Proof. exact strings_complete_proof. Qed.
Print Assumptions C12_strings_complete.

(* a call that does not report Ok (an Err, and a fortiori a panic) leaves the value exactly as it was *)
Theorem C12_error_preserves :
  (forall s o, snd (ecs_step s o) <> Ok tt -> fst (ecs_step s o) = s) /\
  (forall s o, snd (apitem_step s o) <> Ok tt -> fst (apitem_step s o) = s) /\
  (forall s o, snd (cookie_step s o) <> Ok tt -> fst (cookie_step s o) = s) /\
  (forall s o, snd (name_step s o) <> Ok tt -> fst (name_step s o) = s).
Proof. exact error_preserves_proof. Qed.
Print Assumptions C12_error_preserves.

Theorem C12_error_preserves_err :
  (forall s o e, snd (ecs_step s o) = Err e -> fst (ecs_step s o) = s) /\
  (forall s o e, snd (apitem_step s o) = Err e -> fst (apitem_step s o) = s) /\
  (forall s o e, snd (cookie_step s o) = Err e -> fst (cookie_step s o) = s) /\
  (forall s o e, snd (name_step s o) = Err e -> fst (name_step s o) = s).
Proof. exact error_preserves_err_proof. Qed.
Print Assumptions C12_error_preserves_err.

(* on valid states with Rust-typed arguments no public call of these types panics *)
Theorem C12_no_panic :
  (forall s o, ecs_op_wf o -> opt_inv ecs_inv s ->
     kind (snd (ecs_step s o)) = KOk \/ kind (snd (ecs_step s o)) = KErr) /\
  (forall s o, apitem_op_wf o -> opt_inv apitem_inv s ->
     kind (snd (apitem_step s o)) = KOk \/ kind (snd (apitem_step s o)) = KErr) /\
  (forall s o, kind (snd (cookie_step s o)) = KOk \/ kind (snd (cookie_step s o)) = KErr) /\
  (forall s o, kind (snd (name_step s o)) = KOk \/ kind (snd (name_step s o)) = KErr).
Proof. exact total_proof. Qed.
Print Assumptions C12_no_panic.

(* decoded values: the decoder reaches these types only through the constructors above *)
Theorem C12_decode :
  (forall s e s', bytes_ok (d_rest s) -> rr_edns_ecs s = DOk e s' -> ecs_inv e) /\
  (forall s i s', bytes_ok (d_rest s) -> rr_apl_apitem s = DOk i s' -> apitem_inv i) /\
  (forall s c s', rr_edns_cookie s = DOk c s' -> cookie_inv c) /\
  (forall main s nm s', domain_name main s = DOk nm s' -> name_inv nm).
Proof. exact decode_proof. Qed.
Print Assumptions C12_decode.

(* ---- non-vacuity ---- *)
Definition ex_v4 : addr := {| a_fam := 1; a_oct := [192; 0; 2; 128] |}.
Definition ex_v6 : addr := {| a_fam := 2; a_oct := [32; 1; 13; 184; 0; 0; 0; 0; 0; 0; 0; 0; 0; 0; 0; 0] |}.
Definition ex_v6b : addr := {| a_fam := 2; a_oct := [32; 1; 13; 128; 0; 0; 0; 0; 0; 0; 0; 0; 0; 0; 0; 0] |}.
Definition ex_v6c : addr := {| a_fam := 2; a_oct := [32; 1; 13; 184; 0; 0; 0; 0; 0; 0; 0; 0; 0; 0; 0; 1] |}.
Definition ex_ecs : ecs := {| e_src := 25; e_scope := 0; e_addr := ex_v4 |}.

(* 192.0.2.128/25 is accepted, the history reaches it, then /24 and /33 are refused and change nothing *)
Example C12_ecs_example :
  run ecs_step [EcsNew 32 0 ex_v4; EcsSetSrc 25] None = Some ex_ecs /\
  ecs_step (Some ex_ecs) (EcsSetSrc 24) = (Some ex_ecs, Err (EIpv4Mask, [24])) /\
  ecs_step (Some ex_ecs) (EcsSetScope 33) = (Some ex_ecs, Err (EIpv4Prefix, [33])) /\
  ecs_step (Some ex_ecs) (EcsSetAddr ex_v6) = (Some ex_ecs, Err (EIpv6Mask, [25])) /\
  ecs_step (Some ex_ecs) (EcsSetAddr ex_v6b) = (Some {| e_src := 25; e_scope := 0; e_addr := ex_v6b |}, Ok tt) /\
  ecs_step (Some ex_ecs) (EcsNew 24 0 ex_v4) = (Some ex_ecs, Err (EIpv4Mask, [24])).
Proof. vm_compute. repeat split. Qed.

(* the invariant is a real constraint: 192.0.2.128/24 violates it (bit 24 is set) *)
Example C12_ecs_inv_excludes : ~ ecs_inv {| e_src := 24; e_scope := 0; e_addr := ex_v4 |}.
Proof.
  intros [_ [_ H]]. specialize (H 24). cbn [e_addr e_src e_scope] in H.
  assert (addr_bit (a_oct ex_v4) 24 = true) as E by (vm_compute; reflexivity).
  rewrite H in E; [discriminate E|]. vm_compute. split; [discriminate|reflexivity].
Qed.

Definition ex_item : apitem := {| i_prefix := 32; i_neg := true; i_addr := ex_v6 |}.
Example C12_apitem_example :
  run apitem_step [ApNew 64 false ex_v6; ApSetPrefix 32; ApAssignNeg true] None = Some ex_item /\
  apitem_step (Some ex_item) (ApSetPrefix 16) = (Some ex_item, Err (EIpv6Mask, [16])) /\
  apitem_step (Some ex_item) (ApSetPrefix 129) = (Some ex_item, Err (EIpv6Prefix, [129])) /\
  apitem_step (Some ex_item) (ApSetAddr ex_v6c) = (Some ex_item, Err (EIpv6Mask, [32])) /\
  apitem_step (Some ex_item) (ApSetAddr ex_v4) = (Some {| i_prefix := 32; i_neg := true; i_addr := ex_v4 |}, Ok tt) /\
  apitem_step (Some ex_item) (ApSetPrefix 128) =
    (Some {| i_prefix := 128; i_neg := true; i_addr := ex_v6 |}, Ok tt).
Proof. vm_compute. repeat split. Qed.

Definition ex_client : bytes := [1; 2; 3; 4; 5; 6; 7; 8].
Definition ex_cookie : cookie := {| c_client := ex_client; c_server := Some [9; 9; 9; 9; 9; 9; 9; 9] |}.
Example C12_cookie_example :
  run cookie_step [CkNew ex_client None; CkSetServer (Some [9; 9; 9; 9; 9; 9; 9; 9])] None = Some ex_cookie /\
  cookie_step (Some ex_cookie) (CkSetServer (Some [1; 2; 3])) = (Some ex_cookie, Err (EServerCookieLength, [3])) /\
  cookie_step (Some ex_cookie) (CkSetServer (Some (repeat 0 33))) = (Some ex_cookie, Err (EServerCookieLength, [33])) /\
  fst (cookie_step (Some ex_cookie) (CkSetServer (Some (repeat 0 32)))) =
    Some {| c_client := ex_client; c_server := Some (repeat 0 32) |} /\
  cookie_step None (CkNew ex_client (Some [1])) = (None, Err (EServerCookieLength, [1])).
Proof. vm_compute. repeat split. Qed.

(* "a.bc." parses; a 64-octet label is refused; the 255-octet wire limit is reached exactly and not exceeded *)
Definition ex_name : name := [[97]; [98; 99]].
Definition ex_long : list name_op :=
  [NmDefault; NmAppend (repeat 97 63); NmAppend (repeat 98 63); NmAppend (repeat 99 63)].
Example C12_name_example :
  name_step None (NmFromStr [97; 46; 98; 99; 46]) = (Some ex_name, Ok tt) /\
  name_step (Some ex_name) (NmAppend (repeat 97 64)) = (Some ex_name, Err (ELabelLength, [64])) /\
  name_step (Some ex_name) (NmAppend []) = (Some ex_name, Err (ELabelEmpty, [])) /\
  name_step (Some ex_name) (NmFromStr [97; 46; 46; 98]) = (Some ex_name, Err (ELabelEmpty, [])) /\
  (exists n, run name_step (ex_long ++ [NmAppend (repeat 100 61)]) None = Some n /\ wire_len n = 255) /\
  (exists n, run name_step ex_long None = Some n /\
             name_step (Some n) (NmAppend (repeat 100 62)) = (Some n, Err (EDomainNameLength, [255]))).
Proof.
  split; [vm_compute; reflexivity|]. split; [vm_compute; reflexivity|].
  split; [vm_compute; reflexivity|]. split; [vm_compute; reflexivity|].
  split; eexists; split; vm_compute; reflexivity.
Qed.

Example C12_strings_example :
  tag_try_from [73; 115; 115; 117; 101] = Ok [105; 115; 115; 117; 101] /\      (* "Issue" -> "issue" *)
  tag_try_from [] = Err (ETagEmpty, []) /\
  tag_try_from [105; 45] = Err (ETagIllegalChar, []) /\
  psdn_try_from [51; 49; 49] = Ok [51; 49; 49] /\
  isdn_try_from [51; 65] = Err (EISDNIllegalChar, []) /\
  sa_try_from [48; 70; 97] = Ok [48; 70; 97] /\
  nonempty_try_from (@nil N) = Err (EEmptyVec, []).
Proof. vm_compute. repeat split. Qed.
