(* C18 — names inside RDATA of post-RFC-1035 types must not be compressed.
   The pinned library VIOLATES this at all nine call sites (known findings KF1-x, DESIGN.md 8.2); the
   theorems below (1) classify every name position of the generated writer tables, (2) refute the
   property with one machine-checked witness per site, (3) state what a literal writer guarantees. *)
From DNS Require Import Model.Dec Model.Enc Spec.Names Proofs.ListN Proofs.NameLayer Proofs.C18.
Local Open Scope N_scope.

(* every entry of the writer dispatch table that has a name field is either one of the eleven RFC 1035
   types or one of the eight listed later types; SVCB/HTTPS are the only special writers with a name;
   there is no name position outside these lists *)
Theorem C18_sites_classified : forallb site_classified enc_dispatch = true.
Proof. exact sites_classified_proof. Qed.
Print Assumptions C18_sites_classified.

Theorem C18_lists_present :
  listed_present rfc1035_name_types = true /\ listed_present post1035_name_types = true.
Proof. exact listed_present_proof. Qed.
Print Assumptions C18_lists_present.

(* REFUTATION (known findings KF1-RP .. KF1-SVCB): for each of the nine sites a message whose RDATA
   name shares the suffix "ex.org" with the question name is encoded with a compression pointer inside
   that RDATA name *)
Theorem C18_refuted :
  name_compressed_at (witness 17 (RFields [VName host; VName ([116] :: host)])) 2 = true /\
  name_compressed_at (witness 17 (RFields [VName host; VName ([116] :: host)])) 3 = true /\
  name_compressed_at (witness 18 (RFields [VN 1; VName host])) 2 = true /\
  name_compressed_at (witness 21 (RFields [VN 10; VName host])) 2 = true /\
  name_compressed_at (witness 26 (RFields [VN 10; VName host; VName ([120] :: host)])) 2 = true /\
  name_compressed_at (witness 26 (RFields [VN 10; VName host; VName ([120] :: host)])) 3 = true /\
  name_compressed_at (witness 36 (RFields [VN 10; VName host])) 2 = true /\
  name_compressed_at (witness 33 (RFields [VN 1; VN 2; VN 3; VName host])) 2 = true /\
  name_compressed_at (witness 39 (RFields [VName host])) 2 = true /\
  name_compressed_at (witness 107 (RFields [VN 10; VName host])) 2 = true /\
  name_compressed_at (witness 64 (RSvcb 1 host [PPort 443])) 2 = true /\
  name_compressed_at (witness 65 (RSvcb 1 host [PPort 443])) 2 = true.
Proof. exact refuted_proof. Qed.
Print Assumptions C18_refuted.

(* a literal writer (what a repaired site would call) never emits a pointer: the name expands from its
   own octets with zero hops *)
Theorem C18_literal_ok : forall (n : name) (s : est), name_ok n ->
  exists s', enc_domain_name_literal n s = EOk tt s' /\
             e_buf s' = e_buf s ++ enc_labels n ++ [0] /\
             expand 16 (e_buf s') (lenN (e_buf s)) =
               Some {| x_name := n; x_hops := 0; x_ptrs := []; x_end := lenN (e_buf s) + labels_total n + 1 |}.
Proof. exact literal_no_pointer_proof. Qed.
Print Assumptions C18_literal_ok.

(* non-vacuity: the allowed sites compress as well, so the witnesses measure compression, not an
   artefact of the checker *)
Example C18_allowed_sites_compress :
  name_compressed_at (witness 2 (RFields [VName host])) 2 = true /\
  name_compressed_at (witness 15 (RFields [VN 10; VName host])) 2 = true.
Proof. exact allowed_example_proof. Qed.
