(* C02 — decode -> encode -> decode: what the decoder accepts is a well-formed value (the decoder
   enforces exactly the predicates of C05), so re-encoding it and decoding again returns the value,
   up to what name compression may change (see Props/C05.v for the vocabulary). *)
From DNS Require Import Model.Dec Model.Enc Spec.Names Spec.USize
  Proofs.NameLayer Proofs.DecBase
  Proofs.RtPrim Proofs.RtFields Proofs.RtRecord Proofs.RtSpecial Proofs.RtApl Proofs.RtMsg
  Proofs.C05 Proofs.EncSize Proofs.EncSucceeds.
From DNS Require Import Spec.Wire Proofs.C05ref Model.Dec Model.Enc Proofs.DecBase
  Proofs.RtPrim Proofs.RtFields Proofs.RtRecord Proofs.RtMsg Proofs.C05 Proofs.RtDecWf3.
Local Open Scope N_scope.

(* every decoded message satisfies dns_wf (a boolean: it can be computed on any value) *)
Theorem C02_decoded_wf : forall (b : bytes) (m : dns) (s : dst),
  bytes_ok b -> dec_Dns b = DOk m s -> dns_wf m = true.
Proof. exact decoded_wf. Qed.
Print Assumptions C02_decoded_wf.

(* the same for the element readers, on any well-formed window state *)
Theorem C02_decoded_rr_wf : forall (main : bytes) (s : dst) (r : rr) (s' : dst),
  bytes_ok main -> lenN main < 2 ^ 62 -> dst_wf s -> rr_ main s = DOk r s' -> rr_wf r = true.
Proof. exact decoded_rr_wf. Qed.
Print Assumptions C02_decoded_rr_wf.

Theorem C02_decoded_question_wf : forall (main : bytes) (s : dst) (q : question) (s' : dst),
  bytes_ok main -> lenN main < 2 ^ 62 -> dst_wf s -> question_ main s = DOk q s' -> question_wf q = true.
Proof. exact decoded_question_wf. Qed.
Print Assumptions C02_decoded_question_wf.

Theorem C02_decoded_name_wf : forall (main : bytes) (s : dst) (n : name) (s' : dst),
  bytes_ok main -> lenN main < 2 ^ 62 -> dst_wf s -> domain_name main s = DOk n s' -> name_wf n = true.
Proof. exact decoded_name_wf. Qed.
Print Assumptions C02_decoded_name_wf.

(* decode, re-encode, decode again *)
Theorem C02_reencode : forall (b : bytes) (m : dns) (s : dst) (b' : bytes),
  bytes_ok b -> dec_Dns b = DOk m s -> enc_Dns m = Ok b' ->
  exists m' s', dec_Dns b' = DOk m' s' /\ dns_eqv m' m.
Proof. exact C02_reencode_proof. Qed.
Print Assumptions C02_reencode.

(* ---- non-vacuity: a message with a compressed MX exchange name and a TXT record ---- *)
Definition ex_bytes : bytes :=
  [18; 52; 133; 128; 0; 1; 0; 2; 0; 0; 0; 0;
   7; 101; 120; 97; 109; 112; 108; 101; 3; 111; 114; 103; 0; 0; 15; 0; 1;
   3; 119; 119; 119; 192; 12; 0; 15; 0; 1; 0; 0; 0; 60; 0; 9; 0; 10; 4; 109; 97; 105; 108; 192; 12;
   192; 12; 0; 16; 0; 1; 0; 0; 0; 60; 0; 4; 2; 104; 105; 0].

(* ... and by the independent reference decoder *)
Theorem C02_reencode_reference : forall (b : bytes) (m : dns) (s : dst) (b' : bytes),
  bytes_ok b -> dec_Dns b = DOk m s -> enc_Dns m = Ok b' ->
  exists m', spec_Dns b' = Some m' /\ dns_eqv m' m.
Proof. exact reencode_reference. Qed.
Print Assumptions C02_reencode_reference.

(* encoding a decoded message succeeds whenever its uncompressed size fits in 65,535 octets *)
(* ================= 2. C02: what the decoder accepted ================= *)
Theorem C02_encode_succeeds : forall (b : bytes) (m : dns) (s : dst),
  bytes_ok b -> dec_Dns b = DOk m s -> usize_dns m <= 65535 -> exists b', enc_Dns m = Ok b'.
Proof. exact C02_encode_succeeds_proof. Qed.
Print Assumptions C02_encode_succeeds.

Theorem C02_reencode_fails_only_by_size : forall (b : bytes) (m : dns) (s : dst),
  bytes_ok b -> dec_Dns b = DOk m s ->
  (exists b', enc_Dns m = Ok b' /\ lenN b' <= usize_dns m) \/
  (exists k, enc_Dns m = Err (XLength, [k]) /\ 65535 < usize_dns m).
Proof. exact C02_reencode_fails_only_by_size_proof. Qed.
Print Assumptions C02_reencode_fails_only_by_size.

Example C02_example :
  exists m s, dec_Dns ex_bytes = DOk m s /\ dns_wf m = true /\ enc_Dns m = Ok ex_bytes.
Proof.
  do 2 eexists. split; [vm_compute; reflexivity|]. split; vm_compute; reflexivity.
Qed.

(* an uncompressed encoding of the same message is accepted and re-encoded in compressed form *)
Example C02_example_recompress :
  let b := [0;1; 0;0; 0;0; 0;1; 0;0; 0;0;
            1;97;0; 0;2; 0;1; 0;0;0;5; 0;3; 1;97;0] in
  exists m s, dec_Dns b = DOk m s /\ dns_wf m = true /\
              enc_Dns m = Ok [0;1; 0;0; 0;0; 0;1; 0;0; 0;0; 1;97;0; 0;2; 0;1; 0;0;0;5; 0;2; 192;12].
Proof.
  cbv zeta. do 2 eexists. split; [vm_compute; reflexivity|]. split; vm_compute; reflexivity.
Qed.
