(* C04 (names) — every well-formed compressed name is accepted: completeness of the name reader with
   respect to the reference semantics Spec.Names.expand, and the exact acceptance condition. *)
From DNS Require Import Model.Dec Spec.Names Proofs.DecBase Proofs.DecName Proofs.DecNameSpec
  Proofs.DecNameSound Proofs.DecNameCyclic Proofs.DecNameComplete.
From DNS Require Import Spec.Wire Proofs.CorrMsg Proofs.CorrTop.
Local Open Scope N_scope.

(* Vocabulary (definitions in Proofs/, see also Props/C07.v):
   dst_wf s        : lenN (d_rest s) = d_len s - d_off s, d_len s < 2^62, d_off s < 2^62, octets < 256
   views main s a  : the window of s shows main from absolute offset a on
                     (d_rest s = takeN (d_len s - d_off s) (dropN a main))
   label_ok l      : 1 <= lenN l <= 63 and utf8_valid l
   name_legal n    : Forall label_ok n /\ wire_len n <= 255
   expand 17       : the reference expansion through at most 17 pointers; this is exactly the
                     library's budget (first pointer + DOMAIN_NAME_MAX_RECURSION = 16 recorded ones) *)

Theorem C04_name_legal_def : forall n : name,
  name_legal n <->
  Forall (fun l : label => 1 <= lenN l /\ lenN l <= 63 /\ utf8_valid l = true) n /\ wire_len n <= 255.
Proof. exact name_legal_alt. Qed.
Print Assumptions C04_name_legal_def.

(* the reference's name length is the model's *)
Theorem C04_name_wire_len : forall n : name, name_wire_len n = wire_len n.
Proof. exact name_wire_len_eq. Qed.
Print Assumptions C04_name_wire_len.

(* the name's own octets (up to and including the first pointer or the terminator) lie inside the
   message *)
Theorem C04_expand_end_le : forall h (buf : bytes) (o : N) x,
  expand h buf o = Some x -> x_end x <= lenN buf.
Proof. exact expand_end_le. Qed.
Print Assumptions C04_expand_end_le.

(* completeness: a name that the reference expands within 17 hops into a legal name, and whose own
   octets lie inside the window, is accepted with exactly that expansion; the cursor ends behind
   the name's own octets, the window is unchanged *)
Theorem C04_name_complete : forall (main : bytes) s (a : N) x,
  bytes_ok main -> lenN main < 2 ^ 62 -> dst_wf s -> views main s a ->
  expand 17 main a = Some x -> name_legal (x_name x) ->
  x_end x <= a + (d_len s - d_off s) ->
  exists s', domain_name main s = DOk (x_name x) s' /\
             d_off s' = d_off s + (x_end x - a) /\ d_len s' = d_len s /\
             d_rest s' = dropN (x_end x - a) (d_rest s) /\ d_cost s <= d_cost s'.
Proof. exact name_complete. Qed.
Print Assumptions C04_name_complete.

(* the whole-message window (Decoder::new_main_offset): no window condition is needed *)
Theorem C04_name_complete_main : forall (main : bytes) (a c : N) x,
  bytes_ok main -> lenN main < 2 ^ 62 ->
  expand 17 main a = Some x -> name_legal (x_name x) ->
  exists s', domain_name main (jump main a c) = DOk (x_name x) s' /\
             d_off s' = x_end x /\ d_len s' = lenN main /\
             d_rest s' = dropN (x_end x) main /\ c <= d_cost s'.
Proof. exact name_complete_main. Qed.
Print Assumptions C04_name_complete_main.

(* an accepted name ends inside its window *)
Theorem C04_name_end_in_window : forall (main : bytes) s (n : name) s',
  bytes_ok main -> lenN main < 2 ^ 62 -> dst_wf s ->
  domain_name main s = DOk n s' -> d_off s' <= d_len s'.
Proof. exact name_end_in_window. Qed.
Print Assumptions C04_name_end_in_window.

(* acceptance is exactly: expandable within 17 hops, legal, own octets inside the window *)
Theorem C04_name_accept_iff : forall (main : bytes) s (a : N) (n : name),
  bytes_ok main -> lenN main < 2 ^ 62 -> dst_wf s -> views main s a ->
  ((exists s', domain_name main s = DOk n s') <->
   (exists x, expand 17 main a = Some x /\ x_name x = n /\ name_legal n /\
              x_end x <= a + (d_len s - d_off s))).
Proof. exact name_accept_iff. Qed.
Print Assumptions C04_name_accept_iff.

(* ---- examples (non-vacuity) ---- *)
(* "ab.c" at offset 0; at offset 6 the label "d" followed by a pointer to offset 0 *)
Definition ptr_msg : bytes := [2; 97; 98; 1; 99; 0; 1; 100; 192; 0].

(* C04 — every well-formed message is accepted, exactly: whatever the independent reference decoder
   (Spec/Wire.v) accepts, the decoder model accepts with the same value. *)

Theorem C04_complete_Dns : forall b m, bytes_ok b -> spec_Dns b = Some m -> exists s, dec_Dns b = DOk m s.
Proof. exact complete_Dns. Qed.
Print Assumptions C04_complete_Dns.

Theorem C04_complete_RR : forall b r, bytes_ok b -> lenN b < 2 ^ 62 ->
  spec_RR b = Some r -> exists s, dec_RR b = DOk r s.
Proof. exact complete_RR. Qed.
Print Assumptions C04_complete_RR.

Theorem C04_complete_Question : forall b q, bytes_ok b -> lenN b < 2 ^ 62 ->
  spec_Question b = Some q -> exists s, dec_Question b = DOk q s.
Proof. exact complete_Question. Qed.
Print Assumptions C04_complete_Question.

Theorem C04_complete_Flags : forall b f, bytes_ok b -> lenN b < 2 ^ 62 ->
  spec_Flags b = Some f -> exists s, dec_Flags b = DOk f s.
Proof. exact complete_Flags. Qed.
Print Assumptions C04_complete_Flags.

Theorem C04_complete_DomainName : forall b n, bytes_ok b -> lenN b < 2 ^ 62 ->
  spec_DomainName b = Some n -> exists s, dec_DomainName b = DOk n s.
Proof. exact complete_DomainName. Qed.
Print Assumptions C04_complete_DomainName.

(* non-vacuity: an SVCB record in ServiceMode whose two parameters arrive out of key order (port before
   no-default-alpn) is accepted by both decoders, which report the parameter set in key order *)
Definition ex_svcb : bytes :=
  [0; 0; 64; 0; 1; 0; 0; 0; 10; 0; 13;
   0; 1; 0;
   0; 3; 0; 2; 1; 187;
   0; 2; 0; 0].

Example C04_example_svcb :
  exists r s, spec_RR ex_svcb = Some r /\ dec_RR ex_svcb = DOk r s /\
    r_data r = RSvcb 1 [] [PNoDefaultAlpn; PPort 443].
Proof.
  eexists. eexists. split; [vm_compute; reflexivity|]. split; [vm_compute; reflexivity|]. vm_compute. reflexivity.
Qed.

(* a duplicated key is rejected by both *)
Example C04_example_svcb_dup :
  spec_RR [0; 0; 64; 0; 1; 0; 0; 0; 10; 0; 11; 0; 1; 0; 0; 2; 0; 0; 0; 2; 0; 0] = None /\
  exists e c, dec_RR [0; 0; 64; 0; 1; 0; 0; 0; 10; 0; 11; 0; 1; 0; 0; 2; 0; 0; 0; 2; 0; 0] = DErr e c.
Proof. split; [vm_compute; reflexivity|do 2 eexists; vm_compute; reflexivity]. Qed.

Example C04_pointer_into_earlier_name :
  expand 17 ptr_msg 6 =
    Some {| x_name := [[100]; [97; 98]; [99]]; x_hops := 1; x_ptrs := [(8, 0)]; x_end := 10 |} /\
  domain_name ptr_msg (jump ptr_msg 6 0) =
    DOk [[100]; [97; 98]; [99]] {| d_rest := []; d_off := 10; d_len := 10; d_cost := 10 |}.
Proof. split; vm_compute; reflexivity. Qed.

(* the same name read from a 4-octet RDATA window over offsets 6..9: the pointer leaves the window *)
Definition ptr_win : dst := {| d_rest := [1; 100; 192; 0]; d_off := 0; d_len := 4; d_cost := 7 |}.
Example C04_pointer_from_window :
  dst_wf ptr_win /\ views ptr_msg ptr_win 6 /\
  domain_name ptr_msg ptr_win =
    DOk [[100]; [97; 98]; [99]] {| d_rest := []; d_off := 4; d_len := 4; d_cost := 17 |}.
Proof.
  split; [|split; vm_compute; reflexivity].
  unfold dst_wf, ptr_win. cbn [d_rest d_off d_len].
  split; [reflexivity|]. split; [reflexivity|]. split; [reflexivity|].
  repeat constructor.
Qed.

(* the window hypothesis cannot be dropped: the window ends inside the pointer *)
Definition cut_win : dst := {| d_rest := [1; 100; 192]; d_off := 0; d_len := 3; d_cost := 7 |}.
Example C04_window_needed :
  views ptr_msg cut_win 6 /\ domain_name ptr_msg cut_win = DErr (ENotEnoughBytes, [3; 4]) 10.
Proof. split; vm_compute; reflexivity. Qed.

(* [0] at offset 0, then k pointers: pointer 0 -> offset 0, pointer j -> pointer j-1 (at 2j-1) *)
Fixpoint ptr_chain (k : nat) (j : N) : bytes :=
  match k with
  | O => []
  | S k' => 192 :: (if j =? 0 then 0 else 2 * j - 1) :: ptr_chain k' (j + 1)
  end.
Definition chain_msg (k : nat) : bytes := 0 :: ptr_chain k 0.

(* the budget of the reference is the library's: 17 hops are accepted by both ... *)
Example C04_chain_17_accepted :
  (exists x, expand 17 (chain_msg 17) 33 = Some x /\ x_name x = [] /\ x_hops x = 17%nat /\ x_end x = 35) /\
  domain_name (chain_msg 17) (jump (chain_msg 17) 33 0) =
    DOk [] {| d_rest := []; d_off := 35; d_len := 35; d_cost := 35 |}.
Proof.
  split; [|vm_compute; reflexivity].
  eexists. split; [vm_compute; reflexivity|]. split; [reflexivity|]. split; reflexivity.
Qed.

(* ... and 18 hops by neither *)
Example C04_chain_18_rejected :
  expand 17 (chain_msg 18) 35 = None /\
  domain_name (chain_msg 18) (jump (chain_msg 18) 35 0) = DErr (EMaxRecursion, [17]) 36.
Proof. split; vm_compute; reflexivity. Qed.
