(* C04 (names) — every well-formed compressed name is accepted: completeness of the name reader with
   respect to the reference semantics Spec.Names.expand, and the exact acceptance condition. *)
From Coq Require Import Lia Permutation.
From DNS Require Import Model.Dec Spec.Names Spec.Wire Spec.Render
  Proofs.RtPrim Proofs.RtRecord Proofs.RtMsg Proofs.C05
  Proofs.RenderBase Proofs.RenderName Proofs.RenderRecord Proofs.RenderSvcb Proofs.RenderTop.
From DNS Require Import Model.Dec Spec.Names Proofs.DecBase Proofs.DecName Proofs.DecNameSpec
  Proofs.DecNameSound Proofs.DecNameCyclic Proofs.DecNameComplete.
From DNS Require Import Spec.Wire Proofs.CorrMsg Proofs.CorrTop.
Local Open Scope N_scope.

(* Vocabulary (definitions in Proofs/, see also Props/C07.v):
   dst_wf s        : lenN (d_rest s) = d_len s - d_off s, d_len s < 2^62, d_off s < 2^62, octets < 256
   views main s a  : the window of s shows main from absolute offset a on
                     (d_rest s = takeN (d_len s - d_off s) (dropN a main))
   label_ok l      : 1 <= lenN l <= 63 and utf8_valid l
   name_legal n    : Forall label_ok n /\ wire_len n <= 255
   expand 17       : the reference expansion through at most 17 pointers; this is exactly the
                     library's budget (first pointer + DOMAIN_NAME_MAX_RECURSION = 16 recorded ones) *)

Theorem C04_name_legal_def : forall n : name,
  name_legal n <->
  Forall (fun l : label => 1 <= lenN l /\ lenN l <= 63 /\ utf8_valid l = true) n /\ wire_len n <= 255.
Proof. exact name_legal_alt. Qed.
Print Assumptions C04_name_legal_def.

(* the reference's name length is the model's *)
Theorem C04_name_wire_len : forall n : name, name_wire_len n = wire_len n.
Proof. exact name_wire_len_eq. Qed.
Print Assumptions C04_name_wire_len.

(* the name's own octets (up to and including the first pointer or the terminator) lie inside the
   message *)
Theorem C04_expand_end_le : forall h (buf : bytes) (o : N) x,
  expand h buf o = Some x -> x_end x <= lenN buf.
Proof. exact expand_end_le. Qed.
Print Assumptions C04_expand_end_le.

(* completeness: a name that the reference expands within 17 hops into a legal name, and whose own
   octets lie inside the window, is accepted with exactly that expansion; the cursor ends behind
   the name's own octets, the window is unchanged *)
Theorem C04_name_complete : forall (main : bytes) s (a : N) x,
  bytes_ok main -> lenN main < 2 ^ 62 -> dst_wf s -> views main s a ->
  expand 17 main a = Some x -> name_legal (x_name x) ->
  x_end x <= a + (d_len s - d_off s) ->
  exists s', domain_name main s = DOk (x_name x) s' /\
             d_off s' = d_off s + (x_end x - a) /\ d_len s' = d_len s /\
             d_rest s' = dropN (x_end x - a) (d_rest s) /\ d_cost s <= d_cost s'.
Proof. exact name_complete. Qed.
Print Assumptions C04_name_complete.

(* the whole-message window (Decoder::new_main_offset): no window condition is needed *)
Theorem C04_name_complete_main : forall (main : bytes) (a c : N) x,
  bytes_ok main -> lenN main < 2 ^ 62 ->
  expand 17 main a = Some x -> name_legal (x_name x) ->
  exists s', domain_name main (jump main a c) = DOk (x_name x) s' /\
             d_off s' = x_end x /\ d_len s' = lenN main /\
             d_rest s' = dropN (x_end x) main /\ c <= d_cost s'.
Proof. exact name_complete_main. Qed.
Print Assumptions C04_name_complete_main.

(* an accepted name ends inside its window *)
Theorem C04_name_end_in_window : forall (main : bytes) s (n : name) s',
  bytes_ok main -> lenN main < 2 ^ 62 -> dst_wf s ->
  domain_name main s = DOk n s' -> d_off s' <= d_len s'.
Proof. exact name_end_in_window. Qed.
Print Assumptions C04_name_end_in_window.

(* acceptance is exactly: expandable within 17 hops, legal, own octets inside the window *)
Theorem C04_name_accept_iff : forall (main : bytes) s (a : N) (n : name),
  bytes_ok main -> lenN main < 2 ^ 62 -> dst_wf s -> views main s a ->
  ((exists s', domain_name main s = DOk n s') <->
   (exists x, expand 17 main a = Some x /\ x_name x = n /\ name_legal n /\
              x_end x <= a + (d_len s - d_off s))).
Proof. exact name_accept_iff. Qed.
Print Assumptions C04_name_accept_iff.

(* ---- examples (non-vacuity) ---- *)
(* "ab.c" at offset 0; at offset 6 the label "d" followed by a pointer to offset 0 *)
Definition ptr_msg : bytes := [2; 97; 98; 1; 99; 0; 1; 100; 192; 0].

(* C04 — every well-formed message is accepted, exactly: whatever the independent reference decoder
   (Spec/Wire.v) accepts, the decoder model accepts with the same value. *)

Theorem C04_complete_Dns : forall b m, bytes_ok b -> spec_Dns b = Some m -> exists s, dec_Dns b = DOk m s.
Proof. exact complete_Dns. Qed.
Print Assumptions C04_complete_Dns.

Theorem C04_complete_RR : forall b r, bytes_ok b -> lenN b < 2 ^ 62 ->
  spec_RR b = Some r -> exists s, dec_RR b = DOk r s.
Proof. exact complete_RR. Qed.
Print Assumptions C04_complete_RR.

Theorem C04_complete_Question : forall b q, bytes_ok b -> lenN b < 2 ^ 62 ->
  spec_Question b = Some q -> exists s, dec_Question b = DOk q s.
Proof. exact complete_Question. Qed.
Print Assumptions C04_complete_Question.

Theorem C04_complete_Flags : forall b f, bytes_ok b -> lenN b < 2 ^ 62 ->
  spec_Flags b = Some f -> exists s, dec_Flags b = DOk f s.
Proof. exact complete_Flags. Qed.
Print Assumptions C04_complete_Flags.

Theorem C04_complete_DomainName : forall b n, bytes_ok b -> lenN b < 2 ^ 62 ->
  spec_DomainName b = Some n -> exists s, dec_DomainName b = DOk n s.
Proof. exact complete_DomainName. Qed.
Print Assumptions C04_complete_DomainName.

(* non-vacuity: an SVCB record in ServiceMode whose two parameters arrive out of key order (port before
   no-default-alpn) is accepted by both decoders, which report the parameter set in key order *)
Definition ex_svcb : bytes :=
  [0; 0; 64; 0; 1; 0; 0; 0; 10; 0; 13;
   0; 1; 0;
   0; 3; 0; 2; 1; 187;
   0; 2; 0; 0].

Example C04_example_svcb :
  exists r s, spec_RR ex_svcb = Some r /\ dec_RR ex_svcb = DOk r s /\
    r_data r = RSvcb 1 [] [PNoDefaultAlpn; PPort 443].
Proof.
  eexists. eexists. split; [vm_compute; reflexivity|]. split; [vm_compute; reflexivity|]. vm_compute. reflexivity.
Qed.

(* a duplicated key is rejected by both *)
Example C04_example_svcb_dup :
  spec_RR [0; 0; 64; 0; 1; 0; 0; 0; 10; 0; 11; 0; 1; 0; 0; 2; 0; 0; 0; 2; 0; 0] = None /\
  exists e c, dec_RR [0; 0; 64; 0; 1; 0; 0; 0; 10; 0; 11; 0; 1; 0; 0; 2; 0; 0; 0; 2; 0; 0] = DErr e c.
Proof. split; [vm_compute; reflexivity|do 2 eexists; vm_compute; reflexivity]. Qed.

Example C04_pointer_into_earlier_name :
  expand 17 ptr_msg 6 =
    Some {| x_name := [[100]; [97; 98]; [99]]; x_hops := 1; x_ptrs := [(8, 0)]; x_end := 10 |} /\
  domain_name ptr_msg (jump ptr_msg 6 0) =
    DOk [[100]; [97; 98]; [99]] {| d_rest := []; d_off := 10; d_len := 10; d_cost := 10 |}.
Proof. split; vm_compute; reflexivity. Qed.

(* the same name read from a 4-octet RDATA window over offsets 6..9: the pointer leaves the window *)
Definition ptr_win : dst := {| d_rest := [1; 100; 192; 0]; d_off := 0; d_len := 4; d_cost := 7 |}.
Example C04_pointer_from_window :
  dst_wf ptr_win /\ views ptr_msg ptr_win 6 /\
  domain_name ptr_msg ptr_win =
    DOk [[100]; [97; 98]; [99]] {| d_rest := []; d_off := 4; d_len := 4; d_cost := 17 |}.
Proof.
  split; [|split; vm_compute; reflexivity].
  unfold dst_wf, ptr_win. cbn [d_rest d_off d_len].
  split; [reflexivity|]. split; [reflexivity|]. split; [reflexivity|].
  repeat constructor.
Qed.

(* the window hypothesis cannot be dropped: the window ends inside the pointer *)
Definition cut_win : dst := {| d_rest := [1; 100; 192]; d_off := 0; d_len := 3; d_cost := 7 |}.
Example C04_window_needed :
  views ptr_msg cut_win 6 /\ domain_name ptr_msg cut_win = DErr (ENotEnoughBytes, [3; 4]) 10.
Proof. split; vm_compute; reflexivity. Qed.

(* [0] at offset 0, then k pointers: pointer 0 -> offset 0, pointer j -> pointer j-1 (at 2j-1) *)
Fixpoint ptr_chain (k : nat) (j : N) : bytes :=
  match k with
  | O => []
  | S k' => 192 :: (if j =? 0 then 0 else 2 * j - 1) :: ptr_chain k' (j + 1)
  end.
Definition chain_msg (k : nat) : bytes := 0 :: ptr_chain k 0.

(* the budget of the reference is the library's: 17 hops are accepted by both ... *)
Example C04_chain_17_accepted :
  (exists x, expand 17 (chain_msg 17) 33 = Some x /\ x_name x = [] /\ x_hops x = 17%nat /\ x_end x = 35) /\
  domain_name (chain_msg 17) (jump (chain_msg 17) 33 0) =
    DOk [] {| d_rest := []; d_off := 35; d_len := 35; d_cost := 35 |}.
Proof.
  split; [|vm_compute; reflexivity].
  eexists. split; [vm_compute; reflexivity|]. split; [reflexivity|]. split; reflexivity.
Qed.

(* ... and 18 hops by neither *)
Example C04_chain_18_rejected :
  expand 17 (chain_msg 18) 35 = None /\
  domain_name (chain_msg 18) (jump (chain_msg 18) 35 0) = DErr (EMaxRecursion, [17]) 36.
Proof. split; vm_compute; reflexivity. Qed.

(* ------------------------------------------------------------------------------------------
   render: every legal wire rendering (Spec/Render.v) of a well-formed message is accepted with that message *)
(* C04 (renderings) — every well-formed message of the supported types is accepted, exactly: for every
   message value that satisfies [dns_wf] and EVERY legal wire rendering of it in the sense of the
   declarative specification Spec/Render.v (any backward name compression within the hop budget, any
   label case, minimal or zero-padded address prefixes, any SvcParam order, empty variable fields where
   the value is empty), the reference decoder Spec/Wire.v — and hence the decoder model — succeeds and
   returns that message (names up to ASCII case, as compared by the library). *)



(* Vocabulary:
   renders_dns m b : b is a legal wire rendering of m (Spec/Render.v)
   dns_wf m        : the values of m are within the limits of their wire formats (Proofs/C05.v)
   dns_eqv m' m    : equal up to the ASCII case of name labels and the order of "mandatory" keys
   acc E p pre w v : behind [pre] and before any [post], the reference parser p consumes exactly w
                     and returns v (E: the limit is exactly the end of w) *)

(* the reference decoder accepts every legal rendering with an equivalent value *)
Theorem C04_render_accepted : forall (m : dns) (b : bytes),
  dns_wf m = true -> renders_dns m b -> lenN b <= 65535 ->
  exists m', spec_Dns b = Some m' /\ dns_eqv m' m.
Proof. exact render_accepted. Qed.
Print Assumptions C04_render_accepted.

(* a legal rendering of a well-formed message consists of octets *)
Theorem C04_render_bytes_ok : forall (m : dns) (b : bytes),
  dns_wf m = true -> renders_dns m b -> lenN b <= 65535 -> bytes_ok b.
Proof. exact render_bytes_ok. Qed.
Print Assumptions C04_render_bytes_ok.

(* ... and so does the decoder model of the library *)
Theorem C04_render_accepted_dec : forall (m : dns) (b : bytes),
  dns_wf m = true -> renders_dns m b -> lenN b <= 65535 ->
  exists m' s, dec_Dns b = DOk m' s /\ dns_eqv m' m.
Proof. exact render_accepted_dec. Qed.
Print Assumptions C04_render_accepted_dec.

(* the restriction to the plain record types of the format table *)
Theorem C04_render_accepted_plain : forall (m : dns) (b : bytes),
  dns_wf_plain m = true -> renders_dns m b -> lenN b <= 65535 ->
  exists m', spec_Dns b = Some m' /\ dns_eqv m' m.
Proof. exact render_accepted_plain. Qed.
Print Assumptions C04_render_accepted_plain.

(* names: a rendering expands, in the reference semantics, to a case variant of the name, in at most
   16 hops, and ends where the rendering ends *)
Theorem C04_render_name_expands : forall (pre : bytes) (n : name) (w : bytes),
  renders_name pre n w -> name_wf n = true ->
  bytes_ok w /\
  exists x, expand 16 (pre ++ w) (lenN pre) = Some x /\ ci_name n (x_name x) /\
            x_end x = lenN pre + lenN w.
Proof. exact renders_name_expand. Qed.
Print Assumptions C04_render_name_expands.

Theorem C04_render_name_expands_in_message : forall (pre : bytes) (n : name) (w : bytes),
  renders_name pre n w -> name_wf n = true ->
  exists x, ci_name n (x_name x) /\ x_end x = lenN pre + lenN w /\ (x_hops x <= 16)%nat /\
            forall post, expand 16 (pre ++ w ++ post) (lenN pre) = Some x.
Proof. exact renders_name_expand_post. Qed.
Print Assumptions C04_render_name_expands_in_message.

(* a rendering of a well-formed name is accepted by the reference name parser, whatever the limit *)
Theorem C04_render_name_accepted : forall (pre : bytes) (n : name) (w : bytes),
  renders_name pre n w -> name_wf n = true ->
  bytes_ok w /\ exists n' : name, acc false pname pre w n' /\ name_eqv n' n.
Proof. exact renders_name_acc. Qed.
Print Assumptions C04_render_name_accepted.

(* the reference semantics of names is stable under appending octets *)
Theorem C04_expand_app : forall (post : bytes) (h : nat) (b : bytes) (o : N) x,
  expand h b o = Some x -> expand h (b ++ post) o = Some x.
Proof. exact expand_app. Qed.
Print Assumptions C04_expand_app.

(* SvcParams: any order of a key-sorted parameter list is put back in order by the reference *)
Theorem C04_svc_set_any_order : forall ps ps' : list svcparam,
  SvcbSet.keys_sorted ps -> Permutation.Permutation ps ps' -> as_set [] ps' = Some ps.
Proof. exact as_set_perm. Qed.
Print Assumptions C04_svc_set_any_order.

(* ---- examples (non-vacuity) ----
   1. a response with one question and two answers: the question name is written "WwW.Example.com"; both
      owner names are pointers to it (offset 12); the MX exchange is the literal label "MAIL" followed by a
      pointer to "Example.com" (offset 16).  The value holds the names in lower case. *)
Definition l_www : label := [119; 119; 119].
Definition l_example : label := [101; 120; 97; 109; 112; 108; 101].
Definition l_com : label := [99; 111; 109].
Definition l_mail : label := [109; 97; 105; 108].
Definition www : name := [l_www; l_example; l_com].

Definition ex_m : dns :=
  {| m_id := 4660;
     m_flags := {| f_qr := true; f_opcode := 0; f_aa := false; f_tc := false; f_rd := true; f_ra := true;
                   f_ad := false; f_cd := false; f_rcode := 0 |};
     m_qd := [{| q_name := www; q_type := 1; q_class := 1 |}];
     m_an := [{| r_type := 1; r_name := www; r_class := 1; r_ttl := 300; r_data := RFields [VN 1572395042] |};
              {| r_type := 15; r_name := www; r_class := 1; r_ttl := 300;
                 r_data := RFields [VN 10; VName [l_mail; l_example; l_com]] |}];
     m_ns := []; m_ar := [] |}.

Definition ex_b : bytes :=
  [18; 52; 129; 128; 0; 1; 0; 2; 0; 0; 0; 0;
   3; 87; 119; 87; 7; 69; 120; 97; 109; 112; 108; 101; 3; 99; 111; 109; 0; 0; 1; 0; 1;
   192; 12; 0; 1; 0; 1; 0; 0; 1; 44; 0; 4; 93; 184; 216; 34;
   192; 12; 0; 15; 0; 1; 0; 0; 1; 44; 0; 9; 0; 10; 4; 77; 65; 73; 76; 192; 16].

Example ex_wf : dns_wf ex_m = true. Proof. vm_compute. reflexivity. Qed.

Example ex_renders : renders_dns ex_m ex_b.
Proof.
  change ex_b with
    (header ex_m ++
     ([3; 87; 119; 87; 7; 69; 120; 97; 109; 112; 108; 101; 3; 99; 111; 109; 0] ++ be16 1 ++ be16 1) ++
     ([192; 12; 0; 1; 0; 1; 0; 0; 1; 44; 0; 4; 93; 184; 216; 34] ++
      [192; 12; 0; 15; 0; 1; 0; 0; 1; 44; 0; 9; 0; 10; 4; 77; 65; 73; 76; 192; 16]) ++ [] ++ []).
  apply RM_message.
  - apply renders_seq_one. apply (RQ_question _ (Build_question www 1 1)). unfold www.
    render_label [87; 119; 87] [7; 69; 120; 97; 109; 112; 108; 101; 3; 99; 111; 109; 0].
    render_label [69; 120; 97; 109; 112; 108; 101] [3; 99; 111; 109; 0].
    render_label [99; 111; 109] [0].
    apply RN_root.
  - apply RS_cons; [|apply renders_seq_one].
    + apply (RR_record _ (Build_rr 1 www 1 300 (RFields [VN 1572395042])) [192; 12] [93; 184; 216; 34]);
        cbn [r_name r_type r_data].
      * render_pointer 12.
      * apply (RD_fields _ 1 [KU32]); [reflexivity|]. apply renders_fields_one. apply (RF_u32 _ 1572395042). lia.
    + apply (RR_record _ (Build_rr 15 www 1 300 (RFields [VN 10; VName [l_mail; l_example; l_com]])) [192; 12]
               [0; 10; 4; 77; 65; 73; 76; 192; 16]); cbn [r_name r_type r_data].
      * render_pointer 12.
      * apply (RD_fields _ 15 [KU16; KName]); [reflexivity|].
        apply (RFs_cons _ KU16 [KName] [VN 10] [VName [l_mail; l_example; l_com]] (be16 10) [4; 77; 65; 73; 76; 192; 16]);
          [apply RF_u16; lia|].
        apply renders_fields_one. apply RF_name.
        render_label [77; 65; 73; 76] [192; 16].
        render_pointer 16.
  - apply RS_nil.
  - apply RS_nil.
Qed.


(* the general theorem applies: both decoders accept ex_b with a message equivalent to ex_m ... *)
Example ex_accepted : exists m' s, dec_Dns ex_b = DOk m' s /\ dns_eqv m' ex_m.
Proof. exact (C04_render_accepted_dec ex_m ex_b ex_wf ex_renders ltac:(vm_compute; discriminate)). Qed.

(* ... which reports the names as they were written *)
Example ex_spec_names :
  option_map (fun m => (map q_name (m_qd m), map r_name (m_an m), map r_data (m_an m))) (spec_Dns ex_b) =
  Some ([[[87; 119; 87]; [69; 120; 97; 109; 112; 108; 101]; [99; 111; 109]]],
        [[[87; 119; 87]; [69; 120; 97; 109; 112; 108; 101]; [99; 111; 109]];
         [[87; 119; 87]; [69; 120; 97; 109; 112; 108; 101]; [99; 111; 109]]],
        [RFields [VN 1572395042];
         RFields [VN 10; VName [[77; 65; 73; 76]; [69; 120; 97; 109; 112; 108; 101]; [99; 111; 109]]]]).
Proof. vm_compute. reflexivity. Qed.

(* 2. the special types: an HTTPS record in ServiceMode whose parameters are written port before alpn; an APL
      record (owner: a pointer) with the negated item 10.0.0.0/8 in the minimal form (one address octet);
      an OPT record with the client subnet 192.0.2.0/24 written with all four octets, and padding. *)
Definition ex2_https : rr :=
  {| r_type := 65; r_name := www; r_class := 1; r_ttl := 3600;
     r_data := RSvcb 1 [] [PAlpn [[104; 50]]; PPort 443] |}.
Definition ex2_item : apitem :=
  {| i_prefix := 8; i_neg := true; i_addr := {| a_fam := 1; a_oct := [10; 0; 0; 0] |} |}.
Definition ex2_apl : rr :=
  {| r_type := 42; r_name := www; r_class := 1; r_ttl := 3600; r_data := RApl [ex2_item] |}.
Definition ex2_ecs : ecs := {| e_src := 24; e_scope := 0; e_addr := {| a_fam := 1; a_oct := [192; 0; 2; 0] |} |}.
Definition ex2_opt : rr :=
  {| r_type := 41; r_name := []; r_class := 0; r_ttl := 0;
     r_data := ROpt 1232 0 0 true [OEcs ex2_ecs; OPadding 3] |}.
Definition ex2_m : dns :=
  {| m_id := 1;
     m_flags := {| f_qr := true; f_opcode := 0; f_aa := false; f_tc := false; f_rd := false; f_ra := false;
                   f_ad := false; f_cd := false; f_rcode := 0 |};
     m_qd := []; m_an := [ex2_https]; m_ns := [ex2_apl]; m_ar := [ex2_opt] |}.

Definition ex2_b : bytes :=
  [0; 1; 128; 0; 0; 0; 0; 1; 0; 1; 0; 1;
   3; 119; 119; 119; 7; 101; 120; 97; 109; 112; 108; 101; 3; 99; 111; 109; 0;
     0; 65; 0; 1; 0; 0; 14; 16; 0; 16;  0; 1;  0;  0; 3; 0; 2; 1; 187;  0; 1; 0; 3; 2; 104; 50;
   192; 12;  0; 42; 0; 1; 0; 0; 14; 16; 0; 5;  0; 1; 8; 129; 10;
   0;  0; 41; 4; 208; 0; 0; 128; 0; 0; 19;  0; 8; 0; 8; 0; 1; 24; 0; 192; 0; 2; 0;  0; 12; 0; 3; 0; 0; 0].

Example ex2_wf : dns_wf ex2_m = true. Proof. vm_compute. reflexivity. Qed.

Example ex2_renders : renders_dns ex2_m ex2_b.
Proof.
  change ex2_b with
    (header ex2_m ++ [] ++
     ([3; 119; 119; 119; 7; 101; 120; 97; 109; 112; 108; 101; 3; 99; 111; 109; 0] ++ rr_head ex2_https 16 ++
      [0; 1; 0; 0; 3; 0; 2; 1; 187; 0; 1; 0; 3; 2; 104; 50]) ++
     ([192; 12] ++ rr_head ex2_apl 5 ++ [0; 1; 8; 129; 10]) ++
     ([0] ++ rr_head ex2_opt 19 ++ [0; 8; 0; 8; 0; 1; 24; 0; 192; 0; 2; 0; 0; 12; 0; 3; 0; 0; 0])).
  apply RM_message.
  - apply RS_nil.
  - apply renders_seq_one.
    apply (RR_record _ ex2_https [3; 119; 119; 119; 7; 101; 120; 97; 109; 112; 108; 101; 3; 99; 111; 109; 0]
             [0; 1; 0; 0; 3; 0; 2; 1; 187; 0; 1; 0; 3; 2; 104; 50]); cbn [r_name r_type r_data ex2_https].
    + unfold www. render_label l_www [7; 101; 120; 97; 109; 112; 108; 101; 3; 99; 111; 109; 0].
      render_label l_example [3; 99; 111; 109; 0]. render_label l_com [0]. apply RN_root.
    + (* ServiceMode, the parameters in the order port, alpn *)
      apply (RD_svcb_service _ 65 1 [] [PAlpn [[104; 50]]; PPort 443] [PPort 443; PAlpn [[104; 50]]] [0]);
        [right; reflexivity|discriminate|apply RN_root|apply perm_swap].
  - apply renders_seq_one.
    apply (RR_record _ ex2_apl [192; 12] [0; 1; 8; 129; 10]); cbn [r_name r_type r_data ex2_apl].
    + render_pointer 12.
    + apply (RD_apl _ _ [[0; 1; 8; 129; 10]]). constructor; [|constructor].
      (* the minimal form: one address octet *)
      apply (RI_item ex2_item [10]). apply (RA_cut (i_addr ex2_item) 1); [vm_compute; discriminate|repeat constructor].
  - apply renders_seq_one.
    apply (RR_record _ ex2_opt [0] [0; 8; 0; 8; 0; 1; 24; 0; 192; 0; 2; 0; 0; 12; 0; 3; 0; 0; 0]);
      cbn [r_name r_type r_data ex2_opt].
    + apply RN_root.
    + apply (RD_opt _ 1232 0 0 true _ [[0; 8; 0; 8; 0; 1; 24; 0; 192; 0; 2; 0]; [0; 12; 0; 3; 0; 0; 0]]).
      constructor; [|constructor; [|constructor]].
      * (* a /24 written with all four octets *)
        apply (RO_ecs ex2_ecs [192; 0; 2; 0]). apply (RA_cut (e_addr ex2_ecs) 4); [vm_compute; discriminate|constructor].
      * apply (RO_padding 3 [0; 0; 0]); [reflexivity|repeat constructor].
Qed.

Example ex2_spec : spec_Dns ex2_b = Some ex2_m.
Proof. vm_compute. reflexivity. Qed.
